import Tahoe.Storage.GcCycleLemmas
/-!
# C26 - Garbage collection deletes exactly the expired shares

Property theorems over `Tahoe.Storage.Expire` (model of `LeaseCheckingCrawler.process_share` /
`process_bucket`, `ShareFile/MutableShareFile.cancel_lease`, and of the `tahoe.cfg` → crawler
configuration path; age mode as repaired by `fixes/C26-age-mode.diff`, now in /repo).

## Coverage of the statement (properties.jsonl C26)

| clause of the statement | theorem(s) on the model |
|---|---|
| "with expiration disabled, the lease crawler never deletes a share" | `disabled_never_deletes` (share), `disabled_bucket_untouched` (whole bucket, any leases); "disabled" as the node configures it - absent / false `expire.enabled`: `not_enabled_in_tahoe_cfg_never_deletes` |
| "with it enabled, a share is deleted ONLY IF every lease on it is expired under the configured policy (age: renewal + duration, or + override, in the past; cutoff: renewal before the cutoff date) …" | `deleted_iff_all_expired` (→), policy = `DocExpired`, tied to the code's comparison by `modeExpired_iff_doc` and to the 31-day constants by `lease_duration_is_31_days` |
| "… and its share type is enabled for expiry" | `deleted_iff_all_expired`; switches → types: `sharetype_switches_select_types` |
| "such a share is deleted …" (IF direction, one pass over its bucket) | `deleted_iff_all_expired` (←), bucket level `bucket_pass_deletes_exactly_expired` (every share file of the bucket is processed, nothing raised) |
| "… within one crawl cycle" (any slicing, kills at any call, restarts, changing listings) | `expired_share_deleted_within_one_cycle` on the composed machine `GcCycle.gcRun` (crawler schedule ∘ expirer on the share files; tied by the `gcrun` driver command against a real LeaseCheckingCrawler run over multi-slice schedules) |
| "deleted ONLY IF …", at the level of whole schedules (many cycles, repeated passes after kills) | `valid_share_survives_every_schedule`; disabled: `disabled_never_deletes_any_schedule` |
| cutoff date = midnight UTC of the configured day; duration strings | C48 (`parse_date`, `parse_duration`); here: the parsed values reach the crawler unchanged (`cutoff_and_override_reach_the_crawler`), time zones: correspondence + monitor only |
| hypothesis of the full theorem: ≥ 1 lease, pairwise distinct cancel secrets (`WellFormedLeases`) | what the code does outside it: `shared_cancel_secret_counterexample`, `shared_cancel_secret_raises_counterexample`, `zero_lease_counterexample` (three open known findings) |
| the expirer's own state in the crawler state file (cycle-to-date lease-age histogram: dict in memory, sorted list in the JSON file, dict again in a crawler created inside a cycle - C27's "subclass state" row, repair e6c3ed8) | `histogram_survives_state_file` (same items, distinct keys: the same dict), tied by the `hist` driver command against the real add_lease_age_to_histogram / save_state / new LeaseCheckingCrawler |
| byte counters of the status page; on-disk rewriting of lease records by `cancel_lease` | not covered here (record layout: C29; `cancel_lease` is modelled as "remove every lease with that secret", tied by comparing the leases left on disk) |
-/
namespace Tahoe.C26
open Tahoe.Storage.Expire

/-- The constants the live source uses are the documented 31 days: the renewal-time hack of
    `LeaseInfo.get_grant_renew_time_time` and the duration the server grants. -/
theorem lease_duration_is_31_days :
    (Tahoe.Generated.Gc.lease_grant_renew_offset : Int) = leaseDuration ∧
    (Tahoe.Generated.Gc.server_lease_duration : Int) = leaseDuration :=
  grant_renew_offset_is_31_days

/-- THE FULL THEOREM.  With expiration enabled, on every share with at least one lease and pairwise
    distinct cancel secrets (`WellFormedLeases` - this excludes exactly the inputs of the three open
    findings, whose behaviour is pinned by the counterexamples below), for every configuration,
    clock and share type: the crawler raises nothing, cancels exactly the leases that are expired
    under the DOCUMENTED predicate (and only when the share type is enabled), and removes the share
    file iff its type is enabled and every lease is expired. -/
theorem deleted_iff_all_expired (cfg : Config) (now : Int) (ty : ShareType) (leases : List Lease)
    (hon : cfg.enabled = true) (hwf : WellFormedLeases leases) :
    let r := processShare cfg now ty leases
    r.raised = none ∧
    r.share.leases = leases.filter (fun l => !(typeEnabled cfg ty && decide (DocExpired cfg now l))) ∧
    (r.removed = true ↔ typeEnabled cfg ty = true ∧ ∀ l ∈ leases, DocExpired cfg now l) :=
  processShare_wellformed cfg now ty leases hon hwf.1 hwf.2

/-- With expiration disabled the lease crawler changes nothing: no lease is cancelled, the share
    file stays, nothing is raised - for every configuration, clock, share type and lease list. -/
theorem disabled_never_deletes (cfg : Config) (now : Int) (ty : ShareType) (leases : List Lease)
    (hoff : cfg.enabled = false) :
    let r := processShare cfg now ty leases
    r.removed = false ∧ r.share.leases = leases ∧ r.raised = none := by
  simp [processShare, hoff, ShareResult.removed]

example :
    let cfg : Config := { enabled := false, mode := .cutoff 2000000000, expImmutable := true, expMutable := true }
    (processShare cfg 1900000000 .immutable [⟨1, 1000⟩, ⟨2, 2000⟩]).removed = false := by decide

/-- Non-vacuity: age mode without override, one lease renewed 400 days ago and one 40 days ago,
    distinct secrets - both expired, the share goes; with the second renewed 10 days ago it stays
    and only the first lease is cancelled. -/
example :
    let cfg : Config := { enabled := true, mode := .age none, expImmutable := true, expMutable := true }
    let t0 : Int := 1700000000
    let old : Lease := ⟨1, t0 - 400 * 86400 + 31 * 86400⟩
    (processShare cfg t0 .immutable [old, ⟨2, t0 - 40 * 86400 + 31 * 86400⟩]).removed = true ∧
    (processShare cfg t0 .immutable [old, ⟨2, t0 - 10 * 86400 + 31 * 86400⟩]).share
      = ⟨true, [⟨2, t0 - 10 * 86400 + 31 * 86400⟩]⟩ ∧
    WellFormedLeases [old, ⟨2, t0 - 10 * 86400 + 31 * 86400⟩] := by
  refine ⟨by decide, by decide, ?_⟩
  simp [WellFormedLeases, DistinctSecrets]

/-! ### Whole buckets (`process_bucket`) -/

/-- With expiration disabled a whole bucket is untouched, whatever its shares look like (any number
    of leases, shared secrets): every share file is examined, none is changed, nothing is raised. -/
theorem disabled_bucket_untouched (cfg : Config) (now : Int) (shares : List (ShareType × List Lease))
    (hoff : cfg.enabled = false) :
    let b := processBucket cfg now shares
    b.raised = false ∧ b.shares.map (fun r => r.2.share) = shares.map (fun sh => (⟨true, sh.2⟩ : Share)) := by
  have h := processBucketAux_noraise cfg now shares []
    (fun sh _ => (disabled_never_deletes cfg now sh.1 sh.2 hoff).2.2)
  simp only [processBucket, h, List.reverse_nil, List.nil_append, List.map_map, true_and]
  apply List.map_congr_left
  intro sh _
  have := disabled_never_deletes cfg now sh.1 sh.2 hoff
  simp only [ShareResult.removed, Bool.not_eq_false'] at this
  show (processShare cfg now sh.1 sh.2).share = ⟨true, sh.2⟩
  cases hs : (processShare cfg now sh.1 sh.2).share with
  | mk pr ls => rw [hs] at this; simp only at this; rw [this.1, this.2.1]

/-- One pass of the crawler over a bucket of well-formed shares, expiration enabled: nothing is
    raised, EVERY share file of the bucket is processed (in listdir order), and each one is removed
    iff its type is enabled and all its leases are expired under the documented predicate.
    (With C27 - every bucket is passed to `process_bucket` in every completed cycle - this is the
    "deleted within one crawl cycle" clause.) -/
theorem bucket_pass_deletes_exactly_expired (cfg : Config) (now : Int)
    (shares : List (ShareType × List Lease)) (hon : cfg.enabled = true)
    (hwf : ∀ sh ∈ shares, WellFormedLeases sh.2) :
    let b := processBucket cfg now shares
    b.raised = false ∧
    b.shares = shares.map (fun sh => (sh.1, processShare cfg now sh.1 sh.2)) ∧
    ∀ sh ∈ shares, ((processShare cfg now sh.1 sh.2).removed = true ↔
      typeEnabled cfg sh.1 = true ∧ ∀ l ∈ sh.2, DocExpired cfg now l) := by
  have h := processBucketAux_noraise cfg now shares []
    (fun sh hs => (deleted_iff_all_expired cfg now sh.1 sh.2 hon (hwf sh hs)).1)
  refine ⟨by simp [processBucket, h], by simp [processBucket, h], ?_⟩
  intro sh hs
  exact (deleted_iff_all_expired cfg now sh.1 sh.2 hon (hwf sh hs)).2.2

example :
    let cfg : Config := { enabled := true, mode := .cutoff 1700006400, expImmutable := true, expMutable := false }
    let shares : List (ShareType × List Lease) :=
      [(.immutable, [⟨1, 1690000000⟩, ⟨2, 1691000000⟩]), (.mutable, [⟨3, 1690000000⟩]), (.immutable, [⟨4, 1800000000⟩])]
    (processBucket cfg 1700000000 shares).shares.map (fun r => r.2.removed) = [true, false, false] ∧
    (processBucket cfg 1700000000 shares).raised = false := by
  decide

/-! ### Whole schedules: the crawler drives the expirer (`GcCycle.gcRun`) -/

open Tahoe.Storage.Crawler Tahoe.Storage.GcCycle in
/-- "…such a share is deleted within one crawl cycle."  For every schedule of the lease crawler
    (time-slice interruptions anywhere, kills after any `process_bucket` call, restarts, changing
    prefix listings, a clock per slice): once cycle `c` is finished, a share file `k` of a bucket `b`
    that was listed throughout cycle `c`, whose type is enabled and whose leases are all expired under
    the documented predicate at every clock value of the schedule, is gone.  (Shares everywhere
    well-formed: ≥ 1 lease, distinct cancel secrets - otherwise see the three findings.) -/
theorem expired_share_deleted_within_one_cycle (cfg : Config) (hon : cfg.enabled = true)
    (np : Nat) (hnp : 2 ≤ np) (pf : Nat → Nat) (hmono : ∀ a b, a ≤ b → pf a ≤ pf b)
    (gs : List GEvent) (hls : ListingsFollowPrefixes pf (gs.map (·.ev)))
    (w0 : World) (hwf : AllWF w0)
    (c p b k : Nat) (hp : p < np) (hpb : pf b = p)
    (hpres : PresentThroughout np c p b init (gs.map (·.ev)))
    (hdone : ∃ c', (gcRun cfg np init w0 gs).1.p.lcf = some c' ∧ c ≤ c')
    (hexp : Doomed cfg b k (gs.map (·.now)) w0) :
    Gone b k (gcRun cfg np init w0 gs).2.1 := by
  obtain ⟨h1, h2⟩ := gcRun_crawler cfg np gs init w0
  have hcov := run_cov pf hmono np hnp c p b hpb hp (gs.map (·.ev)) init [] hls wfC_init (wfP_init pf np)
    (cov_init c p b) hpres
  obtain ⟨c', hc', hle⟩ := hdone
  rw [h1] at hc'
  have hmem := hcov.done (by rw [hc']; simp only [nextCycle]; omega)
  simp only [List.nil_append] at hmem
  refine (gcRun_inv cfg b k (gs.map (·.now)) hon np gs init w0
    (fun g hg => List.mem_map.2 ⟨g, hg, rfl⟩) hwf hexp).2.1 ⟨⟨c, p, b⟩, ?_, rfl⟩
  rw [h2]; exact hmem

open Tahoe.Storage.Crawler Tahoe.Storage.GcCycle in
/-- "…deleted ONLY IF every lease is expired and the type is enabled", over whole schedules: a share
    file that holds a lease which is unexpired at every clock value of the schedule, or whose type
    is not enabled, is still there - with that lease - after any number of cycles, kills and
    repeated passes (no hypothesis on the crawler schedule at all). -/
theorem valid_share_survives_every_schedule (cfg : Config) (hon : cfg.enabled = true) (np : Nat)
    (gs : List GEvent) (w0 : World) (hwf : AllWF w0) (b k : Nat) (ty : ShareType) (l0 : Lease)
    (hkeep : typeEnabled cfg ty = false ∨ ∀ g ∈ gs, ¬ DocExpired cfg g.now l0)
    (hin : Holds b k ty l0 w0) :
    Holds b k ty l0 (gcRun cfg np init w0 gs).2.1 :=
  gcRun_holds cfg hon np b k ty l0 gs init w0 hkeep hwf hin

open Tahoe.Storage.Crawler Tahoe.Storage.GcCycle in
/-- Non-vacuity (three prefixes, buckets 3 and 5 under prefix 1): a slice interrupted after bucket 3,
    a slice killed after one call, a last slice.  Bucket 3's only share and share 1 of bucket 5 are
    all-expired and go; share 0 of bucket 5 keeps exactly its valid lease; cycle 0 is finished. -/
example :
    let cfg : Config := { enabled := true, mode := .cutoff 1700000000, expImmutable := true, expMutable := true }
    let w0 : World := fun b =>
      if b = 3 then [(0, .immutable, [⟨1, 1600000000⟩])]
      else if b = 5 then [(0, .mutable, [⟨1, 1600000000⟩, ⟨2, 1800000000⟩]), (1, .mutable, [⟨3, 1600000000⟩])]
      else []
    let gs : List GEvent :=
      [⟨.slice exLs [false, true], 1700000100⟩, ⟨.killed exLs [] 1, 1700000200⟩, ⟨.slice exLs [], 1700000300⟩]
    (gcRun cfg 3 init w0 gs).2.1 3 = [] ∧
    (gcRun cfg 3 init w0 gs).2.1 5 = [(0, .mutable, [⟨2, 1800000000⟩])] ∧
    (gcRun cfg 3 init w0 gs).1.p.lcf = some 0 ∧
    (gcRun cfg 3 init w0 gs).2.2 = [⟨0,1,3⟩, ⟨0,1,5⟩, ⟨0,1,5⟩, ⟨0,2,9⟩] := by
  decide

open Tahoe.Storage.GcCycle in
/-- With expiration disabled no schedule of the crawler changes any share file. -/
theorem disabled_never_deletes_any_schedule (cfg : Config) (hoff : cfg.enabled = false) (np : Nat)
    (gs : List GEvent) (w0 : World) : (gcRun cfg np Tahoe.Storage.Crawler.init w0 gs).2.1 = w0 :=
  gcRun_disabled cfg hoff np gs _ w0

/-! ### The expirer's state in the state file -/

/-- A lease-age histogram (a dict with distinct keys) written to the state file inside a cycle
    (`convert_lease_age_histogram`: list sorted by key) and restored by `add_initial_state` of a new
    crawler is the same dict: the same `(key, count)` items, keys still distinct - so
    `add_lease_age_to_histogram` of the restarted crawler continues the counts of the cycle. -/
theorem histogram_survives_state_file (h : Hist) (hn : (h.map (·.1)).Nodup) :
    (∀ x, x ∈ histFromJson (histToJson h) ↔ x ∈ h) ∧ ((histFromJson (histToJson h)).map (·.1)).Nodup := by
  rw [hist_reload h hn]
  exact ⟨fun x => mem_histSorted h x, nodup_histSorted h hn⟩

example :
    let h : Hist := [5, 86400, -5, -86401, 90000].foldl histAdd []
    h = [((0, 86400), 2), ((86400, 172800), 2), ((-86400, 0), 1)] ∧
    histToJson h = [(-86400, 0, 1), (0, 86400, 2), (86400, 172800, 2)] ∧
    histLookup (histAdd (histFromJson (histToJson h)) 100) (0, 86400) = 3 ∧ (h.map (·.1)).Nodup := by
  decide

/-! ### From `tahoe.cfg` to the crawler (`get_anonymous_storage_server`, `LeaseCheckingCrawler.__init__`) -/

/-- "Expiration disabled" as a node is configured: when `expire.enabled` is absent or false, every
    accepted configuration (whatever the other expire.* keys say) leaves every share untouched. -/
theorem not_enabled_in_tahoe_cfg_never_deletes (s : Settings) (cfg : Config)
    (hs : s.enabled = none ∨ s.enabled = some false) (hok : configFromSettings s = .ok cfg)
    (now : Int) (ty : ShareType) (leases : List Lease) :
    (processShare cfg now ty leases).removed = false ∧ (processShare cfg now ty leases).share.leases = leases := by
  have hen : cfg.enabled = false := by
    rw [(configFromSettings_ok s cfg hok).1]
    rcases hs with h | h <;> simp [h]
  exact ⟨(disabled_never_deletes cfg now ty leases hen).1, (disabled_never_deletes cfg now ty leases hen).2.1⟩

/-- The share-type filter is exactly the two switches (default true): a type whose switch is false is
    never enabled for expiry. -/
theorem sharetype_switches_select_types (s : Settings) (cfg : Config) (hok : configFromSettings s = .ok cfg) :
    typeEnabled cfg .immutable = s.immutable.getD true ∧ typeEnabled cfg .mutable = s.mutable.getD true := by
  obtain ⟨_, h2, h3, _⟩ := configFromSettings_ok s cfg hok
  exact ⟨h2, h3⟩

/-- The parsed cutoff date / override duration reach the crawler unchanged, each only in its mode. -/
theorem cutoff_and_override_reach_the_crawler (s : Settings) (cfg : Config) (hok : configFromSettings s = .ok cfg) :
    (s.mode = some "cutoff-date" → ∃ d, s.cutoffDate = some d ∧ cfg.mode = .cutoff d) ∧
    (s.mode = some "age" → cfg.mode = .age s.overrideDuration) := by
  obtain ⟨_, _, _, h⟩ := configFromSettings_ok s cfg hok
  constructor
  · intro hm
    rcases h with ⟨d, hd, hc, _⟩ | ⟨_, h2 | ⟨h2, _⟩⟩
    · exact ⟨d, hd, hc⟩
    · rw [hm] at h2; exact absurd (Option.some.inj h2) (by decide)
    · rw [hm] at h2; cases h2
  · intro hm
    rcases h with ⟨_, _, _, h2⟩ | ⟨h1, _⟩
    · rw [hm] at h2; exact absurd (Option.some.inj h2) (by decide)
    · exact h1

example :
    configFromSettings ⟨some true, some "cutoff-date", some 864000, some 1700006400, some false, none⟩
      = .ok { enabled := true, mode := .cutoff 1700006400, expImmutable := false, expMutable := true } ∧
    configFromSettings ⟨none, none, none, none, none, none⟩
      = .ok { enabled := false, mode := .age none, expImmutable := true, expMutable := true } ∧
    configFromSettings ⟨some true, none, none, none, none, none⟩ = .error .missingMode ∧
    configFromSettings ⟨none, some "bogus", none, none, none, none⟩ = .error .badMode := by
  refine ⟨?_, ?_, ?_, ?_⟩ <;> simp [configFromSettings]

/-! ### What the code does outside `WellFormedLeases` (the three open findings) -/

/-- Negation witness for the unguarded statement (known finding `shared-cancel-secret-deletes-valid-lease`):
    override = 31 d, one lease renewed 400 days ago and one renewed today with the SAME cancel
    secret: the valid lease is cancelled too and the share is removed although not every lease
    is expired. -/
theorem shared_cancel_secret_counterexample :
    ∃ (cfg : Config) (now : Int) (ty : ShareType) (leases : List Lease),
      cfg.enabled = true ∧ (∃ l ∈ leases, ¬ DocExpired cfg now l) ∧
      (processShare cfg now ty leases).removed = true := by
  refine ⟨{ enabled := true, mode := .age (some 2678400), expImmutable := true, expMutable := true },
    1700000000, .immutable, [⟨7, 1700000000 - 400 * 86400 + 2678400⟩, ⟨7, 1700000000 + 2678400⟩], rfl, ?_, ?_⟩
  · exact ⟨⟨7, 1700000000 + 2678400⟩, by simp, by decide⟩
  · decide

/-- Negation witness, other direction (known finding `shared-cancel-secret-expirer-raises`): three
    expired leases with secrets x, x, y: the second `cancel_lease(x)` raises IndexError, `y` is never
    cancelled and the share survives the pass although every lease is expired. -/
theorem shared_cancel_secret_raises_counterexample :
    ∃ (cfg : Config) (now : Int) (ty : ShareType) (leases : List Lease),
      cfg.enabled = true ∧ typeEnabled cfg ty = true ∧ (∀ l ∈ leases, DocExpired cfg now l) ∧
      (processShare cfg now ty leases).removed = false ∧
      (processShare cfg now ty leases).raised = some CancelErr.index := by
  refine ⟨{ enabled := true, mode := .cutoff 1700000000, expImmutable := true, expMutable := true },
    1700000000, .mutable, [⟨7, 1600000000⟩, ⟨7, 1600000001⟩, ⟨8, 1600000002⟩], rfl, rfl, ?_, ?_, ?_⟩
  · decide
  · decide
  · decide

/-- Negation witness (known finding `zero-lease-share-counted-but-kept`): a share without leases
    satisfies "every lease is expired" vacuously and is counted as recovered
    (`would_keep_share[2] = 0`, the `actual-*` counters), but `cancel_lease` is never called, so the
    file is not removed - whatever the configuration. -/
theorem zero_lease_counterexample (cfg : Config) (now : Int) (ty : ShareType) (hon : cfg.enabled = true) :
    (processShare cfg now ty []).removed = false ∧ (processShare cfg now ty []).wks.2.2 = 0 := by
  simp [processShare, hon, ShareResult.removed, cancelAll]

end Tahoe.C26
