import Tahoe.Storage.ExpireLemmas
/-!
# C26 - Garbage collection deletes exactly the expired shares

Property theorems over `Tahoe.Storage.Expire.processShare` (model of
`LeaseCheckingCrawler.process_share` + `cancel_lease`, age mode repaired by
`fixes/C26-age-mode.diff`).

FULL STATEMENT (not provable of the code, see the two counterexamples below):
  `deleted_iff_all_expired : cfg.enabled = true →
     ((processShare cfg now ty leases).removed = true ↔
        typeEnabled cfg ty = true ∧ ∀ l ∈ leases, DocExpired cfg now l)`
It fails (a) when two leases of one share carry the same cancel secret - `cancel_lease(secret)`
removes every lease with that secret, so a valid lease is cancelled together with an expired one
(`shared_cancel_secret_counterexample`), and a repeated secret among the expired leases makes the
second `cancel_lease` raise out of the crawler (`shared_cancel_secret_raises_counterexample`);
(b) for a share without any lease, which is counted as recovered but never unlinked
(`zero_lease_counterexample`).  Both are recorded in `known_findings.d/C26.json`; the theorem
proved is `deleted_iff_all_expired_partial`, guarded by `leases ≠ []` and `DistinctSecrets leases`.
-/
namespace Tahoe.C26
open Tahoe.Storage.Expire

/-- 31 days, the documented lease duration (docs/garbage-collection.rst). -/
def leaseDuration : Int := 31 * 24 * 60 * 60

/-- The create/renew timestamp of a lease: the server grants `expiry = renewal + 31 d`. -/
def lastRenewal (l : Lease) : Int := l.expiry - leaseDuration

/-- The DOCUMENTED expiry predicate (docs/garbage-collection.rst, the property statement):
    age mode: `renewal + duration < now`, or `renewal + override < now` with an override;
    cutoff mode: `renewal < cutoff`. -/
def DocExpired (cfg : Config) (now : Int) (l : Lease) : Prop :=
  match cfg.mode with
  | .age none => lastRenewal l + leaseDuration < now
  | .age (some o) => lastRenewal l + o < now
  | .cutoff d => lastRenewal l < d

instance (cfg : Config) (now : Int) (l : Lease) : Decidable (DocExpired cfg now l) := by
  unfold DocExpired; cases cfg.mode with
  | age ov => cases ov <;> exact inferInstance
  | cutoff d => exact inferInstance

/-- The constants the live source uses are the documented 31 days: the renewal-time hack of
    `LeaseInfo.get_grant_renew_time_time` and the duration the server grants. -/
theorem lease_duration_is_31_days :
    (Tahoe.Generated.Gc.lease_grant_renew_offset : Int) = leaseDuration ∧
    (Tahoe.Generated.Gc.server_lease_duration : Int) = leaseDuration := by
  decide

/-- The (repaired) mode test of `process_share` is the documented predicate. -/
theorem modeExpired_iff_doc (cfg : Config) (now : Int) (l : Lease) :
    modeExpired cfg now l = true ↔ DocExpired cfg now l := by
  have h := lease_duration_is_31_days.1
  unfold modeExpired DocExpired age renewTime lastRenewal grantRenewOffset
  rw [h]
  cases cfg.mode with
  | age ov => cases ov <;> simp <;> omega
  | cutoff d => simp

/-- With expiration disabled the lease crawler changes nothing: no lease is cancelled, the share
    file stays, nothing is raised - for every configuration, clock, share type and lease list. -/
theorem disabled_never_deletes (cfg : Config) (now : Int) (ty : ShareType) (leases : List Lease)
    (hoff : cfg.enabled = false) :
    let r := processShare cfg now ty leases
    r.removed = false ∧ r.share.leases = leases ∧ r.raised = none := by
  simp [processShare, hoff, ShareResult.removed]

example :
    let cfg : Config := { enabled := false, mode := .cutoff 2000000000, expImmutable := true, expMutable := true }
    (processShare cfg 1900000000 .immutable [⟨1, 1000⟩, ⟨2, 2000⟩]).removed = false := by decide

/-- With expiration enabled, on a share that has at least one lease and whose leases carry
    pairwise distinct cancel secrets: the crawler raises nothing, cancels exactly the leases that
    are expired under the DOCUMENTED predicate (and only when the share type is enabled), and
    removes the share file iff its type is enabled and every lease is expired. -/
theorem deleted_iff_all_expired_partial (cfg : Config) (now : Int) (ty : ShareType) (leases : List Lease)
    (hon : cfg.enabled = true) (hne : leases ≠ []) (hds : DistinctSecrets leases) :
    let r := processShare cfg now ty leases
    r.raised = none ∧
    r.share.leases = leases.filter (fun l => !(typeEnabled cfg ty && decide (DocExpired cfg now l))) ∧
    (r.removed = true ↔ typeEnabled cfg ty = true ∧ ∀ l ∈ leases, DocExpired cfg now l) := by
  have hexp : ∀ l, expired cfg now ty l = (typeEnabled cfg ty && decide (DocExpired cfg now l)) := by
    intro l
    unfold expired
    cases hte : typeEnabled cfg ty
    · simp
    · simp only [if_true, Bool.true_and]
      by_cases hd : DocExpired cfg now l
      · simp [hd, (modeExpired_iff_doc cfg now l).2 hd]
      · have : modeExpired cfg now l = false := by
          cases hm : modeExpired cfg now l
          · rfl
          · exact absurd ((modeExpired_iff_doc cfg now l).1 hm) hd
        simp [hd, this]
  -- the leases left after the loop are those whose secret is not among the expired ones
  have hkeep : leases.filter (fun l => !((leases.filter (expired cfg now ty)).map (·.cancel)).contains l.cancel)
      = leases.filter (fun l => !(expired cfg now ty l)) := by
    apply List.filter_congr
    intro l hl
    congr 1
    cases he : expired cfg now ty l
    · apply Bool.eq_false_iff.2
      intro hc
      simp only [List.contains_eq_mem, List.mem_map, List.mem_filter, decide_eq_true_eq] at hc
      obtain ⟨m, ⟨hm, hme⟩, hmc⟩ := hc
      have := hds.inj hm hl hmc
      subst this
      rw [he] at hme; cases hme
    · simp only [List.contains_eq_mem, List.mem_map, List.mem_filter, decide_eq_true_eq]
      exact ⟨l, ⟨hl, he⟩, rfl⟩
  have hca := cancelAll_distinct (leases.filter (expired cfg now ty)) true leases (fun _ => rfl)
    (fun l hl => (List.mem_filter.1 hl).1) (hds.filter _)
  rw [hkeep] at hca
  have hfun : (fun l => !(expired cfg now ty l)) = (fun l => !(typeEnabled cfg ty && decide (DocExpired cfg now l))) := by
    funext l; rw [hexp]
  simp only [processShare, hon, if_true, hca, ShareResult.removed]
  refine ⟨trivial, by rw [hfun], ?_⟩
  by_cases hnone : leases.filter (expired cfg now ty) = []
  · -- nothing expired: file stays; and not every lease is expired since there is one
    simp only [hnone, if_true, Bool.not_true, Bool.false_eq_true, false_iff, not_and]
    intro hte hall
    obtain ⟨l, hl⟩ := List.exists_mem_of_ne_nil leases hne
    have : l ∈ leases.filter (expired cfg now ty) := by
      rw [List.mem_filter, hexp, hte]; simp [hl, hall l hl]
    rw [hnone] at this; cases this
  · simp only [hnone, if_false, Bool.not_not, List.isEmpty_iff]
    rw [List.filter_eq_nil_iff]
    constructor
    · intro h
      have hte : typeEnabled cfg ty = true := by
        obtain ⟨l, hl⟩ := List.exists_mem_of_ne_nil _ hnone
        have := (List.mem_filter.1 hl).2
        rw [hexp] at this
        exact (Bool.and_eq_true_iff.1 this).1
      refine ⟨hte, ?_⟩
      intro l hl
      have := h l hl
      rw [hexp, hte] at this
      simpa using this
    · intro ⟨hte, hall⟩ l hl
      rw [hexp, hte]; simp [hall l hl]

/-- Non-vacuity: age mode without override, one lease renewed 400 days ago and one 40 days ago,
    distinct secrets - both expired, the share goes; with the second renewed 10 days ago it stays
    and only the first lease is cancelled. -/
example :
    let cfg : Config := { enabled := true, mode := .age none, expImmutable := true, expMutable := true }
    let t0 : Int := 1700000000
    let old : Lease := ⟨1, t0 - 400 * 86400 + 31 * 86400⟩
    (processShare cfg t0 .immutable [old, ⟨2, t0 - 40 * 86400 + 31 * 86400⟩]).removed = true ∧
    (processShare cfg t0 .immutable [old, ⟨2, t0 - 10 * 86400 + 31 * 86400⟩]).share
      = ⟨true, [⟨2, t0 - 10 * 86400 + 31 * 86400⟩]⟩ ∧
    DistinctSecrets [old, ⟨2, t0 - 10 * 86400 + 31 * 86400⟩] := by
  refine ⟨by decide, by decide, ?_⟩
  simp [DistinctSecrets]

/-- Negation witness for the unguarded statement (known finding `shared-cancel-secret-deletes-valid-lease`):
    override = 31 d, one lease renewed 400 days ago and one renewed today with the SAME cancel
    secret: the valid lease is cancelled too and the share is removed although not every lease
    is expired. -/
theorem shared_cancel_secret_counterexample :
    ∃ (cfg : Config) (now : Int) (ty : ShareType) (leases : List Lease),
      cfg.enabled = true ∧ (∃ l ∈ leases, ¬ DocExpired cfg now l) ∧
      (processShare cfg now ty leases).removed = true := by
  refine ⟨{ enabled := true, mode := .age (some 2678400), expImmutable := true, expMutable := true },
    1700000000, .immutable, [⟨7, 1700000000 - 400 * 86400 + 2678400⟩, ⟨7, 1700000000 + 2678400⟩], rfl, ?_, ?_⟩
  · exact ⟨⟨7, 1700000000 + 2678400⟩, by simp, by decide⟩
  · decide

/-- Negation witness, other direction (known finding `shared-cancel-secret-expirer-raises`): three
    expired leases with secrets x, x, y: the second `cancel_lease(x)` raises IndexError, `y` is never
    cancelled and the share survives the pass although every lease is expired. -/
theorem shared_cancel_secret_raises_counterexample :
    ∃ (cfg : Config) (now : Int) (ty : ShareType) (leases : List Lease),
      cfg.enabled = true ∧ typeEnabled cfg ty = true ∧ (∀ l ∈ leases, DocExpired cfg now l) ∧
      (processShare cfg now ty leases).removed = false ∧
      (processShare cfg now ty leases).raised = some CancelErr.index := by
  refine ⟨{ enabled := true, mode := .cutoff 1700000000, expImmutable := true, expMutable := true },
    1700000000, .mutable, [⟨7, 1600000000⟩, ⟨7, 1600000001⟩, ⟨8, 1600000002⟩], rfl, rfl, ?_, ?_, ?_⟩
  · decide
  · decide
  · decide

/-- Negation witness (known finding `zero-lease-share-counted-but-kept`): a share without leases
    satisfies "every lease is expired" vacuously and is counted as recovered
    (`would_keep_share[2] = 0`, the `actual-*` counters), but `cancel_lease` is never called, so the
    file is not removed - whatever the configuration. -/
theorem zero_lease_counterexample (cfg : Config) (now : Int) (ty : ShareType) (hon : cfg.enabled = true) :
    (processShare cfg now ty []).removed = false ∧ (processShare cfg now ty []).wks.2.2 = 0 := by
  simp [processShare, hon, ShareResult.removed, cancelAll]

end Tahoe.C26
