import Tahoe.Identity.Lemmas
/-! C43 — node and capability identity is consistent (property theorems; model in
    `Tahoe/Identity/Model.lean`, helper lemmas in `Tahoe/Identity/Lemmas.lean`).

    ## Coverage of the statement

    | clause of the statement (properties.jsonl) | theorem(s) |
    |---|---|
    | two file or directory **node** objects compare equal exactly when their capability strings are equal | `eq_iff_same_string` (node/node case: all 5 node classes × 5, incl. cross-class), `cross_class_unequal`, `eq_reflexive`, `eq_symmetric`, `eq_transitive` |
    | two **capability** objects compare equal exactly when their capability strings are equal | `eq_iff_same_string` (cap/cap case: the 18 `_BaseURI` subclasses and `UnknownURI`, incl. cross-class; prefix-freeness of the class prefixes is proved from the extracted constants: `Identity/Lemmas.lean toString_inj`) |
    | inequality is always the negation of equality | `ne_is_not_eq` — for *every* pair of objects (same class, cross class, node vs cap, unrelated `object`s), through the full operator protocol (`NotImplemented`, reflected call, identity fallback); `eqMethod_total` shows why `not self.__eq__(x)` and `not (self == x)` coincide for the code as it is |
    | equal objects hash equally | `eq_implies_hash_eq` (every interpretation of CPython's hash functions), `hash_depends_only_on_class_and_caps`; that `hash()` evaluates at all, for every class: `equal_objects_hashable` (`unknownnode_unhashable_counterexample` documents the code before `UnknownNode.__hash__` was added) |
    | (quantifier) every cap kind wrapped in every node class | the theorems quantify over all `Obj`; which (class, cap kind) combinations exist is `WF`; `uri_classes_pinned`, `prefixes_pinned`, `dunder_owners_pinned` tie the class list, the prefixes and the method owners to the source |
    | independence of what was done to the objects before (lazy caches; seeded change C43-b) | by construction: the model is a pure function of (class, id, strings); the *implementation* side of this is correspondence + monitor only (usage states in harness/props/c43.py) |

    Not covered by a theorem: that `to_string()` of a cap is a function of its fields and vice versa (C15's
    subject; here a cap *is* its string), `CiphertextFileNode`/`ProhibitedNode` (outside the model).

    The theorems are about `Variant.fixed` = the code in /repo (all four C43 fixes are committed, the last one 8fd04af
    `UnknownNode.__hash__`); the `shipped_*_counterexample` theorems and `unknownnode_unhashable_counterexample`
    document the four defects of the originally shipped code (`Variant.shipped`). No open finding. -/
namespace Tahoe.C43
open Tahoe.Identity Tahoe.Generated

/-- Two node objects, or two cap objects, are `==` exactly when they carry the same capability strings —
    for every pair of classes. -/
theorem eq_iff_same_string (a b : Obj) (ha : WF a) (hb : WF b) (hp : ParseFunctional a b)
    (hs : (a.isNode = true ∧ b.isNode = true) ∨ (a.isCap = true ∧ b.isCap = true)) :
    pyEq .fixed a b = true ↔ caps a = caps b := by
  have key : ∀ u v : Uri, (u.toString == v.toString) = true ↔ u.toString = v.toString := by simp
  cases a <;> cases b <;>
    simp_all [pyEq, eqMethod, caps, WF, ParseFunctional, Obj.isNode, Obj.isCap, R.ofBool, uriStrEq] <;>
    first
      | done
      | (split <;> simp_all; done)
      | (intro h; have := toString_inj _ _ h; simp_all; done)
      | (intro h; have := toString_inj _ _ h; subst this; rcases ha with h1 | h1 | h1 | h1 <;> simp [h1] at hb; done)
      | (intro h; have := toString_inj _ _ h; subst this;
         rcases hb with h1 | h1 | h1 | h1 <;> simp [h1] at ha; done)
      | grind

example : pyEq .fixed (.dirNode 1 ⟨.dir2Chk, [97]⟩) (.dirNode 2 ⟨.dir2Chk, [97]⟩) = true
    ∧ pyEq .fixed (.dirNode 1 ⟨.dir2Chk, [97]⟩) (.immNode 2 ⟨.chk, [97]⟩) = false
    ∧ WF (.dirNode 1 ⟨.dir2Chk, [97]⟩) ∧ WF (.immNode 2 ⟨.chk, [97]⟩) := by decide

/-- `!=` is the negation of `==`, for every pair of objects (nodes, caps and unrelated objects alike). -/
theorem ne_is_not_eq (a b : Obj) : pyNe .fixed a b = !(pyEq .fixed a b) := by
  cases a <;> cases b <;>
    (try simp [pyNe, neMethod, pyEq, eqMethod, objectNe, objectEq, R.ofBool, uriStrEq, Obj.id]) <;>
    (try grind)

example : pyNe .fixed (.immNode 1 ⟨.chk, [97]⟩) (.immNode 2 ⟨.chk, [97]⟩) = false
    ∧ pyNe .fixed (.immNode 1 ⟨.chk, [97]⟩) (.immNode 2 ⟨.chk, [98]⟩) = true
    ∧ pyNe .fixed (.dirNode 1 ⟨.dir2, [97]⟩) (.other 7) = true := by decide

/-- `==` is symmetric (no pair of classes answers differently depending on the operand order). -/
theorem eq_symmetric (a b : Obj) (hid : IdConsistent a b) : pyEq .fixed a b = pyEq .fixed b a := by
  cases a <;> cases b <;>
    (try simp [pyEq, eqMethod, objectEq, R.ofBool, uriStrEq, Obj.id, IdConsistent] at hid ⊢) <;>
    (try grind)

example : IdConsistent (.dirNode 1 ⟨.dir2, [97]⟩) (.other 7)
    ∧ pyEq .fixed (.dirNode 1 ⟨.dir2, [97]⟩) (.other 7) = false := by
  refine ⟨?_, by decide⟩
  intro h; simp [Obj.id] at h

/-- Equal objects hash equally — under every interpretation of CPython's `hash` of bytes, of `None`, of an
    address and of a tuple; (`none` = `hash()` raises does not occur any more: `equal_objects_hashable`). -/
theorem eq_implies_hash_eq (I : HashInterp) (a b : Obj) (hid : IdConsistent a b)
    (h : pyEq .fixed a b = true) :
    (hashMethod .fixed a).map I.eval = (hashMethod .fixed b).map I.eval := by
  cases a <;> cases b <;>
    simp_all [pyEq, eqMethod, objectEq, R.ofBool, uriStrEq, Obj.id, hashMethod, IdConsistent, HashInterp.eval]
  all_goals first
    | done
    | (split at h <;> simp_all; done)
    | grind

example : pyEq .fixed (.mutNode 1 ⟨.ssk, [97]⟩) (.mutNode 2 ⟨.ssk, [97]⟩) = true
    ∧ IdConsistent (.mutNode 1 ⟨.ssk, [97]⟩) (.mutNode 2 ⟨.ssk, [97]⟩)
    ∧ hashMethod .fixed (.mutNode 1 ⟨.ssk, [97]⟩) = hashMethod .fixed (.mutNode 2 ⟨.ssk, [97]⟩) := by
  refine ⟨by decide, ?_, by decide⟩
  intro h; simp [Obj.id] at h

/-- `a == a` for every object. -/
theorem eq_reflexive (a : Obj) : pyEq .fixed a a = true := by
  cases a <;> simp [pyEq, eqMethod, objectEq, R.ofBool, uriStrEq]

example : pyEq .fixed (.unknownNode 3 none (some [1])) (.unknownNode 3 none (some [1])) = true := by decide

/-- `==` is transitive (with `eq_reflexive`, `eq_symmetric`: an equivalence relation on live objects). -/
theorem eq_transitive (a b c : Obj) (hab : IdConsistent a b) (hbc : IdConsistent b c)
    (h1 : pyEq .fixed a b = true) (h2 : pyEq .fixed b c = true) : pyEq .fixed a c = true :=
  pyEq_trans a b c hab hbc h1 h2

example : pyEq .fixed (.litNode 1 ⟨.lit, [7]⟩) (.litNode 2 ⟨.lit, [7]⟩) = true
    ∧ pyEq .fixed (.litNode 2 ⟨.lit, [7]⟩) (.litNode 3 ⟨.lit, [7]⟩) = true
    ∧ pyEq .fixed (.litNode 1 ⟨.lit, [7]⟩) (.litNode 3 ⟨.lit, [7]⟩) = true := by decide

/-- No comparison method of a cap or node class answers `NotImplemented`: `==`/`!=` never reach the reflected
    call or the identity fallback when the left operand is a cap or a node, and `not self.__eq__(x)` (which would
    turn a truthy `NotImplemented` into `False`) coincides with `not (self == x)`. -/
theorem eqMethod_total (a b : Obj) (h : a.isCap = true ∨ a.isNode = true) :
    eqMethod .fixed a b ≠ .ni ∧ neMethod .fixed a b ≠ .ni := by
  cases a <;> simp [Obj.isCap, Obj.isNode] at h <;> cases b <;>
    simp [eqMethod, neMethod, R.ofBool] <;> (repeat' split) <;> simp

example : eqMethod .fixed (.other 1) (.dirNode 2 ⟨.dir2, []⟩) = .ni
    ∧ eqMethod .fixed (.dirNode 2 ⟨.dir2, []⟩) (.other 1) = .f
    ∧ pyNe .fixed (.dirNode 2 ⟨.dir2, []⟩) (.other 1) = true ∧ pyNe .fixed (.other 1) (.dirNode 2 ⟨.dir2, []⟩) = true := by decide

/-- Objects of different model classes are never equal and always unequal — nodes of different classes, an
    `UnknownURI` and a parsed cap (for two parsed caps of different classes see `cross_kind_caps_unequal`), a node and a cap, or either and an unrelated object (in both operand orders). -/
theorem cross_class_unequal (a b : Obj) (hid : IdConsistent a b) (hc : a.ctorIdx ≠ b.ctorIdx) :
    pyEq .fixed a b = false ∧ pyNe .fixed a b = true := by
  rw [ne_is_not_eq]
  suffices h : pyEq .fixed a b = false by simp [h]
  cases a <;> cases b <;>
    simp_all [pyEq, eqMethod, objectEq, Obj.id, IdConsistent, Obj.ctorIdx]

example : pyEq .fixed (.dirNode 1 ⟨.dir2Chk, [97]⟩) (.immNode 2 ⟨.chk, [97]⟩) = false
    ∧ pyNe .fixed (.mutNode 1 ⟨.ssk, [97]⟩) (.uri 2 ⟨.ssk, [97]⟩) = true := by decide

/-- caps of different classes have different strings, hence are unequal (no class prefix is a prefix of another) -/
theorem cross_kind_caps_unequal (i j : Nat) (u v : Uri) (hk : u.kind ≠ v.kind) :
    pyEq .fixed (.uri i u) (.uri j v) = false ∧ u.toString ≠ v.toString := by
  have : u.toString ≠ v.toString := fun h => hk (congrArg Uri.kind (toString_inj u v h))
  simp [pyEq, eqMethod, R.ofBool, uriStrEq, this]

example : pyEq .fixed (.uri 1 ⟨.dir2, [97]⟩) (.uri 2 ⟨.dir2Ro, [97]⟩) = false := by decide

/-- `hash()` is a function of the class and the capability strings: two objects of the same cap/node class with
    the same strings hash alike, whatever their identity. -/
theorem hash_depends_only_on_class_and_caps (a b : Obj) (hc : a.ctorIdx = b.ctorIdx)
    (hn : a.isCap = true ∨ a.isNode = true) (hs : caps a = caps b) :
    hashMethod .fixed a = hashMethod .fixed b := by
  cases a <;> cases b <;> simp_all [Obj.ctorIdx, Obj.isCap, Obj.isNode, caps, hashMethod] <;>
    (try (have := toString_inj _ _ hs; simp_all))

example : hashMethod .fixed (.dirNode 1 ⟨.dir2, [5]⟩) = hashMethod .fixed (.dirNode 9 ⟨.dir2, [5]⟩)
    ∧ hashMethod .fixed (.dirNode 1 ⟨.dir2, [5]⟩) ≠ hashMethod .fixed (.mutNode 1 ⟨.dir2, [5]⟩) := by decide

/-- Every object can be hashed: `hash()` evaluates for every cap and node class (`UnknownNode` included since
    `UnknownNode.__hash__` was added), so `eq_implies_hash_eq` always compares two actual hash values and equal
    objects can be set members and dict keys. -/
theorem equal_objects_hashable (a : Obj) : (hashMethod .fixed a).isSome = true := by
  cases a <;> simp [hashMethod]

example : (hashMethod .fixed (.litNode 1 ⟨.lit, [7]⟩)).isSome = true
    ∧ hashMethod .fixed (.unknownNode 1 none (some [7])) = hashMethod .fixed (.unknownNode 2 none (some [7]))
    ∧ hashMethod .fixed (.unknownNode 1 none (some [7])) ≠ hashMethod .fixed (.unknownNode 2 (some [7]) none) := by decide

/-! ### the code as shipped: concrete counterexamples (each is one of the findings reproduced on the
    real objects by harness/props/c43.py) -/

/-- shipped `ImmutableFileNode.__ne__` returns `self.u.__eq__(other.u)`: two distinct node objects with
    the same cap are both `==` and `!=`; two nodes with different caps are neither. -/
theorem shipped_ne_counterexample :
    let a := Obj.immNode 1 ⟨.chk, [97]⟩
    let b := Obj.immNode 2 ⟨.chk, [97]⟩
    let c := Obj.immNode 3 ⟨.chk, [98]⟩
    WF a ∧ WF b ∧ WF c ∧ pyEq .shipped a b = true ∧ pyNe .shipped a b = true
      ∧ pyEq .shipped a c = false ∧ pyNe .shipped a c = false := by decide

/-- shipped `DirectoryNode` defines no `__eq__`: two node objects for the same directory cap are unequal
    (and hash differently). -/
theorem shipped_dirnode_counterexample :
    let a := Obj.dirNode 1 ⟨.dir2Chk, [97]⟩
    let b := Obj.dirNode 2 ⟨.dir2Chk, [97]⟩
    WF a ∧ WF b ∧ caps a = caps b ∧ pyEq .shipped a b = false := by decide

/-- before `UnknownNode.__hash__` was added (`Variant.shipped`): two equal `UnknownNode`s, `hash()` raises for both -/
theorem unknownnode_unhashable_counterexample :
    let a := Obj.unknownNode 1 none (some [7])
    let b := Obj.unknownNode 2 none (some [7])
    WF a ∧ WF b ∧ pyEq .shipped a b = true ∧ hashMethod .shipped a = none ∧ hashMethod .shipped b = none := by decide

/-- shipped `UnknownURI` defines no `__eq__`: `from_string(s) == from_string(s)` is false for an
    unknown-format `s`. -/
theorem shipped_unknownuri_counterexample :
    let a := Obj.unknownUri 1 (some [97])
    let b := Obj.unknownUri 2 (some [97])
    caps a = caps b ∧ pyEq .shipped a b = false := by decide

/-! ### ties to the source (constants regenerated from /repo on every run) -/

/-- the model's cap classes are exactly the concrete `_BaseURI` subclasses of uri.py -/
theorem uri_classes_pinned :
    Identity.URI_CLASSES.length = 18 ∧ UriKind.all.length = 18
      ∧ UriKind.all.all (fun k => Identity.URI_CLASSES.contains k.className) = true := by decide

/-- the documented cap prefixes -/
theorem prefixes_pinned :
    UriKind.all.map (fun k => String.fromUTF8! (ByteArray.mk k.pre.toArray)) =
      ["URI:CHK:", "URI:CHK-Verifier:", "URI:LIT:", "URI:SSK:", "URI:SSK-RO:", "URI:SSK-Verifier:",
       "URI:MDMF:", "URI:MDMF-RO:", "URI:MDMF-Verifier:", "URI:DIR2:", "URI:DIR2-RO:", "URI:DIR2-CHK:",
       "URI:DIR2-LIT:", "URI:DIR2-MDMF:", "URI:DIR2-MDMF-RO:", "URI:DIR2-MDMF-Verifier:",
       "URI:DIR2-Verifier:", "URI:DIR2-CHK-Verifier:"] := by decide

/-- which class of the MRO provides the comparison methods (classes not touched by the proposed fixes):
    all cap classes inherit the three methods of `_BaseURI`; `UnknownNode` provides all three itself. -/
theorem dunder_owners_pinned :
    Identity.URI_SUBCLASS_DUNDER_OWNERS = ["_BaseURI/_BaseURI/_BaseURI"]
      ∧ (Identity.EQ_OWNER_ImmutableFileNode, Identity.NE_OWNER_ImmutableFileNode, Identity.HASH_OWNER_ImmutableFileNode)
          = ("ImmutableFileNode", "ImmutableFileNode", "ImmutableFileNode")
      ∧ (Identity.EQ_OWNER_LiteralFileNode, Identity.NE_OWNER_LiteralFileNode, Identity.HASH_OWNER_LiteralFileNode)
          = ("_ImmutableFileNodeBase", "_ImmutableFileNodeBase", "_ImmutableFileNodeBase")
      ∧ (Identity.EQ_OWNER_MutableFileNode, Identity.NE_OWNER_MutableFileNode, Identity.HASH_OWNER_MutableFileNode)
          = ("MutableFileNode", "MutableFileNode", "MutableFileNode")
      ∧ (Identity.EQ_OWNER_UnknownNode, Identity.NE_OWNER_UnknownNode, Identity.HASH_OWNER_UnknownNode)
          = ("UnknownNode", "UnknownNode", "UnknownNode") := by decide

end Tahoe.C43
