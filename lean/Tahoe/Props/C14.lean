import Tahoe.Mutable.CheckRepairLemmas
/-! C14 — mutable check and repair preserve the newest content (property theorems; helper lemmas live
    in `Tahoe/Mutable/CheckRepairLemmas.lean` and `ServerMapLemmas.lean`). -/
/-!
## Coverage of the statement (properties.jsonl C14)

| clause of the statement | theorem(s) |
|---|---|
| "reported healthy exactly when there is a single recoverable version with N distinct shares and no other versions" | `healthy_iff` (for every servermap handed to `_make_checker_results`), `healthy_with_verify_iff` (with verify: the same over the shares the verifier did not mark bad, for every set of marks; `afterVerify` = the `mark_bad_share` calls, tied by the `b:` ops of the `check` cases) |
| "Repair without force never discards a newer unrecoverable version" | `repair_refuses_newer_unrecoverable` |
| "…or picks between competing versions with the same sequence number" | `repair_refuses_merge` |
| "a successful repair leaves the best version's contents unchanged" | `repair_republishes_best` (the version chosen is the best of the full map; new seqnum above every share in it), `download_version_exact` + `repair_uploads_best_or_nothing` (what is downloaded — from whatever servermap `download_version` ends up consulting — is that version or the repair fails); byte-level equality of download/upload is C09/C10 territory: monitor only here |
| "…and recoverable from N distinct shares" | composition, stated in C47: `update_goal_covers` (the republish has a proxy for every share number < N) + `success_implies_k_stored` (success ⇒ ≥ k of them stored; all N only if no request failed — `bookkeeping_sound`); and C47 `fault_free_publish_stores_all`: a republish in which no request fails stores all N share numbers |
| with verify, "N distinct shares" means N distinct GOOD shares: the verifier finds damage the servermap update cannot see | the verdict given the verifier's marks: `healthy_with_verify_iff` (every set of marks). WHICH shares get marked is not a theorem here (the verifier's hash checks are C10's subject). Checked by monitors on real grids: a flipped byte in block data, the block-hash-tree root, the encrypted private key (defect repaired as 93bab9f) or the verification key (defect repaired as 5d94ff9) of one share must make `check(verify=True)` and `check_and_repair(verify=True)` report unhealthy, list that share as corrupt, and agree with each other. Observed and not demanded by the statement: with two damaged shares the verifier lists only the first it meets (health is still False) |
-/
namespace Tahoe.C14
open Tahoe.Mutable Tahoe.Mutable.ServerMap Tahoe.Mutable.Check

def v3 : VerInfo := { seqnum := 3, rootHash := [7], iv := some [1], segsize := 6, datalength := 6, k := 2, n := 3, pfx := [3], offsets := [] }
def v5 : VerInfo := { v3 with seqnum := 5, rootHash := [2], pfx := [5] }
def v5' : VerInfo := { v3 with seqnum := 5, rootHash := [9], pfx := [6] }
/-- all three shares of one version -/
def smHealthy : ServerMap := { known := [((10, 0), v3), ((11, 1), v3), ((12, 2), v3)] }
/-- seq 3 recoverable, a single share of seq 5 -/
def smNewer : ServerMap := { known := [((10, 0), v3), ((11, 1), v3), ((12, 2), v5)] }
/-- two recoverable versions with seqnum 5 -/
def smMerge : ServerMap := { known := [((10, 0), v5), ((11, 1), v5), ((12, 0), v5'), ((13, 1), v5')] }

/-- The checker reports `healthy` exactly when the servermap holds a single version, that version has at
    least `k` distinct share numbers (is recoverable) and at least `N` distinct share numbers, and no
    share of any other version is present. -/
theorem healthy_iff (sm : ServerMap) :
    (makeCheckerResults sm).healthy = true ↔
    ∃ v, sm.Located v ∧ (∀ w, sm.Located w → w = v) ∧ v.k ≤ sm.distinctShnums v ∧ v.n ≤ sm.distinctShnums v := by
  constructor
  · intro h
    unfold makeCheckerResults at h
    split at h
    · rename_i best hbest
      simp only [healthBase, Bool.and_eq_true, List.isEmpty_iff, bne_iff_ne, ne_eq, Bool.not_eq_true',
        decide_eq_false_iff_not, Nat.not_lt, countShares] at h
      obtain ⟨⟨⟨hun, _⟩, hle⟩, hN⟩ := h
      obtain ⟨hmem, _⟩ := maxVer_some _ _ hbest
      have hloc := (mem_recoverable sm best).mp hmem
      have hlen : sm.recoverable.length = 1 := by
        have : 0 < sm.recoverable.length := List.length_pos_of_mem hmem
        omega
      have hrec : sm.recoverable = [best] := by
        match hr : sm.recoverable, hlen with
        | [x], _ => rw [hr] at hmem; simp at hmem; rw [hmem]
      have hN' : best.n ≤ sm.distinctShnums best := Nat.le_of_not_lt (of_decide_eq_false hN)
      refine ⟨best, hloc.1, fun w hw => ?_, hloc.2, hN'⟩
      rcases located_split sm w hw with ⟨h1, _⟩ | ⟨h1, _⟩
      · rw [hrec] at h1; simpa using h1
      · rw [hun] at h1; simp at h1
    · simp at h
    · rename_i hbest hu
      have hnil := (bestRecoverable_isSome sm).mp hbest
      simp [healthBase, hnil] at h
  · rintro ⟨v, hloc, huniq, hk, hN⟩
    have hvrec : v ∈ sm.recoverable := (mem_recoverable sm v).mpr ⟨hloc, hk⟩
    have hrec : sm.recoverable = [v] :=
      eq_singleton_of_nodup _ v (nodup_recoverable sm) hvrec
        (fun x hx => huniq x ((mem_recoverable sm x).mp hx).1)
    have hun : sm.unrecoverable = [] := by
      apply List.eq_nil_iff_forall_not_mem.mpr
      intro w hw
      have hw' := (mem_unrecoverable sm w).mp hw
      have := huniq w hw'.1
      subst this
      omega
    have hbest : sm.bestRecoverable = some v := by
      unfold bestRecoverable; rw [hrec]; rfl
    unfold makeCheckerResults
    rw [hbest]
    simp only [healthBase, hun, hrec, countShares, List.isEmpty_nil, List.length_cons, List.length_nil,
      Bool.and_eq_true, Bool.not_eq_true', decide_eq_false_iff_not, Nat.not_lt, decide_eq_false_iff_not]
    exact ⟨by decide, decide_eq_false (Nat.not_lt.mpr hN)⟩

example : (makeCheckerResults smHealthy).healthy = true ∧ (makeCheckerResults smNewer).healthy = false ∧
    (makeCheckerResults smMerge).healthy = false ∧
    (makeCheckerResults { known := [((10, 0), v3), ((11, 1), v3)] }).healthy = false := by decide

/-- Repair without `force` never republishes over an unrecoverable version that is newer than every
    recoverable one: it raises `MustForceRepairError` (or reports the file unrepairable). -/
theorem repair_refuses_newer_unrecoverable (sm : ServerMap) (wk : Bool)
    (h : ∃ v, sm.Located v ∧ sm.distinctShnums v < v.k ∧
          ∀ w, sm.Located w → w.k ≤ sm.distinctShnums w → w.seqnum < v.seqnum) :
    repairDecide sm false wk = .mustForceNewer ∨ repairDecide sm false wk = .notRepairable := by
  obtain ⟨v, hloc, hun, hnew⟩ := h
  have hne : sm.unrecoverableNewer ≠ [] :=
    (unrecoverableNewer_ne_nil sm).mpr ⟨v, (mem_unrecoverable sm v).mpr ⟨hloc, hun⟩,
      fun w hw => hnew w ((mem_recoverable sm w).mp hw).1 ((mem_recoverable sm w).mp hw).2⟩
  unfold repairDecide
  split
  · right; rfl
  · left
    have : sm.unrecoverableNewer.isEmpty = false := by
      cases hl : sm.unrecoverableNewer with
      | nil => exact absurd hl hne
      | cons a l => rfl
    simp [this]

example : repairDecide smNewer false true = .mustForceNewer ∧ smNewer.Located v5 ∧ smNewer.distinctShnums v5 < v5.k :=
  ⟨by decide, ⟨(12, 2), by decide⟩, by decide⟩

/-- Repair without `force` never picks between two recoverable versions with the same sequence number. -/
theorem repair_refuses_merge (sm : ServerMap) (wk : Bool) (v w : VerInfo)
    (hv : sm.Located v ∧ v.k ≤ sm.distinctShnums v) (hw : sm.Located w ∧ w.k ≤ sm.distinctShnums w)
    (hne : v ≠ w) (hs : v.seqnum = w.seqnum) :
    repairDecide sm false wk = .mustForceMerge ∨ repairDecide sm false wk = .mustForceNewer := by
  have hm := needsMerge_of_two sm v w ((mem_recoverable sm v).mpr hv) ((mem_recoverable sm w).mpr hw) hne hs
  unfold repairDecide
  split
  · rename_i hb
    have := (bestRecoverable_isSome sm).mp hb
    have hv' := (mem_recoverable sm v).mpr hv
    rw [this] at hv'; simp at hv'
  · by_cases hn : sm.unrecoverableNewer.isEmpty = true
    · left; simp [hn, hm]
    · right; simp [hn]

example : repairDecide smMerge false true = .mustForceMerge ∧ repairDecide smMerge true true = .republish v5' 6 := by decide

/-- When repair does go ahead it downloads and republishes the best recoverable version — no recoverable
    version in the map has a higher sequence number (ties: higher root hash) — under a sequence number
    above every share in the map; and with `force` (and a write cap) it always goes ahead when something is
    recoverable.  Together with C47 (success ⇒ ≥ k shares of the new version acknowledged; `update_goal`
    gives all N share numbers a home) and C11 (readers prefer the highest seqnum) the contents stay those of
    the best version. -/
theorem repair_republishes_best (sm : ServerMap) (force wk : Bool) :
    (∀ v s, repairDecide sm force wk = .republish v s →
      sm.bestRecoverable = some v ∧ (sm.Located v ∧ v.k ≤ sm.distinctShnums v) ∧
      (∀ w, sm.Located w → w.k ≤ sm.distinctShnums w →
        w.seqnum ≤ v.seqnum ∧ (w.seqnum = v.seqnum → w.rootHash ≤ v.rootHash)) ∧
      (∀ key w, (key, w) ∈ sm.known → w.seqnum < s)) ∧
    (force = true → wk = true → ∀ b, sm.bestRecoverable = some b →
      repairDecide sm force wk = .republish b (newSeqnum (some sm))) := by
  constructor
  · intro v s h
    unfold repairDecide at h
    split at h
    · simp at h
    · rename_i best hbest
      split at h
      · simp at h
      · split at h
        · simp at h
        · split at h
          · simp at h
          · simp only [RepairDecision.republish.injEq] at h
            obtain ⟨rfl, rfl⟩ := h
            obtain ⟨hmem, hmax⟩ := maxVer_some _ _ hbest
            refine ⟨hbest, (mem_recoverable sm best).mp hmem, fun w hw hk => ?_, fun key w hkw => ?_⟩
            · exact le_seqnum (hmax w ((mem_recoverable sm w).mpr ⟨hw, hk⟩))
            · have := seqnum_le_highest sm key w hkw
              simp only [newSeqnum]; omega
  · intro hf hw b hb
    unfold repairDecide
    rw [hb]
    simp [hf, hw]

example : repairDecide smNewer true true = .republish v3 6 ∧ repairDecide smHealthy false true = .republish v3 4 ∧
    repairDecide smHealthy false false = .needWritecap := by decide

/-- `download_version(servermap, v)` reads `v` or fails — whatever servermap it ends up consulting (the one handed
    in, or the fresh MODE_READ survey that replaces a map made in another mode).  In particular the contents the
    repairer hands to `upload` are those of the version it chose from its full map, or the repair fails with
    `UnrecoverableFileError` and writes nothing: a partial survey that cannot see the best version never makes the
    repair republish an older one. -/
theorem download_version_exact (smRead : ServerMap) (v : VerInfo) :
    (∀ w, getVersion smRead (some v) = some w → w = v ∧ smRead.Located v ∧ v.k ≤ smRead.distinctShnums v) ∧
    (getVersion smRead (some v) = none ↔ ¬ (smRead.Located v ∧ v.k ≤ smRead.distinctShnums v)) := by
  simp only [getVersion]
  by_cases hm : v ∈ smRead.recoverable
  · simp only [hm, if_true]
    refine ⟨fun w h => ?_, ?_⟩
    · simp only [Option.some.injEq] at h
      exact ⟨h.symm, (mem_recoverable smRead v).mp hm⟩
    · constructor
      · intro h; simp at h
      · intro h; exact absurd ((mem_recoverable smRead v).mp hm) h
  · simp only [hm, if_false]
    refine ⟨fun w h => by simp at h, ?_⟩
    constructor
    · intro _ hrec; exact hm ((mem_recoverable smRead v).mpr hrec)
    · intro _; trivial

/-- the stale-head shape: the full map sees seq 5 (recoverable) and seq 3; the partial read map only seq 3 -/
example : repairDecide { known := [((10, 0), v3), ((11, 1), v3), ((12, 0), v5), ((13, 1), v5)] } false true = .republish v5 6 ∧
    getVersion { known := [((10, 0), v3), ((11, 1), v3)] } (some v5) = none ∧
    getVersion { known := [((10, 0), v3), ((11, 1), v3)] } none = some v3 := by decide

/-- Composition: whatever map the download consults, a repair that goes ahead uploads the contents of the best
    version of the full map or nothing. -/
theorem repair_uploads_best_or_nothing (smFull smRead : ServerMap) (force wk : Bool) (b : VerInfo) (s : Nat)
    (_h : repairDecide smFull force wk = .republish b s) :
    getVersion smRead (some b) = some b ∨ getVersion smRead (some b) = none := by
  simp only [getVersion]
  by_cases hm : b ∈ smRead.recoverable
  · left; simp [hm]
  · right; simp [hm]

/-- With verify: the checker reports healthy exactly when, among the shares the verifier did NOT mark bad, there is
    a single version and it has at least `k` and at least `N` distinct share numbers.  (Which shares the verifier
    marks is the hash checking of C10 plus the field checks repaired as 93bab9f / 5d94ff9; this theorem covers every
    set of marks.) -/
theorem healthy_with_verify_iff (sm : ServerMap) (bads : List (ShareKey × List Nat)) :
    (makeCheckerResults (afterVerify sm bads)).healthy = true ↔
    ∃ v, (∃ key, key ∉ bads.map (·.1) ∧ (key, v) ∈ sm.known) ∧
      (∀ key w, key ∉ bads.map (·.1) → (key, w) ∈ sm.known → w = v) ∧
      v.k ≤ (afterVerify sm bads).distinctShnums v ∧ v.n ≤ (afterVerify sm bads).distinctShnums v := by
  rw [healthy_iff]
  constructor
  · rintro ⟨v, hloc, huniq, hk, hn⟩
    refine ⟨v, (located_afterVerify sm bads v).mp hloc, fun key w hk' hw => ?_, hk, hn⟩
    exact huniq w ((located_afterVerify sm bads w).mpr ⟨key, hk', hw⟩)
  · rintro ⟨v, hloc, huniq, hk, hn⟩
    refine ⟨v, (located_afterVerify sm bads v).mpr hloc, fun w hw => ?_, hk, hn⟩
    obtain ⟨key, hk', hw'⟩ := (located_afterVerify sm bads w).mp hw
    exact huniq key w hk' hw'

/-- all three shares present, the verifier marks share 1 on server 11: two good shares of three ⇒ not healthy;
    with no marks the same map is healthy -/
example : (makeCheckerResults (afterVerify smHealthy [((11, 1), [0])])).healthy = false ∧
    (afterVerify smHealthy [((11, 1), [0])]).distinctShnums v3 = 2 ∧
    (makeCheckerResults (afterVerify smHealthy [])).healthy = true := by decide

end Tahoe.C14
