import Tahoe.Web.Range
namespace Tahoe.C40
open Tahoe.Web
theorem placeholder : True := trivial
end Tahoe.C40
