import Tahoe.Web.Lemmas
import Tahoe.Web.LemmasHandler
/-! C40 — Web API byte-range downloads follow RFC 7233 (property theorems; helper lemmas are in
`Tahoe/Web/Lemmas.lean` and `Tahoe/Web/LemmasHandler.lean`, the grammar used in the statements in
`Tahoe/Web/Grammar.lean`, the models in `Tahoe/Web/Range.lean` (`FileDownloader.parse_range_header`,
`FileDownloader.render`) and `Tahoe/Web/Handler.lean` (`FileNodeHandler.render_GET` / `render_HEAD`)).

`render .fixed` is the model of the code as it now is in /repo (fixes/C40-range-edges.diff and
fixes/C40-head-etag.diff are committed there); `render .asIs` is `FileDownloader` before the range fix,
for which two counterexamples are kept below.

## Coverage of the statement

| clause of the statement (properties.jsonl C40)                         | theorem(s) on the model |
|---|---|
| "for any file size and range" / single byte-range header (RFC grammar, numerals = any non-empty digit strings, any file) | quantification of every theorem below: `file : Bytes`, `f l n : Num` unbounded |
| 206 with exactly the requested bytes clipped at end-of-file            | `closed_range_206`, `open_range_206`, `suffix_range_206` (body = `slice file first (min last (size-1))`, length lemma included) |
| ... and a matching Content-Range (and Content-Length = length of the body)        | same three theorems; for *every* header string, grammar or not: `every_206_wellformed` |
| 416 when the range starts at or beyond the end                         | `beyond_end_416` (`first-last` and `first-`); recorded reading: suffix of length 0 / suffix on an empty file is ignored → `suffix_zero_or_empty_full` |
| the full file when the header cannot be parsed                         | `unparsed_full` (whatever `parse_range_header` rejects), and concretely `inverted_range_full`, `unknown_unit_full`, `no_equals_full` |
| HEAD returns the same status and headers without a body                | `head_is_get_without_body` (model of `render_GET`/`render_HEAD`: status, ETag, Content-Range, Content-Length), `head_same_headers_no_body` (`FileDownloader.render` alone) |
| (multi-range: first range only — RFC permits a subset; outside "single") | `multi_range_first_only` |
| ETag / If-None-Match (as far as "same status and headers" goes)        | `if_none_match_hit_304`, `if_none_match_miss_ignored`, `handler_is_downloader` |
| "for literal, immutable and mutable files" (quantifier)                | `render_over_any_slice_reader` (+ `closed_range_body_over_any_slice_reader`): `FileDownloader.render` over *any* node whose `read(offset, size)` is a slice reader answers exactly as over the in-memory file, for every header string, GET and HEAD. The hypothesis `SliceReader` is what C04 `read_slice` / `read_slice_literal` (CHK, LIT) and C09 `read_range_slice` / `read_to_end` (SDMF, MDMF) prove for their node models (cited, not imported: those node models are other properties' files); that the real nodes behave so is additionally tied here by the routed GET/HEAD correspondence (multi-segment CHK with segment sizes 64 and 66, production-size 3-segment MDMF, every segment boundary). The handler model is parametric in `NodeInfo` (mutable?, storage index?) |
| Accept-Ranges, Content-Type equal on HEAD and GET                      | monitor only (routed path) |
| the code before the fixes violates the statement                       | `asIs_suffix_on_empty_counterexample`, `asIs_open_range_at_end_counterexample` |

Hypotheses that exclude inputs: the grammar theorems take headers `bytes=` + one spec built from digit
lists; headers outside the grammar are covered by `every_206_wellformed` / `unparsed_full` (any string)
and by the examples with lenient numerals (`+0_1`, inner spaces). Non-ASCII header bytes are outside
the model (correspondence sends ASCII only). -/
namespace Tahoe.C40
open Tahoe.Web

/-- `bytes=f-l` with `f ≤ l` and `f < size`: 206 with exactly `file[f .. min(l, size-1)]`, the matching
Content-Range and Content-Length = |body|; HEAD: same status and headers, no body. -/
theorem closed_range_206 (file : Bytes) (isHead : Bool) (f l : Num) (hf : f ≠ []) (hl : l ≠ [])
    (hle : numVal f ≤ numVal l) (hsat : numVal f < file.length) :
    let last := min (numVal l) (file.length - 1)
    render .fixed file isHead (some (hdrOf (.range f l))) =
      ⟨206, some ((numVal f : Int), (last : Int), file.length), ((last + 1 - numVal f : Nat) : Int),
        if isHead then [] else slice file (numVal f) last⟩
    ∧ (slice file (numVal f) last).length = last + 1 - numVal f := by
  intro last
  constructor
  · simp only [render, parseRangeHeader_single, parseRange_range _ _ f l hf hl]
    have h1 : ¬ ((numVal l : Int) < numVal f) := by omega
    have h2 : ¬ ((numVal f : Int) ≥ (file.length : Int)) := by omega
    have e1 : max (0 : Int) (numVal f) = numVal f := by omega
    have e2 : min ((file.length : Int) - 1) (numVal l) = (last : Int) := by omega
    have e3 : ((last : Int) - (numVal f : Int) + 1) = ((last + 1 - numVal f : Nat) : Int) := by omega
    simp [hdrOf, h1, h2, e1, e2, e3, nodeRead, slice]
  · simp only [slice, List.length_take, List.length_drop]; omega

example : render .fixed [10, 11, 12, 13, 14] false (some "bytes=1-3".toList) = ⟨206, some (1, 3, 5), 3, [11, 12, 13]⟩ := by decide
example : render .fixed [10, 11, 12, 13, 14] false (some "bytes=03-99".toList) = ⟨206, some (3, 4, 5), 2, [13, 14]⟩ := by decide

/-- `bytes=f-` with `f < size`: 206 with `file[f .. size-1]`. -/
theorem open_range_206 (file : Bytes) (isHead : Bool) (f : Num) (hf : f ≠ []) (hsat : numVal f < file.length) :
    render .fixed file isHead (some (hdrOf (.openEnded f))) =
      ⟨206, some ((numVal f : Int), ((file.length - 1 : Nat) : Int), file.length), ((file.length - numVal f : Nat) : Int),
        if isHead then [] else slice file (numVal f) (file.length - 1)⟩
    ∧ (slice file (numVal f) (file.length - 1)).length = file.length - numVal f := by
  constructor
  · simp only [render, parseRangeHeader_single, parseRange_open _ _ f hf]
    have h2 : ¬ ((numVal f : Int) ≥ (file.length : Int)) := by omega
    have e1 : max (0 : Int) (numVal f) = numVal f := by omega
    have e2 : min ((file.length : Int) - 1) (max (numVal f : Int) ((file.length : Int) - 1)) = ((file.length - 1 : Nat) : Int) := by omega
    have e3 : (((file.length - 1 : Nat) : Int) - (numVal f : Int) + 1) = ((file.length - numVal f : Nat) : Int) := by omega
    have e4 : file.length - 1 + 1 - numVal f = file.length - numVal f := by omega
    simp [hdrOf, h2, e1, e2, e3, e4, nodeRead, slice]
  · simp only [slice, List.length_take, List.length_drop]; omega

example : render .fixed [10, 11, 12, 13, 14] false (some "bytes=2-".toList) = ⟨206, some (2, 4, 5), 3, [12, 13, 14]⟩ := by decide

/-- `bytes=-n` with `n > 0` on a non-empty file: 206 with the last `n` bytes (the whole file if it is shorter). -/
theorem suffix_range_206 (file : Bytes) (isHead : Bool) (n : Num) (hn : n ≠ []) (hpos : 0 < numVal n)
    (hne : 0 < file.length) :
    let first := file.length - numVal n
    render .fixed file isHead (some (hdrOf (.suffix n))) =
      ⟨206, some ((first : Int), ((file.length - 1 : Nat) : Int), file.length), ((file.length - first : Nat) : Int),
        if isHead then [] else slice file first (file.length - 1)⟩
    ∧ (slice file first (file.length - 1)).length = min (numVal n) file.length := by
  intro first
  constructor
  · simp only [render, parseRangeHeader_single, parseRange_suffix _ _ n hn]
    have h1 : ¬ ((file.length : Int) - 1 < max 0 ((file.length : Int) - numVal n)) := by omega
    have h2 : ¬ (max (0 : Int) ((file.length : Int) - numVal n) ≥ (file.length : Int)) := by omega
    have e1 : max (0 : Int) (max 0 ((file.length : Int) - numVal n)) = (first : Int) := by omega
    have e2 : min ((file.length : Int) - 1) ((file.length : Int) - 1) = ((file.length - 1 : Nat) : Int) := by omega
    have e3 : (((file.length - 1 : Nat) : Int) - (first : Int) + 1) = ((file.length - first : Nat) : Int) := by omega
    have e4 : file.length - 1 + 1 - first = file.length - first := by omega
    simp [hdrOf, h1, h2, e1, e2, e3, e4, nodeRead, slice]
  · simp only [slice, List.length_take, List.length_drop]; omega

example : render .fixed [10, 11, 12, 13, 14] false (some "bytes=-2".toList) = ⟨206, some (3, 4, 5), 2, [13, 14]⟩ := by decide
example : render .fixed [10, 11, 12] true (some "bytes=-200".toList) = ⟨206, some (0, 2, 3), 3, []⟩ := by decide

/-- a range that starts at or beyond the end (`bytes=f-l`, `f ≤ l`, or `bytes=f-`, with `f ≥ size`): 416. -/
theorem beyond_end_416 (file : Bytes) (isHead : Bool) (f : Num) (hf : f ≠ []) (hbeyond : file.length ≤ numVal f) :
    (render .fixed file isHead (some (hdrOf (.openEnded f)))).status = 416
    ∧ ∀ l : Num, l ≠ [] → numVal f ≤ numVal l →
        (render .fixed file isHead (some (hdrOf (.range f l)))).status = 416 := by
  constructor
  · simp only [render, parseRangeHeader_single, parseRange_open _ _ f hf]
    have h2 : ((numVal f : Int) ≥ (file.length : Int)) := by omega
    simp [hdrOf, h2]
  · intro l hl hle
    simp only [render, parseRangeHeader_single, parseRange_range _ _ f l hf hl]
    have h1 : ¬ ((numVal l : Int) < numVal f) := by omega
    have h2 : ((numVal f : Int) ≥ (file.length : Int)) := by omega
    simp [hdrOf, h1, h2]

example : (render .fixed [10, 11, 12] false (some "bytes=3-".toList)).status = 416
    ∧ (render .fixed [] false (some "bytes=0-".toList)).status = 416
    ∧ (render .fixed [10, 11, 12] true (some "bytes=7-9".toList)).status = 416 := by decide

/-- whatever `parse_range_header` rejects is answered with the full file -/
theorem unparsed_full (file : Bytes) (isHead : Bool) (h : Str)
    (hp : parseRangeHeader .fixed file.length h = none) :
    render .fixed file isHead (some h) = fullResp file isHead := by
  simp only [render, hp, fullResp, nodeRead, List.drop_zero]
  split <;> rfl

/-- `bytes=f-l` with `l < f` (an invalid byte-range-spec): ignored, full 200 -/
theorem inverted_range_full (file : Bytes) (isHead : Bool) (f l : Num) (hf : f ≠ []) (hl : l ≠ [])
    (hlt : numVal l < numVal f) :
    render .fixed file isHead (some (hdrOf (.range f l))) = fullResp file isHead := by
  apply unparsed_full
  rw [parseRangeHeader_single, parseRange_range _ _ f l hf hl]
  have : ((numVal l : Int) < numVal f) := by omega
  simp [this]

/-- a unit other than `bytes`: ignored, full 200 -/
theorem unknown_unit_full (file : Bytes) (isHead : Bool) (units rest : Str)
    (hu : units ≠ "bytes".toList) (hne : ∀ x ∈ units, (x == '=') = false) :
    render .fixed file isHead (some (units ++ '=' :: rest)) = fullResp file isHead := by
  apply unparsed_full
  simp only [parseRangeHeader, splitOnce_append _ _ _ hne]
  simp
  intro h
  exact absurd (h.trans (by decide)) hu

/-- no `=` at all: ignored, full 200 -/
theorem no_equals_full (file : Bytes) (isHead : Bool) (h : Str) (hne : splitOnce '=' h = none) :
    render .fixed file isHead (some h) = fullResp file isHead := by
  apply unparsed_full
  simp [parseRangeHeader, hne]

example : render .fixed [10, 11] false (some "bytes=1-0".toList) = fullResp [10, 11] false
    ∧ render .fixed [10, 11] false (some "bits=0-1".toList) = fullResp [10, 11] false
    ∧ render .fixed [10, 11] false (some "bytes=abc".toList) = fullResp [10, 11] false
    ∧ render .fixed [10, 11] false (some "bytes".toList) = fullResp [10, 11] false
    ∧ render .fixed [10, 11] false none = fullResp [10, 11] false := by decide

/-- recorded reading (DESIGN C40): a suffix range of length 0, or any suffix range on an empty file,
is ignored (full 200) — never a 206 -/
theorem suffix_zero_or_empty_full (file : Bytes) (isHead : Bool) (n : Num) (hn : n ≠ [])
    (h0 : numVal n = 0 ∨ file.length = 0) :
    render .fixed file isHead (some (hdrOf (.suffix n))) = fullResp file isHead := by
  apply unparsed_full
  rw [parseRangeHeader_single, parseRange_suffix _ _ n hn]
  have : ((file.length : Int) - 1 < max 0 ((file.length : Int) - numVal n)) := by omega
  simp [this]

example : render .fixed [] false (some "bytes=-5".toList) = fullResp [] false := by decide

/-- HEAD returns the same status and headers as GET, and no body — for every header, both variants -/
theorem head_same_headers_no_body (v : Variant) (file : Bytes) (hdr : Option Str) :
    let g := render v file false hdr
    let h := render v file true hdr
    h.status = g.status ∧ h.contentRange = g.contentRange ∧ h.contentLength = g.contentLength ∧ h.body = [] := by
  simp only [render]
  cases hdr with
  | none => simp
  | some h =>
    simp only
    split
    · simp
    · split
      · simp
      · simp
      · split <;> simp

/-- every 206 of the repaired code is well formed, for *every* header string (grammar or not):
`0 ≤ first ≤ last < size`, Content-Range names them, Content-Length = last-first+1 = |body| on GET
and the body is `file[first..last]`. -/
theorem every_206_wellformed (file : Bytes) (isHead : Bool) (hdr : Option Str)
    (h206 : (render .fixed file isHead hdr).status = 206) :
    ∃ first last : Nat, first ≤ last ∧ last < file.length ∧
      render .fixed file isHead hdr =
        ⟨206, some ((first : Int), (last : Int), file.length), ((last + 1 - first : Nat) : Int),
          if isHead then [] else slice file first last⟩ := by
  cases hdr with
  | none => simp [render] at h206
  | some h =>
    simp only [render] at h206 ⊢
    by_cases he : h.isEmpty
    · simp [he] at h206
    · simp only [he, Bool.false_eq_true, ↓reduceIte] at h206 ⊢
      cases hp : parseRangeHeader .fixed file.length h with
      | none => simp [hp] at h206
      | some l =>
        cases l with
        | nil => simp [hp] at h206
        | cons p ps =>
          obtain ⟨a, b⟩ := p
          obtain ⟨r, hr⟩ := parseRangeHeader_head _ _ _ _ _ hp
          obtain ⟨h0, hab⟩ := parseRange_fixed_bounds _ _ _ _ hr
          simp only [hp] at h206 ⊢
          by_cases hge : a ≥ (file.length : Int)
          · simp [hge] at h206
          · simp only [hge, ↓reduceIte]
            refine ⟨a.toNat, (min ((file.length : Int) - 1) b).toNat, by omega, by omega, ?_⟩
            have e1 : max (0 : Int) a = (a.toNat : Int) := by omega
            have e2 : ((min ((file.length : Int) - 1) b).toNat : Int) = min ((file.length : Int) - 1) b := by omega
            have e3 : min ((file.length : Int) - 1) b - (a.toNat : Int) + 1
                = (((min ((file.length : Int) - 1) b).toNat + 1 - a.toNat : Nat) : Int) := by omega
            have e4 : (max a 0).toNat = a.toNat := by omega
            rw [e1, e2, e3]
            simp [nodeRead, slice, e4]

example : (render .fixed [10, 11, 12] false (some "bytes= +0_1 - 1_0 , 7-".toList)) = ⟨206, some (1, 2, 3), 2, [11, 12]⟩ := by decide

/-- multi-range sets: the answer is the answer to the first range alone, provided every later
range is one that `parse_range` accepts (otherwise the whole header is ignored) -/
theorem multi_range_first_only (file : Bytes) (isHead : Bool) (s : Spec) (rest : List Spec)
    (hrest : ∀ t ∈ rest, parseRange .fixed file.length t.str ≠ none) :
    render .fixed file isHead (some (hdrOfSet s rest)) = render .fixed file isHead (some (hdrOf s)) := by
  obtain ⟨ys, hys⟩ := parseRangeHeader_set .fixed file.length s rest hrest
  have e1 : (hdrOfSet s rest).isEmpty = false := by simp [hdrOfSet]
  have e2 : (hdrOf s).isEmpty = false := by simp [hdrOf]
  simp only [render, e1, e2, hys, parseRangeHeader_single]
  cases parseRange .fixed file.length s.str <;> simp

example : render .fixed [10, 11, 12, 13] false (some (hdrOfSet (.range [1] [2]) [.suffix [1], .openEnded [9]]))
    = ⟨206, some (1, 2, 4), 2, [11, 12]⟩ := by decide

/-- the code as it is: a suffix range on an empty file yields a 206 whose Content-Range is
`bytes 0--1/0` (DESIGN §3 probe) -/
theorem asIs_suffix_on_empty_counterexample :
    render .asIs [] false (some "bytes=-5".toList) = ⟨206, some (0, -1, 0), 0, []⟩ := by decide

/-- the code as it is: an open-ended range that starts exactly at the end is answered with the full
file instead of 416 -/
theorem asIs_open_range_at_end_counterexample :
    render .asIs [10, 11, 12] false (some "bytes=3-".toList) = ⟨200, none, 3, [10, 11, 12]⟩ := by decide

/-! ### the composition Range header → parsed range → `filenode.read(offset, size)` → body -/

/-- `FileDownloader.render` over *any* node (`renderWith`: `get_size()` = `file.length`, `read(req, offset, size)`
= `rd offset size`): if the node's `read` is a slice reader of `file` — whole file for `(0, None)`,
`file[offset : offset+size]` for non-empty in-range requests, which is what C04 `read_slice` /
`read_slice_literal` prove for immutable and literal nodes and C09 `read_range_slice` / `read_to_end` for
mutable ones — then for every Range header string whatsoever and GET or HEAD the response (status,
Content-Range, Content-Length, body) is the one over the in-memory file, so every theorem above about
`render .fixed file` (206 body = `file[first .. min(last, size-1)]`, 416, ignored headers) holds for that node. -/
theorem render_over_any_slice_reader (file : Bytes) (rd : Nat → Option Nat → Bytes) (hrd : SliceReader file rd)
    (isHead : Bool) (hdr : Option Str) :
    renderWith .fixed file.length rd isHead hdr = render .fixed file isHead hdr :=
  renderWith_sliceReader file rd hrd isHead hdr

/-- the composed statement for a closed range: header `bytes=f-l` → `read(f, min(l,size-1)-f+1)` → body
`file[f .. min(l, size-1)]` -/
theorem closed_range_body_over_any_slice_reader (file : Bytes) (rd : Nat → Option Nat → Bytes)
    (hrd : SliceReader file rd) (f l : Num) (hf : f ≠ []) (hl : l ≠ [])
    (hle : numVal f ≤ numVal l) (hsat : numVal f < file.length) :
    (renderWith .fixed file.length rd false (some (hdrOf (.range f l)))).status = 206
    ∧ (renderWith .fixed file.length rd false (some (hdrOf (.range f l)))).body
        = slice file (numVal f) (min (numVal l) (file.length - 1)) := by
  rw [render_over_any_slice_reader file rd hrd, (closed_range_206 file false f l hf hl hle hsat).1]
  simp

/-- non-vacuity: the in-memory node is a slice reader, and so is a reader that cuts the other way round
(`file[:offset+size][offset:]`); a run over the latter -/
example (file : Bytes) : SliceReader file (nodeRead file)
    ∧ SliceReader file (fun off sz => match sz with | none => file.drop off | some n => (file.take (off + n)).drop off) :=
  ⟨nodeRead_sliceReader file, by simp, fun first n _ _ => by simp [List.drop_take]⟩

example : renderWith .fixed 5 (fun off sz => match sz with
      | none => ([10, 11, 12, 13, 14] : Bytes).drop off | some n => (([10, 11, 12, 13, 14] : Bytes).take (off + n)).drop off)
      false (some "bytes=1-3".toList) = ⟨206, some (1, 3, 5), 3, [11, 12, 13]⟩ := by decide

/-! ### `FileNodeHandler.render_GET` / `render_HEAD` (ETag, If-None-Match, then the range logic) -/

/-- HEAD returns the same status and headers as GET, without a body: for every node (literal /
immutable / mutable), file, `If-None-Match` and `Range` header, and both model variants, the answer of
`render_HEAD` is the answer of `render_GET` with the body removed (ETag included). -/
theorem head_is_get_without_body (v : Variant) (n : NodeInfo) (file : Bytes) (inm range : Option Str) :
    renderHEAD v n file inm range = { renderGET v n file inm range with body := [] } := by
  rw [renderGET_eq, renderHEAD_eq]
  cases etagOf n with
  | none => simp only [render_head_eq, ofResp_head]
  | some e =>
    simp only
    split
    · rfl
    · simp only [render_head_eq, ofResp_head]

example : renderGET .fixed ⟨false, some "abc".toList⟩ [10, 11, 12, 13] none (some "bytes=1-2".toList)
      = ⟨206, some "abc-".toList, some (1, 2, 4), some 2, [11, 12]⟩
    ∧ renderHEAD .fixed ⟨false, some "abc".toList⟩ [10, 11, 12, 13] none (some "bytes=1-2".toList)
      = ⟨206, some "abc-".toList, some (1, 2, 4), some 2, []⟩ := by decide

/-- a conditional request that names the file's ETag (or `*`) is answered 304 with the ETag and no
body, by GET and HEAD alike, whatever the Range header -/
theorem if_none_match_hit_304 (v : Variant) (n : NodeInfo) (file : Bytes) (t : Str) (range : Option Str)
    (e : Str) (he : etagOf n = some e) (hne : t ≠ [])
    (hit : e ∈ splitWs t ∨ ['*'] ∈ splitWs t) :
    renderGET v n file (some t) range = ⟨304, some e, none, none, []⟩
    ∧ renderHEAD v n file (some t) range = ⟨304, some e, none, none, []⟩ := by
  have hc : setETagCached e (some t) = true := by
    have : t.isEmpty = false := by cases t <;> simp_all
    simp only [setETagCached, this, Bool.false_eq_true, ↓reduceIte, Bool.or_eq_true, List.contains_iff_mem]
    exact hit
  rw [renderGET_eq, renderHEAD_eq, he]
  simp [hc, cached]

example : renderGET .fixed ⟨false, some "abc".toList⟩ [10, 11] (some "x  abc-\ty".toList) (some "bytes=0-0".toList)
      = ⟨304, some "abc-".toList, none, none, []⟩ := by decide

/-- a conditional request whose tags do not name the ETag, and any `If-None-Match` on a node without
an ETag (mutable, literal), is answered as if the header were absent -/
theorem if_none_match_miss_ignored (v : Variant) (n : NodeInfo) (file : Bytes) (t : Str) (range : Option Str)
    (miss : ∀ e, etagOf n = some e → e ∉ splitWs t ∧ ['*'] ∉ splitWs t) :
    renderGET v n file (some t) range = renderGET v n file none range
    ∧ renderHEAD v n file (some t) range = renderHEAD v n file none range := by
  rw [renderGET_eq, renderHEAD_eq, renderGET_eq, renderHEAD_eq]
  cases he : etagOf n with
  | none => simp
  | some e =>
    have := miss e he
    have hc : setETagCached e (some t) = false := by
      simp only [setETagCached]
      split
      · rfl
      · simp [this.1, this.2]
    have hn : setETagCached e none = false := rfl
    simp only [hc, hn]
    simp

example : renderGET .fixed ⟨true, some "abc".toList⟩ [10, 11] (some "*".toList) none
      = ⟨200, none, none, some 2, [10, 11]⟩
    ∧ renderGET .fixed ⟨false, none⟩ [10, 11] (some "*".toList) none = ⟨200, none, none, some 2, [10, 11]⟩
    ∧ renderGET .fixed ⟨false, some "abc".toList⟩ [10, 11] (some "\"abc-\"".toList) none
      = ⟨200, some "abc-".toList, none, some 2, [10, 11]⟩ := by decide

/-- without a matching `If-None-Match` the handler's answer is the `FileDownloader` answer (the range
theorems above) plus the ETag: status, Content-Range, Content-Length and body are those of `render` -/
theorem handler_is_downloader (v : Variant) (n : NodeInfo) (file : Bytes) (range : Option Str) :
    renderGET v n file none range = ofResp (etagOf n) (render v file false range)
    ∧ renderHEAD v n file none range = ofResp (etagOf n) (render v file true range) := by
  rw [renderGET_eq, renderHEAD_eq]
  cases etagOf n <;> simp [setETagCached]

end Tahoe.C40
