import Tahoe.Http.LemmasAuth
import Tahoe.Http.LemmasSpec
import Tahoe.Http.LemmasUploads
/-! C30 — HTTP storage API authorization (property theorems; helper lemmas are in `Tahoe/Http/LemmasAuth.lean`,
`LemmasSpec.lean` and `LemmasUploads.lean`).

`step sw st rq` is one request against an `HTTPServer` whose swissnum is `sw`, in state `st` (finished
immutable shares, uploads in progress, mutable shares, advisories); `run` folds it over a history, `runEvents` over a history
of requests and upload timeouts / disconnects; `migrate` is the share directory served by another node.  The route
table, the secret names and the fact that every route is wrapped by `_authorization_decorator` are generated from
the live klein app; the first four theorems pin the documented values, so a changed route or secret requirement
breaks a named theorem.  The model is per request: nothing but the state connects two requests (in particular no
connection), which is itself the specification `authorization_is_pure` states.

## Coverage of the statement (properties.jsonl C30)

| clause | theorem(s) |
|---|---|
| "no request without the server's correct swissnum receives share data or changes any state" | `no_swissnum_no_effect` (every request, route, state: state unchanged, 401/400/404, no share byte, answer independent of the state), `swissnum_check_exact`; over histories `unauthorized_requests_are_noops` |
| the decision depends on nothing but (route, headers) — not on the state, earlier requests or the connection | `authorization_is_pure`, `served_iff_authorized` (handler runs ⇔ `Authorized`: swissnum header first, every secret value well formed, kinds present = kinds required), `matched_route_is_generated`, `all_routes_wrapped_by_authorization`, `route_table_documented`, `route_table_modelled`, `secret_names_documented`.  That the real server keeps no per-connection memory is correspondence/monitor only (keep-alive sequences in harness/props/c30.py) |
| "requests with missing or malformed secrets are rejected without side effects" | `bad_secrets_no_effect` (400 / 500, state unchanged), `accepted_secrets_well_formed`, `handler_receives_collected_secrets` (exactly which value sets are accepted and what the handler receives) |
| "writes to or aborts of an in-progress upload require that upload's secret" | `upload_secret_required` (any state change by PATCH / PUT …/abort on an upload in progress ⇒ gate passed and presented secret = that upload's, whichever other uploads exist) |
| … and nothing else removes or replaces an upload in progress (an allocation in particular) | `upload_untouched_without_its_secret` (one request), `uploads_change_only_by_their_own_secret` (histories), `allocate_leaves_uploads_alone`; with timeouts and disconnects (`BucketWriter._abort_due_to_timeout`, `disconnected`) as request-independent events: `uploads_change_only_by_secret_or_timeout`, `timeout_removes_only_its_upload` |
| "mutable writes require the write enabler" | `enabler_required` (any state change by read-test-write on a slot holding a share — existing, new or mixed share numbers — ⇒ presented enabler = every existing share's) |
| … whichever node recorded the share (shares copied to / served by a node with another nodeid) | `enabler_decision_ignores_nodeid`, `rtw_refused_iff_enabler_differs`, `rtw_refused_changes_nothing`, `migration_keeps_enablers` |
| quantifier "histories … interleaved with legitimate uploads by other clients" | `unauthorized_requests_are_noops` (final state and the answers to the authorized requests are those of the history without the unauthorized ones) |
| TLS, certificate pin | not covered (out of scope, DESIGN) |
-/
namespace Tahoe.C30
open Tahoe.Http Tahoe.Generated

/-- every endpoint of `HTTPServer._app` is klein's wrapper around `_authorization_decorator`'s closure -/
theorem all_routes_wrapped_by_authorization : Http.allRoutesAuthorized = true := by decide

/-- the documented routes (docs/specifications/http-storage-node-protocol) with methods and required secrets -/
theorem route_table_documented :
    Http.routes.map (fun r => (r.1, r.2.1, r.2.2.2)) =
      [("abort_share_upload", ["PUT"], ["upload-secret"]),
       ("add_or_renew_lease", ["PUT"], ["lease-cancel-secret", "lease-renew-secret"]),
       ("advise_corrupt_share_immutable", ["POST"], []),
       ("advise_corrupt_share_mutable", ["POST"], []),
       ("allocate_buckets", ["POST"], ["lease-cancel-secret", "lease-renew-secret", "upload-secret"]),
       ("enumerate_mutable_shares", ["GET", "HEAD"], []),
       ("list_shares", ["GET", "HEAD"], []),
       ("mutable_read_test_write", ["POST"], ["lease-cancel-secret", "lease-renew-secret", "write-enabler"]),
       ("read_mutable_chunk", ["GET", "HEAD"], []),
       ("read_share_chunk", ["GET", "HEAD"], []),
       ("version", ["GET", "HEAD"], []),
       ("write_share_data", ["PATCH"], ["upload-secret"])] := by decide

/-- every generated route is known to the model and all its secret names are `Secrets` members -/
theorem route_table_modelled :
    Http.routes.all (fun r => (Route.ofEndpoint r.1).isSome && r.2.2.2.all (fun n => (Secret.ofName n).isSome)) = true := by
  decide

theorem secret_names_documented :
    Http.secretNames = ["lease-renew-secret", "lease-cancel-secret", "upload-secret", "write-enabler"] ∧
    Http.authPrefix = "Tahoe-LAFS " := by decide

/-- The swissnum check passes exactly when the *first* `Authorization` value is
`"Tahoe-LAFS " ++ base64(swissnum)` (and all `Authorization` values are UTF-8). -/
theorem swissnum_check_exact (sw : Bytes) (auth : List Bytes) :
    authCheck sw auth = .ok ↔
      auth.head? = some (authHeader sw) ∧ auth.all (fun x => (utf8Decode x).isSome) = true :=
  authCheck_ok_iff sw auth

/-- **No swissnum, no effect.**  For every server state and every request — whatever its route, secrets and
body — whose first `Authorization` value is not the server's (missing, wrong, truncated, a later duplicate…):
the state is unchanged; the answer is 401 (400 when a value is not UTF-8, 404 when werkzeug finds no route);
the response carries no share byte; and the response is the same whatever the server holds. -/
theorem no_swissnum_no_effect (sw : Bytes) (st : State) (rq : Request)
    (h : rq.auth.head? ≠ some (authHeader sw)) :
    (step sw st rq).1 = st ∧
    ((step sw st rq).2.status = 401 ∨ (step sw st rq).2.status = 400 ∨ (step sw st rq).2.status = 404) ∧
    (step sw st rq).2.shareBytes = [] ∧
    ∀ st', (step sw st' rq).2 = (step sw st rq).2 := by
  have hne : authCheck sw rq.auth ≠ .ok := fun hc => h ((authCheck_ok_iff sw rq.auth).mp hc).1
  unfold step gate
  cases hm : matchRoute rq.method rq.path with
  | none => simp [Response.shareBytes]
  | some m =>
    cases ha : authCheck sw rq.auth with
    | ok => exact absurd ha hne
    | badUnicode => simp [Response.shareBytes]
    | wrong => simp [Response.shareBytes]

example : (step [1, 2, 3] { imm := [(("aaaaaaaaaaaaaaaaaaaaaaaaaa", 0), ⟨[7, 7, 7], []⟩)] }
    ⟨"GET", ["storage", "v1", "immutable", "aaaaaaaaaaaaaaaaaaaaaaaaaa", "0"], [authHeader [1, 2, 4]], [], .none⟩).2.status
    = 401 := by decide

/-- the same request with the right swissnum does read the share (the theorem above is not vacuous) -/
example : (step [1, 2, 3] { imm := [(("aaaaaaaaaaaaaaaaaaaaaaaaaa", 0), ⟨[7, 7, 7], []⟩)] }
    ⟨"GET", ["storage", "v1", "immutable", "aaaaaaaaaaaaaaaaaaaaaaaaaa", "0"], [authHeader [1, 2, 3]], [], .none⟩).2
    = ⟨200, .share [7, 7, 7]⟩ := by decide

/-- **Bad secrets, no effect.**  With the right swissnum, when `_extract_secrets` rejects the
`X-Tahoe-Authorization` values (malformed value, unknown key, empty secret, lease secret not 32 bytes, key set
different from the route's) the answer is 400 and nothing changes; values that are not UTF-8 give 500, also
without any change. -/
theorem bad_secrets_no_effect (sw : Bytes) (st : State) (rq : Request) (m : Matched)
    (hm : matchRoute rq.method rq.path = some m) (ha : authCheck sw rq.auth = .ok) :
    (rq.xauth.mapM utf8Decode = none → step sw st rq = (st, ⟨500, .html⟩)) ∧
    (∀ vals e, rq.xauth.mapM utf8Decode = some vals → extractSecrets vals m.required = .error e →
      step sw st rq = (st, ⟨400, .text (secretsMessage e)⟩)) := by
  constructor
  · intro hv
    simp [step, gate, hm, ha, hv]
  · intro vals e hv he
    simp [step, gate, hm, ha, hv, he]

/-- what `_extract_secrets` lets through: exactly the required kinds, no empty value, lease secrets of 32
bytes — so a missing or (in this sense) malformed secret is always rejected by the theorem above. -/
theorem accepted_secrets_well_formed (vals : List (List Nat)) (required : List Secret) (d : SecretsDict)
    (h : extractSecrets vals required = .ok d) :
    sameKeySet d required = true ∧
    ∀ p ∈ d, p.2 ≠ [] ∧ ((p.1 = .leaseCancel ∨ p.1 = .leaseRenew) → p.2.length = 32) :=
  extractSecrets_ok h

-- `upload-secret QUJD` alone is accepted for a route requiring the upload secret; with a second, unrequired
-- secret, with a missing one, or with an undecodable value it is rejected
example : extractSecrets [[117, 112, 108, 111, 97, 100, 45, 115, 101, 99, 114, 101, 116, 32, 81, 85, 74, 68]] [.upload]
    = .ok [(.upload, [65, 66, 67])] := by rfl
example : extractSecrets [] [.upload] = .error .wrongSet := by rfl
example : extractSecrets [[117, 112, 108, 111, 97, 100, 45, 115, 101, 99, 114, 101, 116, 32, 81]] [.upload]
    = .error .badHeader := by rfl

/-- **Upload secret required.**  If a PATCH (write) or PUT …/abort request for a share whose upload is in
progress changes anything at all, then it passed the swissnum check and its accepted secrets contain that
upload's secret. -/
theorem upload_secret_required (sw : Bytes) (st : State) (rq : Request) (m : Matched) (u : Upload)
    (hm : matchRoute rq.method rq.path = some m) (hr : m.route = .write ∨ m.route = .abort)
    (hu : lookupK (m.args.si, m.args.shnum) st.up = some u)
    (hchg : (step sw st rq).1 ≠ st) :
    ∃ sec, gate sw rq = .pass m sec ∧ getS sec .upload = u.secret := by
  obtain ⟨m', sec, hg, hh⟩ := step_changes_only_through_gate hchg
  have hm' := (gate_pass_matched hg).1
  rw [hm] at hm'
  cases hm'
  refine ⟨sec, hg, ?_⟩
  unfold lookupK at hu
  cases hr with
  | inl hw =>
    have key : ∀ cr data, (hWrite st sec m.args.si m.args.shnum cr data).1 ≠ st → getS sec .upload = u.secret := by
      intro cr data hne
      unfold hWrite at hne
      split at hne
      · exact absurd rfl hne
      · split at hne
        · exact absurd rfl hne
        · split at hne
          · exact absurd rfl hne
          · exact absurd rfl hne
          · rename_i u' hf
            have := getWriteBucket_found _ _ _ _ _ _ hf
            rw [hu] at this
            cases this.1
            exact this.2.symm
    unfold handle at hh
    simp only [hw] at hh
    split at hh
    · exact key _ _ hh
    · exact key _ _ hh
  | inr hab =>
    unfold handle at hh
    simp only [hab] at hh
    unfold hAbort at hh
    split at hh
    · exact absurd rfl hh
    · split at hh <;> exact absurd rfl hh
    · rename_i u' hf
      have := getWriteBucket_found _ _ _ _ _ _ hf
      rw [hu] at this
      cases this.1
      exact this.2.symm

/-- an upload in progress with secret `[9]`: a write presenting another secret is answered 401 and changes nothing -/
example : step [1] { up := [(("aaaaaaaaaaaaaaaaaaaaaaaaaa", 0), ⟨[9], [none, none], ([], [])⟩)] }
    ⟨"PATCH", ["storage", "v1", "immutable", "aaaaaaaaaaaaaaaaaaaaaaaaaa", "0"], [authHeader [1]],
     [[117, 112, 108, 111, 97, 100, 45, 115, 101, 99, 114, 101, 116, 32, 81, 85, 74, 68]],
     .write (some ⟨"bytes", some (0, 2)⟩) [5, 6]⟩
    = ({ up := [(("aaaaaaaaaaaaaaaaaaaaaaaaaa", 0), ⟨[9], [none, none], ([], [])⟩)] }, ⟨401, .empty⟩) := by decide

/-- **Write enabler required.**  If a read-test-write request changes anything while the slot already holds a
share, then it passed the swissnum check and its accepted secrets contain that share's write enabler. -/
theorem enabler_required (sw : Bytes) (st : State) (rq : Request) (m : Matched) (sh : Key × MutShare)
    (hm : matchRoute rq.method rq.path = some m) (hr : m.route = .rtw)
    (hsh : sh ∈ st.muts) (hsi : sh.1.1 = m.args.si)
    (hchg : (step sw st rq).1 ≠ st) :
    ∃ sec, gate sw rq = .pass m sec ∧ getS sec .writeEnabler = sh.2.enabler := by
  obtain ⟨m', sec, hg, hh⟩ := step_changes_only_through_gate hchg
  have hm' := (gate_pass_matched hg).1
  rw [hm] at hm'
  cases hm'
  refine ⟨sec, hg, ?_⟩
  unfold handle at hh
  simp only [hr] at hh
  split at hh
  · rename_i a _
    by_cases hany : enablerMismatch st m.args.si (getS sec .writeEnabler) = true
    · exfalso; apply hh; simp [hRtw, ssRtw, hany]
    · apply Decidable.byContradiction
      intro hne
      apply hany
      unfold enablerMismatch
      rw [List.any_eq_true]
      exact ⟨sh, hsh, by simp [hsi]; exact fun hc => hne hc.symm⟩
  · exact absurd rfl hh

/-- a slot whose share was created with enabler `[9]`: a write with enabler "ABC" is answered 401, nothing changes -/
example : step [1] { muts := [(("aaaaaaaaaaaaaaaaaaaaaaaaaa", 0), ⟨[9], [1, 2, 3], [], []⟩)] }
    ⟨"POST", ["storage", "v1", "mutable", "aaaaaaaaaaaaaaaaaaaaaaaaaa", "read-test-write"], [authHeader [1]],
     [[119, 114, 105, 116, 101, 45, 101, 110, 97, 98, 108, 101, 114, 32, 81, 85, 74, 68],
      (("lease-renew-secret ".toList.map Char.toNat) ++ List.replicate 43 65 ++ [61]),
      (("lease-cancel-secret ".toList.map Char.toNat) ++ List.replicate 43 65 ++ [61])].map (fun l => l.map UInt8.ofNat),
     .rtw ⟨[(0, ⟨[], [(0, [8])], none⟩)], []⟩⟩
    = ({ muts := [(("aaaaaaaaaaaaaaaaaaaaaaaaaa", 0), ⟨[9], [1, 2, 3], [], []⟩)] }, ⟨401, .empty⟩) := by decide

/-! ### Authorization as a specification: a pure function of (route, headers) -/

/-- **Served iff authorized.**  For every request and every route of the generated table it matches: the
decorated handler runs (the gate hands it the secrets) if and only if the request is `Authorized` — the first
`Authorization` value is the swissnum header, and the `X-Tahoe-Authorization` values are all well formed and
carry exactly the kinds of secrets that route requires.  `Authorized` mentions neither the server state nor
anything sent earlier on the connection. -/
theorem served_iff_authorized (sw : Bytes) (rq : Request) (m : Matched)
    (hm : matchRoute rq.method rq.path = some m) :
    (∃ sec, gate sw rq = .pass m sec) ↔ Authorized sw m.required rq.auth rq.xauth :=
  gate_pass_iff sw rq m hm

/-- the route a request matches is an entry of the generated table (method allowed, endpoint known), and the
secret kinds demanded of it are that entry's -/
theorem matched_route_is_generated (method : String) (path : List String) (m : Matched)
    (h : matchRoute method path = some m) :
    ∃ e ∈ Http.routes, e.2.1.contains method = true ∧ Route.ofEndpoint e.1 = some m.route ∧
      m.required = e.2.2.2.filterMap Secret.ofName :=
  matchRoute_from_table method path m h

/-- the secrets the handler receives are the well-formed values collected in order (a later value of a kind
replaces an earlier one) -/
theorem handler_receives_collected_secrets (vals : List (List Nat)) (required : List Secret) (d : SecretsDict) :
    extractSecrets vals required = .ok d ↔
      ∃ ps, vals.mapM parseOne = some ps ∧ d = collect [] ps ∧ ∀ k, k ∈ required ↔ ∃ p ∈ ps, p.1 = k :=
  extractSecrets_ok_iff vals required d

/-- **The decision is independent of the server state** (and therefore of every earlier request, on this or any
other connection, since a history acts on a request only through the state): for any two states a request is
either refused with the same answer and no change in both, or handled in both with the same matched route and
the same secrets. -/
theorem authorization_is_pure (sw : Bytes) (st st' : State) (rq : Request) :
    (served sw rq = false ∧ (step sw st rq).1 = st ∧ (step sw st' rq).1 = st' ∧ (step sw st rq).2 = (step sw st' rq).2) ∨
    (∃ m sec, gate sw rq = .pass m sec ∧ step sw st rq = handle st m sec rq.body ∧ step sw st' rq = handle st' m sec rq.body) := by
  cases hs : served sw rq with
  | false =>
    exact .inl ⟨rfl, step_not_served sw st rq hs, step_not_served sw st' rq hs, step_not_served_response sw st st' rq hs⟩
  | true =>
    right
    unfold served at hs
    split at hs
    · rename_i m sec hg
      exact ⟨m, sec, hg, by simp [step, hg], by simp [step, hg]⟩
    · cases hs

/-- **Histories.**  In any history, the requests that are not authorized might as well not have been sent: the
final state, and the answers to the authorized requests, are those of the history with them removed. -/
theorem unauthorized_requests_are_noops (sw : Bytes) (st : State) (reqs : List Request) :
    (run sw st reqs).1 = (run sw st (reqs.filter (served sw))).1 ∧
    servedAnswers sw reqs (run sw st reqs).2 = (run sw st (reqs.filter (served sw))).2 :=
  run_filter_served sw st reqs

-- a bad request, the same bad request again (a keep-alive retry), then a good one: only the good one counts
example :
    let bad : Request := ⟨"GET", ["storage", "v1", "immutable", "aaaaaaaaaaaaaaaaaaaaaaaaaa", "0"], [authHeader [9]], [], .none⟩
    let good : Request := ⟨"GET", ["storage", "v1", "immutable", "aaaaaaaaaaaaaaaaaaaaaaaaaa", "0"], [authHeader [1]], [], .none⟩
    let st : State := { imm := [(("aaaaaaaaaaaaaaaaaaaaaaaaaa", 0), ⟨[7, 7], []⟩)] }
    (run [1] st [bad, bad, good]).2.map (·.status) = [401, 401, 200] ∧
    [bad, bad, good].map (served [1]) = [false, false, true] := by decide

-- `Authorized` on a concrete request: write route, upload secret "ABC" present and well formed
example : Authorized [1] [.upload] [authHeader [1]]
    [[117, 112, 108, 111, 97, 100, 45, 115, 101, 99, 114, 101, 116, 32, 81, 85, 74, 68]] :=
  ⟨rfl, by decide, [[117, 112, 108, 111, 97, 100, 45, 115, 101, 99, 114, 101, 116, 32, 81, 85, 74, 68]],
   [(.upload, [65, 66, 67])], by decide, by rfl, by intro k; cases k <;> simp⟩

/-! ### uploads in progress belong to their upload secret -/

/-- **One request.**  Whatever the request — any route, an allocation for the same share number with another
size and another secret included — an upload in progress that is not exactly what it was afterwards (cells,
secret, lease, or gone) was addressed by a served PATCH / PUT …/abort presenting its own upload secret. -/
theorem upload_untouched_without_its_secret (sw : Bytes) (st : State) (rq : Request) (k : Key) (u : Upload)
    (h : lookupK k st.up = some u) (hchg : lookupK k (step sw st rq).1.up ≠ some u) :
    ∃ m sec, gate sw rq = .pass m sec ∧ (m.route = .write ∨ m.route = .abort) ∧ (m.args.si, m.args.shnum) = k ∧
      getS sec .upload = u.secret :=
  step_up sw st rq k u h hchg

/-- **Histories.**  Over any history in which no served write / abort addressed to the upload presents its secret,
the upload is still there, byte for byte, with the same secret — whoever allocates, writes, aborts or leases what
around it. -/
theorem uploads_change_only_by_their_own_secret (sw : Bytes) (st : State) (reqs : List Request) (k : Key) (u : Upload)
    (h : lookupK k st.up = some u) (hno : ∀ rq ∈ reqs, ¬ touches sw k u.secret rq) :
    lookupK k (run sw st reqs).1.up = some u :=
  run_up sw st reqs k u h hno

/-- the allocation handler itself: every upload in progress is left exactly as it is, and a share that is being
uploaded is reported neither as already-have nor as allocated -/
theorem allocate_leaves_uploads_alone (st : State) (sec : SecretsDict) (si : String) (ns : List Nat) (size : Nat)
    (k : Key) (u : Upload) (h : lookupK k st.up = some u) :
    lookupK k (hAllocate st sec si ns size).1.up = some u ∧
    (k.1 = si → (hAllocate st sec si ns size).2.body ≠ .allocated [] [k.2] ∧
      ∀ a b, (hAllocate st sec si ns size).2.body = .allocated a b → k.2 ∉ b) := by
  refine ⟨hAllocate_up st sec si ns size k u h, fun hsi => ?_⟩
  have key : ∀ a b, (hAllocate st sec si ns size).2.body = .allocated a b → k.2 ∉ b := by
    intro a b hb
    simp only [hAllocate, ssAllocate, RBody.allocated.injEq] at hb
    rw [← hb.2]
    intro hmem
    rw [List.mem_filter] at hmem
    have hk : (si, k.2) = k := by rw [← hsi]
    rw [hk, h] at hmem
    simp at hmem
  exact ⟨fun hb => key [] [k.2] hb (by simp), key⟩

-- share 0 is being uploaded with secret [9]; an allocation for the same share with another size and another upload
-- secret ("ABC") is answered 200 with nothing allocated and the upload is untouched
example :
    let st : State := { up := [(("aaaaaaaaaaaaaaaaaaaaaaaaaa", 0), ⟨[9], [some 7, none], ([1], [2])⟩)] }
    let sec : SecretsDict := [(.leaseRenew, [3]), (.leaseCancel, [4]), (.upload, [65, 66, 67])]
    hAllocate st sec "aaaaaaaaaaaaaaaaaaaaaaaaaa" [0, 1] 5 =
      ({ up := [(("aaaaaaaaaaaaaaaaaaaaaaaaaa", 0), ⟨[9], [some 7, none], ([1], [2])⟩),
                (("aaaaaaaaaaaaaaaaaaaaaaaaaa", 1), ⟨[65, 66, 67], List.replicate 5 none, ([3], [4])⟩)] },
       ⟨200, .allocated [] [1]⟩) := by decide

-- a write and an abort presenting another secret ("ABC"), in one history: the upload with secret [9] is still there
example :
    let si := "aaaaaaaaaaaaaaaaaaaaaaaaaa"
    let x : List Bytes := [[117, 112, 108, 111, 97, 100, 45, 115, 101, 99, 114, 101, 116, 32, 81, 85, 74, 68]]
    let st : State := { up := [((si, 0), ⟨[9], [some 7, none], ([1], [2])⟩)] }
    let h : List Request := [⟨"PATCH", ["storage", "v1", "immutable", si, "0"], [authHeader [1]], x, .write (some ⟨"bytes", some (1, 2)⟩) [8]⟩,
                             ⟨"PUT", ["storage", "v1", "immutable", si, "0", "abort"], [authHeader [1]], x, .none⟩]
    lookupK (si, 0) (run [1] st h).1.up = some ⟨[9], [some 7, none], ([1], [2])⟩ ∧
    (run [1] st h).2.map (·.status) = [401, 401] := by decide

/-! ### the write-enabler decision and the recorded nodeid -/

/-- a read-test-write is refused (401) exactly when some share of the slot carries a write enabler other than the
presented one: accept ⇔ the presented enabler equals the stored one of every existing share -/
theorem rtw_refused_iff_enabler_differs (st : State) (si : String) (enabler : Bytes) (lease : Lease) (a : RtwArgs) :
    ssRtw st si enabler lease a = none ↔ ∃ sh ∈ st.muts, sh.1.1 = si ∧ sh.2.enabler ≠ enabler := by
  unfold ssRtw
  by_cases h : enablerMismatch st si enabler = true
  · simp only [h, if_true, true_iff]
    unfold enablerMismatch at h
    rw [List.any_eq_true] at h
    obtain ⟨sh, hsh, hx⟩ := h
    exact ⟨sh, hsh, by simpa using hx⟩
  · simp only [h]
    constructor
    · intro hc; cases hc
    · rintro ⟨sh, hsh, hx⟩
      exfalso; apply h
      unfold enablerMismatch
      rw [List.any_eq_true]
      exact ⟨sh, hsh, by simpa using hx⟩

/-- **The decision does not look at nodeids**: neither at the nodeid recorded in the shares' headers nor at the
serving node's.  Two states whose mutable shares differ only in their recorded nodeid, served by nodes with any
nodeids, refuse exactly the same (slot, enabler) pairs. -/
theorem enabler_decision_ignores_nodeid (st : State) (f : Key × MutShare → Bytes) (nid : Bytes) (si : String)
    (enabler : Bytes) :
    enablerMismatch { st with muts := st.muts.map (fun e => (e.1, { e.2 with nodeid := f e })), myNodeid := nid } si enabler
      = enablerMismatch st si enabler := by
  simp only [enablerMismatch, List.any_map]
  rfl

/-- a refused read-test-write changes nothing: no data, no lease, no enabler, no recorded nodeid -/
theorem rtw_refused_changes_nothing (st : State) (sec : SecretsDict) (si : String) (a : RtwArgs)
    (h : ∃ sh ∈ st.muts, sh.1.1 = si ∧ sh.2.enabler ≠ getS sec .writeEnabler) :
    hRtw st sec si a = (st, ⟨401, .empty⟩) := by
  have := (rtw_refused_iff_enabler_differs st si (getS sec .writeEnabler) (getS sec .leaseRenew, getS sec .leaseCancel) a).mpr h
  simp [hRtw, this]

/-- serving the share directory from another node (another nodeid, another swissnum) leaves every share with its
write enabler and its recorded nodeid, and the enabler decision for every slot is what it was -/
theorem migration_keeps_enablers (st : State) (nid : Bytes) (si : String) (enabler : Bytes) :
    (migrate st nid).muts = st.muts ∧ (migrate st nid).imm = st.imm ∧
    enablerMismatch (migrate st nid) si enabler = enablerMismatch st si enabler := ⟨rfl, rfl, rfl⟩

-- a share recorded by node [1] and served by node [2]: a wrong enabler is refused and nothing (in particular not the
-- header) changes; the recorded enabler is accepted and the recorded nodeid stays
example :
    let si := "aaaaaaaaaaaaaaaaaaaaaaaaaa"
    let st : State := migrate { muts := [((si, 0), ⟨[9], [1, 2, 3], [], [1]⟩)], myNodeid := [1] } [2]
    ssRtw st si [8] ([], []) ⟨[(0, ⟨[], [(0, [7])], none⟩)], []⟩ = none ∧
    (ssRtw st si [9] ([5], [6]) ⟨[(0, ⟨[], [(0, [7])], none⟩), (1, ⟨[], [(0, [4])], none⟩)], []⟩).map (·.1.muts)
      = some [((si, 0), ⟨[9], [7, 2, 3], [([5], [6])], [1]⟩), ((si, 1), ⟨pad32 [9], [4], [([5], [6])], [2]⟩)] := by decide

/-! ### requests and timeouts together -/

/-- **Histories of requests and timeouts / disconnects.**  An upload in progress is still there, exactly as it was, after
any history of events none of which is its own timeout / disconnect or a served write / abort presenting its secret:
other uploads timing out, other clients allocating, writing, aborting, leasing change nothing about it. -/
theorem uploads_change_only_by_secret_or_timeout (sw : Bytes) (st : State) (evs : List Event) (k : Key) (u : Upload)
    (h : lookupK k st.up = some u) (hno : ∀ e ∈ evs, ¬ concerns sw k u.secret e) :
    lookupK k (runEvents sw st evs).up = some u :=
  runEvents_up sw st evs k u h hno

/-- a timeout / disconnect removes its own upload and nothing else: other uploads, finished shares, mutable shares and
advisories are untouched -/
theorem timeout_removes_only_its_upload (st : State) (k : Key) :
    lookupK k (expire st k).up = none ∧ (∀ k', k' ≠ k → lookupK k' (expire st k).up = lookupK k' st.up) ∧
    (expire st k).imm = st.imm ∧ (expire st k).muts = st.muts ∧ (expire st k).advisories = st.advisories := by
  refine ⟨?_, fun k' hk => expire_up_ne st k' k hk, rfl, rfl, rfl⟩
  unfold expire lookupK eraseK
  cases hf : List.find? (fun e => decide (e.1 = k)) (List.filter (fun e => decide (e.1 ≠ k)) st.up) with
  | none => rfl
  | some e =>
    have h1 := List.find?_some hf
    have h2 := List.mem_of_find?_eq_some hf
    rw [List.mem_filter] at h2
    simp at h1 h2
    exact absurd h1 h2.2

-- two uploads; share 0 times out, then its owner's write finds nothing (404) while share 1 is exactly as before
example :
    let si := "aaaaaaaaaaaaaaaaaaaaaaaaaa"
    let x : List Bytes := [[117, 112, 108, 111, 97, 100, 45, 115, 101, 99, 114, 101, 116, 32, 81, 85, 74, 68]]
    let st : State := { up := [((si, 0), ⟨[65, 66, 67], [some 7, none], ([1], [2])⟩), ((si, 1), ⟨[9], [none, none], ([1], [2])⟩)] }
    let w : Request := ⟨"PATCH", ["storage", "v1", "immutable", si, "0"], [authHeader [1]], x, .write (some ⟨"bytes", some (1, 2)⟩) [8]⟩
    (runEvents [1] st [.expire (si, 0), .request w]).up = [((si, 1), ⟨[9], [none, none], ([1], [2])⟩)] ∧
    (step [1] (expire st (si, 0)) w).2.status = 404 := by decide

end Tahoe.C30
