import Tahoe.Http.LemmasAuth
/-! C30 — HTTP storage API authorization (property theorems; helper lemmas are in `Tahoe/Http/LemmasAuth.lean`).

`step sw st rq` is one request against an `HTTPServer` whose swissnum is `sw`, in state `st` (finished
immutable shares, uploads in progress, mutable shares, advisories).  The route table, the secret names and the
fact that every route is wrapped by `_authorization_decorator` are generated from the live klein app; the
first four theorems pin the documented values, so a changed route or secret requirement breaks a named theorem.
-/
namespace Tahoe.C30
open Tahoe.Http Tahoe.Generated

/-- every endpoint of `HTTPServer._app` is klein's wrapper around `_authorization_decorator`'s closure -/
theorem all_routes_wrapped_by_authorization : Http.allRoutesAuthorized = true := by decide

/-- the documented routes (docs/specifications/http-storage-node-protocol) with methods and required secrets -/
theorem route_table_documented :
    Http.routes.map (fun r => (r.1, r.2.1, r.2.2.2)) =
      [("abort_share_upload", ["PUT"], ["upload-secret"]),
       ("add_or_renew_lease", ["PUT"], ["lease-cancel-secret", "lease-renew-secret"]),
       ("advise_corrupt_share_immutable", ["POST"], []),
       ("advise_corrupt_share_mutable", ["POST"], []),
       ("allocate_buckets", ["POST"], ["lease-cancel-secret", "lease-renew-secret", "upload-secret"]),
       ("enumerate_mutable_shares", ["GET", "HEAD"], []),
       ("list_shares", ["GET", "HEAD"], []),
       ("mutable_read_test_write", ["POST"], ["lease-cancel-secret", "lease-renew-secret", "write-enabler"]),
       ("read_mutable_chunk", ["GET", "HEAD"], []),
       ("read_share_chunk", ["GET", "HEAD"], []),
       ("version", ["GET", "HEAD"], []),
       ("write_share_data", ["PATCH"], ["upload-secret"])] := by decide

/-- every generated route is known to the model and all its secret names are `Secrets` members -/
theorem route_table_modelled :
    Http.routes.all (fun r => (Route.ofEndpoint r.1).isSome && r.2.2.2.all (fun n => (Secret.ofName n).isSome)) = true := by
  decide

theorem secret_names_documented :
    Http.secretNames = ["lease-renew-secret", "lease-cancel-secret", "upload-secret", "write-enabler"] ∧
    Http.authPrefix = "Tahoe-LAFS " := by decide

/-- The swissnum check passes exactly when the *first* `Authorization` value is
`"Tahoe-LAFS " ++ base64(swissnum)` (and all `Authorization` values are UTF-8). -/
theorem swissnum_check_exact (sw : Bytes) (auth : List Bytes) :
    authCheck sw auth = .ok ↔
      auth.head? = some (authHeader sw) ∧ auth.all (fun x => (utf8Decode x).isSome) = true :=
  authCheck_ok_iff sw auth

/-- **No swissnum, no effect.**  For every server state and every request — whatever its route, secrets and
body — whose first `Authorization` value is not the server's (missing, wrong, truncated, a later duplicate…):
the state is unchanged; the answer is 401 (400 when a value is not UTF-8, 404 when werkzeug finds no route);
the response carries no share byte; and the response is the same whatever the server holds. -/
theorem no_swissnum_no_effect (sw : Bytes) (st : State) (rq : Request)
    (h : rq.auth.head? ≠ some (authHeader sw)) :
    (step sw st rq).1 = st ∧
    ((step sw st rq).2.status = 401 ∨ (step sw st rq).2.status = 400 ∨ (step sw st rq).2.status = 404) ∧
    (step sw st rq).2.shareBytes = [] ∧
    ∀ st', (step sw st' rq).2 = (step sw st rq).2 := by
  have hne : authCheck sw rq.auth ≠ .ok := fun hc => h ((authCheck_ok_iff sw rq.auth).mp hc).1
  unfold step gate
  cases hm : matchRoute rq.method rq.path with
  | none => simp [Response.shareBytes]
  | some m =>
    cases ha : authCheck sw rq.auth with
    | ok => exact absurd ha hne
    | badUnicode => simp [Response.shareBytes]
    | wrong => simp [Response.shareBytes]

example : (step [1, 2, 3] { imm := [(("aaaaaaaaaaaaaaaaaaaaaaaaaa", 0), ⟨[7, 7, 7], []⟩)] }
    ⟨"GET", ["storage", "v1", "immutable", "aaaaaaaaaaaaaaaaaaaaaaaaaa", "0"], [authHeader [1, 2, 4]], [], .none⟩).2.status
    = 401 := by decide

/-- the same request with the right swissnum does read the share (the theorem above is not vacuous) -/
example : (step [1, 2, 3] { imm := [(("aaaaaaaaaaaaaaaaaaaaaaaaaa", 0), ⟨[7, 7, 7], []⟩)] }
    ⟨"GET", ["storage", "v1", "immutable", "aaaaaaaaaaaaaaaaaaaaaaaaaa", "0"], [authHeader [1, 2, 3]], [], .none⟩).2
    = ⟨200, .share [7, 7, 7]⟩ := by decide

/-- **Bad secrets, no effect.**  With the right swissnum, when `_extract_secrets` rejects the
`X-Tahoe-Authorization` values (malformed value, unknown key, empty secret, lease secret not 32 bytes, key set
different from the route's) the answer is 400 and nothing changes; values that are not UTF-8 give 500, also
without any change. -/
theorem bad_secrets_no_effect (sw : Bytes) (st : State) (rq : Request) (m : Matched)
    (hm : matchRoute rq.method rq.path = some m) (ha : authCheck sw rq.auth = .ok) :
    (rq.xauth.mapM utf8Decode = none → step sw st rq = (st, ⟨500, .html⟩)) ∧
    (∀ vals e, rq.xauth.mapM utf8Decode = some vals → extractSecrets vals m.required = .error e →
      step sw st rq = (st, ⟨400, .text (secretsMessage e)⟩)) := by
  constructor
  · intro hv
    simp [step, gate, hm, ha, hv]
  · intro vals e hv he
    simp [step, gate, hm, ha, hv, he]

/-- what `_extract_secrets` lets through: exactly the required kinds, no empty value, lease secrets of 32
bytes — so a missing or (in this sense) malformed secret is always rejected by the theorem above. -/
theorem accepted_secrets_well_formed (vals : List (List Nat)) (required : List Secret) (d : SecretsDict)
    (h : extractSecrets vals required = .ok d) :
    sameKeySet d required = true ∧
    ∀ p ∈ d, p.2 ≠ [] ∧ ((p.1 = .leaseCancel ∨ p.1 = .leaseRenew) → p.2.length = 32) :=
  extractSecrets_ok h

-- `upload-secret QUJD` alone is accepted for a route requiring the upload secret; with a second, unrequired
-- secret, with a missing one, or with an undecodable value it is rejected
example : extractSecrets [[117, 112, 108, 111, 97, 100, 45, 115, 101, 99, 114, 101, 116, 32, 81, 85, 74, 68]] [.upload]
    = .ok [(.upload, [65, 66, 67])] := by rfl
example : extractSecrets [] [.upload] = .error .wrongSet := by rfl
example : extractSecrets [[117, 112, 108, 111, 97, 100, 45, 115, 101, 99, 114, 101, 116, 32, 81]] [.upload]
    = .error .badHeader := by rfl

/-- **Upload secret required.**  If a PATCH (write) or PUT …/abort request for a share whose upload is in
progress changes anything at all, then it passed the swissnum check and its accepted secrets contain that
upload's secret. -/
theorem upload_secret_required (sw : Bytes) (st : State) (rq : Request) (m : Matched) (u : Upload)
    (hm : matchRoute rq.method rq.path = some m) (hr : m.route = .write ∨ m.route = .abort)
    (hu : lookupK (m.args.si, m.args.shnum) st.up = some u)
    (hchg : (step sw st rq).1 ≠ st) :
    ∃ sec, gate sw rq = .pass m sec ∧ getS sec .upload = u.secret := by
  obtain ⟨m', sec, hg, hh⟩ := step_changes_only_through_gate hchg
  have hm' := (gate_pass_matched hg).1
  rw [hm] at hm'
  cases hm'
  refine ⟨sec, hg, ?_⟩
  unfold lookupK at hu
  cases hr with
  | inl hw =>
    have key : ∀ cr data, (hWrite st sec m.args.si m.args.shnum cr data).1 ≠ st → getS sec .upload = u.secret := by
      intro cr data hne
      unfold hWrite at hne
      split at hne
      · exact absurd rfl hne
      · split at hne
        · exact absurd rfl hne
        · split at hne
          · exact absurd rfl hne
          · exact absurd rfl hne
          · rename_i u' hf
            have := getWriteBucket_found _ _ _ _ _ _ hf
            rw [hu] at this
            cases this.1
            exact this.2.symm
    unfold handle at hh
    simp only [hw] at hh
    split at hh
    · exact key _ _ hh
    · exact key _ _ hh
  | inr hab =>
    unfold handle at hh
    simp only [hab] at hh
    unfold hAbort at hh
    split at hh
    · exact absurd rfl hh
    · split at hh <;> exact absurd rfl hh
    · rename_i u' hf
      have := getWriteBucket_found _ _ _ _ _ _ hf
      rw [hu] at this
      cases this.1
      exact this.2.symm

/-- an upload in progress with secret `[9]`: a write presenting another secret is answered 401 and changes nothing -/
example : step [1] { up := [(("aaaaaaaaaaaaaaaaaaaaaaaaaa", 0), ⟨[9], [none, none], ([], [])⟩)] }
    ⟨"PATCH", ["storage", "v1", "immutable", "aaaaaaaaaaaaaaaaaaaaaaaaaa", "0"], [authHeader [1]],
     [[117, 112, 108, 111, 97, 100, 45, 115, 101, 99, 114, 101, 116, 32, 81, 85, 74, 68]],
     .write (some ⟨"bytes", some (0, 2)⟩) [5, 6]⟩
    = ({ up := [(("aaaaaaaaaaaaaaaaaaaaaaaaaa", 0), ⟨[9], [none, none], ([], [])⟩)] }, ⟨401, .empty⟩) := by decide

/-- **Write enabler required.**  If a read-test-write request changes anything while the slot already holds a
share, then it passed the swissnum check and its accepted secrets contain that share's write enabler. -/
theorem enabler_required (sw : Bytes) (st : State) (rq : Request) (m : Matched) (sh : Key × MutShare)
    (hm : matchRoute rq.method rq.path = some m) (hr : m.route = .rtw)
    (hsh : sh ∈ st.muts) (hsi : sh.1.1 = m.args.si)
    (hchg : (step sw st rq).1 ≠ st) :
    ∃ sec, gate sw rq = .pass m sec ∧ getS sec .writeEnabler = sh.2.enabler := by
  obtain ⟨m', sec, hg, hh⟩ := step_changes_only_through_gate hchg
  have hm' := (gate_pass_matched hg).1
  rw [hm] at hm'
  cases hm'
  refine ⟨sec, hg, ?_⟩
  unfold handle at hh
  simp only [hr] at hh
  split at hh
  · rename_i a _
    by_cases hany : enablerMismatch st m.args.si (getS sec .writeEnabler) = true
    · exfalso; apply hh; simp [hRtw, hany]
    · apply Decidable.byContradiction
      intro hne
      apply hany
      unfold enablerMismatch
      rw [List.any_eq_true]
      exact ⟨sh, hsh, by simp [hsi]; exact fun hc => hne hc.symm⟩
  · exact absurd rfl hh

/-- a slot whose share was created with enabler `[9]`: a write with enabler "ABC" is answered 401, nothing changes -/
example : step [1] { muts := [(("aaaaaaaaaaaaaaaaaaaaaaaaaa", 0), ⟨[9], [1, 2, 3], []⟩)] }
    ⟨"POST", ["storage", "v1", "mutable", "aaaaaaaaaaaaaaaaaaaaaaaaaa", "read-test-write"], [authHeader [1]],
     [[119, 114, 105, 116, 101, 45, 101, 110, 97, 98, 108, 101, 114, 32, 81, 85, 74, 68],
      (("lease-renew-secret ".toList.map Char.toNat) ++ List.replicate 43 65 ++ [61]),
      (("lease-cancel-secret ".toList.map Char.toNat) ++ List.replicate 43 65 ++ [61])].map (fun l => l.map UInt8.ofNat),
     .rtw ⟨[(0, ⟨[], [(0, [8])], none⟩)], []⟩⟩
    = ({ muts := [(("aaaaaaaaaaaaaaaaaaaaaaaaaa", 0), ⟨[9], [1, 2, 3], []⟩)] }, ⟨401, .empty⟩) := by decide

end Tahoe.C30
