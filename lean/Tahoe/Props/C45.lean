import Tahoe.Immutable.LemmasVerify
import Tahoe.Immutable.LemmasComplete
import Tahoe.Props.C02
/-! C45 — immutable check, verify and repair.

Model: Tahoe/Immutable/Integrity.lean — `verifyShare` = `Checker._download_and_verify` (with
`ValidatedExtendedURIProxy`, `ValidatedReadBucketProxy`), `formatResults` = `Checker._format_results`,
`Store` / `allocate` / `closeWriter` / `repairOn` = the abstract storage behaviour repair relies on (refined by the
storage server, C22); repair itself is download (C02) followed by `upload` with the parameters of the cap.
`VCfg.asIs` is the verifier as it was before the fix, `VCfg.repaired` the verifier as it is in /repo now (fix fb3513d =
fixes/C45-verify-block-root.diff: the block hash tree root is taken from the validated share hash leaf).

As built: 28 theorems (one `_partial`) — `verified_good_implies_all_valid` (+ `verified_good_counterexample` for the old verifier),
`healthy_iff_N_good`, `recoverable_iff_k_good`, `corrupt_shares_listed`, `noverify_believes_servers`,
`recoverable_unhealthy_repair_attempted`, `repair_uses_original_parameters`, `repair_regenerates_identical_shares`,
`post_repair_healthy_implies_N_good`, `repair_never_alters_good_shares`, `repair_output_is_encoder_output`,
`repaired_share_passes_ct_stage`, `repaired_share_passes_block_hash_stage`, `repaired_share_passes_share_hash_stage`,
`repaired_share_block_accepted`, `repaired_share_block_fetch_chain`, `validation_stages_keep_trees_closed`,
`anchored_repaired_share_delivers_block`, `fresh_repaired_share_delivers_block`, `tail_stages_deliver_block`,
`repaired_share_passes_ct_stage_any`, `known_chain_repaired_share_delivers_block`,
`validation_stages_keep_trees_sibclosed`, `repaired_share_block_fetch_chain_any`,
`share_tree_closed_on_every_reachable_node`, `ct_tree_closed_on_every_reachable_node`, `readable_from_repaired_shares_partial`. Further model parts: `checkServerShares` /
`checkNoVerify`, `repairDecision`, `repairParams`, `gatherRepairResults`, `corruptLocators`. Driver lean/Drv/C45.lean
(`veup`, `fmt`, `fmtlists`, `noverify`, `verify`, `repairdecision`, `repairparams`, `postrepair`, `repair`) ties each
of them to the code. Only partially proved (monitor end to end): that the file can be read from the repaired shares alone. -/
/-! ## Coverage of the statement (properties.jsonl, C45)

| clause of the statement | theorem(s) over the model |
|---|---|
| verification reports a share good only if all of its blocks and hashes validate against the capability | `verified_good_implies_all_valid` (repaired verifier: published UEB, every block = the uploader's block, every share-hash-chain entry, every block hash, every crypttext hash = the published tree node; each share read with its own fresh trees — seed C45-a); the verifier as it was: `verified_good_counterexample` |
| a check is healthy exactly when N distinct good shares are found | `healthy_iff_N_good` (+ the good list is duplicate-free and is exactly the share numbers some server's result lists) |
| … recoverable exactly when at least k are | `recoverable_iff_k_good` |
| repair using only the verify-cap produces shares that validate under the original read-cap | `repair_uses_original_parameters` (k, N from the cap, segment size from the VALIDATED UEB — seed C45-b) + `repair_regenerates_identical_shares` (a completed repair read re-publishes exactly the original cap, UEB, trees and blocks); neither uses the read key |
| … so the file can be read from the repaired shares alone | PARTIAL: `repair_output_is_encoder_output` (repaired shares = the uploader's shares, parameters included), `repaired_share_passes_share_hash_stage`, `repaired_share_passes_block_hash_stage`, `repaired_share_passes_ct_stage`, `repaired_share_block_accepted` (completeness of every validation stage of `Share._satisfy_*` for such shares: share hash chain, block hash tree, crypttext hash tree, data block; C35 `tryBody_complete`), `repaired_share_block_fetch_chain` (block-hash stage then data stage chained on the node the first leaves behind), `validation_stages_keep_trees_closed` and `validation_stages_keep_trees_sibclosed` (`Closed` and `SibClosed`, the premises of the acceptance and whole-pass theorems, are invariants of every tree-writing stage whatever the share answers; `TreeOK` / `NodeInv` already are), `anchored_repaired_share_delivers_block` and `fresh_repaired_share_delivers_block` (one whole `_get_satisfaction` pass threaded through all eight stages, for a share already anchored and for a share seen for the first time: a repaired share is answered with exactly the published block; helper `tail_stages_deliver_block`), `readable_from_repaired_shares_partial` (one share set; a read over it writes only a prefix of the file and `done` ⇒ the file). Missing links named there: composing all four stage theorems along one whole `satisfy` run and over a fetch history (the two block-tree stages are chained: `repaired_share_block_fetch_chain`; closedness of every tree is a proved stage invariant — `validation_stages_keep_trees_closed` — and one whole pass is threaded through `runStages` for an already anchored share — `anchored_repaired_share_delivers_block` — for a share seen for the first time — `fresh_repaired_share_delivers_block` — and for a new share whose chain other shares already supplied — `known_chain_repaired_share_delivers_block`; what is missing is the induction over the per-segment history (`fetchSegment` over k shares) that re-establishes the premises of those two theorems for every pass), decoding (`Tahoe.C36.immutable_any_k_blocks_decode_rs256`), termination (C03/C46); end to end this clause stays with the monitor (read from repaired shares only) |
| … and it never alters existing good shares | `repair_never_alters_good_shares` (abstract storage behaviour; refinement by the storage server is C22) |
| a recoverable, unhealthy file gets a repair attempt, whatever the number of servers holding the good shares (seed C45-d) | `recoverable_unhealthy_repair_attempted` |
| the post-repair results describe the grid after the repair (seed C45-c) | `post_repair_healthy_implies_N_good` |
| count-shares-good / corrupt-share lists of `_format_results` | `healthy_iff_N_good` (count), `corrupt_shares_listed` (the corrupt / incompatible lists and their counts) |
| check without verification believes the servers | `noverify_believes_servers` (model `checkServerShares` / `checkNoVerify`, tied to `Checker._check_server_shares` + `_format_results`) |
-/
namespace Tahoe.C45
open Tahoe.Integrity Tahoe.Base.Merkle

variable {H : Type} [DecidableEq H]

/-- **verified_good_implies_all_valid** (repaired verifier): whatever the server answers, a share that
    `_download_and_verify` reports good carries the published UEB, every one of its blocks is the block the
    uploader produced for that share number, and every hash it stores — each entry of its share hash chain, each
    node of its block hash tree, each node of its crypttext hash tree — is the corresponding node of the published
    trees. -/
theorem verified_good_implies_all_valid (E : Env H) (cfg : Cfg) (prm : Params) (ser : UEB H → Bytes)
    (encode : Nat → Bytes → Nat → Bytes) (ct : Bytes) (sz : Sizes) (S : Setup E cfg prm ser encode ct sz)
    (pick : List Nat → Nat) (shnum : Nat) (hsh : shnum < prm.n) (v : VView H)
    (h : verifyShare E cfg VCfg.repaired pick (upload E prm encode ser ct).cap shnum v = .good) :
    v.uebBytes = (upload E prm encode ser ct).uebBytes ∧
    (∀ i, i < divCeil ct.length prm.segSize → v.block i = (upload E prm encode ser ct).block shnum i) ∧
    (∀ sh, v.shareHashes = some sh → ∀ i hh, (i, hh) ∈ dictOf sh →
        Base.Merkle.get (upload E prm encode ser ct).shareT i = some hh) ∧
    (∀ i hh, (i, hh) ∈ enumFrom 0 v.blockHashes →
        Base.Merkle.get ((upload E prm encode ser ct).blockT shnum) i = some hh) ∧
    (∀ i hh, (i, hh) ∈ enumFrom 0 v.ctHashes → Base.Merkle.get (upload E prm encode ser ct).ctT i = some hh) :=
  verifyShare_good S pick shnum hsh v h

/-- an honest server's answers for share 0 of the two-segment example file of C02 -/
def exHonestV : VView SymH :=
  let P := upload C02.exE C02.exPrm C02.exEncode C02.exSer C02.exCt
  { headerLen := 0x24, version := 1,
    offs := { data := 36, plaintextHT := 39, crypttextHT := 135, blockHashes := 231, shareHashes := 327,
              uriExtension := 327 },
    uebLenOk := true, uebLen := 1, uebBytes := [7], shareHashes := some [],
    blockHashes := buildList symOpsH [SymH.tagged .block [10, 11], SymH.tagged .block [12]],
    ctHashes := buildList symOpsH [SymH.tagged .seg [10, 11], SymH.tagged .seg [12]],
    shareHashesAgain := fun _ => some [], blockHashesAgain := fun _ => [], block := P.block 0 }

/-- a forging server: the second block replaced and the block hash tree recomputed over the forged blocks -/
def exForgedV : VView SymH :=
  { exHonestV with
    block := fun i => if i = 1 then [99] else exHonestV.block i,
    blockHashes := buildList symOpsH [SymH.tagged .block [10, 11], SymH.tagged .block [99]] }

/-- the verifier **as it is** reports the forged share good (`get_all_blockhashes` fills a block hash tree that
    has no root, so the root sent by the server is never compared with the share hash tree); the repaired
    verifier reports it corrupt; the honest share is good for both -/
theorem verified_good_counterexample :
    let cap := (upload C02.exE C02.exPrm C02.exEncode C02.exSer C02.exCt).cap
    verifyShare C02.exE Cfg.asIs VCfg.asIs (fun _ => 0) cap 0 exForgedV = .good ∧
    exForgedV.block 1 ≠ (upload C02.exE C02.exPrm C02.exEncode C02.exSer C02.exCt).block 0 1 ∧
    verifyShare C02.exE Cfg.asIs VCfg.repaired (fun _ => 0) cap 0 exForgedV = .corrupt ∧
    verifyShare C02.exE Cfg.asIs VCfg.asIs (fun _ => 0) cap 0 exHonestV = .good ∧
    verifyShare C02.exE Cfg.asIs VCfg.repaired (fun _ => 0) cap 0 exHonestV = .good := by
  decide

/-- **healthy_iff_N_good**: `_format_results` reports healthy exactly when the number of distinct share numbers
    that some server's result lists as good equals N. -/
theorem healthy_iff_N_good (k n : Nat) (rs : List ServerResult) :
    ((formatResults k n rs).healthy = true ↔ (verifiedKeys rs).length = n) ∧
    (formatResults k n rs).countGood = (verifiedKeys rs).length ∧
    (verifiedKeys rs).Nodup ∧ (∀ sh, sh ∈ verifiedKeys rs ↔ ∃ r ∈ rs, sh ∈ r.verified) := by
  refine ⟨?_, rfl, (verifiedKeys_spec rs).1, (verifiedKeys_spec rs).2⟩
  simp [formatResults]

/-- **recoverable_iff_k_good**: … and recoverable exactly when at least k distinct share numbers are good. -/
theorem recoverable_iff_k_good (k n : Nat) (rs : List ServerResult) :
    (formatResults k n rs).recoverable = true ↔ k ≤ (verifiedKeys rs).length := by
  simp [formatResults]

example :
    let rs : List ServerResult :=
      [⟨0, [0, 1], [], [], true⟩, ⟨1, [1, 2], [3], [], true⟩, ⟨2, [], [], [], false⟩]
    verifiedKeys rs = [0, 1, 2] ∧
    formatResults 3 4 rs = ⟨false, true, 3, 1, 0⟩ ∧ formatResults 3 3 rs = ⟨true, true, 3, 1, 0⟩ ∧
    formatResults 4 10 rs = ⟨false, false, 3, 1, 0⟩ := by decide

/-- **repair_regenerates_identical_shares**: the repairer reads the ciphertext through the download node (any
    server behaviour) and encodes it again with the parameters of the cap; if that read completes, what it
    publishes — cap, UEB, every hash tree, every block of every share — is what the original upload
    published, so regenerated shares are the original shares and validate under the original cap. -/
theorem repair_regenerates_identical_shares (E : Env H) (cfg : Cfg) (prm : Params) (ser : UEB H → Bytes)
    (encode : Nat → Bytes → Nat → Bytes) (ct : Bytes) (sz : Sizes) (S : Setup E cfg prm ser encode ct sz)
    (pick : List Nat → Nat) (decode : Nat → List (Nat × Bytes) → Bytes) (guess : Nat) (scripts : List (Script H))
    (hdone : (read E cfg pick decode (upload E prm encode ser ct).cap guess scripts
                (Node.init H (upload E prm encode ser ct).cap) 0 ct.length).2 = .done) :
    upload E prm encode ser
        (read E cfg pick decode (upload E prm encode ser ct).cap guess scripts
          (Node.init H (upload E prm encode ser ct).cap) 0 ct.length).1
      = upload E prm encode ser ct := by
  have h := (C02.read_prefix_correct E cfg prm ser encode ct sz S pick decode guess scripts 0 ct.length).2 hdone
  have e : (ct.drop 0).take ct.length = ct := by simp
  rw [h, e]

/-- **repair_uses_original_parameters**: the repairer encodes with k and N of the verify cap and the segment size
    of the UEB the download node has VALIDATED (never a guess): on a node in any reachable state these are the
    original encoding parameters, so `repair_regenerates_identical_shares` applies. -/
theorem repair_uses_original_parameters (E : Env H) (cfg : Cfg) (prm : Params) (ser : UEB H → Bytes)
    (encode : Nat → Bytes → Nat → Bytes) (ct : Bytes) (sz : Sizes) (S : Setup E cfg prm ser encode ct sz)
    (pick : List Nat → Nat) (decode : Nat → List (Nat × Bytes) → Bytes) (history : List (Nat × Script H))
    (p : Params)
    (h : repairParams (upload E prm encode ser ct).cap
          (C02.nodeAfter E cfg pick decode (upload E prm encode ser ct).cap history) = some p) :
    p = prm := by
  have hinv : ∀ (hist : List (Nat × Script H)) (nd : Node H), NodeInv E prm ser encode ct sz nd →
      NodeInv E prm ser encode ct sz
        (hist.foldl (fun nd e => (fetchSegment E cfg pick decode (upload E prm encode ser ct).cap nd e.1 e.2).2) nd) := by
    intro hist
    induction hist with
    | nil => intro nd h; exact h
    | cons e rest ih => intro nd h; exact ih _ (fetchSegment_spec S pick decode nd e.1 e.2 h).1
  have := hinv history (Node.init H (upload E prm encode ser ct).cap) (Or.inl rfl)
  unfold repairParams at h
  rcases this with hk | ⟨hk, _⟩
  · unfold C02.nodeAfter at h; rw [hk] at h; cases h
  · unfold C02.nodeAfter at h; rw [hk] at h
    injection h with h
    rw [← h]
    cases prm
    rfl

/-- after the honest fetch of segment 0 of the example file the repairer's parameters are the original ones; a
    fresh node (nothing validated yet) yields none -/
example :
    let cap := (upload C02.exE C02.exPrm C02.exEncode C02.exSer C02.exCt).cap
    let dec : Nat → List (Nat × Bytes) → Bytes := fun _ bl => (bl.head?.map (·.2)).getD []
    repairParams cap (C02.nodeAfter C02.exE Cfg.asIs (fun _ => 0) dec cap [(0, [(0, C02.exHonest 0)])]) = some C02.exPrm ∧
    repairParams cap (Node.init SymH cap) = none := by decide

/-- **repair_output_is_encoder_output**: the repairer re-encodes what it downloaded with the parameters it derives
    itself (k, N of the cap, segment size of the validated UEB); if its read completes, the publication it produces
    IS the uploader's publication — the same cap and UEB and, for every share number, the same blocks, block hash
    tree and share hash chain, and the same crypttext hash tree. Old and repaired shares are therefore one
    consistent share set of the original file. -/
theorem repair_output_is_encoder_output (E : Env H) (cfg : Cfg) (prm : Params) (ser : UEB H → Bytes)
    (encode : Nat → Bytes → Nat → Bytes) (ct : Bytes) (sz : Sizes) (S : Setup E cfg prm ser encode ct sz)
    (pick : List Nat → Nat) (decode : Nat → List (Nat × Bytes) → Bytes) (guess : Nat)
    (history : List (Nat × Script H)) (scripts : List (Script H)) (p : Params)
    (hp : repairParams (upload E prm encode ser ct).cap
          (C02.nodeAfter E cfg pick decode (upload E prm encode ser ct).cap history) = some p)
    (hdone : (read E cfg pick decode (upload E prm encode ser ct).cap guess scripts
                (Node.init H (upload E prm encode ser ct).cap) 0 ct.length).2 = .done) :
    upload E p encode ser
        (read E cfg pick decode (upload E prm encode ser ct).cap guess scripts
          (Node.init H (upload E prm encode ser ct).cap) 0 ct.length).1
      = upload E prm encode ser ct := by
  rw [repair_uses_original_parameters E cfg prm ser encode ct sz S pick decode history p hp]
  exact repair_regenerates_identical_shares E cfg prm ser encode ct sz S pick decode guess scripts hdone

/-- **repaired_share_passes_ct_stage** (completeness direction, crypttext hash tree): let `Prep` be the repairer's
    publication (`= upload … ct` by `repair_output_is_encoder_output`). On a download node that has accepted the UEB,
    whose ciphertext hash tree is a closed partial copy of the published tree and does not hold the leaf of `segnum`
    yet, a share that answers every requested crypttext hash with the node of `Prep`'s tree — i.e. a repaired share,
    or an old one — passes `_satisfy_ciphertext_hash_tree` (C35 completeness, `tryBody_complete`). -/
theorem repaired_share_passes_ct_stage (E : Env H) (cfg : Cfg) (prm : Params) (ser : UEB H → Bytes)
    (encode : Nat → Bytes → Nat → Bytes) (ct : Bytes) (sz : Sizes) (S : Setup E cfg prm ser encode ct sz)
    (Prep : Published H) (hrep : Prep = upload E prm encode ser ct)
    (pick : List Nat → Nat) (segnum : Nat) (v : View H) (nd : Node H) (u : UEB H)
    (hk : nd.known = some (u, sz)) (hlen : nd.ctTree.length = Prep.ctT.length)
    (hag : Agree nd.ctTree Prep.ctT) (hcl : Closed nd.ctTree) (hseg : segnum < sz.numSegs)
    (hnew : Base.Merkle.get nd.ctTree (firstLeafNum sz.numSegs + segnum) = none)
    (hhonest : ∀ i, i < Prep.ctT.length → v.ctHashes i = Base.Merkle.get Prep.ctT i) :
    (stageCtHashes E cfg pick segnum v nd).1 = none := by
  subst hrep
  have hT : Genuine E.ops (upload E prm encode ser ct).ctT := build_genuine E.ops _
  have hL : firstLeafNum sz.numSegs + segnum < nd.ctTree.length := by
    rw [hlen]
    show _ < (build E.ops (ctLeaves E prm ct)).length
    rw [Integrity.build_length, ctLeaves_length, ← calcSizes_numSegs S.sizes]
    have := roundupPow2_ge sz.numSegs
    have := roundupPow2_pos sz.numSegs
    unfold firstLeafNum; omega
  exact honest_ct_hashes_accepted S.strict pick segnum v nd hk hT hlen hag hcl hL hnew hhonest

/-- **repaired_share_passes_share_hash_stage** (completeness direction, share hash tree): on a download node whose
    share hash tree is a closed partial copy of the repairer's share hash tree, a share whose share hash chain — as
    the dict `process_share_hashes` builds from it — consists of nodes of `Prep`'s tree on the uncle chain of leaf
    `shnum` (leaf included, as `send_all_share_hash_trees` writes it) and covers that chain passes
    `_satisfy_share_hash_tree` (C35 completeness via `honest_share_hashes_accepted`). -/
theorem repaired_share_passes_share_hash_stage (E : Env H) (cfg : Cfg) (prm : Params) (ser : UEB H → Bytes)
    (encode : Nat → Bytes → Nat → Bytes) (ct : Bytes) (sz : Sizes) (S : Setup E cfg prm ser encode ct sz)
    (Prep : Published H) (hrep : Prep = upload E prm encode ser ct)
    (pick : List Nat → Nat) (shnum : Nat) (v : View H) (nd : Node H) (hsh : shnum < prm.n)
    (hlen : nd.shareTree.length = Prep.shareT.length)
    (hag : Agree nd.shareTree Prep.shareT) (hcl : Closed nd.shareTree)
    (hgen : ∀ i w, (i, w) ∈ dictOf v.shareHashes → Base.Merkle.get Prep.shareT i = some w)
    (hkeys : ∀ i w, (i, w) ∈ dictOf v.shareHashes →
      i ∈ neededFor (firstLeafNum prm.n + shnum) ∨ i = firstLeafNum prm.n + shnum)
    (hcov : ∀ i ∈ neededFor (firstLeafNum prm.n + shnum), ∃ w, (i, w) ∈ dictOf v.shareHashes)
    (hleaf : ∃ w, (firstLeafNum prm.n + shnum, w) ∈ dictOf v.shareHashes) :
    (stageShareTree E cfg pick Prep.cap shnum v nd).1 = none := by
  subst hrep
  have hT : Genuine E.ops (upload E prm encode ser ct).shareT := build_genuine E.ops _
  have hn : (upload E prm encode ser ct).cap.n = prm.n := rfl
  have hL : firstLeafNum (upload E prm encode ser ct).cap.n + shnum < nd.shareTree.length := by
    rw [hn, hlen, upload_shareT, Integrity.build_length]
    have hl : (shareLeaves E prm encode ct).length = prm.n := by simp [shareLeaves]
    rw [hl]
    have := roundupPow2_ge prm.n
    have := roundupPow2_pos prm.n
    unfold firstLeafNum; omega
  exact honest_share_hashes_accepted S.strict pick _ shnum v nd hT hlen hag hcl hL
    hgen hkeys hcov hleaf

/-- **repaired_share_passes_block_hash_stage** (completeness direction, block hash tree of one share): on a download
    node that has accepted the UEB, whose block hash tree for share `shnum` is a closed partial copy of the tree the
    repairer published for that share and does not hold the leaf of `segnum` yet, a share that answers every
    requested block hash with the node of `Prep`'s tree — a repaired share, or an old one — passes
    `_satisfy_block_hash_tree` (C35 completeness, `tryBody_complete`, via `honest_block_hashes_accepted`). -/
theorem repaired_share_passes_block_hash_stage (E : Env H) (cfg : Cfg) (prm : Params) (ser : UEB H → Bytes)
    (encode : Nat → Bytes → Nat → Bytes) (ct : Bytes) (sz : Sizes) (S : Setup E cfg prm ser encode ct sz)
    (Prep : Published H) (hrep : Prep = upload E prm encode ser ct)
    (pick : List Nat → Nat) (shnum segnum : Nat) (v : View H) (nd : Node H) (u : UEB H)
    (hk : nd.known = some (u, sz))
    (hlen : (nd.blockTree shnum sz.numSegs).length = (Prep.blockT shnum).length)
    (hag : Agree (nd.blockTree shnum sz.numSegs) (Prep.blockT shnum)) (hcl : Closed (nd.blockTree shnum sz.numSegs))
    (hseg : segnum < sz.numSegs)
    (hnew : Base.Merkle.get (nd.blockTree shnum sz.numSegs) (firstLeafNum sz.numSegs + segnum) = none)
    (hhonest : ∀ i, i < (Prep.blockT shnum).length → v.blockHashes i = Base.Merkle.get (Prep.blockT shnum) i) :
    (stageBlockHashes E cfg pick shnum segnum v nd).1 = none := by
  subst hrep
  have hT : Genuine E.ops ((upload E prm encode ser ct).blockT shnum) := build_genuine E.ops _
  have hL : firstLeafNum sz.numSegs + segnum < (nd.blockTree shnum sz.numSegs).length := by
    rw [hlen, upload_blockT, Integrity.build_length]
    have hbl : (blockLeaves E prm encode ct shnum).length = divCeil ct.length prm.segSize := by
      simp [blockLeaves, segments]
    rw [hbl, ← calcSizes_numSegs S.sizes]
    have := roundupPow2_ge sz.numSegs
    have := roundupPow2_pos sz.numSegs
    unfold firstLeafNum; omega
  exact honest_block_hashes_accepted S.strict pick shnum segnum v nd hk hT hlen hag hcl hL hnew hhonest

/-- **repaired_share_block_accepted** (completeness direction, data block): on a download node that has accepted the
    UEB, whose block hash tree for share `shnum` is a closed partial copy of the repairer's tree for that share and
    already holds the uncle chain of segment `segnum` (the block-hash stage has run:
    `repaired_share_passes_block_hash_stage`), the block the repairer wrote for that segment — which is the uploader's
    block (`repair_output_is_encoder_output`) — passes `_satisfy_data_block` / `check_block` and is handed to the
    fetcher, provided the encoder produced a block of the size the UEB implies (C01 `Sizes`). -/
theorem repaired_share_block_accepted (E : Env H) (cfg : Cfg) (prm : Params) (ser : UEB H → Bytes)
    (encode : Nat → Bytes → Nat → Bytes) (ct : Bytes) (sz : Sizes) (S : Setup E cfg prm ser encode ct sz)
    (Prep : Published H) (hrep : Prep = upload E prm encode ser ct)
    (pick : List Nat → Nat) (shnum segnum : Nat) (v : View H) (nd : Node H) (u : UEB H)
    (hk : nd.known = some (u, sz))
    (hlen : (nd.blockTree shnum sz.numSegs).length = (Prep.blockT shnum).length)
    (hag : Agree (nd.blockTree shnum sz.numSegs) (Prep.blockT shnum)) (hcl : Closed (nd.blockTree shnum sz.numSegs))
    (hseg : segnum < sz.numSegs)
    (hfull : ∀ i ∈ neededFor (firstLeafNum sz.numSegs + segnum),
      Base.Merkle.get (nd.blockTree shnum sz.numSegs) i ≠ none)
    (hblock : v.block = Prep.block shnum segnum)
    (hsize : ¬ (v.block.isEmpty ∨
      v.block.length ≠ (if segnum + 1 = sz.numSegs then sz.tailBlockSize else sz.blockSize))) :
    (stageData E cfg pick shnum segnum v nd).1 = some (.block (Prep.block shnum segnum)) := by
  subst hrep
  have hT : Genuine E.ops ((upload E prm encode ser ct).blockT shnum) := build_genuine E.ops _
  have hbl : (blockLeaves E prm encode ct shnum).length = sz.numSegs := by
    rw [calcSizes_numSegs S.sizes]; simp [blockLeaves, segments]
  have hL : firstLeafNum sz.numSegs + segnum < (nd.blockTree shnum sz.numSegs).length := by
    rw [hlen, upload_blockT, Integrity.build_length, hbl]
    have := roundupPow2_ge sz.numSegs
    have := roundupPow2_pos sz.numSegs
    unfold firstLeafNum; omega
  have hleaf : Base.Merkle.get ((upload E prm encode ser ct).blockT shnum) (firstLeafNum sz.numSegs + segnum)
      = some (E.tagged .block v.block) := by
    have := build_leaf E.ops (blockLeaves E prm encode ct shnum) segnum (by rw [hbl]; exact hseg)
    rw [hbl] at this
    rw [upload_blockT, this, hblock]
    have hs : segnum < (segments ct prm.segSize).length := by
      have : (blockLeaves E prm encode ct shnum).length = (segments ct prm.segSize).length := by simp [blockLeaves]
      omega
    simp [blockLeaves, List.getElem?_map, List.getElem?_range hs, upload]
  rw [← hblock]
  exact honest_block_accepted S.strict pick shnum segnum v nd hk hT hlen hag hcl hL hfull hsize hleaf

/-- **repaired_share_block_fetch_chain** (the two block-tree stages chained on one node): on a download node that has
    accepted the UEB and whose block hash tree for share `shnum` is an anchored, closed partial copy of the repairer's
    tree (`TreeOK`, `Closed` — both invariants of every stage: `stageBlockHashes_sound`, `stageData_sound`,
    `stageBlockHashes_keeps_closed`, `stageData_keeps_closed`) without the leaf of `segnum`, a repaired (or old) share
    that answers the block hash request with `Prep`'s nodes and the block request with `Prep`'s block gets through
    `_satisfy_block_hash_tree` AND THEN, on the node that stage leaves behind, through `_satisfy_data_block`: the
    fetcher receives exactly the published block. -/
theorem repaired_share_block_fetch_chain (E : Env H) (cfg : Cfg) (prm : Params) (ser : UEB H → Bytes)
    (encode : Nat → Bytes → Nat → Bytes) (ct : Bytes) (sz : Sizes) (S : Setup E cfg prm ser encode ct sz)
    (Prep : Published H) (hrep : Prep = upload E prm encode ser ct)
    (pick : List Nat → Nat) (shnum segnum : Nat) (v : View H) (nd : Node H) (u : UEB H)
    (hk : nd.known = some (u, sz))
    (hok : TreeOK E.ops (Prep.blockT shnum) (nd.blockTree shnum sz.numSegs))
    (hcl : Closed (nd.blockTree shnum sz.numSegs)) (hseg : segnum < sz.numSegs)
    (hnew : Base.Merkle.get (nd.blockTree shnum sz.numSegs) (firstLeafNum sz.numSegs + segnum) = none)
    (hhonest : ∀ i, i < (Prep.blockT shnum).length → v.blockHashes i = Base.Merkle.get (Prep.blockT shnum) i)
    (hblock : v.block = Prep.block shnum segnum)
    (hsize : ¬ (v.block.isEmpty ∨
      v.block.length ≠ (if segnum + 1 = sz.numSegs then sz.tailBlockSize else sz.blockSize))) :
    (stageBlockHashes E cfg pick shnum segnum v nd).1 = none ∧
    (stageData E cfg pick shnum segnum v (stageBlockHashes E cfg pick shnum segnum v nd).2).1
      = some (.block (Prep.block shnum segnum)) := by
  have h1 := repaired_share_passes_block_hash_stage E cfg prm ser encode ct sz S Prep hrep pick shnum segnum v nd u
    hk hok.2.1 hok.2.2.1 hcl hseg hnew hhonest
  have hL : firstLeafNum sz.numSegs + segnum < (nd.blockTree shnum sz.numSegs).length := by
    rw [hok.2.1, hrep, upload_blockT, Integrity.build_length]
    have hbl : (blockLeaves E prm encode ct shnum).length = sz.numSegs := by
      rw [calcSizes_numSegs S.sizes]; simp [blockLeaves, segments]
    rw [hbl]
    have := roundupPow2_ge sz.numSegs
    have := roundupPow2_pos sz.numSegs
    unfold firstLeafNum; omega
  obtain ⟨hk1, hok1⟩ := stageBlockHashes_sound (cfg := cfg) S.strict S.inj pick shnum segnum v nd hk hok
  have hcl1 := stageBlockHashes_keeps_closed S.strict pick shnum segnum v nd hk hok hcl
  have hfull := stageBlockHashes_accept_full S.strict pick shnum segnum v nd hk hL h1
  refine ⟨h1, ?_⟩
  exact repaired_share_block_accepted E cfg prm ser encode ct sz S Prep hrep pick shnum segnum v _ u
    (by rw [hk1]; exact hk) hok1.2.1 hok1.2.2.1 hcl1 hseg (fun i hi => hfull i (Or.inl hi)) hblock hsize

/-- **validation_stages_keep_trees_closed**: the hypothesis `Closed` of the four acceptance theorems is an invariant of
    every stage of `Share._get_satisfaction` that writes a hash tree, whatever the share answers (accepted batches
    fill every parent, rejected batches are rolled back): `_satisfy_UEB` (roots stored), `_satisfy_share_hash_tree`,
    `set_block_hash_root`, `_satisfy_block_hash_tree`, `_satisfy_ciphertext_hash_tree`, `_satisfy_data_block`. A fresh
    node's trees are closed (`newTree_closed`), so every tree a download node ever holds is closed. -/
theorem validation_stages_keep_trees_closed (E : Env H) (cfg : Cfg) (prm : Params) (ser : UEB H → Bytes)
    (encode : Nat → Bytes → Nat → Bytes) (ct : Bytes) (sz : Sizes) (S : Setup E cfg prm ser encode ct sz)
    (pick : List Nat → Nat) (cap : Cap H) (shnum segnum : Nat) (v : View H) (nd : Node H) :
    (Closed nd.shareTree → Closed nd.ctTree →
      Closed (stageUEB E cap v nd).2.shareTree ∧ Closed (stageUEB E cap v nd).2.ctTree) ∧
    (Closed nd.shareTree → Closed (stageShareTree E cfg pick cap shnum v nd).2.shareTree) ∧
    (nd.ctTree.length % 2 = 1 → Closed nd.ctTree → Closed (stageCtHashes E cfg pick segnum v nd).2.ctTree) ∧
    (∀ u, nd.known = some (u, sz) → Closed (nd.blockTree shnum sz.numSegs) →
      Closed ((stageBlockRoot E cfg pick cap shnum nd).2.blockTree shnum sz.numSegs) ∧
      ∀ T, TreeOK E.ops T (nd.blockTree shnum sz.numSegs) →
        Closed ((stageBlockHashes E cfg pick shnum segnum v nd).2.blockTree shnum sz.numSegs) ∧
        (segnum < sz.numSegs → T.length = 2 * roundupPow2 sz.numSegs - 1 →
          Closed ((stageData E cfg pick shnum segnum v nd).2.blockTree shnum sz.numSegs))) := by
  refine ⟨fun hs hc => stageUEB_keeps_closed E cap v nd hs hc,
    fun hs => stageShareTree_keeps_closed S.strict pick cap shnum v nd hs,
    fun hodd hc => stageCtHashes_keeps_closed S.strict pick segnum v nd hodd hc, ?_⟩
  intro u hk hcl
  refine ⟨stageBlockRoot_keeps_closed S.strict pick cap shnum nd hk hcl, ?_⟩
  intro T hok
  exact ⟨stageBlockHashes_keeps_closed S.strict pick shnum segnum v nd hk hok hcl,
    fun hseg hlen => stageData_keeps_closed S.strict pick shnum segnum v nd hk hok hseg hlen hcl⟩

/-- a fresh download node satisfies the premises: all its trees are closed -/
example (cap : Cap H) : Closed (Node.init H cap).shareTree ∧ Closed (Node.init H cap).ctTree ∧
    ∀ sh m, Closed ((Node.init H cap).blockTree sh m) :=
  ⟨newTree_closed _, by intro i _ h; exact absurd (get_of_ge (by simp [Node.init])) h,
   fun sh m => by simp [Node.blockTree, Node.init]; exact newTree_closed _⟩

/-- **validation_stages_keep_trees_sibclosed**: `SibClosed` (every held non-root node has its sibling held) — the
    other premise of the whole-pass theorems, which makes a held leaf need no further hashes — is an invariant of every
    tree-writing stage of `Share._get_satisfaction` as well, whatever the share answers. A fresh node's trees are
    sibling-closed (`newTree_sibClosed`). -/
theorem validation_stages_keep_trees_sibclosed (E : Env H) (cfg : Cfg) (prm : Params) (ser : UEB H → Bytes)
    (encode : Nat → Bytes → Nat → Bytes) (ct : Bytes) (sz : Sizes) (S : Setup E cfg prm ser encode ct sz)
    (pick : List Nat → Nat) (cap : Cap H) (shnum segnum : Nat) (v : View H) (nd : Node H) :
    (SibClosed nd.shareTree → SibClosed nd.ctTree →
      SibClosed (stageUEB E cap v nd).2.shareTree ∧ SibClosed (stageUEB E cap v nd).2.ctTree) ∧
    (SibClosed nd.shareTree → SibClosed (stageShareTree E cfg pick cap shnum v nd).2.shareTree) ∧
    (nd.ctTree.length % 2 = 1 → SibClosed nd.ctTree → SibClosed (stageCtHashes E cfg pick segnum v nd).2.ctTree) ∧
    (∀ u, nd.known = some (u, sz) → SibClosed (nd.blockTree shnum sz.numSegs) →
      SibClosed ((stageBlockRoot E cfg pick cap shnum nd).2.blockTree shnum sz.numSegs) ∧
      ∀ T, TreeOK E.ops T (nd.blockTree shnum sz.numSegs) →
        SibClosed ((stageBlockHashes E cfg pick shnum segnum v nd).2.blockTree shnum sz.numSegs) ∧
        (segnum < sz.numSegs → T.length = 2 * roundupPow2 sz.numSegs - 1 →
          SibClosed ((stageData E cfg pick shnum segnum v nd).2.blockTree shnum sz.numSegs))) := by
  refine ⟨fun hs hc => stageUEB_keeps_sibClosed E cap v nd hs hc,
    fun hs => stageShareTree_keeps_sibClosed S.strict pick cap shnum v nd hs,
    fun hodd hc => stageCtHashes_keeps_sibClosed S.strict pick segnum v nd hodd hc, ?_⟩
  intro u hk hcl
  refine ⟨stageBlockRoot_keeps_sibClosed S.strict pick cap shnum nd hk hcl, ?_⟩
  intro T hok
  exact ⟨stageBlockHashes_keeps_sibClosed S.strict pick shnum segnum v nd hk hok hcl,
    fun hseg hlen => stageData_keeps_sibClosed S.strict pick shnum segnum v nd hk hok hseg hlen hcl⟩

/-- **repaired_share_passes_ct_stage_any**: the crypttext-hash stage lets a repaired share through whether or not the
    segment's crypttext leaf is already held — not yet held: `repaired_share_passes_ct_stage`; already held (the usual
    case for the second to k-th share asked for the same segment): in a closed, sibling-closed tree the whole uncle
    chain is held as well, nothing is requested and the stage passes (`held_leaf_needs_nothing`). `SibClosed`, like
    `Closed`, holds of every tree built by accepted `set_hashes` calls (C35 `tryBody_sibClosed`). -/
theorem repaired_share_passes_ct_stage_any (E : Env H) (cfg : Cfg) (prm : Params) (ser : UEB H → Bytes)
    (encode : Nat → Bytes → Nat → Bytes) (ct : Bytes) (sz : Sizes) (S : Setup E cfg prm ser encode ct sz)
    (Prep : Published H) (hrep : Prep = upload E prm encode ser ct)
    (pick : List Nat → Nat) (segnum : Nat) (v : View H) (nd : Node H) (u : UEB H)
    (hk : nd.known = some (u, sz)) (hlen : nd.ctTree.length = Prep.ctT.length)
    (hag : Agree nd.ctTree Prep.ctT) (hcl : Closed nd.ctTree) (hsc : SibClosed nd.ctTree) (hseg : segnum < sz.numSegs)
    (hhonest : ∀ i, i < Prep.ctT.length → v.ctHashes i = Base.Merkle.get Prep.ctT i) :
    (stageCtHashes E cfg pick segnum v nd).1 = none := by
  cases hg : Base.Merkle.get nd.ctTree (firstLeafNum sz.numSegs + segnum) with
  | none =>
    exact repaired_share_passes_ct_stage E cfg prm ser encode ct sz S Prep hrep pick segnum v nd u hk hlen hag hcl
      hseg hg hhonest
  | some w =>
    have hL : firstLeafNum sz.numSegs + segnum < nd.ctTree.length :=
      lt_of_get_ne_none (by rw [hg]; simp)
    rw [stageCtHashes_held_leaf E cfg pick segnum v nd hk hcl hsc hL (by rw [hg]; simp)]

/-- **repaired_share_block_fetch_chain_any**: `repaired_share_block_fetch_chain` whether or not the block hash leaf of
    the segment is already held (a second reader fetching the same segment from the same share): with the leaf held the
    block-hash stage has nothing to ask (`held_leaf_needs_nothing`), the uncle chain is held (`held_leaf_chain_held`)
    and the data stage compares the block with the stored leaf. -/
theorem repaired_share_block_fetch_chain_any (E : Env H) (cfg : Cfg) (prm : Params) (ser : UEB H → Bytes)
    (encode : Nat → Bytes → Nat → Bytes) (ct : Bytes) (sz : Sizes) (S : Setup E cfg prm ser encode ct sz)
    (Prep : Published H) (hrep : Prep = upload E prm encode ser ct)
    (pick : List Nat → Nat) (shnum segnum : Nat) (v : View H) (nd : Node H) (u : UEB H)
    (hk : nd.known = some (u, sz))
    (hok : TreeOK E.ops (Prep.blockT shnum) (nd.blockTree shnum sz.numSegs))
    (hcl : Closed (nd.blockTree shnum sz.numSegs)) (hsc : SibClosed (nd.blockTree shnum sz.numSegs))
    (hseg : segnum < sz.numSegs)
    (hhonest : ∀ i, i < (Prep.blockT shnum).length → v.blockHashes i = Base.Merkle.get (Prep.blockT shnum) i)
    (hblock : v.block = Prep.block shnum segnum)
    (hsize : ¬ (v.block.isEmpty ∨
      v.block.length ≠ (if segnum + 1 = sz.numSegs then sz.tailBlockSize else sz.blockSize))) :
    (stageBlockHashes E cfg pick shnum segnum v nd).1 = none ∧
    (stageData E cfg pick shnum segnum v (stageBlockHashes E cfg pick shnum segnum v nd).2).1
      = some (.block (Prep.block shnum segnum)) := by
  cases hg : Base.Merkle.get (nd.blockTree shnum sz.numSegs) (firstLeafNum sz.numSegs + segnum) with
  | none =>
    exact repaired_share_block_fetch_chain E cfg prm ser encode ct sz S Prep hrep pick shnum segnum v nd u hk hok hcl
      hseg hg hhonest hblock hsize
  | some w =>
    have hheld : Base.Merkle.get (nd.blockTree shnum sz.numSegs) (firstLeafNum sz.numSegs + segnum) ≠ none := by
      rw [hg]; simp
    have e := stageBlockHashes_held_leaf E cfg pick shnum segnum v nd hk hcl hsc (lt_of_get_ne_none hheld) hheld
    rw [e]
    exact ⟨rfl, repaired_share_block_accepted E cfg prm ser encode ct sz S Prep hrep pick shnum segnum v nd u hk
      hok.2.1 hok.2.2.1 hcl hseg (held_leaf_chain_held hcl hsc hheld) hblock hsize⟩

/-- the last three stages (`_satisfy_block_hash_tree`, `_satisfy_ciphertext_hash_tree`, `_satisfy_data_block`) run in
    sequence on a node whose block hash tree for the share is anchored: helper of the two whole-pass theorems -/
theorem tail_stages_deliver_block (E : Env H) (cfg : Cfg) (prm : Params) (ser : UEB H → Bytes)
    (encode : Nat → Bytes → Nat → Bytes) (ct : Bytes) (sz : Sizes) (S : Setup E cfg prm ser encode ct sz)
    (Prep : Published H) (hrep : Prep = upload E prm encode ser ct)
    (pick : List Nat → Nat) (shnum segnum : Nat) (v : View H) (nd : Node H) (u : UEB H)
    (hk : nd.known = some (u, sz)) (hseg : segnum < sz.numSegs)
    (hok : TreeOK E.ops (Prep.blockT shnum) (nd.blockTree shnum sz.numSegs))
    (hcl : Closed (nd.blockTree shnum sz.numSegs))
    (hsc : SibClosed (nd.blockTree shnum sz.numSegs))
    (hhonest : ∀ i, i < (Prep.blockT shnum).length → v.blockHashes i = Base.Merkle.get (Prep.blockT shnum) i)
    (hctlen : nd.ctTree.length = Prep.ctT.length) (hctag : Agree nd.ctTree Prep.ctT) (hctcl : Closed nd.ctTree)
    (hctsc : SibClosed nd.ctTree)
    (hcthonest : ∀ i, i < Prep.ctT.length → v.ctHashes i = Base.Merkle.get Prep.ctT i)
    (hblock : v.block = Prep.block shnum segnum)
    (hsize : ¬ (v.block.isEmpty ∨
      v.block.length ≠ (if segnum + 1 = sz.numSegs then sz.tailBlockSize else sz.blockSize))) :
    (runStages [stageBlockHashes E cfg pick shnum segnum v, stageCtHashes E cfg pick segnum v,
        stageData E cfg pick shnum segnum v] nd).1 = .block (Prep.block shnum segnum) := by
  obtain ⟨h6, _⟩ := repaired_share_block_fetch_chain_any E cfg prm ser encode ct sz S Prep hrep pick shnum segnum v nd u
    hk hok hcl hsc hseg hhonest hblock hsize
  rw [runStages_cons_none h6]
  obtain ⟨hk1, hct1, _⟩ := stageBlockHashes_frame E cfg pick shnum segnum v nd
  obtain ⟨_, hok1⟩ := stageBlockHashes_sound (cfg := cfg) S.strict S.inj pick shnum segnum v nd hk hok
  have hcl1 := stageBlockHashes_keeps_closed S.strict pick shnum segnum v nd hk hok hcl
  have hL : firstLeafNum sz.numSegs + segnum < (nd.blockTree shnum sz.numSegs).length := by
    rw [hok.2.1, hrep, upload_blockT, Integrity.build_length]
    have hbl : (blockLeaves E prm encode ct shnum).length = sz.numSegs := by
      rw [calcSizes_numSegs S.sizes]; simp [blockLeaves, segments]
    rw [hbl]
    have := roundupPow2_ge sz.numSegs
    have := roundupPow2_pos sz.numSegs
    unfold firstLeafNum; omega
  have hfull := stageBlockHashes_accept_full S.strict pick shnum segnum v nd hk hL h6
  generalize (stageBlockHashes E cfg pick shnum segnum v nd).2 = nd1 at hk1 hct1 hok1 hcl1 hfull ⊢
  have h7 := repaired_share_passes_ct_stage_any E cfg prm ser encode ct sz S Prep hrep pick segnum v nd1 u
    (by rw [hk1]; exact hk) (by rw [hct1]; exact hctlen) (by rw [hct1]; exact hctag) (by rw [hct1]; exact hctcl)
    (by rw [hct1]; exact hctsc) hseg hcthonest
  rw [runStages_cons_none h7]
  obtain ⟨hk2, hbt2, _⟩ := stageCtHashes_frame E cfg pick segnum v nd1
  have hbt : ∀ m, (stageCtHashes E cfg pick segnum v nd1).2.blockTree shnum m = nd1.blockTree shnum m := by
    intro m; unfold Node.blockTree; rw [hbt2]
  apply runStages_last_some
  exact repaired_share_block_accepted E cfg prm ser encode ct sz S Prep hrep pick shnum segnum v _ u
    (by rw [hk2, hk1]; exact hk) (by rw [hbt]; exact hok1.2.1) (by rw [hbt]; exact hok1.2.2.1) (by rw [hbt]; exact hcl1)
    hseg (fun i hi => by rw [hbt]; exact hfull i (Or.inl hi)) hblock hsize

/-- **anchored_repaired_share_delivers_block** (one whole `Share._get_satisfaction` pass, all eight stages threaded
    through `runStages`): on a download node that has validated the UEB, whose share hash tree already holds the uncle
    chain of share `shnum` and whose block hash tree for that share is anchored (an earlier segment was fetched from
    it), with closed partial copies of the repairer's block and crypttext hash trees that do not yet hold the leaves
    of `segnum`, a repaired (or old) share — sane offsets, `Prep`'s block hashes, `Prep`'s crypttext hashes, `Prep`'s
    block — is answered with exactly the published block: no stage waits, none declares the share corrupt or dead. -/
theorem anchored_repaired_share_delivers_block (E : Env H) (cfg : Cfg) (prm : Params) (ser : UEB H → Bytes)
    (encode : Nat → Bytes → Nat → Bytes) (ct : Bytes) (sz : Sizes) (S : Setup E cfg prm ser encode ct sz)
    (Prep : Published H) (hrep : Prep = upload E prm encode ser ct)
    (pick : List Nat → Nat) (shnum segnum : Nat) (v : View H) (nd : Node H) (u : UEB H)
    (hk : nd.known = some (u, sz)) (hseg : segnum < sz.numSegs)
    (hoff : satisfyOffsets v.version v.offs = none)
    (hshL : ¬ (firstLeafNum Prep.cap.n + shnum ≥ nd.shareTree.length))
    (hshare : (neededHashes nd.shareTree (firstLeafNum Prep.cap.n + shnum)).isEmpty = true)
    (hroot : truthyOpt E.ops (Base.Merkle.get (nd.blockTree shnum sz.numSegs) 0) = true)
    (hok : TreeOK E.ops (Prep.blockT shnum) (nd.blockTree shnum sz.numSegs))
    (hcl : Closed (nd.blockTree shnum sz.numSegs))
    (hsc : SibClosed (nd.blockTree shnum sz.numSegs))
    (hhonest : ∀ i, i < (Prep.blockT shnum).length → v.blockHashes i = Base.Merkle.get (Prep.blockT shnum) i)
    (hctlen : nd.ctTree.length = Prep.ctT.length) (hctag : Agree nd.ctTree Prep.ctT) (hctcl : Closed nd.ctTree)
    (hctsc : SibClosed nd.ctTree)
    (hcthonest : ∀ i, i < Prep.ctT.length → v.ctHashes i = Base.Merkle.get Prep.ctT i)
    (hblock : v.block = Prep.block shnum segnum)
    (hsize : ¬ (v.block.isEmpty ∨
      v.block.length ≠ (if segnum + 1 = sz.numSegs then sz.tailBlockSize else sz.blockSize))) :
    (satisfy E cfg pick Prep.cap nd shnum segnum v).1 = .block (Prep.block shnum segnum) := by
  unfold satisfy stages
  -- offsets, UEB (already validated), segment number, share hash tree (chain already held), block hash root (anchored)
  rw [runStages_cons_none (by simp only [hoff])]
  simp only [hoff]
  have e2 : stageUEB E Prep.cap v nd = (none, nd) := by unfold stageUEB; rw [hk]
  rw [runStages_cons_none (by rw [e2]), e2]
  have e3 : stageSegnum segnum nd = (none, nd) := by
    unfold stageSegnum; rw [hk]; simp only; rw [if_neg (by omega)]
  rw [runStages_cons_none (by rw [e3]), e3]
  have e4 : stageShareTree E cfg pick Prep.cap shnum v nd = (none, nd) := by
    unfold stageShareTree; rw [if_neg hshL, if_pos hshare]
  rw [runStages_cons_none (by rw [e4]), e4]
  have e5 : stageBlockRoot E cfg pick Prep.cap shnum nd = (none, nd) := by
    unfold stageBlockRoot; rw [hk]; simp only; rw [if_pos hroot]
  rw [runStages_cons_none (by rw [e5]), e5]
  -- block hash tree
  obtain ⟨h6, _⟩ := repaired_share_block_fetch_chain_any E cfg prm ser encode ct sz S Prep hrep pick shnum segnum v nd u
    hk hok hcl hsc hseg hhonest hblock hsize
  rw [runStages_cons_none h6]
  obtain ⟨hk1, hct1, _⟩ := stageBlockHashes_frame E cfg pick shnum segnum v nd
  obtain ⟨_, hok1⟩ := stageBlockHashes_sound (cfg := cfg) S.strict S.inj pick shnum segnum v nd hk hok
  have hcl1 := stageBlockHashes_keeps_closed S.strict pick shnum segnum v nd hk hok hcl
  have hL : firstLeafNum sz.numSegs + segnum < (nd.blockTree shnum sz.numSegs).length := by
    rw [hok.2.1, hrep, upload_blockT, Integrity.build_length]
    have hbl : (blockLeaves E prm encode ct shnum).length = sz.numSegs := by
      rw [calcSizes_numSegs S.sizes]; simp [blockLeaves, segments]
    rw [hbl]
    have := roundupPow2_ge sz.numSegs
    have := roundupPow2_pos sz.numSegs
    unfold firstLeafNum; omega
  have hfull := stageBlockHashes_accept_full S.strict pick shnum segnum v nd hk hL h6
  generalize (stageBlockHashes E cfg pick shnum segnum v nd).2 = nd1 at hk1 hct1 hok1 hcl1 hfull ⊢
  -- crypttext hash tree
  have h7 := repaired_share_passes_ct_stage_any E cfg prm ser encode ct sz S Prep hrep pick segnum v nd1 u
    (by rw [hk1]; exact hk) (by rw [hct1]; exact hctlen) (by rw [hct1]; exact hctag) (by rw [hct1]; exact hctcl)
    (by rw [hct1]; exact hctsc) hseg hcthonest
  rw [runStages_cons_none h7]
  obtain ⟨hk2, hbt2, _⟩ := stageCtHashes_frame E cfg pick segnum v nd1
  have hbt : ∀ m, (stageCtHashes E cfg pick segnum v nd1).2.blockTree shnum m = nd1.blockTree shnum m := by
    intro m; unfold Node.blockTree; rw [hbt2]
  -- data block
  apply runStages_last_some
  exact repaired_share_block_accepted E cfg prm ser encode ct sz S Prep hrep pick shnum segnum v _ u
    (by rw [hk2, hk1]; exact hk) (by rw [hbt]; exact hok1.2.1) (by rw [hbt]; exact hok1.2.2.1) (by rw [hbt]; exact hcl1)
    hseg (fun i hi => by rw [hbt]; exact hfull i (Or.inl hi)) hblock hsize

/-- a three-segment file (1-of-1, symbolic hashes) for the non-vacuity check of
    `anchored_repaired_share_delivers_block`: with four leaf slots the fetch of segment 0 anchors share 0 and leaves
    the leaves of segment 2 unknown -/
def ex3Ct : Bytes := [10, 11, 12, 13, 14]
def ex3E : Env SymH :=
  { C02.exE0 with
    parseUEB := fun b => if b = [7] then some (upload C02.exE0 C02.exPrm C02.exEncode C02.exSer ex3Ct).ueb else none }
def ex3Honest (segnum : Nat) : View SymH :=
  let P := upload ex3E C02.exPrm C02.exEncode C02.exSer ex3Ct
  { C02.exHonest 0 with
    blockHashes := fun i => Base.Merkle.get (P.blockT 0) i, ctHashes := fun i => Base.Merkle.get P.ctT i,
    block := P.block 0 segnum }

example :
    let P := upload ex3E C02.exPrm C02.exEncode C02.exSer ex3Ct
    let dec : Nat → List (Nat × Bytes) → Bytes := fun _ bl => (bl.head?.map (·.2)).getD []
    let nd := C02.nodeAfter ex3E Cfg.asIs (fun _ => 0) dec P.cap [(0, [(0, ex3Honest 0)])]
    nd.known.isSome ∧ satisfyOffsets (ex3Honest 2).version (ex3Honest 2).offs = none ∧
    (neededHashes nd.shareTree (firstLeafNum P.cap.n + 0)).isEmpty = true ∧
    truthyOpt ex3E.ops (Base.Merkle.get (nd.blockTree 0 3) 0) = true ∧
    Base.Merkle.get (nd.blockTree 0 3) (firstLeafNum 3 + 2) = none ∧
    Base.Merkle.get nd.ctTree (firstLeafNum 3 + 2) = none ∧
    (satisfy ex3E Cfg.asIs (fun _ => 0) P.cap nd 0 2 (ex3Honest 2)).1 = .block (P.block 0 2) ∧
    (satisfy ex3E Cfg.asIs (fun _ => 0) P.cap nd 0 2
      { ex3Honest 2 with block := [99] }).1 = .corrupt := by decide

/-- **fresh_repaired_share_delivers_block** (the FIRST `_get_satisfaction` pass over a share, all eight stages): on a
    download node that has validated the UEB, holds an anchored closed partial copy of the repairer's share hash tree
    that still lacks part of the uncle chain of share `shnum`, and has never seen that share (its block hash tree is
    empty), a repaired (or old) share — sane offsets, `Prep`'s share hash chain,
    block hashes, crypttext hashes and block — is answered with exactly the published block: the share hash chain is
    accepted, the block hash root is taken from the validated leaf, and the remaining stages follow
    (`tail_stages_deliver_block`). Together with `anchored_repaired_share_delivers_block` this covers every pass. -/
theorem fresh_repaired_share_delivers_block (E : Env H) (cfg : Cfg) (prm : Params) (ser : UEB H → Bytes)
    (encode : Nat → Bytes → Nat → Bytes) (ct : Bytes) (sz : Sizes) (S : Setup E cfg prm ser encode ct sz)
    (Prep : Published H) (hrep : Prep = upload E prm encode ser ct)
    (pick : List Nat → Nat) (shnum segnum : Nat) (v : View H) (nd : Node H) (u : UEB H)
    (hk : nd.known = some (u, sz)) (hseg : segnum < sz.numSegs) (hsh : shnum < prm.n)
    (hoff : satisfyOffsets v.version v.offs = none)
    (hshare : TreeOK E.ops Prep.shareT nd.shareTree) (hshcl : Closed nd.shareTree)
    (hne : (neededHashes nd.shareTree (firstLeafNum prm.n + shnum)).isEmpty = false)
    (hgen : ∀ i w, (i, w) ∈ dictOf v.shareHashes → Base.Merkle.get Prep.shareT i = some w)
    (hkeys : ∀ i w, (i, w) ∈ dictOf v.shareHashes →
      i ∈ neededFor (firstLeafNum prm.n + shnum) ∨ i = firstLeafNum prm.n + shnum)
    (hcov : ∀ i ∈ neededFor (firstLeafNum prm.n + shnum), ∃ w, (i, w) ∈ dictOf v.shareHashes)
    (hleaf : ∃ w, (firstLeafNum prm.n + shnum, w) ∈ dictOf v.shareHashes)
    (hbt : nd.blockTree shnum sz.numSegs = newTree H sz.numSegs)
    (hhonest : ∀ i, i < (Prep.blockT shnum).length → v.blockHashes i = Base.Merkle.get (Prep.blockT shnum) i)
    (hctlen : nd.ctTree.length = Prep.ctT.length) (hctag : Agree nd.ctTree Prep.ctT) (hctcl : Closed nd.ctTree)
    (hctsc : SibClosed nd.ctTree)
    (hcthonest : ∀ i, i < Prep.ctT.length → v.ctHashes i = Base.Merkle.get Prep.ctT i)
    (hblock : v.block = Prep.block shnum segnum)
    (hsize : ¬ (v.block.isEmpty ∨
      v.block.length ≠ (if segnum + 1 = sz.numSegs then sz.tailBlockSize else sz.blockSize))) :
    (satisfy E cfg pick Prep.cap nd shnum segnum v).1 = .block (Prep.block shnum segnum) := by
  subst hrep
  have hn : (upload E prm encode ser ct).cap.n = prm.n := rfl
  unfold satisfy stages
  rw [runStages_cons_none (by simp only [hoff])]
  simp only [hoff]
  have e2 : stageUEB E (upload E prm encode ser ct).cap v nd = (none, nd) := by unfold stageUEB; rw [hk]
  rw [runStages_cons_none (by rw [e2]), e2]
  have e3 : stageSegnum segnum nd = (none, nd) := by
    unfold stageSegnum; rw [hk]; simp only; rw [if_neg (by omega)]
  rw [runStages_cons_none (by rw [e3]), e3]
  -- share hash chain
  have h4 := repaired_share_passes_share_hash_stage E cfg prm ser encode ct sz S _ rfl pick shnum v nd hsh
    hshare.2.1 hshare.2.2.1 hshcl hgen hkeys hcov hleaf
  rw [runStages_cons_none h4]
  have hL : ¬ (firstLeafNum (upload E prm encode ser ct).cap.n + shnum ≥ nd.shareTree.length) := by
    rw [hn, hshare.2.1, upload_shareT, Integrity.build_length]
    have hl : (shareLeaves E prm encode ct).length = prm.n := by simp [shareLeaves]
    rw [hl]
    have := roundupPow2_ge prm.n
    have := roundupPow2_pos prm.n
    unfold firstLeafNum; omega
  obtain ⟨w, hw⟩ := hleaf
  have hleafst := stageShareTree_accept_leaf S.strict pick (upload E prm encode ser ct).cap shnum v nd hL hne hw h4
  have hshare' := stageShareTree_sound (cfg := cfg) S.strict S.inj pick (upload E prm encode ser ct).cap shnum v nd hshare
  have hfr : (stageShareTree E cfg pick (upload E prm encode ser ct).cap shnum v nd).2.known = nd.known ∧
      (stageShareTree E cfg pick (upload E prm encode ser ct).cap shnum v nd).2.ctTree = nd.ctTree ∧
      (stageShareTree E cfg pick (upload E prm encode ser ct).cap shnum v nd).2.blockTrees = nd.blockTrees := by
    unfold stageShareTree
    dsimp only
    repeat' split
    all_goals exact ⟨rfl, rfl, rfl⟩
  generalize (stageShareTree E cfg pick (upload E prm encode ser ct).cap shnum v nd).2 = nd' at hleafst hshare' hfr ⊢
  obtain ⟨hk', hct', hbts'⟩ := hfr
  have hbt' : nd'.blockTree shnum sz.numSegs = newTree H sz.numSegs := by
    unfold Node.blockTree at hbt ⊢; rw [hbts']; exact hbt
  -- block hash root from the validated leaf
  have e5 := stageBlockRoot_fresh E cfg pick (upload E prm encode ser ct).cap shnum nd' (by rw [hk']; exact hk) hbt' hleafst
  have hok2 := (stageBlockRoot_sound (cfg := cfg) S.strict S.inj pick shnum hsh nd' (by rw [hk']; exact hk)
    (calcSizes_numSegs S.sizes) hshare' (Or.inl hbt') _ e5).2.2
  rw [runStages_cons_none (by rw [e5]), e5]
  exact tail_stages_deliver_block E cfg prm ser encode ct sz S _ rfl pick shnum segnum v _ u
    (by rw [(setBlockTree_known nd' shnum _).1, hk']; exact hk) hseg hok2
    (by rw [blockTree_set_same]; exact seed_closed _ _)
    (by rw [blockTree_set_same]; exact seed_keeps_sibClosed (newTree_sibClosed _) _)
    hhonest
    (by rw [(setBlockTree_known nd' shnum _).2.2, hct']; exact hctlen)
    (by rw [(setBlockTree_known nd' shnum _).2.2, hct']; exact hctag)
    (by rw [(setBlockTree_known nd' shnum _).2.2, hct']; exact hctcl)
    (by rw [(setBlockTree_known nd' shnum _).2.2, hct']; exact hctsc)
    hcthonest hblock hsize

/-- **known_chain_repaired_share_delivers_block** (the third kind of pass: the share is new to the node but its share
    hash chain is already held because other shares supplied it): the share hash stage has nothing to ask, the leaf
    of `shnum` is held (sibling-closedness), the block hash root is taken from it, and the remaining stages follow.
    With `anchored_…` (share seen before) and `fresh_…` (chain not yet held) every pass of `_get_satisfaction` over a
    repaired share is covered. -/
theorem known_chain_repaired_share_delivers_block (E : Env H) (cfg : Cfg) (prm : Params) (ser : UEB H → Bytes)
    (encode : Nat → Bytes → Nat → Bytes) (ct : Bytes) (sz : Sizes) (S : Setup E cfg prm ser encode ct sz)
    (Prep : Published H) (hrep : Prep = upload E prm encode ser ct)
    (pick : List Nat → Nat) (shnum segnum : Nat) (v : View H) (nd : Node H) (u : UEB H)
    (hk : nd.known = some (u, sz)) (hseg : segnum < sz.numSegs) (hsh : shnum < prm.n)
    (hoff : satisfyOffsets v.version v.offs = none)
    (hshare : TreeOK E.ops Prep.shareT nd.shareTree) (hshsc : SibClosed nd.shareTree)
    (hempty : (neededHashes nd.shareTree (firstLeafNum prm.n + shnum)).isEmpty = true)
    (hbt : nd.blockTree shnum sz.numSegs = newTree H sz.numSegs)
    (hhonest : ∀ i, i < (Prep.blockT shnum).length → v.blockHashes i = Base.Merkle.get (Prep.blockT shnum) i)
    (hctlen : nd.ctTree.length = Prep.ctT.length) (hctag : Agree nd.ctTree Prep.ctT) (hctcl : Closed nd.ctTree)
    (hctsc : SibClosed nd.ctTree)
    (hcthonest : ∀ i, i < Prep.ctT.length → v.ctHashes i = Base.Merkle.get Prep.ctT i)
    (hblock : v.block = Prep.block shnum segnum)
    (hsize : ¬ (v.block.isEmpty ∨
      v.block.length ≠ (if segnum + 1 = sz.numSegs then sz.tailBlockSize else sz.blockSize))) :
    (satisfy E cfg pick Prep.cap nd shnum segnum v).1 = .block (Prep.block shnum segnum) := by
  subst hrep
  have hn : (upload E prm encode ser ct).cap.n = prm.n := rfl
  unfold satisfy stages
  rw [runStages_cons_none (by simp only [hoff])]
  simp only [hoff]
  have e2 : stageUEB E (upload E prm encode ser ct).cap v nd = (none, nd) := by unfold stageUEB; rw [hk]
  rw [runStages_cons_none (by rw [e2]), e2]
  have e3 : stageSegnum segnum nd = (none, nd) := by
    unfold stageSegnum; rw [hk]; simp only; rw [if_neg (by omega)]
  rw [runStages_cons_none (by rw [e3]), e3]
  have hL : ¬ (firstLeafNum (upload E prm encode ser ct).cap.n + shnum ≥ nd.shareTree.length) := by
    rw [hn, hshare.2.1, upload_shareT, Integrity.build_length]
    have hl : (shareLeaves E prm encode ct).length = prm.n := by simp [shareLeaves]
    rw [hl]
    have := roundupPow2_ge prm.n
    have := roundupPow2_pos prm.n
    unfold firstLeafNum; omega
  have e4 : stageShareTree E cfg pick (upload E prm encode ser ct).cap shnum v nd = (none, nd) := by
    unfold stageShareTree; rw [if_neg hL, if_pos (by rw [hn]; exact hempty)]
  rw [runStages_cons_none (by rw [e4]), e4]
  -- the leaf of `shnum` is held: it is the root, or the sibling of a held member of its own uncle chain
  have hheld : Base.Merkle.get nd.shareTree (firstLeafNum prm.n + shnum) ≠ none := by
    by_cases h0 : firstLeafNum prm.n + shnum = 0
    · rw [h0]; exact hshare.2.2.2
    · have hmem : sibling (firstLeafNum prm.n + shnum) ∈ neededFor (firstLeafNum prm.n + shnum) :=
        mem_neededFor.mpr ⟨_, Anc.self _, h0, rfl⟩
      have hsibknown : Base.Merkle.get nd.shareTree (sibling (firstLeafNum prm.n + shnum)) ≠ none := by
        intro hnone
        have : sibling (firstLeafNum prm.n + shnum) ∈ neededHashes nd.shareTree (firstLeafNum prm.n + shnum) :=
          mem_neededHashes.mpr ⟨hmem, hnone⟩
        rw [List.isEmpty_iff.mp hempty] at this
        cases this
      have := hshsc _ (sibling_ne_zero h0) hsibknown
      rw [sibling_sibling h0] at this
      exact this
  obtain ⟨r, hr⟩ : ∃ r, Base.Merkle.get nd.shareTree (firstLeafNum prm.n + shnum) = some r := by
    cases hg : Base.Merkle.get nd.shareTree (firstLeafNum prm.n + shnum) with
    | none => exact absurd hg hheld
    | some r => exact ⟨r, rfl⟩
  have e5 := stageBlockRoot_fresh E cfg pick (upload E prm encode ser ct).cap shnum nd hk hbt hr
  have hok2 := (stageBlockRoot_sound (cfg := cfg) S.strict S.inj pick shnum hsh nd hk
    (calcSizes_numSegs S.sizes) hshare (Or.inl hbt) _ e5).2.2
  rw [runStages_cons_none (by rw [e5]), e5]
  exact tail_stages_deliver_block E cfg prm ser encode ct sz S _ rfl pick shnum segnum v _ u
    (by rw [(setBlockTree_known nd shnum _).1]; exact hk) hseg hok2
    (by rw [blockTree_set_same]; exact seed_closed _ _)
    (by rw [blockTree_set_same]; exact seed_keeps_sibClosed (newTree_sibClosed _) _)
    hhonest
    (by rw [(setBlockTree_known nd shnum _).2.2]; exact hctlen)
    (by rw [(setBlockTree_known nd shnum _).2.2]; exact hctag)
    (by rw [(setBlockTree_known nd shnum _).2.2]; exact hctcl)
    (by rw [(setBlockTree_known nd shnum _).2.2]; exact hctsc)
    hcthonest hblock hsize

/-- a two-segment file replicated on two shares (1-of-2, symbolic hashes) for the non-vacuity check of
    `fresh_repaired_share_delivers_block`: the share hash chain of share 0 is its own leaf and the leaf of share 1 -/
def ex2Prm : Params := { k := 1, n := 2, segSize := 2 }
def ex2E : Env SymH :=
  { C02.exE0 with
    parseUEB := fun b => if b = [7] then some (upload C02.exE0 ex2Prm C02.exEncode C02.exSer C02.exCt).ueb else none }
def ex2Honest (shnum segnum : Nat) : View SymH :=
  let P := upload ex2E ex2Prm C02.exEncode C02.exSer C02.exCt
  { C02.exHonest 0 with
    shareHashes := [1, 2].filterMap (fun i => (Base.Merkle.get P.shareT i).map (fun h => (i, h))),
    blockHashes := fun i => Base.Merkle.get (P.blockT shnum) i, ctHashes := fun i => Base.Merkle.get P.ctT i,
    block := P.block shnum segnum }

example :
    let P := upload ex2E ex2Prm C02.exEncode C02.exSer C02.exCt
    let nd := (stageUEB ex2E P.cap (ex2Honest 0 1) (Node.init SymH P.cap)).2
    nd.known.isSome ∧ satisfyOffsets (ex2Honest 0 1).version (ex2Honest 0 1).offs = none ∧
    (neededHashes nd.shareTree (firstLeafNum 2 + 0)).isEmpty = false ∧
    (dictOf (ex2Honest 0 1).shareHashes).length = 2 ∧
    nd.blockTree 0 2 = newTree SymH 2 ∧ Base.Merkle.get nd.ctTree (firstLeafNum 2 + 1) = none ∧
    (satisfy ex2E Cfg.asIs (fun _ => 0) P.cap nd 0 1 (ex2Honest 0 1)).1 = .block (P.block 0 1) ∧
    (satisfy ex2E Cfg.asIs (fun _ => 0) P.cap (Node.init SymH P.cap) 0 1 (ex2Honest 0 1)).1 = .block (P.block 0 1) ∧
    (satisfy ex2E Cfg.asIs (fun _ => 0) P.cap nd 0 1
      { ex2Honest 0 1 with shareHashes := ((ex2Honest 0 1).shareHashes.map (fun e => (e.1, SymH.raw 99))) }).1
      = .dead .badHash := by decide

/-- non-vacuity of `known_chain_repaired_share_delivers_block` (and of the held-leaf branch of
    `repaired_share_passes_ct_stage_any`): after segment 1 was fetched from share 0 of the 1-of-2 file, share 1 is
    new to the node, its share hash chain is already held, the crypttext leaf of segment 1 is held — and share 1 is
    answered with its published block of segment 1 -/
example :
    let P := upload ex2E ex2Prm C02.exEncode C02.exSer C02.exCt
    let dec : Nat → List (Nat × Bytes) → Bytes := fun _ bl => (bl.head?.map (·.2)).getD []
    let nd := C02.nodeAfter ex2E Cfg.asIs (fun _ => 0) dec P.cap [(1, [(0, ex2Honest 0 1)])]
    nd.known.isSome ∧ (neededHashes nd.shareTree (firstLeafNum 2 + 1)).isEmpty = true ∧
    nd.blockTree 1 2 = newTree SymH 2 ∧ (Base.Merkle.get nd.ctTree (firstLeafNum 2 + 1)).isSome = true ∧
    (satisfy ex2E Cfg.asIs (fun _ => 0) P.cap nd 1 1 (ex2Honest 1 1)).1 = .block (P.block 1 1) := by decide

/-- **share_tree_closed_on_every_reachable_node**: the premises `Closed nd.shareTree` / `SibClosed nd.shareTree` of the
    whole-pass theorems hold on every node a download can reach: start from a fresh node and run ANY sequence of
    `_get_satisfaction` passes — any share numbers, segment numbers and server answers, honest or not. (The stage
    invariants `validation_stages_keep_trees_closed` / `_sibclosed` lifted through `runStages` and over the history.) -/
theorem share_tree_closed_on_every_reachable_node (E : Env H) (cfg : Cfg) (prm : Params) (ser : UEB H → Bytes)
    (encode : Nat → Bytes → Nat → Bytes) (ct : Bytes) (sz : Sizes) (S : Setup E cfg prm ser encode ct sz)
    (pick : List Nat → Nat) (cap : Cap H) (passes : List (Nat × Nat × View H)) :
    Closed (passes.foldl (fun nd p => (satisfy E cfg pick cap nd p.1 p.2.1 p.2.2).2) (Node.init H cap)).shareTree ∧
    SibClosed (passes.foldl (fun nd p => (satisfy E cfg pick cap nd p.1 p.2.1 p.2.2).2) (Node.init H cap)).shareTree := by
  have hgen : ∀ (ps : List (Nat × Nat × View H)) (nd : Node H), Closed nd.shareTree ∧ SibClosed nd.shareTree →
      Closed (ps.foldl (fun nd p => (satisfy E cfg pick cap nd p.1 p.2.1 p.2.2).2) nd).shareTree ∧
      SibClosed (ps.foldl (fun nd p => (satisfy E cfg pick cap nd p.1 p.2.1 p.2.2).2) nd).shareTree := by
    intro ps
    induction ps with
    | nil => intro nd h; exact h
    | cons p rest ih =>
      intro nd h
      exact ih _ (satisfy_keeps_share_tree_closed S.strict pick cap nd p.1 p.2.1 p.2.2 h)
  exact hgen passes _ ⟨newTree_closed _, newTree_sibClosed _⟩

/-- **ct_tree_closed_on_every_reachable_node**: the premises `Closed nd.ctTree` / `SibClosed nd.ctTree` of the whole-pass
    theorems hold on every node a download can reach (any sequence of passes from a fresh node, any server answers);
    the invariant also carries "not installed yet or of odd length", which the crypttext stage needs to stay in range. -/
theorem ct_tree_closed_on_every_reachable_node (E : Env H) (cfg : Cfg) (prm : Params) (ser : UEB H → Bytes)
    (encode : Nat → Bytes → Nat → Bytes) (ct : Bytes) (sz : Sizes) (S : Setup E cfg prm ser encode ct sz)
    (pick : List Nat → Nat) (cap : Cap H) (passes : List (Nat × Nat × View H)) :
    Closed (passes.foldl (fun nd p => (satisfy E cfg pick cap nd p.1 p.2.1 p.2.2).2) (Node.init H cap)).ctTree ∧
    SibClosed (passes.foldl (fun nd p => (satisfy E cfg pick cap nd p.1 p.2.1 p.2.2).2) (Node.init H cap)).ctTree := by
  have hgen : ∀ (ps : List (Nat × Nat × View H)) (nd : Node H), CtGood nd →
      CtGood (ps.foldl (fun nd p => (satisfy E cfg pick cap nd p.1 p.2.1 p.2.2).2) nd) := by
    intro ps
    induction ps with
    | nil => intro nd h; exact h
    | cons p rest ih =>
      intro nd h
      exact ih _ (satisfy_keeps_ctGood S.strict pick cap nd p.1 p.2.1 p.2.2 h)
  have h0 : CtGood (Node.init H cap) := by
    have e : (Node.init H cap).ctTree = [] := rfl
    refine ⟨?_, ?_, Or.inr e⟩
    · intro i _ h; rw [e] at h; exact absurd (get_of_ge (by simp)) h
    · intro i _ h; rw [e] at h; exact absurd (get_of_ge (by simp)) h
  have := hgen passes _ h0
  exact ⟨this.1, this.2.1⟩

/-- **readable_from_repaired_shares_partial**.  Full statement (NOT proved): after a repair that reports success,
    every read that is offered any k distinct shares out of the old and the repaired ones ends `done` with the
    file's bytes.  Proved here: (1) old and repaired shares are one share set of the original publication
    (`repair_output_is_encoder_output`), so every block / hash a repaired share holds is the uploader's; (2) whatever
    such a read writes is a prefix of the requested range and a read that ends `done` wrote exactly the file
    (C02 `read_prefix_correct`, for arbitrary answers, hence also for repaired shares).  Missing links, each a
    theorem elsewhere that is not yet instantiated on this model: chaining the four per-stage acceptance theorems
    (`repaired_share_passes_share_hash_stage`, `repaired_share_passes_block_hash_stage`,
    `repaired_share_passes_ct_stage`, `repaired_share_block_accepted`) along one whole fetch (the block-hash and data stages are chained in
    `repaired_share_block_fetch_chain`; closedness of every tree is a proved stage invariant,
    `validation_stages_keep_trees_closed`; one whole pass over an anchored share is threaded through `runStages` in
    `anchored_repaired_share_delivers_block` and, for the first pass over a share, in
    `fresh_repaired_share_delivers_block`; the induction over the fetch history is left); decoding of any k genuine blocks (`Tahoe.C36.immutable_any_k_blocks_decode_rs256`,
    `rs256_mds`, for `decode` := zfec); termination with k good shares (C03 / C46). -/
theorem readable_from_repaired_shares_partial (E : Env H) (cfg : Cfg) (prm : Params) (ser : UEB H → Bytes)
    (encode : Nat → Bytes → Nat → Bytes) (ct : Bytes) (sz : Sizes) (S : Setup E cfg prm ser encode ct sz)
    (Prep : Published H) (hrep : Prep = upload E prm encode ser ct)
    (pick : List Nat → Nat) (decode : Nat → List (Nat × Bytes) → Bytes) (guess : Nat) (scripts : List (Script H)) :
    (∀ sh seg, Prep.block sh seg = (upload E prm encode ser ct).block sh seg) ∧
    (∀ sh, Prep.blockT sh = (upload E prm encode ser ct).blockT sh) ∧
    Prep.shareT = (upload E prm encode ser ct).shareT ∧ Prep.ctT = (upload E prm encode ser ct).ctT ∧
    Prep.uebBytes = (upload E prm encode ser ct).uebBytes ∧
    (let r := read E cfg pick decode Prep.cap guess scripts (Node.init H Prep.cap) 0 ct.length
     r.1 <+: ct ∧ (r.2 = .done → r.1 = ct)) := by
  subst hrep
  refine ⟨fun _ _ => rfl, fun _ => rfl, rfl, rfl, rfl, ?_⟩
  have h := C02.read_prefix_correct E cfg prm ser encode ct sz S pick decode guess scripts 0 ct.length
  have e : (ct.drop 0).take ct.length = ct := by simp
  rw [e] at h
  exact h

/-- non-vacuity: on the example file the node that accepted the honest share's UEB (nothing else yet) satisfies the
    hypotheses of `repaired_share_passes_ct_stage` for segment 1 — and the stage accepts; a seeded tree is closed -/
example :
    let cap := (upload C02.exE C02.exPrm C02.exEncode C02.exSer C02.exCt).cap
    let nd := (satisfy C02.exE Cfg.asIs (fun _ => 0) cap (Node.init SymH cap) 0 0
                { C02.exHonest 0 with blockHashes := fun _ => none }).2     -- UEB accepted, then waits for block hashes
    nd.known.isSome ∧ Base.Merkle.get nd.ctTree (firstLeafNum 2 + 1) = none ∧
    (stageCtHashes C02.exE Cfg.asIs (fun _ => 0) 1 (C02.exHonest 1) nd).1 = none := by decide

example : Closed (seed (newTree SymH 2) (SymH.raw 1)) := seed_closed 2 _

/-- non-vacuity of `repaired_share_passes_block_hash_stage`: the same node (UEB accepted, block hash root of share 0
    seeded from the validated share hash leaf, no block hash leaf yet) meets its hypotheses for share 0, segments 0
    and 1 — and the stage accepts the honest share's block hashes; a share that withholds them makes the stage wait -/
example :
    let cap := (upload C02.exE C02.exPrm C02.exEncode C02.exSer C02.exCt).cap
    let nd := (satisfy C02.exE Cfg.asIs (fun _ => 0) cap (Node.init SymH cap) 0 0
                { C02.exHonest 0 with blockHashes := fun _ => none }).2
    nd.known.isSome ∧ Base.Merkle.get (nd.blockTree 0 2) 0 ≠ none ∧
    Base.Merkle.get (nd.blockTree 0 2) (firstLeafNum 2 + 0) = none ∧
    Base.Merkle.get (nd.blockTree 0 2) (firstLeafNum 2 + 1) = none ∧
    (stageBlockHashes C02.exE Cfg.asIs (fun _ => 0) 0 0 (C02.exHonest 0) nd).1 = none ∧
    (stageBlockHashes C02.exE Cfg.asIs (fun _ => 0) 0 1 (C02.exHonest 0) nd).1 = none ∧
    (stageBlockHashes C02.exE Cfg.asIs (fun _ => 0) 0 1 { C02.exHonest 0 with blockHashes := fun _ => none } nd).1
      = some .wait := by decide

/-- non-vacuity of `repaired_share_passes_share_hash_stage` (3 shares, so the chain of share 1 has two uncles): on a
    node that holds only the share hash root, the chain `[2, 3, 4]` of published nodes meets the hypotheses — every
    entry is a published node on the uncle chain or the leaf, the chain is covered, the leaf is present — and the
    stage accepts; a chain with one node replaced is rejected, an empty chain makes the stage wait -/
example :
    let T := build symOpsH [SymH.raw 10, SymH.raw 11, SymH.raw 12]
    let cap : Cap SymH := { (upload C02.exE C02.exPrm C02.exEncode C02.exSer C02.exCt).cap with n := 3 }
    let nd : Node SymH := { Node.init SymH cap with shareTree := seed (newTree SymH 3) ((Base.Merkle.get T 0).getD (SymH.raw 0)) }
    let L := firstLeafNum 3 + 1
    let chain := [2, 3, 4].filterMap (fun i => (Base.Merkle.get T i).map (fun h => (i, h)))
    let d := dictOf chain
    nd.shareTree.length = T.length ∧ d.length = 3 ∧ neededFor L = [3, 2] ∧
    d.all (fun e => decide (Base.Merkle.get T e.1 = some e.2) && (decide (e.1 ∈ neededFor L) || decide (e.1 = L))) = true ∧
    (neededFor L).all (fun i => d.any (fun e => decide (e.1 = i))) = true ∧ d.any (fun e => decide (e.1 = L)) = true ∧
    (stageShareTree C02.exE Cfg.asIs (fun _ => 0) cap 1 { C02.exHonest 0 with shareHashes := chain } nd).1 = none ∧
    (stageShareTree C02.exE Cfg.asIs (fun _ => 0) cap 1
      { C02.exHonest 0 with shareHashes := (2, SymH.raw 99) :: chain.drop 1 } nd).1 = some (.dead .badHash) ∧
    (stageShareTree C02.exE Cfg.asIs (fun _ => 0) cap 1 { C02.exHonest 0 with shareHashes := [] } nd).1
      = some .wait := by decide

/-- non-vacuity of `repaired_share_block_accepted`: after the honest fetch of segment 0 from share 0 the node holds
    the uncle chain of segment 1 of that share, and the stage hands over exactly the published block of segment 1;
    a block with one byte flipped is reported corrupt -/
example :
    let cap := (upload C02.exE C02.exPrm C02.exEncode C02.exSer C02.exCt).cap
    let dec : Nat → List (Nat × Bytes) → Bytes := fun _ bl => (bl.head?.map (·.2)).getD []
    let nd := C02.nodeAfter C02.exE Cfg.asIs (fun _ => 0) dec cap [(0, [(0, C02.exHonest 0)])]
    nd.known.isSome ∧
    (neededFor (firstLeafNum 2 + 1)).all (fun i => (Base.Merkle.get (nd.blockTree 0 2) i).isSome) = true ∧
    (stageData C02.exE Cfg.asIs (fun _ => 0) 0 1 (C02.exHonest 1) nd).1
      = some (.block ((upload C02.exE C02.exPrm C02.exEncode C02.exSer C02.exCt).block 0 1)) ∧
    (stageData C02.exE Cfg.asIs (fun _ => 0) 0 1
      { C02.exHonest 1 with block := (C02.exHonest 1).block.map (· + 1) } nd).1 = some .corrupt := by decide

/-- non-vacuity of `repaired_share_block_fetch_chain`: on the node that accepted the UEB and seeded the block hash
    root of share 0 (root present, leaf of segment 1 absent) the honest share gets through both stages in sequence
    and the fetcher receives the published block of segment 1 -/
example :
    let P := upload C02.exE C02.exPrm C02.exEncode C02.exSer C02.exCt
    let nd := (satisfy C02.exE Cfg.asIs (fun _ => 0) P.cap (Node.init SymH P.cap) 0 0
                { C02.exHonest 0 with blockHashes := fun _ => none }).2
    let nd1 := (stageBlockHashes C02.exE Cfg.asIs (fun _ => 0) 0 1 (C02.exHonest 1) nd).2
    Base.Merkle.get (nd.blockTree 0 2) 0 = Base.Merkle.get (P.blockT 0) 0 ∧
    Base.Merkle.get (nd.blockTree 0 2) (firstLeafNum 2 + 1) = none ∧
    (stageBlockHashes C02.exE Cfg.asIs (fun _ => 0) 0 1 (C02.exHonest 1) nd).1 = none ∧
    (stageData C02.exE Cfg.asIs (fun _ => 0) 0 1 (C02.exHonest 1) nd1).1 = some (.block (P.block 0 1)) := by decide

/-- the regenerated share of the example verifies good under the original cap (both verifiers) -/
example :
    let ct' := (read C02.exE Cfg.asIs (fun _ => 0) (fun _ bl => (bl.head?.map (·.2)).getD [])
      (upload C02.exE C02.exPrm C02.exEncode C02.exSer C02.exCt).cap 4
      [[(0, C02.exHonest 0)], [(0, C02.exHonest 1)]]
      (Node.init SymH (upload C02.exE C02.exPrm C02.exEncode C02.exSer C02.exCt).cap) 0 3).1
    ct' = C02.exCt ∧
    (upload C02.exE C02.exPrm C02.exEncode C02.exSer ct').block 0 1 = exHonestV.block 1 := by decide

/-- **post_repair_healthy_implies_N_good**: `_gather_repair_results` merges the verified pre-repair sharemap with
    the upload results' sharemap.  `goodNow srv sh` = "share `sh` on server `srv` verifies good in the grid as it
    is after the repair" (a function of the grid state only).  Provided the pre-repair verified shares are still
    good (they are untouched: `repair_never_alters_good_shares`) and the upload results' sharemap lists only
    shares the upload really wrote (regenerated = genuine: `repair_regenerates_identical_shares`) — NOT shares a
    server merely claimed to hold — a post-repair "healthy" / `repair_successful` means N distinct share numbers
    each verified good somewhere, and `count_shares_good` counts distinct good share numbers. -/
theorem post_repair_healthy_implies_N_good (k n : Nat) (pre : List ServerResult) (ur : List (Nat × Nat))
    (goodNow : Nat → Nat → Prop)
    (hpre : ∀ r ∈ pre, ∀ sh ∈ r.verified, goodNow r.server sh)
    (hur : ∀ sh srv, (sh, srv) ∈ ur → goodNow srv sh) :
    (∀ sh ∈ postRepairKeys pre ur, ∃ srv, goodNow srv sh) ∧ (postRepairKeys pre ur).Nodup ∧
    (gatherRepairResults k n pre ur).countGood = (postRepairKeys pre ur).length ∧
    ((gatherRepairResults k n pre ur).healthy = true → n ≤ (postRepairKeys pre ur).length) ∧
    ((gatherRepairResults k n pre ur).recoverable = true → k ≤ (postRepairKeys pre ur).length) := by
  obtain ⟨h1, h2⟩ := postRepairKeys_spec pre ur
  refine ⟨?_, h1, rfl, by simp [gatherRepairResults], by simp [gatherRepairResults]⟩
  intro sh hsh
  rcases (h2 sh).mp hsh with ⟨r, hr, hv⟩ | ⟨srv, hs⟩
  · exact ⟨r.server, hpre r hr sh hv⟩
  · exact ⟨srv, hur sh srv hs⟩

/-- 3-of-4: shares 0,1 verified before the repair, share 2 found corrupt on server 2, share 3 missing.  An upload
    that reports only what it wrote (share 3) gives "not healthy, 3 good"; one that also reports the share server 2
    merely claims to hold gives "healthy, 4 good" although only 3 good shares exist (the hypothesis `hur` fails). -/
example :
    let pre : List ServerResult := [⟨0, [0], [], [], true⟩, ⟨1, [1], [], [], true⟩, ⟨2, [], [2], [], true⟩]
    gatherRepairResults 3 4 pre [(3, 3)] = ⟨false, true, 3⟩ ∧
    gatherRepairResults 3 4 pre [(3, 3), (2, 2)] = ⟨true, true, 4⟩ := by decide

/-- **noverify_believes_servers**: a check without verification counts exactly the distinct share numbers that some
    answering server CLAIMS to hold (it never reads them), reports no corrupt or incompatible share, and is healthy /
    recoverable by that count alone. -/
theorem noverify_believes_servers (k n : Nat) (answers : List (Nat × Option (List Nat))) :
    let rs := answers.map (fun a => checkServerShares a.1 a.2)
    (∀ sh, sh ∈ verifiedKeys rs ↔ ∃ a ∈ answers, ∃ bs, a.2 = some bs ∧ sh ∈ bs) ∧
    corruptLocators rs = [] ∧ incompatibleLocators rs = [] ∧
    ((checkNoVerify k n answers).healthy = true ↔ (verifiedKeys rs).length = n) ∧
    ((checkNoVerify k n answers).recoverable = true ↔ k ≤ (verifiedKeys rs).length) ∧
    (checkNoVerify k n answers).countCorrupt = 0 := by
  intro rs
  have hc : ∀ a : Nat × Option (List Nat), (checkServerShares a.1 a.2).corrupt = [] ∧
      (checkServerShares a.1 a.2).incompatible = [] := by
    intro a; cases h : a.2 <;> simp [checkServerShares, h]
  refine ⟨?_, ?_, ?_, by simp [checkNoVerify, formatResults, rs], by simp [checkNoVerify, formatResults, rs], ?_⟩
  · intro sh
    rw [(verifiedKeys_spec rs).2 sh]
    constructor
    · rintro ⟨r, hr, hv⟩
      obtain ⟨a, ha, rfl⟩ := List.mem_map.mp hr
      cases h : a.2 with
      | none => simp [checkServerShares, h] at hv
      | some bs => exact ⟨a, ha, bs, h, by simpa [checkServerShares, h] using hv⟩
    · rintro ⟨a, ha, bs, h, hv⟩
      exact ⟨checkServerShares a.1 a.2, List.mem_map.mpr ⟨a, ha, rfl⟩, by simpa [checkServerShares, h] using hv⟩
  · simp [corruptLocators, rs, List.flatMap_map, (hc _).1]
  · simp [incompatibleLocators, rs, List.flatMap_map, (hc _).2]
  · have := (corrupt_shares_listed_count k n rs)
    rw [show checkNoVerify k n answers = formatResults k n rs from rfl, this]
    simp [corruptLocators, rs, List.flatMap_map, (hc _).1]
    clear this hc rs
    induction answers with
    | nil => rfl
    | cons a rest ih => simpa using ih

/-- 2-of-3: server 0 claims shares 0,1 (whatever their bytes are), server 1 does not answer, server 2 claims 1,2 -/
example :
    checkNoVerify 2 3 [(0, some [0, 1]), (1, none), (2, some [1, 2])] = ⟨true, true, 3, 0, 0⟩ ∧
    checkNoVerify 2 3 [(0, some [0]), (1, none)] = ⟨false, false, 1, 0, 0⟩ := by decide

/-- **corrupt_shares_listed**: the corrupt (incompatible) share list of a check names exactly the (server, share)
    pairs some server's verification classified as corrupt (incompatible), and `count-corrupt-shares` is its length. -/
theorem corrupt_shares_listed (k n : Nat) (rs : List ServerResult) :
    (∀ s sh, (s, sh) ∈ corruptLocators rs ↔ ∃ r ∈ rs, r.server = s ∧ sh ∈ r.corrupt) ∧
    (∀ s sh, (s, sh) ∈ incompatibleLocators rs ↔ ∃ r ∈ rs, r.server = s ∧ sh ∈ r.incompatible) ∧
    (formatResults k n rs).countCorrupt = (corruptLocators rs).length ∧
    (formatResults k n rs).countIncompatible = (incompatibleLocators rs).length := by
  refine ⟨?_, ?_, ?_, ?_⟩
  · intro s sh
    simp only [corruptLocators, List.mem_flatMap, List.mem_map, List.mem_eraseDups, Prod.mk.injEq]
    constructor
    · rintro ⟨r, hr, x, hx, e1, e2⟩; exact ⟨r, hr, e1, e2 ▸ hx⟩
    · rintro ⟨r, hr, e1, hx⟩; exact ⟨r, hr, sh, hx, e1, rfl⟩
  · intro s sh
    simp only [incompatibleLocators, List.mem_flatMap, List.mem_map, List.mem_eraseDups, Prod.mk.injEq]
    constructor
    · rintro ⟨r, hr, x, hx, e1, e2⟩; exact ⟨r, hr, e1, e2 ▸ hx⟩
    · rintro ⟨r, hr, e1, hx⟩; exact ⟨r, hr, sh, hx, e1, rfl⟩
  · simp [formatResults, corruptLocators, List.length_flatMap]
  · simp [formatResults, incompatibleLocators, List.length_flatMap]

example :
    corruptLocators [⟨0, [0], [3, 3], [], true⟩, ⟨2, [], [1], [5], true⟩] = [(0, 3), (2, 1)] ∧
    incompatibleLocators [⟨0, [0], [3, 3], [], true⟩, ⟨2, [], [1], [5], true⟩] = [(2, 5)] ∧
    (formatResults 1 2 [⟨0, [0], [3, 3], [], true⟩, ⟨2, [], [1], [5], true⟩]).countCorrupt = 2 := by decide

/-- **recoverable_unhealthy_repair_attempted**: `_maybe_repair` starts a repair exactly when fewer than N distinct
    good share numbers were found; in particular a file that is recoverable (≥ k distinct good shares) but not healthy
    always gets a repair attempt, and the decision depends only on the set of good share numbers, not on the
    servers that hold them (seed C45-d: "good share hosts < k" is not a reason to skip the repair). -/
theorem recoverable_unhealthy_repair_attempted (k n : Nat) (rs : List ServerResult) :
    (repairDecision k n rs = true ↔ (verifiedKeys rs).length ≠ n) ∧
    ((formatResults k n rs).recoverable = true → (formatResults k n rs).healthy = false → repairDecision k n rs = true) ∧
    (∀ rs', verifiedKeys rs' = verifiedKeys rs → repairDecision k n rs' = repairDecision k n rs) := by
  refine ⟨by simp [repairDecision, formatResults], ?_, ?_⟩
  · intro _ h; simp [repairDecision, h]
  · intro rs' h; simp [repairDecision, formatResults, h]

/-- 3-of-4 with shares 0,1,2 good, all on ONE server: recoverable, not healthy, repair attempted; the same shares
    spread over three servers give the same decision; a healthy file gets no repair -/
example :
    formatResults 3 4 [⟨0, [0, 1, 2], [], [], true⟩] = ⟨false, true, 3, 0, 0⟩ ∧
    repairDecision 3 4 [⟨0, [0, 1, 2], [], [], true⟩] = true ∧
    repairDecision 3 4 [⟨0, [0], [], [], true⟩, ⟨1, [1], [], [], true⟩, ⟨2, [2], [], [], true⟩] = true ∧
    repairDecision 3 4 [⟨0, [0, 1, 2, 3], [], [], true⟩] = false := by decide

/-- **repair_never_alters_good_shares** (abstract storage behaviour, C22): a share a server already holds is
    reported `alreadygot`, no writer is handed out for it, a write closing onto it changes nothing, and after the
    repair upload every share that was there is still there with the same bytes. -/
theorem repair_never_alters_good_shares (st : Store) (req : List Nat) (gen : Nat → Bytes) :
    (∀ sh b, st.lookup sh = some b → (repairOn st req gen).lookup sh = some b) ∧
    (∀ sh, sh ∈ (allocate st req).1 ↔ sh ∈ req ∧ (st.lookup sh).isSome) ∧
    (∀ sh, sh ∈ (allocate st req).2 → st.lookup sh = none) ∧
    (∀ sh data, (st.lookup sh).isSome → closeWriter st sh data = st) := by
  refine ⟨fun sh b h => repairOn_keeps st req gen sh b h, ?_, ?_, ?_⟩
  · intro sh; simp [allocate]
  · intro sh h
    have h2 := (List.mem_filter.mp h).2
    exact Option.isNone_iff_eq_none.mp h2
  · intro sh data h
    simp [closeWriter, h]

example :
    let st : Store := [(0, [1]), (2, [3])]
    allocate st [0, 1, 2, 3] = ([0, 2], [1, 3]) ∧
    repairOn st [0, 1, 2, 3] (fun sh => [UInt8.ofNat (10 + sh)]) = [(0, [1]), (2, [3]), (1, [11]), (3, [13])] := by
  decide

end Tahoe.C45
