import Tahoe.Crypto.Lemmas
import Tahoe.Crypto.UseLemmas
import Tahoe.Crypto.ObjectsLemmas
import Tahoe.Base.Sha256Lemmas
/-! C17 — key and secret derivations match the specification (property theorems only; 89 theorems).

    As built.  Models: `Tahoe/Crypto/Derive.lean` (every hashutil derivation, cap-class and lease chains, the catalogue
    `Deriv` for domain separation), `Tahoe/Crypto/Use.lean` (secrets at the point of use: uploader tracker table,
    checker / servermap add-lease, publish writers, announcement → seeds), `Tahoe/Crypto/Objects.lean`
    (`MutableFileNode` / `Checker` as machines over call histories), on `Tahoe/Base/Sha256.lean` and
    `Tahoe/Base/NetstringEnc.lean`.  Helper lemmas: `Tahoe/Crypto/Lemmas.lean`, `UseLemmas.lean`, `ObjectsLemmas.lean`,
    `Tahoe/Base/Sha256Lemmas.lean`.  Driver `Drv/C17.lean`, harness `harness/props/c17.py` (fixed corpus for the seeded
    changes C17-a…e first; `VERIF_CORPUS_ONLY=1`).  No `_partial` theorem, no known finding, no fix diff for C17.
    Still an assumption / correspondence only: see the last rows of the table below.

    Every tag string and truncation length below is written as a *literal* copied from the
    documentation (docs/specifications/lease.rst, file-encoding.rst, mutable.rst, uri.rst, dirnodes.rst)
    or, where the docs only say "hashed with a single-purpose tag", from the compatibility-frozen values
    of util/hashutil.py / test_hashutil.py at the verified revision.  The model takes its tags and
    truncations from `Tahoe/Generated/Hashutil.lean` (regenerated from the live source on every run), so
    an edit of a tag or of a truncation in the source makes the corresponding theorem here fail to build.

    ## Coverage of the statement

    Statement (properties.jsonl): "Storage indexes, mutable read keys, write enablers, data keys, directory
    child-cap keys and lease renewal/cancel secrets are computed exactly as the specification describes
    (tagged double SHA-256 with netstring-wrapped tags), for all inputs.  Any change to them would make
    existing files unreachable or leases unrenewable."  Observation points: bytes passed to storage servers
    (lease secrets, write enablers), cap storage indexes.

    | clause | theorem(s) for the model | tie of model to code |
    |---|---|---|
    | immutable storage index = SHA256d(netstring(tag)+key)[:16] | `spec_form_storage_index`, `storage_index_tag_as_documented`, `lengths_16` | extraction (tag, truncation) + correspondence (`storage_index_hash`, `uri.CHKFileURI`, uploads on the grid) |
    | mutable read key, storage index | `spec_form_ssk_readkey`, `spec_form_ssk_storage_index`, `chain_ssk_caps`, `chain_privkey_to_storage_index`, `mutable_node_storage_index` | extraction + correspondence (hashutil, `uri.*SSK*/*MDMF*` incl. string round trip, `MutableFileNode`, grid) |
    | write key, pubkey fingerprint | `spec_form_ssk_writekey`, `spec_form_ssk_pubkey_fingerprint` | extraction + correspondence (`derive_mutable_keys` on real RSA keys) |
    | write enablers (master + per server) | `spec_form_ssk_write_enabler_master`, `spec_form_ssk_write_enabler`, `lengths_32` | extraction + correspondence |
    | … the write enabler SENT to each server is that server's | `publish_writers_pairing`, `publish_defined_iff` (any goal list) | correspondence: `pubwriters` vs `slot_testv_and_readv_and_writev` traffic on the grid; `MutableFileNode.get_write_enabler` call histories |
    | data keys | `spec_form_ssk_datakey` | extraction + correspondence (hashutil only; `Retrieve`/`Publish` use is exercised on the grid by reading back, not compared) |
    | directory child-cap keys (and salt) | `spec_form_dirnode_child_key`, `spec_form_dirnode_child_salt`, `chain_dirnode_child_key` | extraction + correspondence (`_encrypt_rw_uri`, `_decrypt_rwcapdata` histories) |
    | lease renewal / cancel secrets, client → file → bucket | `spec_form_client_*`, `spec_form_file_*`, `spec_form_bucket_*`, `chain_renewal_secret`, `chain_cancel_secret`, `lease_tags_as_documented` | extraction + correspondence + lease.rst vectors |
    | … the lease secrets SENT to each server are that server's (upload, repair) | `trackers_pairing`, `tracker_uses_own_server_secret`, `trackers_defined_iff`, `upload_query_carries_own_server_chain` (any candidate list, any filter) | correspondence: `trackers`/`uptrackers` vs `Tahoe2ServerSelector._create_trackers` / `get_shareholders`; `allocate_buckets` traffic on grids with filtered servers |
    | … add-lease renews the lease the upload/publish created ("leases unrenewable") | `add_lease_matches_upload_lease`, `mutable_add_lease_matches_publish_lease` | correspondence: `chkaddlease`/`mutaddlease` vs `add_lease` traffic; monitor: one lease per share, renewable with the spec secret |
    | … the seed that enters the chain is the server's TubID, whatever it announces | `lease_seed_is_tubid`, `permutation_seed_shapes`, `announced_server_gets_tubid_chain` | correspondence: `nativeserver` vs real `NativeStorageServer` / `HTTPNativeStorageServer` built from announcements of every shape; wire traffic of Checker / ServermapUpdater / node getters |
    | "tagged double SHA-256 with netstring-wrapped tags" | every `spec_form_*` (shape), `pre_is_hasher_input`, `hasher_streaming`, `netstring_unique_decoding`, `netstring_prefix_free` | `tag_binding*` (extractor observes tag, #feeds, truncation of each function) |
    | tags single-purpose (a change/confusion of derivations cannot collide) | `tags_pairwise_distinct`, `domain_separated` (guard shown tight by `domain_separation_needs_secret_length`) | — |
    | convergent key | `spec_form_convergence`, `convergence_rejects_bad_parameters`, `tag_binding_convergence` | extraction + correspondence |
    | "for all inputs" | all of the above are ∀-statements without size bounds; where the code asserts (`len(peerid) == 20`) or raises (k,n range) the theorems say so (`*_defined_iff`, `if … then … else none`) | correspondence covers the assert / ValueError paths |
    | call results do not depend on call history (no stale per-server memo) | `node_answer_independent_of_history`, `node_same_call_same_answer`, `node_secrets_after_any_history`, `checker_answers_independent_of_history` (object machines of `Tahoe/Crypto/Objects.lean`: any history, any position; `init_from_cap` is the only state change) | correspondence: `nodehist` / `chkhist` run the same seeded and corpus histories (re-announced servers, re-keying) on the real `MutableFileNode` / `Checker` objects; `SecretHolder`, `Tahoe2ServerSelector` rounds and dirnode functions stay correspondence only |
    | SHA-256 / SHA-1 are the FIPS functions | padding only: `sha256_padding_as_specified`, `sha256_padding_injective`, `domain_separated_blocks`, plus `sha256_length`; the compression functions, constants and the block loop are NOT proved against FIPS 180-4 (validated by NIST vectors, `#guard`) | correspondence with hashlib on boundary lengths; `pad` vs the FIPS padding formula |
    | "any change would make files unreachable" (consequence) | not a theorem; it is the reason the tag/truncation pins exist | monitor: known-answer vectors of test_hashutil.py and lease.rst |

    SHA-256 itself is the executable definition of `Tahoe/Base/Sha256.lean`; nothing below depends on its
    internals except `sha256_length`. -/
namespace Tahoe.C17
open Tahoe.Crypto.Derive Tahoe.Base.Sha256 Tahoe.Base.NetstringEnc Tahoe.Generated

/-! ## Netstring: unique decodability (the ∀-lemma behind domain separation) -/

/-- a netstring followed by anything determines its payload and the remainder -/
theorem netstring_unique_decoding (a b x y : List UInt8) (h : netstring a ++ x = netstring b ++ y) :
    a = b ∧ x = y := netstring_append_inj h

example : netstring [1, 2] ++ [9] = netstring [1, 2] ++ [9] := rfl

/-- no netstring is a proper prefix of another netstring -/
theorem netstring_prefix_free (a b : List UInt8) (h : netstring a <+: netstring b) : a = b :=
  Tahoe.Base.NetstringEnc.netstring_prefix_free h

example : netstring [7] <+: netstring [7] := List.prefix_refl _

/-! ## The tag constants of the live source equal the documented strings -/

/-! one named pin per tag constant (`c17_pin` compares the constant with the string literal); an edited tag in
    util/hashutil.py changes `Generated/Hashutil.lean` and breaks exactly the pin of that tag (and the
    `spec_form` theorems that mention it) -/
theorem tag_BACKUPDB_DIRHASH : Hashutil.BACKUPDB_DIRHASH_TAG = ascii "allmydata_backupdb_dirhash_v1" := by c17_pin
theorem tag_BLOCK : Hashutil.BLOCK_TAG = ascii "allmydata_encoded_subshare_v1" := by c17_pin
theorem tag_BUCKET_CANCEL : Hashutil.BUCKET_CANCEL_TAG = ascii "allmydata_bucket_cancel_secret_v1" := by c17_pin
theorem tag_BUCKET_RENEWAL : Hashutil.BUCKET_RENEWAL_TAG = ascii "allmydata_bucket_renewal_secret_v1" := by c17_pin
theorem tag_CIPHERTEXT_SEGMENT : Hashutil.CIPHERTEXT_SEGMENT_TAG = ascii "allmydata_crypttext_segment_v1" := by c17_pin
theorem tag_CIPHERTEXT : Hashutil.CIPHERTEXT_TAG = ascii "allmydata_crypttext_v1" := by c17_pin
theorem tag_CLIENT_CANCEL : Hashutil.CLIENT_CANCEL_TAG = ascii "allmydata_client_cancel_secret_v1" := by c17_pin
theorem tag_CLIENT_RENEWAL : Hashutil.CLIENT_RENEWAL_TAG = ascii "allmydata_client_renewal_secret_v1" := by c17_pin
theorem tag_CONVERGENT_ENCRYPTION : Hashutil.CONVERGENT_ENCRYPTION_TAG = ascii "allmydata_immutable_content_to_key_with_added_secret_v1+" := by c17_pin
theorem tag_DIRNODE_CHILD_SALT : Hashutil.DIRNODE_CHILD_SALT_TAG = ascii "allmydata_dirnode_child_rwcap_to_salt_v1" := by c17_pin
theorem tag_DIRNODE_CHILD_WRITECAP : Hashutil.DIRNODE_CHILD_WRITECAP_TAG = ascii "allmydata_mutable_writekey_and_salt_to_dirnode_child_capkey_v1" := by c17_pin
theorem tag_FILE_CANCEL : Hashutil.FILE_CANCEL_TAG = ascii "allmydata_file_cancel_secret_v1" := by c17_pin
theorem tag_FILE_RENEWAL : Hashutil.FILE_RENEWAL_TAG = ascii "allmydata_file_renewal_secret_v1" := by c17_pin
theorem tag_MUTABLE_DATAKEY : Hashutil.MUTABLE_DATAKEY_TAG = ascii "allmydata_mutable_readkey_to_datakey_v1" := by c17_pin
theorem tag_MUTABLE_PUBKEY : Hashutil.MUTABLE_PUBKEY_TAG = ascii "allmydata_mutable_pubkey_to_fingerprint_v1" := by c17_pin
theorem tag_MUTABLE_READKEY : Hashutil.MUTABLE_READKEY_TAG = ascii "allmydata_mutable_writekey_to_readkey_v1" := by c17_pin
theorem tag_MUTABLE_STORAGEINDEX : Hashutil.MUTABLE_STORAGEINDEX_TAG = ascii "allmydata_mutable_readkey_to_storage_index_v1" := by c17_pin
theorem tag_MUTABLE_WRITEKEY : Hashutil.MUTABLE_WRITEKEY_TAG = ascii "allmydata_mutable_privkey_to_writekey_v1" := by c17_pin
theorem tag_MUTABLE_WRITE_ENABLER_MASTER : Hashutil.MUTABLE_WRITE_ENABLER_MASTER_TAG = ascii "allmydata_mutable_writekey_to_write_enabler_master_v1" := by c17_pin
theorem tag_MUTABLE_WRITE_ENABLER : Hashutil.MUTABLE_WRITE_ENABLER_TAG = ascii "allmydata_mutable_write_enabler_master_and_nodeid_to_write_enabler_v1" := by c17_pin
theorem tag_PLAINTEXT_SEGMENT : Hashutil.PLAINTEXT_SEGMENT_TAG = ascii "allmydata_plaintext_segment_v1" := by c17_pin
theorem tag_PLAINTEXT : Hashutil.PLAINTEXT_TAG = ascii "allmydata_plaintext_v1" := by c17_pin
theorem tag_STORAGE_INDEX : Hashutil.STORAGE_INDEX_TAG = ascii "allmydata_immutable_key_to_storage_index_v1" := by c17_pin
theorem tag_UEB : Hashutil.UEB_TAG = ascii "allmydata_uri_extension_v1" := by c17_pin

/-- docs/specifications/lease.rst: the six lease-secret tags -/
theorem lease_tags_as_documented :
    Hashutil.CLIENT_RENEWAL_TAG = ascii "allmydata_client_renewal_secret_v1" ∧
    Hashutil.CLIENT_CANCEL_TAG = ascii "allmydata_client_cancel_secret_v1" ∧
    Hashutil.FILE_RENEWAL_TAG = ascii "allmydata_file_renewal_secret_v1" ∧
    Hashutil.FILE_CANCEL_TAG = ascii "allmydata_file_cancel_secret_v1" ∧
    Hashutil.BUCKET_RENEWAL_TAG = ascii "allmydata_bucket_renewal_secret_v1" ∧
    Hashutil.BUCKET_CANCEL_TAG = ascii "allmydata_bucket_cancel_secret_v1" :=
  ⟨tag_CLIENT_RENEWAL, tag_CLIENT_CANCEL, tag_FILE_RENEWAL, tag_FILE_CANCEL, tag_BUCKET_RENEWAL, tag_BUCKET_CANCEL⟩

/-- docs/specifications/file-encoding.rst: `SI = SHA256d(netstring("allmydata_immutable_key_to_storage_index_v1") + key)` -/
theorem storage_index_tag_as_documented :
    Hashutil.STORAGE_INDEX_TAG = ascii "allmydata_immutable_key_to_storage_index_v1" := tag_STORAGE_INDEX

/-- the remaining tags (the docs describe these derivations in prose; the strings are the
    compatibility-frozen values of util/hashutil.py, cross-checked by the known answers of test_hashutil.py) -/
theorem other_tags_pinned :
    Hashutil.BACKUPDB_DIRHASH_TAG = ascii "allmydata_backupdb_dirhash_v1" ∧
    Hashutil.BLOCK_TAG = ascii "allmydata_encoded_subshare_v1" ∧
    Hashutil.CIPHERTEXT_SEGMENT_TAG = ascii "allmydata_crypttext_segment_v1" ∧
    Hashutil.CIPHERTEXT_TAG = ascii "allmydata_crypttext_v1" ∧
    Hashutil.CONVERGENT_ENCRYPTION_TAG = ascii "allmydata_immutable_content_to_key_with_added_secret_v1+" ∧
    Hashutil.DIRNODE_CHILD_SALT_TAG = ascii "allmydata_dirnode_child_rwcap_to_salt_v1" ∧
    Hashutil.DIRNODE_CHILD_WRITECAP_TAG = ascii "allmydata_mutable_writekey_and_salt_to_dirnode_child_capkey_v1" ∧
    Hashutil.MUTABLE_DATAKEY_TAG = ascii "allmydata_mutable_readkey_to_datakey_v1" ∧
    Hashutil.MUTABLE_PUBKEY_TAG = ascii "allmydata_mutable_pubkey_to_fingerprint_v1" ∧
    Hashutil.MUTABLE_READKEY_TAG = ascii "allmydata_mutable_writekey_to_readkey_v1" ∧
    Hashutil.MUTABLE_STORAGEINDEX_TAG = ascii "allmydata_mutable_readkey_to_storage_index_v1" ∧
    Hashutil.MUTABLE_WRITEKEY_TAG = ascii "allmydata_mutable_privkey_to_writekey_v1" ∧
    Hashutil.MUTABLE_WRITE_ENABLER_MASTER_TAG = ascii "allmydata_mutable_writekey_to_write_enabler_master_v1" ∧
    Hashutil.MUTABLE_WRITE_ENABLER_TAG = ascii "allmydata_mutable_write_enabler_master_and_nodeid_to_write_enabler_v1" ∧
    Hashutil.PLAINTEXT_SEGMENT_TAG = ascii "allmydata_plaintext_segment_v1" ∧
    Hashutil.PLAINTEXT_TAG = ascii "allmydata_plaintext_v1" ∧
    Hashutil.UEB_TAG = ascii "allmydata_uri_extension_v1" :=
  ⟨tag_BACKUPDB_DIRHASH, tag_BLOCK, tag_CIPHERTEXT_SEGMENT, tag_CIPHERTEXT, tag_CONVERGENT_ENCRYPTION, tag_DIRNODE_CHILD_SALT, tag_DIRNODE_CHILD_WRITECAP, tag_MUTABLE_DATAKEY, tag_MUTABLE_PUBKEY, tag_MUTABLE_READKEY, tag_MUTABLE_STORAGEINDEX, tag_MUTABLE_WRITEKEY, tag_MUTABLE_WRITE_ENABLER_MASTER, tag_MUTABLE_WRITE_ENABLER, tag_PLAINTEXT_SEGMENT, tag_PLAINTEXT, tag_UEB⟩

/-- documented sizes: hashes and secrets are 32 bytes, AES keys and IVs 16 bytes -/
theorem sizes_as_documented : Hashutil.CRYPTO_VAL_SIZE = 32 ∧ Hashutil.KEYLEN = 16 ∧ Hashutil.IVLEN = 16 := by decide

/-! ## spec_form: every derivation is SHA-256d of `netstring(tag) ++ …`, truncated as documented -/

/-- file-encoding.rst `SI = SHA256d(netstring(tag) + key)`; uri.rst "truncated to 128 bits" -/
theorem spec_form_storage_index (key : List UInt8) :
    storageIndexHash key = (sha256 (sha256 (netstring (ascii "allmydata_immutable_key_to_storage_index_v1") ++ key))).take 16 := by
  rw [← tag_STORAGE_INDEX]
  rfl

/-- block hash (leaf of the block hash tree) -/
theorem spec_form_block (d : List UInt8) :
    blockHash d = sha256 (sha256 (netstring (ascii "allmydata_encoded_subshare_v1") ++ d)) := by
  rw [← tag_BLOCK]
  rfl

/-- UEB hash of the CHK cap -/
theorem spec_form_uri_extension (d : List UInt8) :
    uriExtensionHash d = sha256 (sha256 (netstring (ascii "allmydata_uri_extension_v1") ++ d)) := by
  rw [← tag_UEB]
  rfl

/-- flat plaintext hash -/
theorem spec_form_plaintext (d : List UInt8) :
    plaintextHash d = sha256 (sha256 (netstring (ascii "allmydata_plaintext_v1") ++ d)) := by
  rw [← tag_PLAINTEXT]
  rfl

/-- flat ciphertext hash -/
theorem spec_form_crypttext (d : List UInt8) :
    crypttextHash d = sha256 (sha256 (netstring (ascii "allmydata_crypttext_v1") ++ d)) := by
  rw [← tag_CIPHERTEXT]
  rfl

/-- ciphertext segment hash (leaf of the crypttext hash tree) -/
theorem spec_form_crypttext_segment (d : List UInt8) :
    crypttextSegmentHash d = sha256 (sha256 (netstring (ascii "allmydata_crypttext_segment_v1") ++ d)) := by
  rw [← tag_CIPHERTEXT_SEGMENT]
  rfl

/-- plaintext segment hash -/
theorem spec_form_plaintext_segment (d : List UInt8) :
    plaintextSegmentHash d = sha256 (sha256 (netstring (ascii "allmydata_plaintext_segment_v1") ++ d)) := by
  rw [← tag_PLAINTEXT_SEGMENT]
  rfl

/-- backupdb directory hash -/
theorem spec_form_backupdb_dirhash (d : List UInt8) :
    backupdbDirhash d = sha256 (sha256 (netstring (ascii "allmydata_backupdb_dirhash_v1") ++ d)) := by
  rw [← tag_BACKUPDB_DIRHASH]
  rfl

/-- mutable.rst: "The private key is hashed and truncated to 16 bytes to form the write key" -/
theorem spec_form_ssk_writekey (privkey : List UInt8) :
    sskWritekeyHash privkey = (sha256 (sha256 (netstring (ascii "allmydata_mutable_privkey_to_writekey_v1") ++ privkey))).take 16 := by
  rw [← tag_MUTABLE_WRITEKEY]
  rfl

/-- mutable.rst: "The write key is hashed a different way to form the write enabler master" -/
theorem spec_form_ssk_write_enabler_master (writekey : List UInt8) :
    sskWriteEnablerMasterHash writekey = sha256 (sha256 (netstring (ascii "allmydata_mutable_writekey_to_write_enabler_master_v1") ++ writekey)) := by
  rw [← tag_MUTABLE_WRITE_ENABLER_MASTER]
  rfl

/-- mutable.rst: "The public key is hashed by itself to form the verification key hash" -/
theorem spec_form_ssk_pubkey_fingerprint (pubkey : List UInt8) :
    sskPubkeyFingerprintHash pubkey = sha256 (sha256 (netstring (ascii "allmydata_mutable_pubkey_to_fingerprint_v1") ++ pubkey)) := by
  rw [← tag_MUTABLE_PUBKEY]
  rfl

/-- mutable.rst: "The write key is then hashed and truncated to form the read key" (16-byte AES key) -/
theorem spec_form_ssk_readkey (writekey : List UInt8) :
    sskReadkeyHash writekey = (sha256 (sha256 (netstring (ascii "allmydata_mutable_writekey_to_readkey_v1") ++ writekey))).take 16 := by
  rw [← tag_MUTABLE_READKEY]
  rfl

/-- mutable.rst: "The read key is hashed and truncated to form the 16-byte storage index" -/
theorem spec_form_ssk_storage_index (readkey : List UInt8) :
    sskStorageIndexHash readkey = (sha256 (sha256 (netstring (ascii "allmydata_mutable_readkey_to_storage_index_v1") ++ readkey))).take 16 := by
  rw [← tag_MUTABLE_STORAGEINDEX]
  rfl

/-- dirnodes.rst: "The IV is a 16-byte ... value" (derived from the child rw-cap) -/
theorem spec_form_dirnode_child_salt (rwcap : List UInt8) :
    mutableRwcapSaltHash rwcap = (sha256 (sha256 (netstring (ascii "allmydata_dirnode_child_rwcap_to_salt_v1") ++ rwcap))).take 16 := by
  rw [← tag_DIRNODE_CHILD_SALT]
  rfl

/-- lease.rst: file renewal secret = tagged pair digest of (file renewal tag, client renewal secret, storage index) -/
theorem spec_form_file_renewal_secret (crs si : List UInt8) :
    fileRenewalSecretHash crs si = sha256 (sha256 (netstring (ascii "allmydata_file_renewal_secret_v1") ++ netstring crs ++ netstring si)) := by
  rw [← tag_FILE_RENEWAL]
  simp only [List.append_assoc]; rfl

/-- lease.rst, cancel variant -/
theorem spec_form_file_cancel_secret (ccs si : List UInt8) :
    fileCancelSecretHash ccs si = sha256 (sha256 (netstring (ascii "allmydata_file_cancel_secret_v1") ++ netstring ccs ++ netstring si)) := by
  rw [← tag_FILE_CANCEL]
  simp only [List.append_assoc]; rfl

/-- mutable.rst: data key = hash of readkey and IV, "truncating to 16 bytes" -/
theorem spec_form_ssk_datakey (iv readkey : List UInt8) :
    sskReadkeyDataHash iv readkey = (sha256 (sha256 (netstring (ascii "allmydata_mutable_readkey_to_datakey_v1") ++ netstring iv ++ netstring readkey))).take 16 := by
  rw [← tag_MUTABLE_DATAKEY]
  simp only [List.append_assoc]; rfl

/-- dirnodes.rst: "a key that is formed from a tagged hash of the IV and the dirnode's writekey" (AES-128 key) -/
theorem spec_form_dirnode_child_key (iv writekey : List UInt8) :
    mutableRwcapKeyHash iv writekey = (sha256 (sha256 (netstring (ascii "allmydata_mutable_writekey_and_salt_to_dirnode_child_capkey_v1") ++ netstring iv ++ netstring writekey))).take 16 := by
  rw [← tag_DIRNODE_CHILD_WRITECAP]
  simp only [List.append_assoc]; rfl

/-- lease.rst: "The client renewal secret is the sha256d tagged digest of (lease secret, client renewal
    tag)" where the tagged digest netstring-wraps its *first* argument: the secret is netstring-wrapped and
    the tag constant follows unwrapped (as `my_renewal_secret_hash` is written). -/
theorem spec_form_client_renewal_secret (leaseSecret : List UInt8) :
    myRenewalSecretHash leaseSecret
      = sha256 (sha256 (netstring leaseSecret ++ ascii "allmydata_client_renewal_secret_v1")) := by
  rw [← tag_CLIENT_RENEWAL]
  rfl

/-- lease.rst, cancel variant -/
theorem spec_form_client_cancel_secret (leaseSecret : List UInt8) :
    myCancelSecretHash leaseSecret
      = sha256 (sha256 (netstring leaseSecret ++ ascii "allmydata_client_cancel_secret_v1")) := by
  rw [← tag_CLIENT_CANCEL]
  rfl

/-- lease.rst: renewal secret = tagged pair digest of (bucket renewal tag, file renewal secret, peer id);
    the code asserts the peer id is 20 bytes -/
theorem spec_form_bucket_renewal_secret (frs peerid : List UInt8) :
    bucketRenewalSecretHash frs peerid
      = if peerid.length = 20 then
          some (sha256 (sha256 (netstring (ascii "allmydata_bucket_renewal_secret_v1") ++ netstring frs ++ netstring peerid)))
        else none := by
  rw [← tag_BUCKET_RENEWAL]
  simp only [List.append_assoc]; rfl

/-- lease.rst, cancel variant -/
theorem spec_form_bucket_cancel_secret (fcs peerid : List UInt8) :
    bucketCancelSecretHash fcs peerid
      = if peerid.length = 20 then
          some (sha256 (sha256 (netstring (ascii "allmydata_bucket_cancel_secret_v1") ++ netstring fcs ++ netstring peerid)))
        else none := by
  rw [← tag_BUCKET_CANCEL]
  simp only [List.append_assoc]; rfl

/-- mutable.rst: "the write enabler master is concatenated with the server's nodeid and hashed" (each
    wrapped in a netstring, file-encoding.rst "Hashes"); 32 bytes (mutable.rst slot layout: offset 52, 32 bytes) -/
theorem spec_form_ssk_write_enabler (writekey peerid : List UInt8) :
    sskWriteEnablerHash writekey peerid
      = if peerid.length = 20 then
          some (sha256 (sha256 (netstring (ascii "allmydata_mutable_write_enabler_master_and_nodeid_to_write_enabler_v1")
            ++ netstring (sha256 (sha256 (netstring (ascii "allmydata_mutable_writekey_to_write_enabler_master_v1") ++ writekey)))
            ++ netstring peerid)))
        else none := by
  rw [← tag_MUTABLE_WRITE_ENABLER, ← tag_MUTABLE_WRITE_ENABLER_MASTER]
  simp only [List.append_assoc]; rfl

/-- file-encoding.rst: the convergent key is the SHA-256d hash "of a single-purpose tag, the encoding
    parameters, a convergence secret, and the contents of the file", "a portion of the resulting hash" (16
    bytes = AES-128 key); tag layout as pinned by test_hashutil.test_convergence_hasher_tag:
    `prefix ++ netstring(secret) ++ netstring(b"k,n,segsize")`, valid for 1 ≤ k ≤ n ≤ 256. -/
theorem spec_form_convergence (k n segsize : Int) (data convergence : List UInt8)
    (hk : 1 ≤ k) (hkn : k ≤ n) (hn : n ≤ 256) :
    convergenceHash k n segsize data convergence
      = some ((sha256 (sha256 (netstring (ascii "allmydata_immutable_content_to_key_with_added_secret_v1+"
            ++ netstring convergence
            ++ netstring (intDigits k ++ [44] ++ intDigits n ++ [44] ++ intDigits segsize)) ++ data))).take 16) := by
  rw [← tag_CONVERGENT_ENCRYPTION]
  have h1 : ¬ k > n := by omega
  have h2 : ¬ (k < 1 ∨ n < 1) := by omega
  have h3 : ¬ (k > 256 ∨ n > 256) := by omega
  simp only [convergenceHash, convergenceHasherTag, h1, h2, h3, if_false, Option.map_some,
    List.append_assoc, List.cons_append, List.nil_append]
  rfl

example : (1 : Int) ≤ 3 ∧ (3 : Int) ≤ 10 ∧ (10 : Int) ≤ 256 := by decide

/-- outside 1 ≤ k ≤ n ≤ 256 the code raises ValueError (no key is produced) -/
theorem convergence_rejects_bad_parameters (k n segsize : Int) (data convergence : List UInt8)
    (h : k < 1 ∨ n < k ∨ 256 < n) : convergenceHash k n segsize data convergence = none := by
  simp only [convergenceHash, convergenceHasherTag]
  split
  · rfl
  · split
    · rfl
    · split
      · rfl
      · omega

example : (0 : Int) < 1 ∨ (5 : Int) < 0 ∨ (256 : Int) < 5 := by decide

/-- not tagged: `hashutil.hmac` (no key padding — not RFC 2104) and `permute_server_hash` (SHA-1) -/
theorem spec_form_hmac_and_permute (tag data psi seed : List UInt8) :
    hmacAsWritten tag data = sha256 (tag.map (· ^^^ 0x5c) ++ sha256 (tag.map (· ^^^ 0x36) ++ data)) ∧
    permuteServerHash psi seed = sha1 (psi ++ seed) := ⟨rfl, rfl⟩

/-- a streaming hasher is the one-shot tagged hash of the concatenated feeds, however they are chunked -/
theorem hasher_streaming (tag : List UInt8) (t : Option Int) (chunks : List (List UInt8)) :
    hasherDigest tag t chunks = taggedHash tag chunks.flatten t := rfl

/-! ## The extractor's observation of each function (tag used, truncation passed, number of feeds) -/

/-- every hashutil function feeds the hasher the tag constant its name says, in the tagged (2 feeds) or
    tagged-pair (3 feeds) shape; for the client secrets the *secret* is observed in the tag position -/
theorem tag_binding :
    Hashutil.TAGOF_storage_index_hash = Hashutil.STORAGE_INDEX_TAG ∧ Hashutil.NFEED_storage_index_hash = 2 ∧
    Hashutil.TAGOF_block_hash = Hashutil.BLOCK_TAG ∧ Hashutil.NFEED_block_hash = 2 ∧
    Hashutil.TAGOF_uri_extension_hash = Hashutil.UEB_TAG ∧ Hashutil.NFEED_uri_extension_hash = 2 ∧
    Hashutil.TAGOF_plaintext_hash = Hashutil.PLAINTEXT_TAG ∧ Hashutil.NFEED_plaintext_hash = 2 ∧
    Hashutil.TAGOF_crypttext_hash = Hashutil.CIPHERTEXT_TAG ∧ Hashutil.NFEED_crypttext_hash = 2 ∧
    Hashutil.TAGOF_crypttext_segment_hash = Hashutil.CIPHERTEXT_SEGMENT_TAG ∧ Hashutil.NFEED_crypttext_segment_hash = 2 ∧
    Hashutil.TAGOF_plaintext_segment_hash = Hashutil.PLAINTEXT_SEGMENT_TAG ∧ Hashutil.NFEED_plaintext_segment_hash = 2 ∧
    Hashutil.TAGOF_backupdb_dirhash = Hashutil.BACKUPDB_DIRHASH_TAG ∧ Hashutil.NFEED_backupdb_dirhash = 2 ∧
    Hashutil.TAGOF_my_renewal_secret_hash = Hashutil.SENTINEL_S32 ∧ Hashutil.NFEED_my_renewal_secret_hash = 2 ∧
    Hashutil.TAGOF_my_cancel_secret_hash = Hashutil.SENTINEL_S32 ∧ Hashutil.NFEED_my_cancel_secret_hash = 2 ∧
    Hashutil.TAGOF_file_renewal_secret_hash = Hashutil.FILE_RENEWAL_TAG ∧ Hashutil.NFEED_file_renewal_secret_hash = 3 ∧
    Hashutil.TAGOF_file_cancel_secret_hash = Hashutil.FILE_CANCEL_TAG ∧ Hashutil.NFEED_file_cancel_secret_hash = 3 ∧
    Hashutil.TAGOF_bucket_renewal_secret_hash = Hashutil.BUCKET_RENEWAL_TAG ∧ Hashutil.NFEED_bucket_renewal_secret_hash = 3 ∧
    Hashutil.TAGOF_bucket_cancel_secret_hash = Hashutil.BUCKET_CANCEL_TAG ∧ Hashutil.NFEED_bucket_cancel_secret_hash = 3 ∧
    Hashutil.TAGOF_ssk_writekey_hash = Hashutil.MUTABLE_WRITEKEY_TAG ∧ Hashutil.NFEED_ssk_writekey_hash = 2 ∧
    Hashutil.TAGOF_ssk_write_enabler_master_hash = Hashutil.MUTABLE_WRITE_ENABLER_MASTER_TAG ∧
      Hashutil.NFEED_ssk_write_enabler_master_hash = 2 ∧
    Hashutil.TAGOF_ssk_write_enabler_hash = Hashutil.MUTABLE_WRITE_ENABLER_TAG ∧ Hashutil.NFEED_ssk_write_enabler_hash = 3 ∧
    Hashutil.TAGOF_ssk_pubkey_fingerprint_hash = Hashutil.MUTABLE_PUBKEY_TAG ∧ Hashutil.NFEED_ssk_pubkey_fingerprint_hash = 2 ∧
    Hashutil.TAGOF_ssk_readkey_hash = Hashutil.MUTABLE_READKEY_TAG ∧ Hashutil.NFEED_ssk_readkey_hash = 2 ∧
    Hashutil.TAGOF_ssk_readkey_data_hash = Hashutil.MUTABLE_DATAKEY_TAG ∧ Hashutil.NFEED_ssk_readkey_data_hash = 3 ∧
    Hashutil.TAGOF_ssk_storage_index_hash = Hashutil.MUTABLE_STORAGEINDEX_TAG ∧ Hashutil.NFEED_ssk_storage_index_hash = 2 ∧
    Hashutil.TAGOF_mutable_rwcap_key_hash = Hashutil.DIRNODE_CHILD_WRITECAP_TAG ∧ Hashutil.NFEED_mutable_rwcap_key_hash = 3 ∧
    Hashutil.TAGOF_mutable_rwcap_salt_hash = Hashutil.DIRNODE_CHILD_SALT_TAG ∧ Hashutil.NFEED_mutable_rwcap_salt_hash = 2 := by
  decide

/-- the convergence hasher, observed on (k, n, segsize) = (3, 10, 1024) with the sentinel secret, used
    exactly the tag the model computes -/
theorem tag_binding_convergence :
    convergenceHasherTag 3 10 1024 Hashutil.SENTINEL_S32 = some Hashutil.TAGOF_convergence_hash ∧
    Hashutil.NFEED_convergence_hash = 2 := by
  decide

/-! ## lengths -/

/-- storage indexes (immutable and mutable), AES keys (write key, read key, data key, dirnode child-cap
    key, convergent key) and the dirnode salt/IV are exactly 16 bytes, for all inputs -/
theorem lengths_16 (x y : List UInt8) :
    (storageIndexHash x).length = 16 ∧ (sskStorageIndexHash x).length = 16 ∧
    (sskWritekeyHash x).length = 16 ∧ (sskReadkeyHash x).length = 16 ∧
    (sskReadkeyDataHash x y).length = 16 ∧ (mutableRwcapKeyHash x y).length = 16 ∧
    (mutableRwcapSaltHash x).length = 16 ∧
    (∀ k n s key, convergenceHash k n s x y = some key → key.length = 16) := by
  refine ⟨length_take_sha256d_16 _, length_take_sha256d_16 _, length_take_sha256d_16 _,
    length_take_sha256d_16 _, length_take_sha256d_16 _, length_take_sha256d_16 _,
    length_take_sha256d_16 _, ?_⟩
  intro k n s key h
  simp only [convergenceHash, Option.map_eq_some_iff] at h
  obtain ⟨tag, _, rfl⟩ := h
  exact length_take_sha256d_16 _

example : convergenceHash 3 10 1024 [1] [2] ≠ none := by
  simp [convergenceHash, convergenceHasherTag]

/-- lease secrets (client, file, bucket; renew and cancel), write enablers, the write-enabler master, the
    pubkey fingerprint and all integrity hashes are exactly 32 bytes, for all inputs -/
theorem lengths_32 (x y : List UInt8) :
    (myRenewalSecretHash x).length = 32 ∧ (myCancelSecretHash x).length = 32 ∧
    (fileRenewalSecretHash x y).length = 32 ∧ (fileCancelSecretHash x y).length = 32 ∧
    (∀ s, bucketRenewalSecretHash x y = some s → s.length = 32) ∧
    (∀ s, bucketCancelSecretHash x y = some s → s.length = 32) ∧
    (∀ s, sskWriteEnablerHash x y = some s → s.length = 32) ∧
    (sskWriteEnablerMasterHash x).length = 32 ∧ (sskPubkeyFingerprintHash x).length = 32 ∧
    (blockHash x).length = 32 ∧ (uriExtensionHash x).length = 32 ∧ (plaintextHash x).length = 32 ∧
    (crypttextHash x).length = 32 ∧ (crypttextSegmentHash x).length = 32 ∧
    (plaintextSegmentHash x).length = 32 ∧ (backupdbDirhash x).length = 32 := by
  refine ⟨sha256d_length _, sha256d_length _, sha256d_length _, sha256d_length _, ?_, ?_, ?_,
    sha256d_length _, sha256d_length _, sha256d_length _, sha256d_length _, sha256d_length _,
    sha256d_length _, sha256d_length _, sha256d_length _, sha256d_length _⟩
  · intro s h
    simp only [bucketRenewalSecretHash] at h
    split at h
    · rw [← Option.some.inj h]; exact sha256d_length _
    · exact absurd h (by simp)
  · intro s h
    simp only [bucketCancelSecretHash] at h
    split at h
    · rw [← Option.some.inj h]; exact sha256d_length _
    · exact absurd h (by simp)
  · intro s h
    simp only [sskWriteEnablerHash] at h
    split at h
    · rw [← Option.some.inj h]; exact sha256d_length _
    · exact absurd h (by simp)

example : bucketRenewalSecretHash [1] (List.replicate 20 0) ≠ none := by
  simp [bucketRenewalSecretHash]

/-! ## chains: how the cap classes and nodes compose the derivations -/

/-- `WriteableSSKFileURI(writekey, fp)`: write key → read key → storage index, and attenuation keeps
    them: the read-only cap (`get_readonly`, or re-parsed from its string, i.e. `mkReadCap`) and both verify
    caps carry the same read key / storage index / fingerprint. -/
theorem chain_ssk_caps (writekey fp : List UInt8) :
    let w := mkWriteCap writekey fp
    w.readkey = (sha256 (sha256 (netstring (ascii "allmydata_mutable_writekey_to_readkey_v1") ++ writekey))).take 16 ∧
    w.storageIndex
      = (sha256 (sha256 (netstring (ascii "allmydata_mutable_readkey_to_storage_index_v1") ++ w.readkey))).take 16 ∧
    w.getReadonly = mkReadCap w.readkey fp ∧
    w.getReadonly.storageIndex = w.storageIndex ∧
    w.getReadonly.getVerifyCap = w.getVerifyCap ∧
    w.getVerifyCap = ⟨w.storageIndex, fp⟩ ∧
    w.storageIndex.length = 16 := by
  rw [← tag_MUTABLE_READKEY, ← tag_MUTABLE_STORAGEINDEX]
  refine ⟨rfl, rfl, rfl, rfl, rfl, rfl, length_take_sha256d_16 _⟩

/-- `derive_mutable_keys` then `WriteableSSKFileURI`: signature key → write key → read key → storage index -/
theorem chain_privkey_to_storage_index (pubkeyDer privkeyDer : List UInt8) :
    let (wk, fp) := deriveMutableKeys pubkeyDer privkeyDer
    (mkWriteCap wk fp).storageIndex = sskStorageIndexHash (sskReadkeyHash (sskWritekeyHash privkeyDer)) ∧
    (mkWriteCap wk fp).fingerprint = sskPubkeyFingerprintHash pubkeyDer := ⟨rfl, rfl⟩

/-- lease.rst in full: lease secret → client renewal secret → file renewal secret → (bucket) renewal
    secret, as `MutableFileNode.get_renewal_secret`, `Tahoe2ServerSelector`/`ServerTracker` and the
    immutable `Checker` compose them -/
theorem chain_renewal_secret (leaseSecret si peerid : List UInt8) (hp : peerid.length = 20) :
    renewalSecretChain leaseSecret si peerid = some (
      let crs := sha256 (sha256 (netstring leaseSecret ++ ascii "allmydata_client_renewal_secret_v1"))
      let frs := sha256 (sha256 (netstring (ascii "allmydata_file_renewal_secret_v1") ++ netstring crs ++ netstring si))
      sha256 (sha256 (netstring (ascii "allmydata_bucket_renewal_secret_v1") ++ netstring frs ++ netstring peerid))) := by
  rw [← tag_CLIENT_RENEWAL, ← tag_FILE_RENEWAL, ← tag_BUCKET_RENEWAL]
  simp only [renewalSecretChain, bucketRenewalSecretHash, hp, if_true, List.append_assoc]
  rfl

example : (List.replicate 20 (0 : UInt8)).length = 20 := by decide

/-- the cancel-secret chain (lease.rst "Cancel Secrets") -/
theorem chain_cancel_secret (leaseSecret si peerid : List UInt8) (hp : peerid.length = 20) :
    cancelSecretChain leaseSecret si peerid = some (
      let ccs := sha256 (sha256 (netstring leaseSecret ++ ascii "allmydata_client_cancel_secret_v1"))
      let fcs := sha256 (sha256 (netstring (ascii "allmydata_file_cancel_secret_v1") ++ netstring ccs ++ netstring si))
      sha256 (sha256 (netstring (ascii "allmydata_bucket_cancel_secret_v1") ++ netstring fcs ++ netstring peerid))) := by
  rw [← tag_CLIENT_CANCEL, ← tag_FILE_CANCEL, ← tag_BUCKET_CANCEL]
  simp only [cancelSecretChain, bucketCancelSecretHash, hp, if_true, List.append_assoc]
  rfl

example : (List.replicate 20 (7 : UInt8)).length = 20 := by decide

/-- `dirnode._encrypt_rw_uri`: salt from the child's rw-cap, AES key from (salt, dirnode write key) -/
theorem chain_dirnode_child_key (writekey rwUri : List UInt8) :
    dirnodeChildKey writekey rwUri =
      (let salt := (sha256 (sha256 (netstring (ascii "allmydata_dirnode_child_rwcap_to_salt_v1") ++ rwUri))).take 16
       (salt, (sha256 (sha256 (netstring (ascii "allmydata_mutable_writekey_and_salt_to_dirnode_child_capkey_v1")
                ++ netstring salt ++ netstring writekey))).take 16)) := by
  rw [← tag_DIRNODE_CHILD_SALT, ← tag_DIRNODE_CHILD_WRITECAP]
  simp only [List.append_assoc]; rfl

/-! ## domain separation -/

/-- the tag constants of the module are pairwise distinct -/
theorem tags_pairwise_distinct (k1 k2 : Kind) (t : List UInt8)
    (h1 : k1.fixedTag? = some t) (h2 : k2.fixedTag? = some t) : k1 = k2 := fixedTag_inj k1 k2 t h1 h2

example : Kind.block.fixedTag? = some Hashutil.BLOCK_TAG := rfl

/-- `Deriv.pre` really is what is hashed: the digest of every catalogued derivation is
    `truncate trunc (sha256d pre)`, and is defined exactly when `pre` is -/
theorem pre_is_hasher_input (d : Deriv) :
    d.eval = d.pre.map (fun p => truncate d.trunc (sha256 (sha256 p))) := eval_eq d

/-- **Domain separation.** For any two derivations of *different kinds* and any arguments (lease secrets
    of the documented 32 bytes), the byte strings fed to SHA-256 differ.  Rests on netstring unique
    decodability, pairwise distinct tags, and — for the client secrets, whose secret sits in the tag
    position — on no 32-byte tag being used in the one-value shape. -/
theorem domain_separated (d1 d2 : Deriv) (w1 : d1.WellFormed) (w2 : d2.WellFormed)
    (hk : d1.kind ≠ d2.kind) (p1 p2 : List UInt8) (h1 : d1.pre = some p1) (h2 : d2.pre = some p2) :
    p1 ≠ p2 := pre_ne_of_kind_ne w1 w2 hk h1 h2

example : ∃ p1 p2, (Deriv.clientRenewal (List.replicate 32 1)).WellFormed ∧ (Deriv.sskReadkey [5]).WellFormed ∧
    (Deriv.clientRenewal (List.replicate 32 1)).kind ≠ (Deriv.sskReadkey [5]).kind ∧
    (Deriv.clientRenewal (List.replicate 32 1)).pre = some p1 ∧ (Deriv.sskReadkey [5]).pre = some p2 :=
  ⟨_, _, by simp [Deriv.WellFormed], trivial, by decide, rfl, rfl⟩

/-- the 32-byte hypothesis on lease secrets cannot be dropped: because `my_renewal_secret_hash` passes the
    secret where the tag belongs, a "secret" equal to another tag string collides with that derivation
    (here: secret = BLOCK_TAG vs. `block_hash(CLIENT_RENEWAL_TAG)`).  Harmless for real, random 32-byte
    secrets; recorded so that the guard in `domain_separated` is seen to be tight. -/
theorem domain_separation_needs_secret_length :
    ∃ d1 d2 : Deriv, d1.kind ≠ d2.kind ∧ d1.pre = d2.pre ∧ d1.pre.isSome = true :=
  ⟨.clientRenewal Hashutil.BLOCK_TAG, .block Hashutil.CLIENT_RENEWAL_TAG, by decide, rfl, rfl⟩

/-! ## secrets at the point of USE: every server is sent the secret derived from ITS OWN seed

Model: `Tahoe/Crypto/Use.lean` (`Tahoe2ServerSelector._create_trackers` / `get_shareholders` / `ServerTracker.query`,
`Checker._get_buckets`, `MutableFileNode.get_*`, `Publish.publish/update`, `ServermapUpdater._do_read`).
All statements are for an arbitrary candidate list (any order, any length), an arbitrary writeable filter and
arbitrary server records; `none` is the code's `assert len(seed) == 20`. -/
section Use
open Tahoe.Crypto.Use

/-- **Pairing of servers with lease secrets in the uploader.**  Whatever the candidate list and whatever the
    writeable filter `p`, the write trackers are exactly the candidates passing the filter, in order, and the
    read-only trackers exactly the others, each carrying
    `SHA256d(netstring(bucket tag) ++ netstring(file secret) ++ netstring(ITS OWN lease seed))`. -/
theorem trackers_pairing (p : Server → Bool) (cands : List Server) (frs fcs : List UInt8) (ro wr : List Tracker)
    (h : createTrackersP p cands frs fcs = some (ro, wr)) :
    wr = (cands.filter p).map (fun s => (⟨s,
        sha256 (sha256 (netstring (ascii "allmydata_bucket_renewal_secret_v1") ++ netstring frs ++ netstring s.leaseSeed)),
        sha256 (sha256 (netstring (ascii "allmydata_bucket_cancel_secret_v1") ++ netstring fcs ++ netstring s.leaseSeed))⟩ : Tracker)) ∧
    ro = (cands.filter (fun s => !p s)).map (fun s => (⟨s,
        sha256 (sha256 (netstring (ascii "allmydata_bucket_renewal_secret_v1") ++ netstring frs ++ netstring s.leaseSeed)),
        sha256 (sha256 (netstring (ascii "allmydata_bucket_cancel_secret_v1") ++ netstring fcs ++ netstring s.leaseSeed))⟩ : Tracker)) := by
  have hs : specTracker frs fcs = (fun s => (⟨s,
        sha256 (sha256 (netstring (ascii "allmydata_bucket_renewal_secret_v1") ++ netstring frs ++ netstring s.leaseSeed)),
        sha256 (sha256 (netstring (ascii "allmydata_bucket_cancel_secret_v1") ++ netstring fcs ++ netstring s.leaseSeed))⟩ : Tracker)) := by
    funext s
    rw [← tag_BUCKET_RENEWAL, ← tag_BUCKET_CANCEL]
    simp only [List.append_assoc]; rfl
  obtain ⟨h1, h2, _⟩ := createTrackersP_some_inv p cands frs fcs ro wr h
  rw [← hs]
  exact ⟨h1, h2⟩

example : createTrackersP (writeable 100)
    [⟨[1], List.replicate 20 7, [], 0⟩, ⟨[2], List.replicate 20 8, [], 1000⟩, ⟨[3], List.replicate 20 9, [], 50⟩] [4] [5] ≠ none := by
  rw [createTrackersP_of_all20 _ _ _ _ (by decide)]; simp

/-- the uploader's trackers are defined exactly when every candidate's lease seed is 20 bytes (otherwise the
    code dies in an `assert`: no query is sent at all) -/
theorem trackers_defined_iff (p : Server → Bool) (cands : List Server) (frs fcs : List UInt8) :
    createTrackersP p cands frs fcs ≠ none ↔ ∀ s ∈ cands, s.leaseSeed.length = 20 := by
  constructor
  · intro h
    match hc : createTrackersP p cands frs fcs with
    | none => exact absurd hc h
    | some (ro, wr) => exact (createTrackersP_some_inv p cands frs fcs ro wr hc).2.2
  · intro h; rw [createTrackersP_of_all20 p cands frs fcs h]; simp

example : createTrackersP (fun _ => true) [⟨[1], [0], [], 0⟩] [4] [5] = none := by
  simp [createTrackersP, makeTrackers, mkTracker, bucketRenewalSecretHash]

/-- **Every tracker gets H(file secret, its own server's seed)** and belongs to a candidate; no candidate is
    lost or duplicated (the trackers' servers are a permutation of the candidate list). -/
theorem tracker_uses_own_server_secret (p : Server → Bool) (cands : List Server) (frs fcs : List UInt8)
    (ro wr : List Tracker) (h : createTrackersP p cands frs fcs = some (ro, wr)) :
    (∀ t ∈ ro ++ wr, t.server ∈ cands ∧
      some t.renew = bucketRenewalSecretHash frs t.server.leaseSeed ∧
      some t.cancel = bucketCancelSecretHash fcs t.server.leaseSeed) ∧
    ((wr ++ ro).map (·.server)).Perm cands := by
  obtain ⟨h1, h2, h20⟩ := createTrackersP_some_inv p cands frs fcs ro wr h
  have key : ∀ (q : Server → Bool) (t : Tracker), t ∈ (cands.filter q).map (specTracker frs fcs) →
      t.server ∈ cands ∧ some t.renew = bucketRenewalSecretHash frs t.server.leaseSeed ∧
      some t.cancel = bucketCancelSecretHash fcs t.server.leaseSeed := by
    intro q t ht
    obtain ⟨s, hs, rfl⟩ := List.mem_map.mp ht
    have hsc := (List.mem_filter.mp hs).1
    have hl := h20 s hsc
    simp only [specTracker, bucketRenewalSecretHash, bucketCancelSecretHash, hl, if_true]
    exact ⟨hsc, trivial, trivial⟩
  refine ⟨?_, ?_⟩
  · intro t ht
    rcases List.mem_append.mp ht with ht | ht
    · exact key _ t (h2 ▸ ht)
    · exact key _ t (h1 ▸ ht)
  · have e : ∀ q : Server → Bool, ((cands.filter q).map (specTracker frs fcs)).map (·.server) = cands.filter q := by
      intro q; simp [List.map_map, Function.comp_def, specTracker]
    rw [h1, h2, List.map_append, e, e]
    exact List.filter_append_perm p cands

example : createTrackersP (fun s => s.maxImmutableShareSize ≥ 5)
    [⟨[1], List.replicate 20 7, [], 9⟩, ⟨[2], List.replicate 20 8, [], 1⟩] [4] [5] ≠ none := by
  rw [createTrackersP_of_all20 _ _ _ _ (by decide)]; simp

/-- **Upload, end to end**: from the client's lease secret and the storage index, through the `2N` cut of the
    permuted server list and the size filter, every `allocate_buckets` a tracker can send goes to that tracker's
    server and carries the full lease.rst chain for that server's lease seed. -/
theorem upload_query_carries_own_server_chain (leaseSecret si : List UInt8) (permuted : List Server)
    (totalShares allocatedSize : Nat) (ro wr : List Tracker)
    (h : uploadTrackers leaseSecret si permuted totalShares allocatedSize = some (ro, wr)) :
    ∀ t ∈ ro ++ wr, t.server ∈ permuted.take (2 * totalShares) ∧
      (t.query si).server = t.server ∧ (t.query si).storageIndex = si ∧
      some (t.query si).renew = renewalSecretChain leaseSecret si t.server.leaseSeed ∧
      some (t.query si).cancel = cancelSecretChain leaseSecret si t.server.leaseSeed := by
  intro t ht
  obtain ⟨hm, hr, hc⟩ := (tracker_uses_own_server_secret _ _ _ _ ro wr h).1 t ht
  exact ⟨hm, rfl, rfl, hr, hc⟩

example : uploadTrackers [1] [2] [⟨[1], List.replicate 20 7, [], 9⟩, ⟨[2], List.replicate 20 8, [], 1⟩] 1 5 ≠ none := by
  simp only [uploadTrackers, createTrackers]
  rw [createTrackersP_of_all20 _ _ _ _ (by decide)]; simp

/-- **check --add-lease renews the lease the upload created**: for every server the uploader made a tracker
    for, the checker's `add_lease` message is the tracker's `allocate_buckets` message (same storage index, same
    renew and cancel secret) — so the server finds the existing lease instead of adding a second one. -/
theorem add_lease_matches_upload_lease (leaseSecret si : List UInt8) (permuted : List Server)
    (totalShares allocatedSize : Nat) (ro wr : List Tracker)
    (h : uploadTrackers leaseSecret si permuted totalShares allocatedSize = some (ro, wr)) :
    ∀ t ∈ ro ++ wr, checkerAddLease leaseSecret si t.server = some (t.query si) := by
  intro t ht
  obtain ⟨_, hr, hc⟩ := (tracker_uses_own_server_secret _ _ _ _ ro wr h).1 t ht
  simp only [checkerAddLease, ← hr, ← hc, Tracker.query]

example : checkerAddLease [1] [2] ⟨[1], List.replicate 20 7, [], 9⟩ ≠ none := by
  simp [checkerAddLease, bucketRenewalSecretHash, bucketCancelSecretHash]

/-- **Mutable publish: every write proxy gets the write enabler and lease secrets of ITS OWN server.**  For any
    goal list, the writers are the goal's (server, shnum) pairs in order; each carries the node's storage index,
    `WE = SHA256d(netstring(we tag) ++ netstring(write-enabler master(writekey)) ++ netstring(that server's
    write-enabler seed))` and the lease.rst chains for that server's lease seed. -/
theorem publish_writers_pairing (nd : MutNode) (goal : List (Server × Nat)) (ws : List Writer)
    (h : publishWriters nd goal = some ws) :
    ws.map (fun w => (w.server, w.shnum)) = goal ∧
    ∀ w ∈ ws, w.storageIndex = nd.storageIndex ∧
      w.we = sha256 (sha256 (netstring (ascii "allmydata_mutable_write_enabler_master_and_nodeid_to_write_enabler_v1")
              ++ netstring (sha256 (sha256 (netstring (ascii "allmydata_mutable_writekey_to_write_enabler_master_v1") ++ nd.writekey)))
              ++ netstring w.server.weSeed)) ∧
      some w.renew = renewalSecretChain nd.leaseSecret nd.storageIndex w.server.leaseSeed ∧
      some w.cancel = cancelSecretChain nd.leaseSecret nd.storageIndex w.server.leaseSeed := by
  obtain ⟨h20, hw⟩ := publishWriters_some_inv nd goal ws h
  subst hw
  refine ⟨by simp [List.map_map, Function.comp_def, specWriter], ?_⟩
  intro w hwm
  obtain ⟨g, hg, rfl⟩ := List.mem_map.mp hwm
  have hl := (h20 g hg).2
  refine ⟨rfl, ?_, ?_, ?_⟩
  · rw [← tag_MUTABLE_WRITE_ENABLER, ← tag_MUTABLE_WRITE_ENABLER_MASTER]
    simp only [List.append_assoc]; rfl
  · simp only [specWriter, renewalSecretChain, bucketRenewalSecretHash, hl, if_true]
  · simp only [specWriter, cancelSecretChain, bucketCancelSecretHash, hl, if_true]

example : publishWriters (mkMutNode [1] [2])
    [(⟨[1], List.replicate 20 7, List.replicate 20 3, 0⟩, 0), (⟨[1], List.replicate 20 8, List.replicate 20 4, 0⟩, 1)] ≠ none := by
  rw [publishWriters_of_all20 _ _ (by decide)]; simp

/-- publish builds its writers exactly when every goal server has 20-byte seeds (else an `assert` fires) -/
theorem publish_defined_iff (nd : MutNode) (goal : List (Server × Nat)) :
    publishWriters nd goal ≠ none ↔ ∀ g ∈ goal, g.1.weSeed.length = 20 ∧ g.1.leaseSeed.length = 20 := by
  constructor
  · intro h
    match hc : publishWriters nd goal with
    | none => exact absurd hc h
    | some ws => exact (publishWriters_some_inv nd goal ws hc).1
  · intro h; rw [publishWriters_of_all20 nd goal h]; simp

example : publishWriters (mkMutNode [1] [2]) [(⟨[1], List.replicate 20 7, [9], 0⟩, 0)] = none := by
  simp [publishWriters, mkWriter, MutNode.getWriteEnabler]

/-- **mutable check --add-lease renews the lease publish created**: the servermap updater's `add_lease` for a
    server carries the storage index and the lease secrets of the write proxy for that server. -/
theorem mutable_add_lease_matches_publish_lease (nd : MutNode) (goal : List (Server × Nat)) (ws : List Writer)
    (h : publishWriters nd goal = some ws) :
    ∀ w ∈ ws, mutableAddLease nd w.server = some ⟨w.server, w.storageIndex, w.renew, w.cancel⟩ := by
  intro w hw
  obtain ⟨h20, hws⟩ := publishWriters_some_inv nd goal ws h
  subst hws
  obtain ⟨g, hg, rfl⟩ := List.mem_map.mp hw
  have hl := (h20 g hg).2
  simp only [mutableAddLease, MutNode.getRenewalSecret, MutNode.getCancelSecret, specWriter, hl, if_true,
    renewalSecretChain, cancelSecretChain, bucketRenewalSecretHash, bucketCancelSecretHash]

example : mutableAddLease (mkMutNode [1] [2]) ⟨[1], List.replicate 20 7, [], 0⟩ ≠ none := by
  simp [mutableAddLease, MutNode.getRenewalSecret, MutNode.getCancelSecret, renewalSecretChain, cancelSecretChain,
    bucketRenewalSecretHash, bucketCancelSecretHash]

/-- the node's storage index is the cap's: write key → read key → storage index (so the messages above are
    addressed to the slot the cap names) -/
theorem mutable_node_storage_index (leaseSecret writekey : List UInt8) :
    (mkMutNode leaseSecret writekey).storageIndex
      = (sha256 (sha256 (netstring (ascii "allmydata_mutable_readkey_to_storage_index_v1")
          ++ (sha256 (sha256 (netstring (ascii "allmydata_mutable_writekey_to_readkey_v1") ++ writekey))).take 16))).take 16 := by
  rw [← tag_MUTABLE_READKEY, ← tag_MUTABLE_STORAGEINDEX]
  rfl

/-- **The lease seed is the TubID** (lease.rst: "the peer id is … the SHA1 digest of the server's x509
    certificate", i.e. the Tub id of the storage FURL) — for every announcement shape (any announced
    permutation seed of any length, none at all, any server id) and for both transports; so is the
    write-enabler seed.  The permutation seed has no influence on either. -/
theorem lease_seed_is_tubid (t : Transport) (a : Announcement) :
    (nativeServer t a).leaseSeed = a.tubid ∧ (nativeServer t a).weSeed = a.tubid ∧
    (nativeServer t a).tubid = a.tubid ∧
    ∀ seed', (nativeServer t { a with seedAnnounced := seed' }).leaseSeed = (nativeServer t a).leaseSeed :=
  ⟨rfl, rfl, rfl, fun _ => rfl⟩

example : (nativeServer .foolscap ⟨[118, 48], List.replicate 20 7, some (List.replicate 20 9), none⟩).leaseSeed
    = List.replicate 20 7 := rfl

/-- the permutation seed, shape by shape: the announced seed if any, else the public key of a `v0-` server
    id, else SHA-256 of the server id -/
theorem permutation_seed_shapes (t : Transport) (a : Announcement) :
    (nativeServer t a).permutationSeed =
      match a.seedAnnounced, a.serverIdPubkey with
      | some s, _ => s
      | none, some k => k
      | none, none => sha256 a.serverId := by
  cases h1 : a.seedAnnounced <;> cases h2 : a.serverIdPubkey <;>
    simp [nativeServer, permutationSeed, h1, h2]

example : (nativeServer .http ⟨[1], [2], none, some [3]⟩).permutationSeed = [3] := rfl

/-- **End to end from the announcement**: the add-lease message the immutable checker sends to a server
    built from announcement `a` carries the lease.rst chain over `a`'s TubID — whatever permutation seed the
    server announces. -/
theorem announced_server_gets_tubid_chain (t : Transport) (a : Announcement) (leaseSecret si : List UInt8)
    (mx : Nat) (h : a.tubid.length = 20) :
    checkerAddLease leaseSecret si ((nativeServer t a).toServer mx) = some
      ⟨(nativeServer t a).toServer mx, si,
       sha256 (sha256 (netstring (ascii "allmydata_bucket_renewal_secret_v1")
         ++ netstring (sha256 (sha256 (netstring (ascii "allmydata_file_renewal_secret_v1")
              ++ netstring (sha256 (sha256 (netstring leaseSecret ++ ascii "allmydata_client_renewal_secret_v1")))
              ++ netstring si)))
         ++ netstring a.tubid)),
       sha256 (sha256 (netstring (ascii "allmydata_bucket_cancel_secret_v1")
         ++ netstring (sha256 (sha256 (netstring (ascii "allmydata_file_cancel_secret_v1")
              ++ netstring (sha256 (sha256 (netstring leaseSecret ++ ascii "allmydata_client_cancel_secret_v1")))
              ++ netstring si)))
         ++ netstring a.tubid))⟩ := by
  rw [← tag_BUCKET_RENEWAL, ← tag_FILE_RENEWAL, ← tag_CLIENT_RENEWAL, ← tag_BUCKET_CANCEL, ← tag_FILE_CANCEL,
    ← tag_CLIENT_CANCEL]
  simp only [checkerAddLease, NativeServer.toServer, nativeServer, bucketRenewalSecretHash, bucketCancelSecretHash,
    h, if_true, List.append_assoc]
  rfl

example : (⟨[1], List.replicate 20 7, some (List.replicate 20 9), none⟩ : Announcement).tubid.length = 20 := by decide

end Use

/-! ## call histories on long-lived objects: every answer is a function of the attributes in force and of the
    call's own argument — never of earlier calls

Model: `Tahoe/Crypto/Objects.lean` (`MutableFileNode` with `init_from_cap` + the three secret getters,
immutable `Checker` with its file secrets computed once).  `keysAfter nd pre` is the fold of the `init_from_cap`
calls of `pre` alone; `specAnswer` (ObjectsLemmas) is the spec's value for one call. -/
section Histories
open Tahoe.Crypto.Use Tahoe.Crypto.Objects

/-- **History independence.**  In any call history on a `MutableFileNode`, at any position, the answer is the
    specification's value for (the attributes set by the last `init_from_cap` before it, this call's server) —
    whatever getters were called before, on whatever servers, in whatever order; and the getters leave the
    node's attributes alone. -/
theorem node_answer_independent_of_history (nd : NodeObj) (pre : List NodeOp) (op : NodeOp) (post : List NodeOp) :
    (nd.run (pre ++ op :: post)).2[pre.length]? = some (specAnswer (keysAfter nd pre) op) ∧
    (nd.run (pre ++ op :: post)).1 = keysAfter nd (pre ++ op :: post) ∧
    (keysAfter nd pre).leaseSecret = nd.leaseSecret ∧
    ((∀ o ∈ pre, ∀ wk, o ≠ NodeOp.initFromCap wk) → keysAfter nd pre = nd) := by
  refine ⟨run_answer_at nd pre op post, run_fst nd _, ?_, ?_⟩
  · induction pre generalizing nd with
    | nil => rfl
    | cons p rest ih =>
      simp only [keysAfter, List.foldl_cons]
      have := ih (rekey nd p)
      simp only [keysAfter] at this
      rw [this]; cases p <;> rfl
  · intro h
    induction pre generalizing nd with
    | nil => rfl
    | cons p rest ih =>
      have hp : rekey nd p = nd := by
        cases p with
        | initFromCap wk => exact absurd rfl (h _ List.mem_cons_self wk)
        | _ => rfl
      simp only [keysAfter, List.foldl_cons, hp]
      exact ih nd (fun o ho => h o (List.mem_cons_of_mem _ ho))

/-- the same call after two different histories gives the same answer whenever the same cap is in force — in
    particular after any two getter-only histories (seeded change C17-a made the second differ) -/
theorem node_same_call_same_answer (nd : NodeObj) (pre1 pre2 post1 post2 : List NodeOp) (op : NodeOp)
    (h : keysAfter nd pre1 = keysAfter nd pre2) :
    (nd.run (pre1 ++ op :: post1)).2[pre1.length]? = (nd.run (pre2 ++ op :: post2)).2[pre2.length]? := by
  rw [run_answer_at, run_answer_at, h]

example : let sOld : Server := ⟨[1], List.replicate 20 7, List.replicate 20 3, 0⟩
          let sNew : Server := ⟨[1], List.replicate 20 8, List.replicate 20 4, 0⟩   -- same server id, re-announced
          keysAfter (NodeObj.new [5] [6]) [.getRenewalSecret sOld, .getWriteEnabler sOld]
            = keysAfter (NodeObj.new [5] [6]) [.getCancelSecret sNew] := rfl

/-- … and that answer is the documented formula: lease.rst chain over the lease secret, the storage index of
    the cap in force and THIS call's lease seed; the write enabler over the write key in force and THIS call's
    write-enabler seed -/
theorem node_secrets_after_any_history (nd : NodeObj) (pre post : List NodeOp) (s : Server)
    (hl : s.leaseSeed.length = 20) (hw : s.weSeed.length = 20) :
    (nd.run (pre ++ .getRenewalSecret s :: post)).2[pre.length]? = some (some (
      let crs := sha256 (sha256 (netstring nd.leaseSecret ++ ascii "allmydata_client_renewal_secret_v1"))
      let frs := sha256 (sha256 (netstring (ascii "allmydata_file_renewal_secret_v1") ++ netstring crs
                  ++ netstring (keysAfter nd pre).storageIndex))
      sha256 (sha256 (netstring (ascii "allmydata_bucket_renewal_secret_v1") ++ netstring frs ++ netstring s.leaseSeed)))) ∧
    (nd.run (pre ++ .getWriteEnabler s :: post)).2[pre.length]? = some (some (
      sha256 (sha256 (netstring (ascii "allmydata_mutable_write_enabler_master_and_nodeid_to_write_enabler_v1")
        ++ netstring (sha256 (sha256 (netstring (ascii "allmydata_mutable_writekey_to_write_enabler_master_v1")
             ++ (keysAfter nd pre).writekey)))
        ++ netstring s.weSeed)))) := by
  have hsec := (node_answer_independent_of_history nd pre (.getRenewalSecret s) post).2.2.1
  refine ⟨?_, ?_⟩
  · rw [run_answer_at]
    simp only [specAnswer, hl, if_true, hsec]
    rw [chain_renewal_secret _ _ _ hl]
  · rw [run_answer_at]
    simp only [specAnswer, hw, if_true]
    rw [spec_form_ssk_write_enabler]
    simp only [hw, if_true]

example : (⟨[1], List.replicate 20 7, List.replicate 20 3, 0⟩ : Server).leaseSeed.length = 20 ∧
          (⟨[1], List.replicate 20 7, List.replicate 20 3, 0⟩ : Server).weSeed.length = 20 := by decide

/-- the immutable `Checker` computes its file secrets once; in any history of `_get_renewal_secret(seed)` /
    `_get_cancel_secret(seed)` calls the kept values never change and each answer is the lease.rst chain for
    that call's seed -/
theorem checker_answers_independent_of_history (leaseSecret si : List UInt8) (ops : List CheckerOp) :
    ((CheckerObj.new leaseSecret si).run ops).1 = CheckerObj.new leaseSecret si ∧
    ((CheckerObj.new leaseSecret si).run ops).2 = ops.map (fun op => match op with
      | .getRenewalSecret seed => renewalSecretChain leaseSecret si seed
      | .getCancelSecret seed => cancelSecretChain leaseSecret si seed) := by
  refine ⟨checker_run_fst _ _, ?_⟩
  rw [checker_run_snd]
  apply List.map_congr_left
  intro op _
  cases op <;> rfl

example : ((CheckerObj.new [1] [2]).run [.getRenewalSecret (List.replicate 20 7), .getCancelSecret (List.replicate 20 8),
    .getRenewalSecret (List.replicate 20 7)]).2.length = 3 := rfl

end Histories

/-! ## what is proved about SHA-256 itself: the Merkle–Damgård padding (FIPS 180-4 §5.1.1)

The compression function and the constants are validated by the NIST vectors and by correspondence with hashlib,
not proved; the padding — the part that turns "different hasher inputs" into "different block sequences" — is. -/
section Padding

/-- FIPS 180-4 §5.1.1: the padded message is the message, the byte 0x80, the fewest zero bytes that make the
    total a multiple of 64 bytes, and the 64-bit big-endian bit length -/
theorem sha256_padding_as_specified (m : List UInt8) :
    (pad m).length % 64 = 0 ∧
    m.length + 9 ≤ (pad m).length ∧ (pad m).length < m.length + 9 + 64 ∧
    (∃ rest, pad m = m ++ 0x80 :: rest) ∧
    (∃ front, pad m = front ++ be64 (8 * m.length) ∧ front.length = (pad m).length - 8) ∧
    (∀ x ∈ ((pad m).drop (m.length + 1)).take ((pad m).length - m.length - 9), x = 0) := by
  refine ⟨pad_length_mod m, (pad_length_le m).1, (pad_length_le m).2, pad_prefix m, pad_suffix m, ?_⟩
  intro x hx
  have hd : (pad m).drop (m.length + 1) = List.replicate ((64 - (m.length + 9) % 64) % 64) 0 ++ be64 (8 * m.length) := by
    simp only [pad]
    rw [List.drop_append]
    simp [List.drop_eq_nil_of_le]
  have hl : (pad m).length - m.length - 9 = (64 - (m.length + 9) % 64) % 64 := by
    simp only [pad, List.length_append, List.length_cons, List.length_replicate, be64_length]; omega
  rw [hd, hl, List.take_append_of_le_length (by simp), List.take_of_length_le (by simp)] at hx
  exact (List.mem_replicate.mp hx).2

example : (pad [1, 2, 3]).length = 64 := by decide

/-- the padding is injective on SHA-256's domain (messages below 2^64 bits) -/
theorem sha256_padding_injective (m1 m2 : List UInt8) (h1 : m1.length < 2 ^ 61) (h2 : m2.length < 2 ^ 61)
    (h : pad m1 = pad m2) : m1 = m2 := pad_injective h1 h2 h

example : ([1, 2, 3] : List UInt8).length < 2 ^ 61 := by decide

/-- **domain separation reaches the compression chain**: derivations of different kinds feed SHA-256's block
    loop different block sequences (inputs below 2^61 bytes) -/
theorem domain_separated_blocks (d1 d2 : Deriv) (w1 : d1.WellFormed) (w2 : d2.WellFormed)
    (hk : d1.kind ≠ d2.kind) (p1 p2 : List UInt8) (h1 : d1.pre = some p1) (h2 : d2.pre = some p2)
    (l1 : p1.length < 2 ^ 61) (l2 : p2.length < 2 ^ 61) : pad p1 ≠ pad p2 :=
  fun h => domain_separated d1 d2 w1 w2 hk p1 p2 h1 h2 (pad_injective l1 l2 h)

example : ∃ p1 p2, (Deriv.block [1]).pre = some p1 ∧ (Deriv.ueb [1]).pre = some p2 ∧ (Deriv.block [1]).kind ≠ (Deriv.ueb [1]).kind :=
  ⟨_, _, rfl, rfl, by decide⟩

end Padding

end Tahoe.C17
