import Tahoe.Immutable.UploadDecisionLemmas
/-! C06 — a successful immutable upload meets servers-of-happiness (property theorems).
`hp` is the servers-of-happiness function (its equality with the maximum matching is C08);
`pre` the pre-existing shares found, `alloc` the buckets allocated (shnum ↦ server),
`phases` any failure script for the write phases (start, segments, hash trees, UEB),
`closeEvs` any order of close acknowledgements / failures.  All of them are universally quantified. -/
namespace Tahoe.C06
open Tahoe.UploadDecision

theorem initial_inv (hp : Sharemap → Nat) (happy : Nat) (pre : Sharemap) (alloc : List (Nat × Nat))
    (h : ¬ hp (mergeTrackers pre alloc) < happy) :
    Inv hp happy alloc { landlords := alloc, servermap := mergeTrackers pre alloc } :=
  ⟨by simpa using h, by simp, fun sh hsh => Or.inl hsh, by simp⟩

/-- what is true of every run, success or failure -/
theorem upload_spec (hp : Sharemap → Nat) (happy : Nat) (pre : Sharemap) (alloc : List (Nat × Nat))
    (phases : List (List Nat)) (closeEvs : List CloseEv) :
    let r := upload hp happy pre alloc phases closeEvs
    (∀ placed sm, r.outcome = .success placed sm →
        happy ≤ hp sm ∧ sm = r.final.servermap ∧ placed = shnums r.final.landlords ∧
        (∀ sh ∈ placed, sh ∈ r.final.closed ∧ sh ∉ r.final.failedEver)) ∧
    (r.outcome = .unhappy → Failed alloc r.final) := by
  intro r
  simp only [r, upload]
  split
  · -- selector failure: `_failed` aborts every tracker
    refine ⟨by intro _ _ h; simp at h, fun _ => ⟨?_, by simp [abortAll]⟩⟩
    intro sh hsh; simp only [abortAll, List.nil_append]; exact hsh
  · rename_i hsel
    have h0 := initial_inv hp happy pre alloc hsel
    have h1 := writePhases_spec hp happy alloc phases _ h0 rfl
    cases hr1 : (writePhases hp happy { landlords := alloc, servermap := mergeTrackers pre alloc } phases).2 with
    | true =>
      have : writePhases hp happy { landlords := alloc, servermap := mergeTrackers pre alloc } phases =
          ((writePhases hp happy { landlords := alloc, servermap := mergeTrackers pre alloc } phases).1, true) := by rw [← hr1]
      rw [this]; simp only [if_true]
      exact ⟨by intro _ _ h; simp at h, fun _ => h1.2 hr1⟩
    | false =>
      have : writePhases hp happy { landlords := alloc, servermap := mergeTrackers pre alloc } phases =
          ((writePhases hp happy { landlords := alloc, servermap := mergeTrackers pre alloc } phases).1, false) := by rw [← hr1]
      rw [this]; simp only [Bool.false_eq_true, if_false]
      have h2 := closePhase_spec hp happy alloc closeEvs _ (h1.1 hr1)
      generalize (writePhases hp happy { landlords := alloc, servermap := mergeTrackers pre alloc } phases).1 = e1 at h2 ⊢
      cases hr2 : (closePhase hp happy e1 closeEvs).2 with
      | true =>
        have : closePhase hp happy e1 closeEvs = ((closePhase hp happy e1 closeEvs).1, true) := by rw [← hr2]
        rw [this]; simp only [if_true]
        exact ⟨by intro _ _ h; simp at h, fun _ => h2.2 hr2⟩
      | false =>
        have : closePhase hp happy e1 closeEvs = ((closePhase hp happy e1 closeEvs).1, false) := by rw [← hr2]
        rw [this]; simp only [Bool.false_eq_true, if_false]
        have hi := h2.1 hr2
        generalize (closePhase hp happy e1 closeEvs).1 = e2 at hi ⊢
        refine ⟨?_, by intro h; simp at h⟩
        intro placed sm hout
        simp only [Outcome.success.injEq] at hout
        obtain ⟨hp1, hp2⟩ := hout
        subst hp1 hp2
        refine ⟨hi.happyEnough, rfl, rfl, ?_⟩
        intro sh hsh
        constructor
        · simp only [List.mem_append, List.mem_filter]
          by_cases hc : sh ∈ e2.closed
          · left; exact hc
          · right; exact ⟨hsh, by simpa using hc⟩
        · exact fun hf => hi.failedGone sh hf hsh

/-- **success is happy**: whatever fails during transfer, an upload that reports success ends with a
layout (shares still held by bucket writers that closed + pre-existing shares) whose
servers-of-happiness value is at least the threshold. -/
theorem success_is_happy (hp : Sharemap → Nat) (happy : Nat) (pre : Sharemap) (alloc : List (Nat × Nat))
    (phases : List (List Nat)) (closeEvs : List CloseEv) (placed : List Nat) (sm : Sharemap)
    (h : (upload hp happy pre alloc phases closeEvs).outcome = .success placed sm) :
    happy ≤ hp sm ∧ sm = (upload hp happy pre alloc phases closeEvs).final.servermap :=
  let s := (upload_spec hp happy pre alloc phases closeEvs).1 placed sm h
  ⟨s.1, s.2.1⟩

/-- **placed shares are complete**: every share number reported as placed was closed after every
write to it succeeded (no write or close to it ever failed). -/
theorem placed_shares_complete (hp : Sharemap → Nat) (happy : Nat) (pre : Sharemap) (alloc : List (Nat × Nat))
    (phases : List (List Nat)) (closeEvs : List CloseEv) (placed : List Nat) (sm : Sharemap)
    (h : (upload hp happy pre alloc phases closeEvs).outcome = .success placed sm) :
    ∀ sh ∈ placed, sh ∈ (upload hp happy pre alloc phases closeEvs).final.closed ∧
                   sh ∉ (upload hp happy pre alloc phases closeEvs).final.failedEver :=
  ((upload_spec hp happy pre alloc phases closeEvs).1 placed sm h).2.2.2

/-- **failure leaves nothing partial**: when the upload ends with the unhappiness error, every bucket
writer it created has received abort() (so an unfinished share is deleted by the server, C22), and the
only shares it may have made visible are ones whose close() was acknowledged and to which no write
ever failed, i.e. complete shares. -/
theorem failure_leaves_nothing_partial (hp : Sharemap → Nat) (happy : Nat) (pre : Sharemap) (alloc : List (Nat × Nat))
    (phases : List (List Nat)) (closeEvs : List CloseEv)
    (h : (upload hp happy pre alloc phases closeEvs).outcome = .unhappy) :
    (∀ sh ∈ shnums alloc, sh ∈ (upload hp happy pre alloc phases closeEvs).final.aborted) ∧
    (∀ sh ∈ (upload hp happy pre alloc phases closeEvs).final.closed,
        sh ∉ (upload hp happy pre alloc phases closeEvs).final.failedEver) :=
  let f := (upload_spec hp happy pre alloc phases closeEvs).2 h
  ⟨f.allAborted, f.closedClean⟩

/-- the selector refuses outright when the merged layout is not happy -/
theorem unhappy_selection_fails (hp : Sharemap → Nat) (happy : Nat) (pre : Sharemap) (alloc : List (Nat × Nat))
    (phases : List (List Nat)) (closeEvs : List CloseEv) (h : hp (mergeTrackers pre alloc) < happy) :
    (upload hp happy pre alloc phases closeEvs).outcome = .unhappy := by
  simp [upload, h]

/- non-vacuity: with `hp` = number of distinct share numbers (a stand-in), 3 shares on 3 servers,
   happy = 2: one failure keeps the upload successful, two failures make it unhappy. -/
example : (upload (fun m => m.length) 2 [] [(0, 10), (1, 11), (2, 12)] [[1]] []).outcome =
    .success [0, 2] [(0, [10]), (2, [12])] := by decide
example : (upload (fun m => m.length) 2 [] [(0, 10), (1, 11), (2, 12)] [[1], [0]] []).outcome = .unhappy := by decide

end Tahoe.C06
