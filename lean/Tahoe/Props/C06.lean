import Tahoe.Immutable.UploadSelectionLemmas
/-! C06 — a successful immutable upload meets servers-of-happiness (property theorems).

Model: `Tahoe/Immutable/UploadDecision.lean` (selector's final test, `CHKUploader.set_shareholders`, the
Encoder's push phase as a state machine over shareholder-loss events with `_remove_shareholder`, the close
phase with `WriteBucketProxy.close()` = flush + remote close, answers arriving after the error, and
`_encrypted_done`'s UploadResults) and `Tahoe/Immutable/UploadSelection.lean` (the bookkeeping of
`Tahoe2ServerSelector.get_shareholders` over any history of answers, on C07/C08's `SelState`, composed with the
above).  Helper lemmas: `Tahoe/Immutable/UploadDecision{Rel,Lemmas,Matching}.lean`, `UploadSelectionLemmas.lean`.
`pre` = the pre-existing shares found (shnum ↦ servers), `alloc` = the buckets allocated (shnum ↦ server),
`phases` = any failure script for the write phases (start, segments, hash trees, UEB), `closeEvs` = any
order of close acknowledgements / remote-close failures / flush failures.  All universally quantified.
`hp` is an arbitrary happiness function in the bookkeeping theorems; the theorems that speak about
matchings use `soh` = C08's model of `servers_of_happiness` (`Tahoe.Happiness.serversOfHappiness`, proved
in C08 to be the maximum matching number), the same function the driver runs.
`IsMatching E M`: `M` is a list of (server, share) pairs of `E`, no two sharing a server or a share.
`layoutPairs pre held` = pre-existing pairs ∪ the pairs of the bucket writers `held`.

## Coverage of the statement

| clause of the statement | theorem(s) over the model |
|---|---|
| "reports success only if the shares it placed or found form a layout whose servers-of-happiness value is at least the configured threshold" | `success_layout_has_matching` (a matching of ≥ `happy` pairs exists among pre-existing shares ∪ the landlords that survived, each of which is closed and hole-free; no hypothesis beyond `pre` being a dict of sets), `success_is_happy` (same for any happiness function, on the encoder's final servermap) |
| "every share it reports as placed is complete and readable on the server it names" | `reported_shares_on_named_server` (UploadResults.sharemap and .servermap name exactly the surviving landlords, each on the server that allocated it, close acknowledged, no write to it ever failed; pushed_shares = their number), `placed_shares_complete`; "readable" = the server made it visible on `close` — storage semantics is C22, checked here by the monitor (share bytes on disk = reference bytes) |
| "If the threshold cannot be met (…failures during transfer), the upload fails with an unhappiness error" | `unhappy_iff_survivors_below_threshold` (error ⇔ no matching of `happy` pairs in pre-existing ∪ surviving landlords at the verdict; success ⇔ one exists), `loss_rechecks_whole_layout` (every loss event re-decides on the whole remaining layout, also when the lost share still has another holder), `unhappy_selection_fails`, `assertion_iff_duplicate_allocation` (the only other exit of the model; DESIGN 8.9, outside the statement) |
| "(too few servers, full or failing servers …)" | `too_few_servers_fails` (for every history of get_buckets / allocate_buckets answers over any number of rounds: fewer than `happy` servers ever reporting or granting a share ⇒ unhappiness error; full servers = empty grants, failing servers = error answers), `selection_hands_over` (what the selector's bookkeeping hands to the uploader for every history: all granted buckets, accumulated over the rounds; the get_buckets-reported shares only), `unhappy_selection_fails`. Whether a *better* placement was available to the selector (which shares it asks of which server, when it stops) is C07 — not covered here |
| "leaves no partial shares visible to readers" | `failure_leaves_no_partial_share` (every bucket writer got `abort`; any share whose remote `close` was or may still be issued — hence the only ones a server can make visible — received every byte, for every order of answers including those after the error); that `abort` deletes an unfinished share and only `close` publishes is C22 |
| "the shares it … found": the pre-existing shares counted are complete, readable shares | model input assumption, not a theorem: `pre` = shares reported by `get_buckets` / `alreadygot`, which a storage server gives for final (closed) shares only (C22 `visible_iff_closed`); so `success_layout_has_matching` is over complete shares. Tied by the monitor on concurrent uploads of one file (an upload stalled before close, a second one meanwhile, then timeout / disconnect / failure / completion of the first): every share found or placed must be complete in the server's final share directory when success is reported, the real layout's happiness ≥ threshold, the cap readable |
| the success verdict is a function of the layout that is actually pushed | `success_needs_happy_pushed_allocation`, `assertion_iff_duplicate_allocation`, and composed with the selector's rounds: `selection_hands_over` + `selected_success_layout_has_matching` (for every history of answers, failure script and answer order a success comes with `happy` pairwise-distinct (server, share) pairs, each reported by a get_buckets answer or granted by the named server, pushed, closed and hole-free) |
| quantifier: "failures injected on any allocate/write/close call, and every response ordering" | all theorems quantify over every failure script, close-answer order and late-answer tail; allocate-time faults: `selected_allocations_never_leak` (every bucket any server granted in any round is aborted on the error and closed-or-aborted on success, whatever other allocate calls failed), `too_few_servers_fails`, `selected_success_layout_has_matching` quantify over every history of allocate answers and errors. The order in which the selector *issues* its queries (the placement plan per round) is C07's; response orderings of the push phase are the scripts |
-/
namespace Tahoe.C06
open Tahoe.UploadDecision
open Tahoe.Happiness (rel relOfServermap IsMatching)

/-- **success is happy** (any happiness function): whatever fails during transfer, an upload that reports
success ends with a servermap (pre-existing shares + landlords that closed) whose happiness is at least
the threshold. -/
theorem success_is_happy (hp : Sharemap → Nat) (happy : Nat) (pre : Sharemap) (alloc : List (Nat × Nat))
    (phases : List (List Nat)) (closeEvs : List CloseEv) (placed : List Nat) (sm : Sharemap)
    (h : (upload hp happy pre alloc phases closeEvs).outcome = .success placed sm) :
    happy ≤ hp sm ∧ sm = (upload hp happy pre alloc phases closeEvs).final.servermap :=
  let s := (upload_spec hp happy pre alloc phases closeEvs).1 placed sm h
  ⟨s.2.2.1 ▸ s.1.happyEnough, s.2.2.1⟩

example : (upload (fun m => m.length) 2 [] [(0, 10), (1, 11), (2, 12)] [[1]] []).outcome =
    .success [0, 2] [(0, [10]), (2, [12])] := by decide

/-- **the layout of a successful upload has a matching of `happy` pairs**: with the real
`servers_of_happiness` (C08), success implies that among the pre-existing (server, share) pairs and the
pairs of the landlords that survived the push — exactly `alloc` minus the shares for which a call failed —
there are `happy` pairs with distinct servers and distinct shares. -/
theorem success_layout_has_matching (happy : Nat) (pre : Sharemap) (alloc : List (Nat × Nat))
    (phases : List (List Nat)) (closeEvs : List CloseEv) (placed : List Nat) (sm : Sharemap)
    (hw : WFmap pre)
    (h : (upload soh happy pre alloc phases closeEvs).outcome = .success placed sm) :
    let r := upload soh happy pre alloc phases closeEvs
    (∃ M, IsMatching (layoutPairs pre r.final.landlords) M ∧ happy ≤ M.length) ∧
    r.final.landlords = alloc.filter (fun a => a.1 ∉ r.final.failedEver) ∧
    placed = shnums r.final.landlords := by
  intro r
  obtain ⟨hi, _, _, hpl, _, _, hn⟩ := (upload_spec soh happy pre alloc phases closeEvs).1 placed sm h
  exact ⟨soh_ge_of_sub _ _ (lay_sub_pairs (hi.st.lay hw hn)) happy hi.happyEnough, hi.st.core.survivors, hpl⟩

/- non-vacuity: the duplicate-holder layout of seeded change C06-a, threshold 2: server 0 already holds
   shares 0,1,2; servers 1 and 2 get copies of 1 and 2; the writer on server 1 fails; still happy. -/
example : WFmap [(0, [0]), (1, [0]), (2, [0])] ∧
    (upload soh 2 [(0, [0]), (1, [0]), (2, [0])] [(1, 1), (2, 2)] [[1]] []).outcome =
      .success [2] [(0, [0]), (1, [0]), (2, [0, 2])] := by
  refine ⟨⟨by decide, by decide⟩, by decide +kernel⟩

/-- **placed shares are complete**: every share number reported as placed was closed (acknowledged), is
among the shares whose remote close was issued, and no write or close to it ever failed. -/
theorem placed_shares_complete (hp : Sharemap → Nat) (happy : Nat) (pre : Sharemap) (alloc : List (Nat × Nat))
    (phases : List (List Nat)) (closeEvs : List CloseEv) (placed : List Nat) (sm : Sharemap)
    (h : (upload hp happy pre alloc phases closeEvs).outcome = .success placed sm) :
    let r := upload hp happy pre alloc phases closeEvs
    ∀ sh ∈ placed, sh ∈ r.final.closed ∧ sh ∈ r.final.mayBeVisible ∧ sh ∉ r.final.holes ∧
      sh ∉ r.final.failedEver := by
  intro r sh hsh
  obtain ⟨hi, _, _, hpl, hcl, _, _⟩ := (upload_spec hp happy pre alloc phases closeEvs).1 placed sm h
  have hc := hcl sh hsh
  have hnf := core_closed_clean hi.st.core sh hc
  exact ⟨hc, core_closed_mayBeVisible hi.st.core sh hc, fun hh => hnf (hi.st.core.holesFailed sh hh), hnf⟩

example : (upload (fun m => m.length) 2 [] [(0, 10), (1, 11), (2, 12)] [[1]] [.ok 2]).final.closed = [2, 0] := by
  decide

/-- **what UploadResults reports is what survived, on the server that holds it**: on success the reported
sharemap (shnum ↦ servers) and servermap (server ↦ shnums) both contain exactly the pairs of the landlords
that survived the push; each such pair is a bucket writer allocated on that very server, whose close was
acknowledged and to which no call ever failed; `pushed_shares` is their number. -/
theorem reported_shares_on_named_server (hp : Sharemap → Nat) (happy : Nat) (pre : Sharemap)
    (alloc : List (Nat × Nat)) (phases : List (List Nat)) (closeEvs : List CloseEv) (placed : List Nat)
    (sm : Sharemap) (h : (upload hp happy pre alloc phases closeEvs).outcome = .success placed sm) :
    let r := upload hp happy pre alloc phases closeEvs
    ∃ ur, r.results = some ur ∧
      (∀ srv sh, (srv, sh) ∈ rel ur.sharemap ↔ (sh, srv) ∈ r.final.landlords) ∧
      (∀ srv sh, (srv, sh) ∈ relOfServermap ur.servermap ↔ (srv, sh) ∈ rel ur.sharemap) ∧
      ur.pushed = r.final.landlords.length ∧ ur.preexisting = pre.length ∧
      (∀ srv sh, (srv, sh) ∈ rel ur.sharemap →
        (sh, srv) ∈ alloc ∧ sh ∈ r.final.closed ∧ sh ∉ r.final.holes ∧ sh ∉ r.final.failedEver) := by
  intro r
  obtain ⟨hi, _, _, hpl, hcl, hres, hn⟩ := (upload_spec hp happy pre alloc phases closeEvs).1 placed sm h
  have hsub := core_landlords_sub hi.st.core
  obtain ⟨u1, u2, u3, u4⟩ := uploadResults_spec pre alloc r.final.landlords hn hsub
  refine ⟨_, hres, ?_, ?_, ?_, ?_, ?_⟩
  · rw [hpl]; exact u1
  · rw [hpl]; intro srv sh; rw [u1, u2]
  · rw [hpl]; exact u3
  · rw [hpl]; exact u4
  · intro srv sh hm
    rw [hpl] at hm
    have hl := (u1 srv sh).mp hm
    have hsh : sh ∈ placed := by rw [hpl]; exact List.mem_map.mpr ⟨(sh, srv), hl, rfl⟩
    have hc := hcl sh hsh
    have hnf := core_closed_clean hi.st.core sh hc
    exact ⟨hsub _ hl, hc, fun hh => hnf (hi.st.core.holesFailed sh hh), hnf⟩

/- non-vacuity, and the case seeded change C06-c broke: share 1's writer (server 11) is lost during the
   push, the upload still succeeds, and the results name shares 0 and 2 only. -/
example : (upload (fun m => m.length) 2 [] [(0, 10), (1, 11), (2, 12)] [[1]] []).results =
    some { sharemap := [(0, [10]), (2, [12])], servermap := [(10, [0]), (12, [2])], pushed := 2, preexisting := 0 } := by
  decide

/-- **every loss re-decides on the whole remaining layout** (the push phase as a state machine): in any
state reached by the model (`St`), after the loss of the bucket writer of share `sh`, the error is raised
exactly when the pre-existing pairs and the landlords left contain no matching of `happy` pairs —
whether or not another server still holds a copy of `sh`. -/
theorem loss_rechecks_whole_layout (happy : Nat) (pre : Sharemap) (alloc : List (Nat × Nat)) (e : Enc)
    (sh : Nat) (k : FailKind) (hst : St pre alloc e) (hw : WFmap pre) (hn : (shnums alloc).Nodup)
    (hdis : ∀ a ∈ alloc, (a.2, a.1) ∉ rel pre) (hnc : sh ∉ e.closed) (hk : k = .write → sh ∉ e.closeCalled) :
    ((removeShareholder soh happy e sh k).2 = true ↔
      ∀ M, IsMatching (layoutPairs pre (removeShareholder soh happy e sh k).1.landlords) M → M.length < happy) ∧
    (removeShareholder soh happy e sh k).1.landlords = e.landlords.filter (fun l => l.1 != sh) := by
  have hst1 := st_drop pre alloc e sh k hst hnc hk
  constructor
  · have hiff := soh_lt_iff _ _ (lay_eq_pairs (hst1.lay hw hn) hdis) happy
    simp only [removeShareholder, decide_eq_true_eq]
    exact hiff
  · simp only [removeShareholder, dropShareholder]
    cases hl : e.landlords.lookup sh with
    | some p => rfl
    | none =>
      simp only
      refine (List.filter_eq_self.mpr ?_).symm
      intro a ha
      have : a.1 ≠ sh := fun hh => lookup_none_not_mem _ _ hl (List.mem_map.mpr ⟨a, ha, hh⟩)
      simpa using this

/- non-vacuity = the scenario of seeded change C06-a: server 0 holds shares 0,1,2, servers 1 and 2 hold
   copies of 1 and 2, threshold 3; server 1's writer fails: share 1 is still on server 0, yet the error is raised. -/
example :
    let e0 : Enc := ⟨[(1, 1), (2, 2)], mergeTrackers [(0, [0]), (1, [0]), (2, [0])] [(1, 1), (2, 2)], [], [], [], [], [], []⟩
    (removeShareholder soh 3 e0 1 .write).2 = true ∧
    St [(0, [0]), (1, [0]), (2, [0])] [(1, 1), (2, 2)] e0 ∧
    (∀ a ∈ [(1, 1), (2, 2)], (a.2, a.1) ∉ rel [(0, [0]), (1, [0]), (2, [0])]) :=
  ⟨by decide +kernel, st_initial _ _, by decide⟩

/-- **unhappiness error iff the surviving set cannot meet the threshold**: for dict inputs in which no
server was allocated a share it already reported, the upload ends with UploadUnhappinessError exactly when,
at the verdict, the pre-existing pairs together with the landlords that survived (= `alloc` minus the shares
with a failed call) contain no `happy` pairs with distinct servers and distinct shares; otherwise it succeeds. -/
theorem unhappy_iff_survivors_below_threshold (happy : Nat) (pre : Sharemap) (alloc : List (Nat × Nat))
    (phases : List (List Nat)) (closeEvs : List CloseEv)
    (hw : WFmap pre) (hn : (shnums alloc).Nodup) (hdis : ∀ a ∈ alloc, (a.2, a.1) ∉ rel pre) :
    let r := upload soh happy pre alloc phases closeEvs
    (r.outcome = .unhappy ↔ ∀ M, IsMatching (layoutPairs pre r.verdict.landlords) M → M.length < happy) ∧
    ((∃ placed sm, r.outcome = .success placed sm) ↔
      ∃ M, IsMatching (layoutPairs pre r.verdict.landlords) M ∧ happy ≤ M.length) ∧
    r.verdict.landlords = alloc.filter (fun a => a.1 ∉ r.verdict.failedEver) := by
  intro r
  obtain ⟨hs, hu, ha⟩ := upload_spec soh happy pre alloc phases closeEvs
  have key : (r.outcome = .unhappy ∧ soh r.verdict.servermap < happy ∧ St pre alloc r.verdict) ∨
      ((∃ placed sm, r.outcome = .success placed sm) ∧ happy ≤ soh r.verdict.servermap ∧ St pre alloc r.verdict) := by
    cases hout : r.outcome with
    | unhappy => exact Or.inl ⟨rfl, (hu hout).1.unhappyNow, (hu hout).1.st⟩
    | assertion => exact absurd hn (ha hout).1
    | success placed sm =>
      obtain ⟨hi, hv, _⟩ := hs placed sm hout
      exact Or.inr ⟨⟨placed, sm, rfl⟩, hv ▸ hi.happyEnough, hv ▸ hi.st⟩
  rcases key with ⟨ho, hlt, hst⟩ | ⟨⟨placed, sm, ho⟩, hge, hst⟩
  · have hE := lay_eq_pairs (hst.lay hw hn) hdis
    refine ⟨⟨fun _ => (soh_lt_iff _ _ hE happy).mp hlt, fun _ => ho⟩, ⟨?_, ?_⟩, hst.core.survivors⟩
    · rintro ⟨p, s, hh⟩; rw [ho] at hh; cases hh
    · intro hM; have := (soh_ge_iff _ _ hE happy).mpr hM; omega
  · have hE := lay_eq_pairs (hst.lay hw hn) hdis
    refine ⟨⟨?_, ?_⟩, ⟨fun _ => (soh_ge_iff _ _ hE happy).mp hge, fun _ => ⟨placed, sm, ho⟩⟩, hst.core.survivors⟩
    · intro hh; rw [ho] at hh; cases hh
    · intro hM; have := (soh_lt_iff _ _ hE happy).mpr hM; omega

/- non-vacuity: both verdicts on the C06-a layout (threshold 3: unhappy; threshold 2: success) -/
example : WFmap [(0, [0]), (1, [0]), (2, [0])] ∧ (shnums [(1, 1), (2, 2)]).Nodup ∧
    (∀ a ∈ [(1, 1), (2, 2)], (a.2, a.1) ∉ rel [(0, [0]), (1, [0]), (2, [0])]) ∧
    (upload soh 3 [(0, [0]), (1, [0]), (2, [0])] [(1, 1), (2, 2)] [] [.flushFail 1]).outcome = .unhappy :=
  ⟨⟨by decide, by decide⟩, by decide, by decide, by decide +kernel⟩
/- what the hypothesis `hdis` excludes: a server that is allocated a share it already reported. The code
   (and the model) then removes the pair from the servermap when the writer is lost although the old copy
   is still there: it under-counts, which errs on the safe side (`success_layout_has_matching` needs no `hdis`). -/
example : (upload soh 1 [(0, [5])] [(0, 5)] [[0]] []).outcome = .unhappy := by decide +kernel

/-- **failure leaves no partial share visible**: when the upload ends with the unhappiness error — at
selection, in a write phase or in the close phase, and after any answers that were still outstanding —
every bucket writer it created has received abort() (an unfinished share is deleted by the server, C22),
and every share a server can have made visible (its remote close was, or may still be, issued) had every
byte acknowledged; the acknowledged closes are among them. -/
theorem failure_leaves_no_partial_share (hp : Sharemap → Nat) (happy : Nat) (pre : Sharemap)
    (alloc : List (Nat × Nat)) (phases : List (List Nat)) (closeEvs : List CloseEv)
    (h : (upload hp happy pre alloc phases closeEvs).outcome = .unhappy) :
    let r := upload hp happy pre alloc phases closeEvs
    (∀ sh ∈ shnums alloc, sh ∈ r.final.aborted) ∧
    (∀ sh ∈ r.final.mayBeVisible, sh ∉ r.final.holes) ∧
    (∀ sh ∈ r.final.closed, sh ∈ r.final.mayBeVisible ∧ sh ∉ r.final.failedEver) := by
  intro r
  obtain ⟨_, hst, hab⟩ := (upload_spec hp happy pre alloc phases closeEvs).2.1 h
  refine ⟨hab, ?_, fun sh hc => ⟨core_closed_mayBeVisible hst.core sh hc, core_closed_clean hst.core sh hc⟩⟩
  intro sh hv
  simp only [Enc.mayBeVisible, List.mem_filter, decide_eq_true_eq] at hv
  exact hst.core.visClean sh hv.1 hv.2

/- non-vacuity: four shares, threshold 2; the remote close of 0, 2, 3 fails (error at the third), then the
   flush of share 1 fails late: it has a hole, is aborted, and is not among the possibly visible ones. -/
example : (upload (fun m => m.length) 2 [] [(0, 1), (1, 2), (2, 3), (3, 4)] []
      [.fail 0, .fail 2, .fail 3, .flushFail 1]).outcome = .unhappy ∧
    (upload (fun m => m.length) 2 [] [(0, 1), (1, 2), (2, 3), (3, 4)] []
      [.fail 0, .fail 2, .fail 3, .flushFail 1]).final.holes = [1] ∧
    (upload (fun m => m.length) 2 [] [(0, 1), (1, 2), (2, 3), (3, 4)] []
      [.fail 0, .fail 2, .fail 3, .flushFail 1]).final.mayBeVisible = [0, 2, 3] := by decide

/-- the selector refuses outright when the merged layout is not happy -/
theorem unhappy_selection_fails (hp : Sharemap → Nat) (happy : Nat) (pre : Sharemap) (alloc : List (Nat × Nat))
    (phases : List (List Nat)) (closeEvs : List CloseEv) (h : hp (mergeTrackers pre alloc) < happy) :
    (upload hp happy pre alloc phases closeEvs).outcome = .unhappy := by
  simp [upload, h]

example : (upload (fun m => m.length) 2 [] [(0, 10), (1, 11), (2, 12)] [[1], [0]] []).outcome = .unhappy := by decide

/-- **the verdict is taken on the layout that is pushed**: `alloc` is the tracker set handed to
`CHKUploader.set_shareholders`, i.e. the bucket writers the encoder actually pushes to.  Success requires that
this very allocation (with the pre-existing shares) passes the happiness test and has one writer per share
number — a happiness value computed on any other layout (e.g. before duplicates were released) does not count. -/
theorem success_needs_happy_pushed_allocation (hp : Sharemap → Nat) (happy : Nat) (pre : Sharemap)
    (alloc : List (Nat × Nat)) (phases : List (List Nat)) (closeEvs : List CloseEv) (placed : List Nat)
    (sm : Sharemap) (h : (upload hp happy pre alloc phases closeEvs).outcome = .success placed sm) :
    happy ≤ hp (mergeTrackers pre alloc) ∧ (shnums alloc).Nodup := by
  refine ⟨?_, ((upload_spec hp happy pre alloc phases closeEvs).1 placed sm h).2.2.2.2.2.2⟩
  apply Nat.le_of_not_lt
  intro hlt
  rw [unhappy_selection_fails hp happy pre alloc phases closeEvs hlt] at h
  cases h

/- the layouts of seeded change C06-e (7 servers, happy = 6, server 0 fails allocate_buckets): the tracker
   set with doubly allocated shares 2,3,4,5 has happiness 6 and the unchanged code asserts on it; the set left
   after releasing the duplicates (servers 1,2,3,6) has happiness 4: pushed as it is, it must be refused. -/
example : (upload soh 6 [] [(0, 2), (1, 1), (2, 1), (2, 5), (3, 3), (3, 5), (4, 3), (4, 6), (5, 4), (5, 6)] [] []).outcome
    = .assertion := by decide +kernel
example : (upload soh 6 [] [(0, 2), (1, 1), (2, 1), (3, 3), (4, 6), (5, 6)] [] []).outcome = .unhappy := by
  decide +kernel

/-! ### Server selection composed with the upload decision
`evs` is any history of answers to the selector's queries (get_buckets answers and errors, allocate_buckets
answers — full, partial, empty — and errors), over any number of rounds, in any order. -/

/-- **what selection hands to the uploader**, for every history: the allocation pushed is every bucket any
server granted in any round (ServerTracker.buckets accumulate), the pre-existing map is every share reported
by a successful get_buckets answer — shares named only in an allocate_buckets `alreadygot` answer are not
counted — and it is a well-formed dict of sets. -/
theorem selection_hands_over (total : Nat) (evs : List SelEv) :
    (∀ sh p, (sh, p) ∈ allocOf (select total evs) ↔
      ∃ asked ag allocd, SelEv.allocated p asked ag allocd ∈ evs ∧ sh ∈ allocd) ∧
    (∀ p x, (p, x) ∈ rel (preOf (select total evs).sel.existing) ↔
      ∃ shares, SelEv.gotBuckets p shares ∈ evs ∧ x ∈ shares) ∧
    WFmap (preOf (select total evs).sel.existing) :=
  select_spec total evs

/- non-vacuity: the C06-e history in small: server 1 grants share 0 in round one, server 2 fails, a second
   round re-homes share 1 to server 1 and share 0 to server 3: share 0 has two writers. `alreadygot` (share 5)
   is not counted. -/
example : allocOf (select 3 [.gotBuckets 4 [2], .allocated 1 [0] [] [0], .allocErr 2 [1],
      .allocated 1 [1] [5] [1], .allocated 3 [0] [] [0]]) = [(0, 1), (1, 1), (0, 3)] ∧
    preOf (select 3 [.gotBuckets 4 [2], .allocated 1 [0] [] [0], .allocErr 2 [1],
      .allocated 1 [1] [5] [1], .allocated 3 [0] [] [0]]).sel.existing = [(2, [4])] := by decide

/-- **too few servers ⇒ unhappiness error**: whatever the servers answer and however many rounds are run, if
fewer than `happy` servers ever reported or granted a share, the upload ends with UploadUnhappinessError
(in particular when the others are full — empty grants — or fail their calls). -/
theorem too_few_servers_fails (happy total : Nat) (evs : List SelEv) (phases : List (List Nat))
    (closeEvs : List CloseEv) (servers : List Nat)
    (hs : ∀ p, ((∃ shares, SelEv.gotBuckets p shares ∈ evs ∧ shares ≠ []) ∨
               (∃ asked ag allocd, SelEv.allocated p asked ag allocd ∈ evs ∧ allocd ≠ [])) → p ∈ servers)
    (hlt : servers.length < happy) :
    (selectThenUpload soh happy total evs phases closeEvs).outcome = .unhappy := by
  obtain ⟨h1, h2, _⟩ := select_spec total evs
  apply unhappy_selection_fails
  refine Nat.lt_of_le_of_lt (soh_le_servers _ servers ?_) hlt
  intro p s hps
  rcases (rel_mergeTrackers _ _ p s).mp hps with h | h
  · obtain ⟨shares, he, hx⟩ := (h2 p s).mp h
    exact hs p (Or.inl ⟨shares, he, by intro hh; rw [hh] at hx; simp at hx⟩)
  · obtain ⟨a, b, c, he, hx⟩ := (h1 s p).mp h
    exact hs p (Or.inr ⟨a, b, c, he, by intro hh; rw [hh] at hx; simp at hx⟩)

/- non-vacuity: threshold 3, three servers answer but one is full (grants nothing) and one fails -/
example : (selectThenUpload soh 3 3 [.allocated 1 [0] [] [0], .allocated 2 [1] [] [], .allocErr 3 [2],
      .allocated 1 [1, 2] [] [1, 2]] [] []).outcome = .unhappy := by decide +kernel

/-- **no granted bucket leaks**: for every history, every bucket writer any server granted in any round is
aborted when the upload ends with the unhappiness error, and is closed (complete) or aborted when it
succeeds.  (The third exit, the assertion of DESIGN 8.9, aborts nothing: `assertion_iff_duplicate_allocation`.) -/
theorem selected_allocations_never_leak (hp : Sharemap → Nat) (happy total : Nat) (evs : List SelEv)
    (phases : List (List Nat)) (closeEvs : List CloseEv) (p : Nat) (asked ag allocd : List Nat) (sh : Nat)
    (hev : SelEv.allocated p asked ag allocd ∈ evs) (hsh : sh ∈ allocd) :
    let r := selectThenUpload hp happy total evs phases closeEvs
    (r.outcome = .unhappy → sh ∈ r.final.aborted) ∧
    (∀ placed sm, r.outcome = .success placed sm → sh ∈ r.final.closed ∨ sh ∈ r.final.aborted) := by
  intro r
  have hal : sh ∈ shnums (allocOf (select total evs)) :=
    List.mem_map.mpr ⟨(sh, p), ((select_spec total evs).1 sh p).mpr ⟨asked, ag, allocd, hev, hsh⟩, rfl⟩
  constructor
  · intro hu
    exact (failure_leaves_no_partial_share hp happy _ _ phases closeEvs hu).1 sh hal
  · intro placed sm hs
    obtain ⟨hi, _, _, hpl, hcl, _, _⟩ := (upload_spec hp happy _ _ phases closeEvs).1 placed sm hs
    rcases hi.st.core.accounted sh hal with h | h
    · exact Or.inl (hcl sh (hpl ▸ h))
    · exact Or.inr h

example : (selectThenUpload (fun m => m.length) 2 3 [.allocated 1 [0] [] [0], .allocated 2 [1, 2] [] [1, 2]]
    [[1]] []).final.aborted = [1] := by decide

/-- **the composed success theorem**: for every history of answers, failure script and answer order, a
reported success comes with `happy` (server, share) pairs, pairwise distinct in both coordinates, each of which
is a share some server reported in a get_buckets answer, or a bucket some server granted whose writer
survived the push, was closed and received every byte. -/
theorem selected_success_layout_has_matching (happy total : Nat) (evs : List SelEv) (phases : List (List Nat))
    (closeEvs : List CloseEv) (placed : List Nat) (sm : Sharemap)
    (h : (selectThenUpload soh happy total evs phases closeEvs).outcome = .success placed sm) :
    let r := selectThenUpload soh happy total evs phases closeEvs
    ∃ M : List (Nat × Nat), happy ≤ M.length ∧ M.Pairwise (fun a b => a.1 ≠ b.1 ∧ a.2 ≠ b.2) ∧
      ∀ e ∈ M, (∃ shares, SelEv.gotBuckets e.1 shares ∈ evs ∧ e.2 ∈ shares) ∨
        (∃ asked ag allocd, SelEv.allocated e.1 asked ag allocd ∈ evs ∧ e.2 ∈ allocd ∧
          e.2 ∈ r.final.closed ∧ e.2 ∉ r.final.holes) := by
  intro r
  obtain ⟨h1, h2, hw⟩ := select_spec total evs
  obtain ⟨⟨M, hM, hlen⟩, _, hpl⟩ := success_layout_has_matching happy _ _ phases closeEvs placed sm hw h
  obtain ⟨hi, _, _, _, _, _, _⟩ := (upload_spec soh happy _ _ phases closeEvs).1 placed sm h
  refine ⟨M, hlen, hM.2, ?_⟩
  rintro ⟨p, s⟩ he
  rcases (mem_layoutPairs _ _ p s).mp (hM.1 _ he) with hpre | hland
  · exact Or.inl ((h2 p s).mp hpre)
  · obtain ⟨a, b, c, hev, hx⟩ := (h1 s p).mp (core_landlords_sub hi.st.core _ hland)
    have hs : s ∈ placed := by rw [hpl]; exact List.mem_map.mpr ⟨(s, p), hland, rfl⟩
    have hc := placed_shares_complete soh happy _ _ phases closeEvs placed sm h s hs
    exact Or.inr ⟨a, b, c, hev, hx, hc.1, hc.2.2.1⟩

example : (selectThenUpload soh 2 3 [.gotBuckets 4 [2], .allocated 1 [0] [] [0], .allocated 2 [1] [] [1]]
    [[1]] []).outcome = .success [0] [(2, [4]), (0, [1])] := by decide +kernel

/-- the only exit that is neither success nor the unhappiness error: `CHKUploader.set_shareholders`
asserts when a happy selection allocated one share number on two servers (DESIGN 8.9; the statement is
silent about it). Nothing has been written or aborted at that point. -/
theorem assertion_iff_duplicate_allocation (hp : Sharemap → Nat) (happy : Nat) (pre : Sharemap)
    (alloc : List (Nat × Nat)) (phases : List (List Nat)) (closeEvs : List CloseEv) :
    (upload hp happy pre alloc phases closeEvs).outcome = .assertion ↔
      happy ≤ hp (mergeTrackers pre alloc) ∧ ¬ (shnums alloc).Nodup := by
  constructor
  · intro h
    obtain ⟨h1, h2, _⟩ := (upload_spec hp happy pre alloc phases closeEvs).2.2 h
    exact ⟨h2, h1⟩
  · rintro ⟨h1, h2⟩
    have h1' : ¬ hp (mergeTrackers pre alloc) < happy := by omega
    have h2' : ¬ (List.map (fun x => x.1) alloc).Nodup := by simpa [shnums] using h2
    simp [upload, h1', h2']

example : (upload (fun m => m.length) 1 [] [(1, 2), (1, 3)] [] []).outcome = .assertion := by decide

end Tahoe.C06
