import Tahoe.Immutable.FetchLemmasC03
import Tahoe.Immutable.SegLemmas
import Tahoe.Immutable.SysLemmas
import Tahoe.Immutable.FetchLemmasC46
import Tahoe.Immutable.FinderLemmas
/-! C03 — immutable availability with k good shares (property theorems over the SegmentFetcher
event system `Tahoe.Fetch`, the ShareFinder event system `Tahoe.Finder`, one read `Tahoe.Fetch.Seg`
and the composed system `Tahoe.Fetch.Sys`; helper lemmas in `Tahoe/Immutable/FetchLemmas*.lean`,
`FinderLemmas.lean`, `SegLemmas.lean`, `SysLemmas.lean`).

As built: 9 theorems — `enough_good_shares_succeed`, `too_few_fail` (fetcher, both halves of the
statement), `genuine_segment_is_accepted`, `composed_read_delivers_exact_range`,
`composed_step_writes_contiguous` (what a read delivers, whatever the segment-size guess),
`got_shares_always_recorded`, `new_fetcher_starts_with_known_live_shares` (node share set),
`finder_answers_every_hungry`, `finder_asks_each_server_once` (finder).  Fetcher and finder models are
tied to fetcher.py / finder.py by per-event state comparison (`fetch`, `finder` lines of
`Drv/C03.lean`).  Still assumed: the Share state machine (share.py); still open:
`read_succeeds_partial` (below).

`Fair good k es` (`Tahoe/Immutable/FetchEnv.lean`): `es` is a complete run of a well-behaved
environment — the finder announces each share once and then says `no_more_shares`; every share whose
`get_block` was called sends (optionally OVERDUE and then) exactly one terminal event, COMPLETE iff
the share is good; every queued `loop` runs; at the end nothing is pending.  Any placement (several
shares per server, several servers per share number), any set of bad or late shares, any
interleaving.

## Coverage of the statement (properties.jsonl C03)

| clause of the statement | covered by |
|---|---|
| ≥ k shares with distinct share numbers intact on answering servers ⇒ the segment fetch succeeds | `enough_good_shares_succeed` (fetcher event system, all fair histories) |
| … whatever happens to the other shares / servers: missing, corrupted, erroring, disconnecting mid-read | same theorem: `Fair` lets every non-good share answer CORRUPT / DEAD / BADSEGNUM at any time, any placement (several shares per server), any interleaving; *that share.py / finder.py turn those faults into exactly these events* is the assumption `Fair` — monitor only (end-to-end fault schedules) |
| … or answering late | `Fair` allows OVERDUE before the terminal event of any share (theorem); late DYHB answers / finder overdue timers: `finder_answers_every_hungry` (ShareFinder model `Tahoe.Finder`: overdue promotion, bounded parallelism, answers in any order); that the node forwards the finder's calls to the fetcher: node model + correspondence |
| the read (not just one segment fetch) succeeds, whatever the reader's segment-size guess | read layer: `genuine_segment_is_accepted` (a genuine answer is accepted and makes progress), `C46.bad_segnum_retry` (a wrong guess costs one retry with the real size), `C46.read_writes_exact_range` (success ⇒ exactly the requested range was written); node layer: `C46.no_stuck_state`.  composed system: `composed_read_delivers_exact_range`, `C46.every_read_terminates`; success (not just termination) inside the composed system: `read_succeeds_partial` below |
| a share announced while no fetcher runs (late get_buckets answer after a read, between segments, during a pause) is available to every later fetcher (seeded C03-e) | `got_shares_always_recorded`, `new_fetcher_starts_with_known_live_shares` (node model; `Sys` forwards `gotShares` to it); end-to-end: late-dyhb corpus + family (monitor) |
| < k distinct good shares reachable ⇒ the read fails with a not-enough-shares error | `too_few_fail` (fetcher: `fetch_failed(NotEnoughShares | NoShares)`); node layer retires the requests with that Failure (`C46.no_stuck_state` + correspondence); Segmentation passes it to the read's errback (`C46.bad_segnum_retry`, second part) |
| … instead of returning data | `too_few_fail`, second conjunct (no prefix of the run calls `process_blocks`); that delivered bytes are right is C02 |
| quantifier: all placements on up to N+3 servers, all subsets of failed shares, failures before/during/after block fetches, all response orders and overdue firings | theorems quantify over all event lists satisfying `Fair` (no bound); server-level faults reach the model only as share events — monitor only for the mapping |

Remaining assumptions: `Fair` (FetchEnv.lean) — the finder announces every share once and then says
`no_more_shares` (finder.py: now modelled and proved separately, `finder_answers_every_hungry` /
`finder_asks_each_server_once`; not yet composed with `Sys` in one transition system);
every share whose `get_block` was called sends exactly one terminal event, COMPLETE iff it is intact
on an answering server (share.py, not modelled; since /repo 4f1ea1b a dead share answers DEAD, since
b6b8db9 a wrong guess no longer kills good shares — both found by the monitors of this check);
foolscap's eventual-send queue runs every queued turn; a server that neither answers nor disconnects
is outside the statement.

`read_succeeds_partial` (still not one theorem): "for every fair history of the whole stack with ≥ k good
shares every read's Deferred fires with success".  Proved now: termination of every read of the composed
system (`C46.every_read_terminates`), exactness of what a successful read delivers
(`composed_read_delivers_exact_range`, `composed_step_writes_contiguous`), success of each single fetcher
under `Fair` (`enough_good_shares_succeed`).  Missing: threading the C03 invariant `Inv good` through the
fetchers that `Node` creates per segment (one `Fair` environment per fetcher generation, with the node's
`known`/`dead` share lists as the announced set), which would turn "terminates" into "terminates with
success" inside `Sys`.
-/
namespace Tahoe.C03
open Tahoe.Fetch

instance (good : Nat → Bool) (A : List Share) (s : Fetcher) (e : Ev) : Decidable (EvOk good A s e) := by
  cases e <;> unfold EvOk <;> infer_instance

instance decValidFrom (good : Nat → Bool) : ∀ (es : List Ev) (A : List Share) (s : Fetcher),
    Decidable (ValidFrom good A s es)
  | [], _, _ => isTrue trivial
  | e :: es, A, s =>
    have := decValidFrom good es (A ++ announcedOf e) (step s e)
    by unfold ValidFrom; infer_instance

instance (s : Fetcher) : Decidable (Complete s) := by unfold Complete; infer_instance

instance (good : Nat → Bool) (k : Nat) (es : List Ev) : Decidable (Fair good k es) := by
  unfold Fair; infer_instance

/-- **C03, positive half.**  For every fair complete event sequence — any placement, any subset of
bad / late shares, any schedule — if at least `k` distinct share numbers belong to good shares, the
fetcher ends by calling `process_blocks` with blocks for at least `k` distinct share numbers
(exactly the `_blocks` dict), each of them delivered by a good share that was asked. -/
theorem enough_good_shares_succeed (good : Nat → Bool) (k : Nat) (es : List Ev)
    (hfair : Fair good k es) (hk : k ≤ (goodShnums good (announced es)).length) :
    ∃ bl, (run (init k) es).verdict = some (.blocks bl) ∧ k ≤ distinct (bl.map (·.1)) ∧
      ∀ p ∈ bl, ∃ sh ∈ announced es, sh.shnum = p.1 ∧ sh.id = p.2 ∧ good sh.id = true := by
  obtain ⟨hi, hr⟩ := fair_finished hfair
  have hsome := hi.verd.mp hr
  cases hv : (run (init k) es).verdict with
  | none => simp [hv] at hsome
  | some v =>
    cases v with
    | blocks bl =>
      obtain ⟨h1, h2⟩ := hi.succJust bl hv
      refine ⟨bl, rfl, ?_, ?_⟩
      · rw [h1]; exact h2
      · rw [h1]; exact hi.blocksGood
    | failed e =>
      have := (hi.failJust e hv).2.2
      omega

/-- **C03, negative half.**  With fewer than `k` distinct good share numbers the fetcher ends in
`fetch_failed` with `NotEnoughSharesError` or `NoSharesError`, and at no point of the run has it
called `process_blocks`. -/
theorem too_few_fail (good : Nat → Bool) (k : Nat) (es : List Ev)
    (hfair : Fair good k es) (hk : (goodShnums good (announced es)).length < k) :
    (∃ e, (run (init k) es).verdict = some (.failed e) ∧ (e = .notEnough ∨ e = .noShares)) ∧
    ∀ es₁ es₂, es = es₁ ++ es₂ → ∀ bl, (run (init k) es₁).verdict ≠ some (.blocks bl) := by
  have hnever : ∀ es₁ es₂, es = es₁ ++ es₂ → ∀ bl, (run (init k) es₁).verdict ≠ some (.blocks bl) := by
    intro es₁ es₂ hes bl hv
    have hval : ValidFrom good [] (init k) es₁ := by
      have := hfair.1; rw [hes] at this; exact valid_prefix es₁ es₂ _ _ this
    obtain ⟨_, hi⟩ := valid_inv es₁ [] (init k) (struct_init k) (inv_init good k) hval
    simp only [List.nil_append] at hi
    obtain ⟨_, h2⟩ := hi.succJust bl hv
    have h3 : distinct (blockKeys (run (init k) es₁)) ≤ (goodShnums good (announced es₁)).length := by
      unfold goodShnums
      apply distinct_le_of_subset
      intro n hn
      simp only [blockKeys, List.mem_map] at hn
      obtain ⟨p, hp, rfl⟩ := hn
      obtain ⟨sh, hsh, h4, _, h6⟩ := hi.blocksGood p hp
      simp only [List.mem_map, List.mem_filter]
      exact ⟨sh, ⟨hsh, h6⟩, h4⟩
    have h4 : (goodShnums good (announced es₁)).length ≤ (goodShnums good (announced es)).length := by
      apply goodShnums_mono
      intro x hx
      rw [hes, announced_append]
      simp [hx]
    omega
  refine ⟨?_, hnever⟩
  obtain ⟨hi, hr⟩ := fair_finished hfair
  have hsome := hi.verd.mp hr
  cases hv : (run (init k) es).verdict with
  | none => simp [hv] at hsome
  | some v =>
    cases v with
    | blocks bl => exact absurd hv (hnever es [] (by simp) bl)
    | failed e =>
      refine ⟨e, rfl, ?_⟩
      have := (hi.failJust e hv).1
      cases e <;> simp at this ⊢


/-- **C03, read layer (one step of "whatever the segment-size guess").**  When the node answers a
request with the genuine segment containing the read's current offset — which is what it does once
the real segment size is known and its fetcher succeeded (`enough_good_shares_succeed`) — the read
accepts it: it writes at least one byte starting exactly at its offset, keeps `offset + size`
invariant and does not fail.  (With `C46.bad_segnum_retry` — a wrong guess costs one retry made with
the real segment size — and `C46.read_writes_exact_range` this gives: a read whose segment requests
succeed delivers exactly the requested bytes after at most `⌈size/segsize⌉ + 2` requests.) -/
theorem genuine_segment_is_accepted (s : Seg) (fs : Nat) (k pause : Bool) (hss : 0 < s.segsize)
    (hsz : 0 < s.size) (hfit : s.offset + s.size ≤ fs) (hr : s.result = none) :
    s.offset < (segStep s k (.segment (s.offset / s.segsize * s.segsize)
        (min s.segsize (fs - s.offset / s.segsize * s.segsize)) pause)).offset ∧
    (segStep s k (.segment (s.offset / s.segsize * s.segsize)
        (min s.segsize (fs - s.offset / s.segsize * s.segsize)) pause)).offset +
      (segStep s k (.segment (s.offset / s.segsize * s.segsize)
        (min s.segsize (fs - s.offset / s.segsize * s.segsize)) pause)).size = s.offset + s.size ∧
    ∀ e, (segStep s k (.segment (s.offset / s.segsize * s.segsize)
        (min s.segsize (fs - s.offset / s.segsize * s.segsize)) pause)).result ≠ some (some e) := by
  obtain ⟨hov, hlt⟩ := honest_overlap s.segsize s.offset s.size fs hss hsz hfit
  obtain ⟨h1, h2, h3⟩ := accept_step s k pause _ _ _ hov
  rw [h1, h2]
  refine ⟨by omega, by omega, ?_⟩
  intro e he
  have := h3 e he
  simp [hr] at this

example : (segStep { segsize := 64, guess := 1000, offset := 70, size := 100, alive := true, active := some 1 }
    true (.segment 64 64 false)).offset = 128 := by decide


/-- **C03, composed system: a read delivers exactly its range.**  In every history of the composed
system (reads routed through the node, any segment-size guess, any answers) every read keeps
`offset + size = off0 + size0`, and a read whose Deferred fired with success has consumed the whole
range `[off0, off0 + size0)`. -/
theorem composed_read_delivers_exact_range (k numSegs : Nat) (badSegs : List Nat) (filesize segsize guess : Nat)
    (es : List SysEv) :
    ∀ r ∈ (sysRun (sysInit k numSegs badSegs filesize segsize guess) es).reads,
      r.seg.offset + r.seg.size = r.off0 + r.size0 ∧
      (r.seg.result = some none → r.seg.offset = r.off0 + r.size0) := by
  intro r hr
  have h := rangeinv_run es (sysInit k numSegs badSegs filesize segsize guess) (by simp [sysInit]) r hr
  refine ⟨h.1, fun hd => ?_⟩
  have := h.2 hd
  have := h.1
  omega

/-- … and what it hands to its consumer in one step is contiguous, starting exactly at the offset
reached so far and ending at the new offset (so by the theorem above the writes of a successful
read are exactly `[off0, off0 + size0)`, in order, without gap or overlap). -/
theorem composed_step_writes_contiguous (s : Seg) (k : Bool) (e : SEv) (hd : s.result = some none → s.size = 0) :
    contigEnd s.offset (writesOf (segStep { s with out := [] } k e).out) =
      some (segStep { s with out := [] } k e).offset :=
  (rangeinv_seg s k e hd).2.2


/-- **C03, shares announced at any time are kept.**  `DownloadNode.got_shares` adds the shares to
`_shares` unconditionally — whether a SegmentFetcher is running or the node is idle (after a read,
between segments, during a consumer's pause) — and nothing removes them: after `got_shares(l)` in
any state and any further history, every share of `l` is in the node's share set. -/
theorem got_shares_always_recorded (n : Node) (l : List Share) (es : List NEv) (sh : Share) (hsh : sh ∈ l) :
    sh ∈ (nrun (nstep n (.gotShares l)) es).known :=
  known_nrun es _ sh (known_nstep n (.gotShares l) sh (Or.inr ⟨l, rfl, hsh⟩))

/-- … and every fetcher started later begins with all known shares that are still alive
(`_start_new_segment`: `[s for s in self._shares if s.is_alive()]`), so a share that was announced
while no fetcher ran is available to the next segment / the next read. -/
theorem new_fetcher_starts_with_known_live_shares (n : Node) (sh : Share) (seg req : Nat) (rest : List (Nat × Nat))
    (hk : sh ∈ n.known) (hd : n.dead.contains sh = false) (hidle : n.active = none)
    (hreq : n.requests = (seg, req) :: rest) :
    ∃ a, (startNewSegment n).active = some a ∧ a.segnum = seg ∧ sh ∈ a.f.shares := by
  simp only [startNewSegment, hidle, hreq]
  refine ⟨_, rfl, rfl, ?_⟩
  have hnd : sh ∉ n.dead := by simpa using hd
  simp [addShares, init, mem_sortShares, List.mem_filter, hk, hnd]

/-- an idle node is told about a share; the fetcher of a later request starts with it -/
example : (nstep (initNode 2 3 []) (.gotShares [⟨7, 1, 2, 0⟩])).known = [⟨7, 1, 2, 0⟩] ∧
    ((nstep (nstep (initNode 2 3 []) (.gotShares [⟨7, 1, 2, 0⟩])) (.getSegment 1 9)).active.map (·.f.shares))
      = some [⟨7, 1, 2, 0⟩] := by decide


/-! ### ShareFinder (`Tahoe.Finder`, finder.py) -/

/-- **C03 / C46, the finder's half of the contract.**  For every history of a ShareFinder (any order
of `hungry()` calls, queued loop turns, answers with or without shares, failures, overdue timers,
`stop`): whenever it is still running and hungry, has no loop queued and no query in flight — every
server call has returned or failed — it has announced `no_more_shares` since it last became hungry,
and by then it has asked every server.  (So every `want_more_shares` of a fetcher is answered by
`got_shares` — which clears `_hungry` — or by `no_more_shares`: the assumption behind `Fair` /
`NQuiescent`.  Seeded C03-a and C46-a each broke exactly this.) -/
theorem finder_answers_every_hungry (mx : Nat) (servers : List Nat) (hmx : 0 < mx) (es : List Finder.FEv) :
    let s := Finder.run { maxOutstanding := mx, servers := servers } es
    s.running = true → s.hungry = true → s.loops = 0 → s.pending = [] → s.told = true ∧ s.servers = [] := by
  intro s hr hh hl hp
  have hi := Finder.finv_run es _ (Finder.finv_init mx servers hmx)
  have ht := hi.answered hr hh hl hp
  exact ⟨ht, hi.toldAll ht⟩

/-- Every server is asked at most once, in the order of the permuted list: the servers asked so far
followed by the ones not yet asked are the list the finder was given. -/
theorem finder_asks_each_server_once (mx : Nat) (servers : List Nat) (hmx : 0 < mx) (es : List Finder.FEv) :
    Finder.sendsOf (Finder.run { maxOutstanding := mx, servers := servers } es).out ++
      (Finder.run { maxOutstanding := mx, servers := servers } es).servers = servers :=
  (Finder.finv_run es _ (Finder.finv_init mx servers hmx)).sent

/-- three servers, two queries at a time: one answers late (overdue timer), one fails, one has no shares -/
example :
    let s := Finder.run { maxOutstanding := 2, servers := [4, 7, 9] }
      [.hungry, .turn, .turn, .turn, .overdue 0, .turn, .turn, .error 1, .turn, .response 2 [], .turn, .response 0 [], .turn]
    s.hungry = true ∧ s.loops = 0 ∧ s.pending = [] ∧ s.told = true ∧ Finder.sendsOf s.out = [4, 7, 9] := by decide

/-- `max_outstanding_requests = 0` is excluded: the finder then never asks anybody and never says so -/
example : (Finder.run { maxOutstanding := 0, servers := [4] } [.hungry, .turn]).told = false := by decide

/-! ### concrete instances (the hypotheses are satisfiable, the conclusions are the expected ones) -/

private def sh (id shnum server rtt : Nat) : Share := { id := id, shnum := shnum, server := server, rtt := rtt }

/-- 2-of-N; shares 0,1 (share numbers 0,1) on server 0 and share 2 (number 0) and share 3 (number 2)
on server 1; share 1 is corrupt, share 0 is late (OVERDUE first). -/
private def exGood : Nat → Bool := fun i => i != 1

private def exRun : List Ev :=
  [.addShares [sh 0 0 0 0, sh 1 1 0 0], .loop,            -- starts 0; server 0 is full → diversity 2, starts 1
   .share (sh 0 0 0 0) .overdue, .addShares [sh 2 0 1 1, sh 3 2 1 1], .loop,   -- starts 2 (share number 0 again)
   .share (sh 1 1 0 0) .corrupt, .loop, .loop,            -- starts 3
   .noMoreShares, .share (sh 3 2 1 1) .complete, .share (sh 0 0 0 0) .complete, .loop, .loop, .loop]

example : Fair exGood 2 exRun ∧ 2 ≤ (goodShnums exGood (announced exRun)).length := by decide

example : (run (init 2) exRun).verdict = some (.blocks [(2, 3), (0, 0)]) := by decide

/-- the same shares, but 3 are needed: only share numbers 0 and 2 are good -/
private def exRun3 : List Ev :=
  [.addShares [sh 0 0 0 0, sh 1 1 0 0], .loop, .noMoreShares, .share (sh 0 0 0 0) .complete,
   .share (sh 1 1 0 0) .corrupt, .loop, .loop, .loop]

example : Fair exGood 3 exRun3 ∧ (goodShnums exGood (announced exRun3)).length < 3 ∧
    (run (init 3) exRun3).verdict = some (.failed .notEnough) := by decide

example : Fair exGood 1 [.noMoreShares, .loop] ∧ (run (init 1) [.noMoreShares, .loop]).verdict = some (.failed .noShares) := by
  decide

end Tahoe.C03
