import Tahoe.Immutable.FetchLemmasC03
/-! C03 — immutable availability with k good shares (property theorems over the SegmentFetcher
event system `Tahoe.Fetch`; helper lemmas in `Tahoe/Immutable/FetchLemmas*.lean`).

`Fair good k es` (`Tahoe/Immutable/FetchEnv.lean`): `es` is a complete run of a well-behaved
environment — the finder announces each share once and then says `no_more_shares`; every share whose
`get_block` was called sends (optionally OVERDUE and then) exactly one terminal event, COMPLETE iff
the share is good; every queued `loop` runs; at the end nothing is pending.  Any placement (several
shares per server, several servers per share number), any set of bad or late shares, any
interleaving. -/
namespace Tahoe.C03
open Tahoe.Fetch

instance (good : Nat → Bool) (A : List Share) (s : Fetcher) (e : Ev) : Decidable (EvOk good A s e) := by
  cases e <;> unfold EvOk <;> infer_instance

instance decValidFrom (good : Nat → Bool) : ∀ (es : List Ev) (A : List Share) (s : Fetcher),
    Decidable (ValidFrom good A s es)
  | [], _, _ => isTrue trivial
  | e :: es, A, s =>
    have := decValidFrom good es (A ++ announcedOf e) (step s e)
    by unfold ValidFrom; infer_instance

instance (s : Fetcher) : Decidable (Complete s) := by unfold Complete; infer_instance

instance (good : Nat → Bool) (k : Nat) (es : List Ev) : Decidable (Fair good k es) := by
  unfold Fair; infer_instance

/-- **C03, positive half.**  For every fair complete event sequence — any placement, any subset of
bad / late shares, any schedule — if at least `k` distinct share numbers belong to good shares, the
fetcher ends by calling `process_blocks` with blocks for at least `k` distinct share numbers
(exactly the `_blocks` dict), each of them delivered by a good share that was asked. -/
theorem enough_good_shares_succeed (good : Nat → Bool) (k : Nat) (es : List Ev)
    (hfair : Fair good k es) (hk : k ≤ (goodShnums good (announced es)).length) :
    ∃ bl, (run (init k) es).verdict = some (.blocks bl) ∧ k ≤ distinct (bl.map (·.1)) ∧
      ∀ p ∈ bl, ∃ sh ∈ announced es, sh.shnum = p.1 ∧ sh.id = p.2 ∧ good sh.id = true := by
  obtain ⟨hi, hr⟩ := fair_finished hfair
  have hsome := hi.verd.mp hr
  cases hv : (run (init k) es).verdict with
  | none => simp [hv] at hsome
  | some v =>
    cases v with
    | blocks bl =>
      obtain ⟨h1, h2⟩ := hi.succJust bl hv
      refine ⟨bl, rfl, ?_, ?_⟩
      · rw [h1]; exact h2
      · rw [h1]; exact hi.blocksGood
    | failed e =>
      have := (hi.failJust e hv).2.2
      omega

/-- **C03, negative half.**  With fewer than `k` distinct good share numbers the fetcher ends in
`fetch_failed` with `NotEnoughSharesError` or `NoSharesError`, and at no point of the run has it
called `process_blocks`. -/
theorem too_few_fail (good : Nat → Bool) (k : Nat) (es : List Ev)
    (hfair : Fair good k es) (hk : (goodShnums good (announced es)).length < k) :
    (∃ e, (run (init k) es).verdict = some (.failed e) ∧ (e = .notEnough ∨ e = .noShares)) ∧
    ∀ es₁ es₂, es = es₁ ++ es₂ → ∀ bl, (run (init k) es₁).verdict ≠ some (.blocks bl) := by
  have hnever : ∀ es₁ es₂, es = es₁ ++ es₂ → ∀ bl, (run (init k) es₁).verdict ≠ some (.blocks bl) := by
    intro es₁ es₂ hes bl hv
    have hval : ValidFrom good [] (init k) es₁ := by
      have := hfair.1; rw [hes] at this; exact valid_prefix es₁ es₂ _ _ this
    obtain ⟨_, hi⟩ := valid_inv es₁ [] (init k) (struct_init k) (inv_init good k) hval
    simp only [List.nil_append] at hi
    obtain ⟨_, h2⟩ := hi.succJust bl hv
    have h3 : distinct (blockKeys (run (init k) es₁)) ≤ (goodShnums good (announced es₁)).length := by
      unfold goodShnums
      apply distinct_le_of_subset
      intro n hn
      simp only [blockKeys, List.mem_map] at hn
      obtain ⟨p, hp, rfl⟩ := hn
      obtain ⟨sh, hsh, h4, _, h6⟩ := hi.blocksGood p hp
      simp only [List.mem_map, List.mem_filter]
      exact ⟨sh, ⟨hsh, h6⟩, h4⟩
    have h4 : (goodShnums good (announced es₁)).length ≤ (goodShnums good (announced es)).length := by
      apply goodShnums_mono
      intro x hx
      rw [hes, announced_append]
      simp [hx]
    omega
  refine ⟨?_, hnever⟩
  obtain ⟨hi, hr⟩ := fair_finished hfair
  have hsome := hi.verd.mp hr
  cases hv : (run (init k) es).verdict with
  | none => simp [hv] at hsome
  | some v =>
    cases v with
    | blocks bl => exact absurd hv (hnever es [] (by simp) bl)
    | failed e =>
      refine ⟨e, rfl, ?_⟩
      have := (hi.failJust e hv).1
      cases e <;> simp at this ⊢

/-! ### concrete instances (the hypotheses are satisfiable, the conclusions are the expected ones) -/

private def sh (id shnum server rtt : Nat) : Share := { id := id, shnum := shnum, server := server, rtt := rtt }

/-- 2-of-N; shares 0,1 (share numbers 0,1) on server 0 and share 2 (number 0) and share 3 (number 2)
on server 1; share 1 is corrupt, share 0 is late (OVERDUE first). -/
private def exGood : Nat → Bool := fun i => i != 1

private def exRun : List Ev :=
  [.addShares [sh 0 0 0 0, sh 1 1 0 0], .loop,            -- starts 0; server 0 is full → diversity 2, starts 1
   .share (sh 0 0 0 0) .overdue, .addShares [sh 2 0 1 1, sh 3 2 1 1], .loop,   -- starts 2 (share number 0 again)
   .share (sh 1 1 0 0) .corrupt, .loop, .loop,            -- starts 3
   .noMoreShares, .share (sh 3 2 1 1) .complete, .share (sh 0 0 0 0) .complete, .loop, .loop, .loop]

example : Fair exGood 2 exRun ∧ 2 ≤ (goodShnums exGood (announced exRun)).length := by decide

example : (run (init 2) exRun).verdict = some (.blocks [(2, 3), (0, 0)]) := by decide

/-- the same shares, but 3 are needed: only share numbers 0 and 2 are good -/
private def exRun3 : List Ev :=
  [.addShares [sh 0 0 0 0, sh 1 1 0 0], .loop, .noMoreShares, .share (sh 0 0 0 0) .complete,
   .share (sh 1 1 0 0) .corrupt, .loop, .loop, .loop]

example : Fair exGood 3 exRun3 ∧ (goodShnums exGood (announced exRun3)).length < 3 ∧
    (run (init 3) exRun3).verdict = some (.failed .notEnough) := by decide

example : Fair exGood 1 [.noMoreShares, .loop] ∧ (run (init 1) [.noMoreShares, .loop]).verdict = some (.failed .noShares) := by
  decide

end Tahoe.C03
