import Tahoe.Codec.Lemmas
import Tahoe.Codec.Instances
import Tahoe.Codec.LemmasCall
import Tahoe.Codec.LemmasRS
import Tahoe.Codec.LemmasRSBlocks
import Tahoe.Codec.LemmasLagrange
/-! C36 — erasure coding recovers from any k blocks (property theorems).

## Coverage of the statement

Statement (properties.jsonl): "For every encoding with k <= N <= 256, any k distinct blocks produced
for a segment (including a padded tail segment) decode back to that segment."

| clause | where it is proved for the model |
|---|---|
| for every encoding with k ≤ N ≤ 256 (the codec objects accept exactly these parameters, no size bound on the segment) | `immutable_any_k_blocks_decode`, `mutable_any_k_blocks_decode` (all setups and `encode` succeed for every 0 < k ≤ n ≤ 256, every size); what the code does outside (k = 0, k > N, N > 256, segment size not a multiple of k): exception classes — correspondence only |
| blocks *produced for a segment*: n blocks, each ⌈len/k⌉ bytes, from k zero-padded pieces | `pieces_are_padded_segment`, `gather_eq_chop`, the `blocks.length = n ∧ Uniform …` conjuncts of the two path theorems |
| *any* k of them, *distinct*, in any order, with surplus | `any_k_blocks_decode` (≥ k supplied, any order), `arrival_order_irrelevant`; immutable path: exactly k (`CRSDecoder.decode` refuses more — correspondence shows the AssertionError); mutable path: ≥ k, first k kept |
| the caller hands the codec a consistent (id, block) pairing and the right decoder (k, N, padded size) for every arrival order / superset | `decode_paths_factor_through_selection`, `immutable_hands_paired_blocks`, `mutable_hands_paired_prefix`, `immutable_decoder_matches_encoder`, `mutable_decoder_matches_encoder`; tied to the real calls by recording the arguments of `CRSDecoder.decode` (harness `call=` field) |
| including a padded tail segment (own padded size / codec parameters, trim to the real size) | the tail branches of the two path theorems; `tail_padding_sizes`, `full_segment_sizes` |
| decode back to *that segment* (exact bytes, padding removed) | conclusions `… = .ok data` / `= seg` of the three main theorems |
| the erasure code itself recovers (zfec, outside /repo) | **proved for the transcription `rs256` of zfec's code, every 1 ≤ k ≤ N ≤ 256, blocks of bytes of any length, any k distinct blocks in any order: `rs256_mds`** (= the former assumption `RS256_MDS`, now a theorem; `zfec_code_any_k_blocks_decode`, `immutable_any_k_blocks_decode_rs256`, `mutable_any_k_blocks_decode_rs256` have no code hypothesis). Chain: field laws of the model's GF(2^8) for all bytes (`gf256_field_laws`, structural) → Mathlib `Field` instance → uniqueness of Lagrange interpolation (`Mathlib.LinearAlgebra.Lagrange`) gives the byte-level identity `rs256_scalar_identity` → lifted to blocks by bilinearity (`rs256_mds_of_scalar_identity`). `rs256_generator_is_vandermonde_systematic` proves that the model's encoding matrix E is the one fec.c *specifies*: E·V_top = V for the Vandermonde matrix V of the points 0, 2^0, 2^1, … (so E = V·V_top⁻¹) and the top k×k block of E is the identity. What is still *not* proved: that zfec's C routines (`_invert_vdm`, `_matmul`, its GF tables, its decoder's `_invert_mat`) compute that specification — that tie is correspondence only — byte-exact comparison of every produced/decoded block for k, N up to 256 and of the encoding/decoding matrices themselves (all subsets N ≤ 5, seeded to N = 40). Independent kernel checks kept: `rs256_generator_small`, `rs256_mds_small_blocks`; toy codes: `mds_instances` |
| Deferred / thread-pool delivery of the result; AES of the mutable path | not covered (outside the model; exercised by the harness) |
-/
namespace Tahoe.C36
open Tahoe.Codec

/-- **Bare pipeline.** Chop a segment of any length into `k` zero-padded pieces of `⌈len/k⌉` bytes,
encode; then from *any* supply of at least `k` genuinely produced blocks with distinct ids, in any
order, the decoder (first `k` pairs, join, trim to the segment length) returns the segment —
given the MDS assumption on the code. -/
theorem any_k_blocks_decode (c : Code) (k n : Nat) (hk : 0 < k) (hmds : MDS c k n)
    (seg : Block) (supplied : List (Nat × Block))
    (hlen : k ≤ supplied.length) (hnd : (supplied.map (·.1)).Nodup)
    (hgen : ∀ p ∈ supplied, (encodeSegment c k seg)[p.1]? = some p.2) :
    decodeSegment c k seg.length supplied = seg := by
  unfold decodeSegment
  rw [recover_take hmds (divCeil seg.length k) (chop k (divCeil seg.length k) seg)
        (length_chop _ _ _) (uniform_chop _ _ _) supplied hlen hnd hgen]
  rw [join_chop k _ seg (by rw [Nat.mul_comm]; exact le_divCeil_mul _ _ hk)]
  exact take_padTo _ _

/-- non-vacuity: the hypotheses are met by proved codes — 2-of-3 XOR parity on a 5-byte segment
(padded to 6), supplied out of order with one block more than needed; 1-of-4 replication; 3-of-3 -/
example : decodeSegment (xorParity 2) 2 5 [(2, [5, 7, 3]), (0, [1, 2, 3]), (1, [4, 5, 0])] = [1, 2, 3, 4, 5] :=
  any_k_blocks_decode (xorParity 2) 2 3 (by decide) xorParity2_mds [1, 2, 3, 4, 5] _ (by decide) (by decide)
    (by decide)
example : decodeSegment (replication 4) 1 2 [(3, [7, 9])] = [7, 9] :=
  any_k_blocks_decode (replication 4) 1 4 (by decide) (replication_mds 4) [7, 9] _ (by decide) (by decide) (by decide)
example : decodeSegment (identityCode 3) 3 4 [(2, [0, 0]), (0, [1, 2]), (1, [3, 4])] = [1, 2, 3, 4] :=
  any_k_blocks_decode (identityCode 3) 3 3 (by decide) (identity_mds 3) [1, 2, 3, 4] _ (by decide) (by decide)
    (by decide)

/-- **Immutable path** (`Encoder._encode_segment` → `DownloadNode._decode_blocks`), full and tail
segments: every call succeeds and any `k` produced blocks give back exactly the bytes read. -/
theorem immutable_any_k_blocks_decode (fec : Nat → Nat → Code) (fileSize k n segSize segnum : Nat)
    (data : Block) (hk : 0 < k) (hkn : k ≤ n) (hn : n ≤ 256) (hs : 0 < segSize)
    (hdiv : segSize % k = 0) (hmds : MDS (fec k n) k n)
    (hdata : data.length =
      if segnum + 1 = divCeil fileSize segSize then tailSizeOf fileSize segSize else segSize) :
    ∃ e z blocks,
      immEncoderSetup fileSize k n segSize = .ok e ∧
      calculateSizes fileSize k segSize = .ok z ∧
      immEncodeSegment fec e (segnum + 1 == e.numSegments) data = .ok (blocks, List.range n) ∧
      blocks.length = n ∧ Uniform (divCeil data.length k) blocks ∧
      ∀ sel : List (Nat × Block), sel.length = k → (sel.map (·.1)).Nodup →
        (∀ p ∈ sel, blocks[p.1]? = some p.2) →
        immDecodeBlocks fec k n segSize z segnum sel = .ok data := by
  have hk0 : k ≠ 0 := by omega
  have hs0 : segSize ≠ 0 := by omega
  have hle : data.length ≤ k * divCeil data.length k := by rw [Nat.mul_comm]; exact le_divCeil_mul _ _ hk
  have hlen_pos : 0 < data.length := by
    rw [hdata]; split
    · exact tailSizeOf_pos hs
    · exact hs
  have hps_pos : 0 < divCeil data.length k := divCeil_pos hlen_pos hk
  generalize hps : divCeil data.length k = ps at *
  obtain ⟨P, hPdef⟩ : ∃ P, P = padTo (k * ps) data := ⟨_, rfl⟩
  have hP : P.length = k * ps := by rw [hPdef]; exact length_padTo _ _ hle
  have hE : immEncoderSetup fileSize k n segSize = .ok
      { k := k, n := n, fileSize := fileSize, segSize := segSize, numSegments := divCeil fileSize segSize,
        codec := { dataSize := segSize, k := k, n := n, shareSize := divCeil segSize k,
                   lastSharePadding := padSize (divCeil segSize k) k },
        tailCodec := { dataSize := nextMultiple (tailSizeOf fileSize segSize) k, k := k, n := n,
                       shareSize := divCeil (nextMultiple (tailSizeOf fileSize segSize) k) k,
                       lastSharePadding := padSize (divCeil (nextMultiple (tailSizeOf fileSize segSize) k) k) k } } := by
    simp [immEncoderSetup, hk0, hs0, hdiv, encSetParams_ok _ hk hkn hn]
  have hZ : calculateSizes fileSize k segSize = .ok
      { tailSegmentSize := tailSizeOf fileSize segSize,
        tailSegmentPadded := nextMultiple (tailSizeOf fileSize segSize) k,
        numSegments := divCeil fileSize segSize, blockSize := segSize / k,
        tailBlockSize := nextMultiple (tailSizeOf fileSize segSize) k / k } := by
    simp [calculateSizes, hk0, hs0, hdiv]
  have hchopU : Uniform ps (chop k ps P) := uniform_chop _ _ _
  have hany : ((chop k ps P).any fun c => c.length != ps) = false := by
    simp only [List.any_eq_false, bne_iff_ne, ne_eq, Decidable.not_not]; exact hchopU
  have hencU := hmds.enc_uniform ps (chop k ps P) (length_chop _ _ _) hchopU
  refine ⟨_, _, (fec k n).enc (chop k ps P), hE, hZ, ?_,
    hmds.enc_length ps _ (length_chop _ _ _) hchopU, hencU, ?_⟩
  · -- encoding succeeds
    by_cases htail : segnum + 1 = divCeil fileSize segSize
    · have ht : data.length = tailSizeOf fileSize segSize := by rw [hdata, if_pos htail]
      have hss : divCeil (nextMultiple (tailSizeOf fileSize segSize) k) k = ps := by
        rw [divCeil_nextMultiple _ _ hk, ← ht, hps]
      simp only [immEncodeSegment, htail, beq_self_eq_true, if_true, EncParams.blockSize, hss]
      rw [gatherData_ok k ps true data hps_pos hle (Or.inl rfl)]
      simp only [← hPdef, hany, Bool.false_eq_true, if_false]
      exact encEncode_ok fec _ _ (length_chop _ _ _) hchopU
    · have ht : data.length = segSize := by rw [hdata, if_neg htail]
      have hss : divCeil segSize k = ps := by rw [← ht, hps]
      have hfull : data.length = k * ps := by
        have := nextMultiple_of_dvd hdiv
        rw [nextMultiple, hss, Nat.mul_comm] at this; omega
      have hb : (segnum + 1 == divCeil fileSize segSize) = false := by simpa using htail
      simp only [immEncodeSegment, hb, Bool.false_eq_true, if_false, EncParams.blockSize, hss]
      rw [gatherData_ok k ps false data hps_pos hle (Or.inr hfull)]
      simp only [← hPdef, hany, Bool.false_eq_true, if_false]
      exact encEncode_ok fec _ _ (length_chop _ _ _) hchopU
  · intro sel hsel hnd hgen
    have hdec := hmds.recover ps (chop k ps P) (length_chop _ _ _) hchopU sel hsel hnd hgen
    have hselU : (sel.any fun b => b.2.length != ps) = false := by
      simp only [List.any_eq_false, bne_iff_ne, ne_eq, Decidable.not_not]
      intro p hp; exact hencU _ (List.mem_of_getElem? (hgen p hp))
    have hjoin : join (chop k ps P) = P := join_chop_full k ps P hP
    by_cases htail : segnum + 1 = divCeil fileSize segSize
    · have ht : data.length = tailSizeOf fileSize segSize := by rw [hdata, if_pos htail]
      have hnm : nextMultiple (tailSizeOf fileSize segSize) k = k * ps := by
        rw [nextMultiple, ← ht, hps, Nat.mul_comm]
      have hbs : k * ps / k = ps := Nat.mul_div_cancel_left ps hk
      simp only [immDecodeBlocks, htail, beq_self_eq_true, if_true, hnm, hbs,
        decSetParams_ok _ hk hkn hn, hselU, Bool.false_eq_true, if_false]
      rw [decDecode_ok fec _ _ _ (by simp) (by simp [hsel])]
      simp only [hdec, hjoin, hP, bne_self_eq_false, Bool.false_eq_true, if_false]
      rw [← ht, hPdef, take_padTo]
    · have ht : data.length = segSize := by rw [hdata, if_neg htail]
      have hss : divCeil segSize k = ps := by rw [← ht, hps]
      have hfull : segSize = k * ps := by
        have := nextMultiple_of_dvd hdiv
        rw [nextMultiple, hss, Nat.mul_comm] at this; omega
      have hbs : k * ps / k = ps := Nat.mul_div_cancel_left ps hk
      have hb : (segnum + 1 == divCeil fileSize segSize) = false := by simpa using htail
      simp only [immDecodeBlocks, hb, Bool.false_eq_true, if_false]
      simp only [hfull, hbs, decSetParams_ok _ hk hkn hn, hselU, Bool.false_eq_true, if_false]
      rw [decDecode_ok fec _ _ _ (by simp) (by simp [hsel])]
      simp only [hdec, hjoin, hP, bne_self_eq_false, Bool.false_eq_true, if_false]
      rw [hPdef, padTo_of_le _ _ (by omega)]

/-- **Mutable path** (`Publish._encode_segment` → `Retrieve._decode_blocks`), full and tail
segments: both setups and the encoding succeed, and from any supply of **at least** `k` produced
blocks with distinct ids (the retriever keeps the first `k`) the crypttext segment comes back. -/
theorem mutable_any_k_blocks_decode (fec : Nat → Nat → Code) (seg0 datalength k n segnum : Nat)
    (crypttext : Block) (hk : 0 < k) (hkn : k ≤ n) (hn : n ≤ 256) (hmds : MDS (fec k n) k n) :
    ∃ e d, mutPublishSetup seg0 datalength k n = .ok e ∧
      mutRetrieveSetup e.segSize datalength k n = .ok d ∧
      (crypttext.length = (if segnum + 1 = e.numSegments then e.tailSegSize else e.segSize) →
       ∃ blocks, mutEncodeSegment fec e segnum crypttext = .ok (blocks, List.range n) ∧
         blocks.length = n ∧ Uniform (divCeil crypttext.length k) blocks ∧
         ∀ sel : List (Nat × Block), k ≤ sel.length → (sel.map (·.1)).Nodup →
           (∀ p ∈ sel, blocks[p.1]? = some p.2) →
           mutDecodeBlocks fec d segnum sel = .ok crypttext) := by
  obtain ⟨e, he⟩ := mutPublishSetup_ok seg0 datalength hk hkn hn
  obtain ⟨d, hd⟩ := mutRetrieveSetup_ok e.segSize datalength hk hkn hn
  refine ⟨e, d, he, hd, ?_⟩
  intro hlen
  obtain ⟨ek, -, enum, etail, fk, fn, fss, tk, tn, tss⟩ := mutPublishSetup_spec he
  obtain ⟨dk, dseg, dnum, dtail, sk, sn, tdk, tdn⟩ := mutRetrieveSetup_spec hd
  have hnum : d.numSegments = e.numSegments := by
    rw [dnum, enum]
    by_cases h1 : e.segSize = 0 <;> by_cases h2 : datalength = 0 <;> simp [h1, h2, divCeil]
  generalize hps : divCeil crypttext.length k = ps
  have hle : crypttext.length ≤ k * ps := by
    rw [← hps, Nat.mul_comm]; exact le_divCeil_mul _ _ hk
  have hchopU : Uniform ps (chop k ps crypttext) := uniform_chop _ _ _
  have hencU := hmds.enc_uniform ps _ (length_chop _ _ _) hchopU
  refine ⟨(fec k n).enc (chop k ps crypttext), ?_,
    hmds.enc_length ps _ (length_chop _ _ _) hchopU, hencU, ?_⟩
  · -- encoding succeeds
    by_cases hlast : segnum + 1 = e.numSegments
    · rw [if_pos hlast] at hlen
      have hss : e.tailFec.shareSize = ps := by rw [tss, ← hlen, hps]
      have hne : (crypttext.length != e.tailSegSize) = false := by simp [hlen]
      simp only [mutEncodeSegment, hlast, beq_self_eq_true, if_true, hne, Bool.false_eq_true,
        if_false, EncParams.blockSize, hss, ek]
      rw [encEncode_ok fec e.tailFec _ (by rw [length_chop, tk]) (by rw [hss]; exact hchopU), tk, tn]
    · rw [if_neg hlast] at hlen
      have hb : (segnum + 1 == e.numSegments) = false := by simpa using hlast
      have hss : e.fec.shareSize = ps := by rw [fss, ← hlen, hps]
      have hne : (crypttext.length != e.segSize) = false := by simp [hlen]
      simp only [mutEncodeSegment, hb, Bool.false_eq_true, if_false, hne, EncParams.blockSize, hss, ek]
      rw [encEncode_ok fec e.fec _ (by rw [length_chop, fk]) (by rw [hss]; exact hchopU), fk, fn]
  · intro sel hsel hnd hgen
    have hdec := recover_take hmds ps _ (length_chop _ _ _) hchopU sel hsel hnd hgen
    have hjoin := join_chop k ps crypttext hle
    have hlt : ¬ (sel.map (·.1)).length < k := by simp; omega
    have htk1 : ((sel.map (·.2)).take k).length = k := by simp; omega
    have htk2 : ((sel.map (·.1)).take k).length = k := by simp; omega
    by_cases hlast : segnum + 1 = e.numSegments
    · rw [if_pos hlast] at hlen
      have hb : (segnum + 1 == d.numSegments) = true := by simp [hnum, hlast]
      simp only [mutDecodeBlocks, hb, if_true, dk, hlt, if_false]
      rw [decDecode_ok fec d.tailDecoder _ _ (by rw [htk1, htk2]) (by rw [htk1, tdk]), tdk, tdn, hdec]
      simp only [hjoin, dtail, ← etail, ← hlen]
      rw [take_padTo]
    · rw [if_neg hlast] at hlen
      have hb : (segnum + 1 == d.numSegments) = false := by simp [hnum, hlast]
      simp only [mutDecodeBlocks, hb, Bool.false_eq_true, dk, hlt, if_false]
      rw [decDecode_ok fec d.segDecoder _ _ (by rw [htk1, htk2]) (by rw [htk1, sk]), sk, sn, hdec]
      simp only [hjoin, dseg, ← hlen]
      rw [take_padTo]

/-! ### the caller contract: which (ids, blocks) pairing and which decoder the callers hand over -/

/-- Both `_decode_blocks` methods are exactly: caller-side selection (`immCodecCall` /
`mutCodecCall`), then `CRSDecoder.decode` on what was selected, then join / length check / trim.
Nothing else of the supplied dict reaches the codec. -/
theorem decode_paths_factor_through_selection (fec : Nat → Nat → Code) :
    (∀ k n segSize sz segnum blocks,
      immDecodeBlocks fec k n segSize sz segnum blocks =
        match immCodecCall k n segSize sz segnum blocks with
        | .error e => .error e
        | .ok (codec, shares, ids) =>
          match decDecode fec codec shares ids with
          | .error e => .error e
          | .ok buffers =>
            let tail := segnum + 1 == sz.numSegments
            if (join buffers).length != (if tail then sz.tailSegmentPadded else segSize) then
              .error "AssertionError"
            else .ok (if tail then (join buffers).take sz.tailSegmentSize else join buffers)) ∧
    (∀ d segnum blocks,
      mutDecodeBlocks fec d segnum blocks =
        match mutCodecCall d segnum blocks with
        | .error e => .error e
        | .ok (codec, shares, ids) =>
          match decDecode fec codec shares ids with
          | .error e => .error e
          | .ok buffers =>
            .ok ((join buffers).take (if segnum + 1 == d.numSegments then d.tailDataSize else d.segSize))) :=
  ⟨immDecodeBlocks_factors fec, mutDecodeBlocks_factors fec⟩

/-- **Immutable selection is a consistent pairing**, for every arrival order of the dict: the id
list and the block list handed to the codec are the two projections of the supplied `(id, block)`
items (position `i` of one labels position `i` of the other), and the decoder is the one for this
node's own `(size, k, N)` — the tail segment gets `tail_segment_padded`, never another file's `N`. -/
theorem immutable_hands_paired_blocks {k n segSize : Nat} {sz : ImmSizes} {segnum : Nat}
    {blocks : List (Nat × Block)} {p : DecParams} {shares : List Block} {ids : List Nat}
    (h : immCodecCall k n segSize sz segnum blocks = .ok (p, shares, ids)) :
    ids.zip shares = blocks ∧ ids.length = shares.length ∧ p.k = k ∧ p.n = n ∧
    p.dataSize = (if segnum + 1 == sz.numSegments then sz.tailSegmentPadded else segSize) ∧
    p.shareSize = divCeil p.dataSize k := by
  obtain ⟨hs, hi, hp⟩ := immCodecCall_inv h
  subst hs; subst hi; subst hp
  exact ⟨zip_map_fst_snd blocks, by simp, rfl, rfl, rfl, rfl⟩

example : immCodecCall 2 3 4 ⟨3, 4, 2, 2, 2⟩ 1 [(2, [9, 9]), (0, [1, 2])] =
    .ok (⟨4, 2, 3, 2, 2, 2⟩, [[9, 9], [1, 2]], [2, 0]) := by decide

/-- **Mutable selection is a consistent pairing of a prefix**, for every arrival order and every
superset: ids and blocks are cut by the same slice, so what reaches the codec is the first `k`
supplied `(id, block)` items, still paired; the surplus is dropped from both lists alike. -/
theorem mutable_hands_paired_prefix {d : MutDecoder} {segnum : Nat} {blocks : List (Nat × Block)}
    {p : DecParams} {shares : List Block} {ids : List Nat}
    (h : mutCodecCall d segnum blocks = .ok (p, shares, ids)) :
    ids.zip shares = blocks.take d.k ∧ ids.length = d.k ∧ shares.length = d.k ∧
    (ids.zip shares).Sublist blocks ∧
    p = (if segnum + 1 == d.numSegments then d.tailDecoder else d.segDecoder) := by
  obtain ⟨hle, hs, hi, hp⟩ := mutCodecCall_inv h
  subst hs; subst hi
  have hz : ((blocks.map (·.1)).take d.k).zip ((blocks.map (·.2)).take d.k) = blocks.take d.k := by
    rw [← List.map_take, ← List.map_take]; exact zip_map_fst_snd _
  refine ⟨hz, by simp; omega, by simp; omega, ?_, hp⟩
  rw [hz]; exact List.take_sublist _ _

example : mutCodecCall ⟨2, 3, 4, 1, 3, 4, ⟨4, 2, 3, 2, 2, 2⟩, ⟨4, 2, 3, 2, 2, 2⟩⟩ 0
      [(2, [9, 9]), (0, [1, 2]), (1, [3, 4])] =
    .ok (⟨4, 2, 3, 2, 2, 2⟩, [[9, 9], [1, 2]], [2, 0]) := by decide

/-- **Immutable: the decoder used for a segment has the parameters of the encoder that produced
it** (same `k`, same `N`, same padded data size, same block size) — full and tail segments. -/
theorem immutable_decoder_matches_encoder (fileSize k n segSize segnum : Nat)
    (hk : 0 < k) (hkn : k ≤ n) (hn : n ≤ 256) (hs : 0 < segSize) (hdiv : segSize % k = 0)
    {e : ImmEncoder} {z : ImmSizes} {blocks : List (Nat × Block)} {p : DecParams}
    {shares : List Block} {ids : List Nat}
    (he : immEncoderSetup fileSize k n segSize = .ok e) (hz : calculateSizes fileSize k segSize = .ok z)
    (hc : immCodecCall k n segSize z segnum blocks = .ok (p, shares, ids)) :
    p.k = (if segnum + 1 == e.numSegments then e.tailCodec else e.codec).k ∧
    p.n = (if segnum + 1 == e.numSegments then e.tailCodec else e.codec).n ∧
    p.dataSize = (if segnum + 1 == e.numSegments then e.tailCodec else e.codec).dataSize ∧
    p.shareSize = (if segnum + 1 == e.numSegments then e.tailCodec else e.codec).shareSize := by
  rw [immEncoderSetup_ok fileSize hk hkn hn hs hdiv] at he
  rw [calculateSizes_ok fileSize hk hs hdiv] at hz
  cases he; cases hz
  obtain ⟨-, -, hp⟩ := immCodecCall_inv hc
  subst hp
  by_cases ht : (segnum + 1 == divCeil fileSize segSize) = true
  · simp [ht]
  · simp [ht]

/-- **Mutable: decoder and encoder of a segment agree** on `k`, `N` and the block size, although the
publisher builds its tail encoder on the unpadded tail size and the retriever on the padded one. -/
theorem mutable_decoder_matches_encoder (seg0 datalength k n segnum : Nat) (hk : 0 < k)
    {e : MutEncoder} {d : MutDecoder} {blocks : List (Nat × Block)} {p : DecParams}
    {shares : List Block} {ids : List Nat}
    (he : mutPublishSetup seg0 datalength k n = .ok e)
    (hd : mutRetrieveSetup e.segSize datalength k n = .ok d)
    (hc : mutCodecCall d segnum blocks = .ok (p, shares, ids)) :
    p.k = (if segnum + 1 == e.numSegments then e.tailFec else e.fec).k ∧
    p.n = (if segnum + 1 == e.numSegments then e.tailFec else e.fec).n ∧
    p.shareSize = (if segnum + 1 == e.numSegments then e.tailFec else e.fec).shareSize := by
  obtain ⟨-, -, enum, etail, fk, fn, fss, tk, tn, tss⟩ := mutPublishSetup_spec he
  obtain ⟨-, -, dnum, -, sk, sn, tdk, tdn⟩ := mutRetrieveSetup_spec hd
  obtain ⟨ds, dt⟩ := mutRetrieveSetup_sizes hk hd
  obtain ⟨-, -, -, hp⟩ := mutCodecCall_inv hc
  have hnum : d.numSegments = e.numSegments := by
    rw [dnum, enum]
    by_cases h1 : e.segSize = 0 <;> by_cases h2 : datalength = 0 <;> simp [h1, h2, divCeil]
  subst hp
  rw [hnum]
  by_cases hl : (segnum + 1 == e.numSegments) = true
  · simp only [hl, if_true]; exact ⟨by rw [tdk, tk], by rw [tdn, tn], by rw [dt, tss, etail]⟩
  · simp only [hl, Bool.false_eq_true, if_false]; exact ⟨by rw [sk, fk], by rw [sn, fn], by rw [ds, fss]⟩

/-- **Arrival order and surplus are irrelevant**: any two supplies (different orders, different
supersets, different `k`-subsets) of genuine blocks with distinct ids decode to the same bytes. -/
theorem arrival_order_irrelevant (c : Code) (k n : Nat) (hk : 0 < k) (hmds : MDS c k n) (seg : Block)
    (s1 s2 : List (Nat × Block)) (h1 : k ≤ s1.length) (h2 : k ≤ s2.length)
    (n1 : (s1.map (·.1)).Nodup) (n2 : (s2.map (·.1)).Nodup)
    (g1 : ∀ p ∈ s1, (encodeSegment c k seg)[p.1]? = some p.2)
    (g2 : ∀ p ∈ s2, (encodeSegment c k seg)[p.1]? = some p.2) :
    decodeSegment c k seg.length s1 = decodeSegment c k seg.length s2 := by
  rw [any_k_blocks_decode c k n hk hmds seg s1 h1 n1 g1, any_k_blocks_decode c k n hk hmds seg s2 h2 n2 g2]

example : decodeSegment (xorParity 2) 2 5 [(2, [5, 7, 3]), (0, [1, 2, 3]), (1, [4, 5, 0])] =
    decodeSegment (xorParity 2) 2 5 [(1, [4, 5, 0]), (2, [5, 7, 3])] :=
  arrival_order_irrelevant (xorParity 2) 2 3 (by decide) xorParity2_mds [1, 2, 3, 4, 5] _ _
    (by decide) (by decide) (by decide) (by decide) (by decide) (by decide)

/-! ### sizes -/

/-- padded tail size: a multiple of `k`, at least the tail, less than `k` more; and the three
block-size formulas in the code agree on it (`CRSEncoder`: `div_ceil(padded, k)`, downloader:
`padded // k`, mutable publish: `div_ceil(tail, k)`) -/
theorem tail_padding_sizes (t k : Nat) (hk : 0 < k) :
    nextMultiple t k % k = 0 ∧ t ≤ nextMultiple t k ∧ nextMultiple t k < t + k ∧
    divCeil (nextMultiple t k) k = divCeil t k ∧ nextMultiple t k / k = divCeil t k ∧
    k * divCeil t k = nextMultiple t k :=
  ⟨nextMultiple_mod t k, le_divCeil_mul t k hk, divCeil_mul_lt t k hk, divCeil_nextMultiple t k hk,
   nextMultiple_div t k hk, Nat.mul_comm _ _⟩

example : nextMultiple 10 3 = 12 ∧ divCeil 10 3 = 4 ∧ padSize 10 3 = 2 := by decide

/-- for a full segment (`segment_size % k == 0`, asserted by the uploader) the encoder's block size
`div_ceil` equals the downloader's `segment_size // k`, and no padding is added -/
theorem full_segment_sizes (s k : Nat) (hdiv : s % k = 0) :
    divCeil s k = s / k ∧ nextMultiple s k = s ∧ padSize s k = 0 :=
  ⟨divCeil_eq_of_dvd hdiv, nextMultiple_of_dvd hdiv, by simp [padSize, hdiv]⟩

example : divCeil 12 3 = 12 / 3 := (full_segment_sizes 12 3 (by decide)).1

/-- the `k` input pieces: exactly `k` of them, each `⌈len/k⌉` bytes, and joined they are the
segment followed by zero bytes only; trimming to the segment length removes exactly the padding -/
theorem pieces_are_padded_segment (k : Nat) (hk : 0 < k) (seg : Block) :
    (chop k (divCeil seg.length k) seg).length = k ∧
    Uniform (divCeil seg.length k) (chop k (divCeil seg.length k) seg) ∧
    join (chop k (divCeil seg.length k) seg)
      = seg ++ List.replicate (k * divCeil seg.length k - seg.length) 0 ∧
    (join (chop k (divCeil seg.length k) seg)).take seg.length = seg := by
  have h := join_chop k _ seg (by rw [Nat.mul_comm]; exact le_divCeil_mul _ _ hk)
  refine ⟨length_chop _ _ _, uniform_chop _ _ _, h, ?_⟩
  rw [h]; exact take_padTo _ _

example : chop 3 2 [1, 2, 3, 4] = [[1, 2], [3, 4], [0, 0]] := by decide

/-- the immutable `_gather_data` (pad the read to `k * ps`, then slice) and the mutable
`_encode_segment` (slice, pad each piece) produce the same pieces from a full-length read -/
theorem gather_eq_chop (k ps : Nat) (hps : 0 < ps) (P : Block) (hP : P.length = k * ps) :
    gatherData k ps false P = .ok (chop k ps P) := by
  rw [gatherData_ok k ps false P hps (by omega) (Or.inr hP), padTo_of_le _ _ (by omega)]

example : gatherData 2 2 true [9, 8, 7] = .ok [[9, 8], [7, 0]] := by decide

/-! ### the concrete codes -/

/-- zfec's code (as transcribed in `rs256`) is MDS for every `1 ≤ k ≤ n ≤ 256`. Formerly the named
assumption of C01/C36; now proved below as `rs256_mds`. (That `rs256` is what zfec's C code computes
remains tied by byte-exact correspondence only.) -/
def RS256_MDS : Prop := ∀ k n : Nat, 1 ≤ k → k ≤ n → n ≤ 256 → MDS (rs256 k n) k n

/-- C36 for the Reed–Solomon code the repo actually uses, under the named assumption. -/
theorem rs256_any_k_blocks_decode (h : RS256_MDS) (k n : Nat) (hk : 1 ≤ k) (hkn : k ≤ n) (hn : n ≤ 256)
    (seg : Block) (supplied : List (Nat × Block)) (hlen : k ≤ supplied.length)
    (hnd : (supplied.map (·.1)).Nodup)
    (hgen : ∀ p ∈ supplied, (encodeSegment (rs256 k n) k seg)[p.1]? = some p.2) :
    decodeSegment (rs256 k n) k seg.length supplied = seg :=
  any_k_blocks_decode (rs256 k n) k n hk (h k n hk hkn hn) seg supplied hlen hnd hgen

set_option maxRecDepth 100000 in
/-- the transcription reproduces zfec's bytes: `zfec.Encoder(3,5).encode([b'a',b'b',b'c'])` is
`[b'a', b'b', b'c', b'u', b'\t']`; and a 4-of-5 supply in scrambled order decodes -/
example : encodeSegment (rs256 3 5) 3 [0x61, 0x62, 0x63] = [[0x61], [0x62], [0x63], [0x75], [0x09]] ∧
    decodeSegment (rs256 3 5) 3 3 [(4, [0x09]), (0, [0x61]), (3, [0x75]), (1, [0x62])] = [0x61, 0x62, 0x63] := by
  decide

/-- **Coefficient-level fragment of `RS256_MDS`, kernel-checked on the transcription of zfec's
matrices.** For every N ≤ 5 and every non-empty set of share numbers below N (k = its size): the
decoding matrix times the selected rows of the systematic encoding matrix is the identity — i.e.
every k×k submatrix of the generator is invertible, the content of the MDS law at the level of
coefficients. Also: the 256 evaluation points are pairwise distinct, and every non-zero field
element is inverted by `gfInv`.
Full statement still assumed (`RS256_MDS`): the same for all N ≤ 256 *and* lifted from coefficients
to blocks of bytes; missing are distributivity/associativity of `gfMul` over XOR for all bytes
(2^24 cases by brute force — a structural proof over the bit decomposition is needed) and the
Lagrange/Vandermonde argument replacing enumeration. -/
theorem rs256_generator_small :
    (∀ n, 1 ≤ n → n ≤ 5 → ∀ mask, mask < 2 ^ n → submatrixInverts n mask = true) ∧
    (rsPoints 256).Nodup ∧
    (∀ a, 0 < a → a < 256 → gfMul (UInt8.ofNat a) (gfInv (UInt8.ofNat a)) = 1) := by
  refine ⟨?_, rsPoints_nodup, ?_⟩
  · intro n h1 h5 mask hm
    match n, h1, h5 with
    | 1, _, _ => exact submatrixInverts_1 mask hm
    | 2, _, _ => exact submatrixInverts_2 mask hm
    | 3, _, _ => exact submatrixInverts_3 mask hm
    | 4, _, _ => exact submatrixInverts_4 mask hm
    | 5, _, _ => exact submatrixInverts_5 mask hm
  · intro a h0 ha
    rcases (gf256_units a ha).2.2.2.2 with h | h
    · omega
    · exact h

/-- what the statement says on one instance: shares {1, 3, 4} of a 3-of-5 encoding -/
example : idsOfMask 5 0b11010 = [1, 3, 4] ∧
    matMul (decMatrix 3 [1, 3, 4]) (selectRows (encMatrix 3 5) [1, 3, 4]) 3 = identityMatrix 3 := by
  decide +kernel

/-- **The model's GF(2^8) (carry-less multiplication modulo zfec's polynomial 0x11d, the arithmetic
behind `rs256`) is a field**, for all bytes: XOR is the addition; `gfMul` is bilinear over it,
commutative, associative, has unit 1, and every non-zero byte has the inverse `gfInv`. Proved
structurally (induction on the rounds of the multiplication, then span induction over the eight
basis bytes) — the kernel only evaluates 64 + 512 + 8 basis products and 255 inverses. -/
theorem gf256_field_laws :
    (∀ a b c : UInt8, gfMul (a ^^^ b) c = gfMul a c ^^^ gfMul b c) ∧
    (∀ a b c : UInt8, gfMul a (b ^^^ c) = gfMul a b ^^^ gfMul a c) ∧
    (∀ a b : UInt8, gfMul a b = gfMul b a) ∧
    (∀ a b c : UInt8, gfMul (gfMul a b) c = gfMul a (gfMul b c)) ∧
    (∀ a : UInt8, gfMul 1 a = a ∧ gfMul a 1 = a ∧ gfMul 0 a = 0 ∧ gfMul a 0 = 0) ∧
    (∀ a : UInt8, a ≠ 0 → gfMul a (gfInv a) = 1) ∧
    (∀ a b : UInt8, gfMul a b = 0 → a = 0 ∨ b = 0) :=
  ⟨gfMul_xor_left, gfMul_xor_right, gfMul_comm, gfMul_assoc,
   fun a => ⟨gfMul_one_left a, gfMul_one_right a, gfMul_zero_left a, gfMul_zero_right a⟩,
   gfMul_inv, fun _ _ h => gfMul_eq_zero h⟩

example : gfMul 0x53 0xca = 0x8f ∧ gfMul 0x8f (gfInv 0xca) = 0x53 := by decide +kernel

/-- **zfec's code is MDS on blocks of bytes of any length for every 1 ≤ k ≤ N ≤ 5** — the full `MDS`
law for the transcription `rs256`: from the `k` input blocks it produces `N` blocks of the same
length, and any `k` of them, in any order, decode back to the input. No assumption. (The
coefficient identity of `rs256_generator_small` is lifted to blocks by the bilinearity of `gfMul`,
and to arbitrary orders of the share numbers by commutativity/associativity.) -/
theorem rs256_mds_small_blocks (k n : Nat) (hk : 1 ≤ k) (hkn : k ≤ n) (hn : n ≤ 5) : MDS (rs256 k n) k n :=
  rs256_mds_small k n hk hkn hn

/-- C36 for zfec's code with N ≤ 5, **without** the `RS256_MDS` assumption -/
theorem rs256_any_k_blocks_decode_small (k n : Nat) (hk : 1 ≤ k) (hkn : k ≤ n) (hn : n ≤ 5)
    (seg : Block) (supplied : List (Nat × Block)) (hlen : k ≤ supplied.length)
    (hnd : (supplied.map (·.1)).Nodup)
    (hgen : ∀ p ∈ supplied, (encodeSegment (rs256 k n) k seg)[p.1]? = some p.2) :
    decodeSegment (rs256 k n) k seg.length supplied = seg :=
  any_k_blocks_decode (rs256 k n) k n hk (rs256_mds_small k n hk hkn hn) seg supplied hlen hnd hgen

set_option maxRecDepth 100000 in
/-- an instance that meets every hypothesis: 3-of-5, a 3-byte segment, four blocks supplied out of order -/
example : decodeSegment (rs256 3 5) 3 3 [(4, [0x09]), (0, [0x61]), (3, [0x75]), (1, [0x62])] = [0x61, 0x62, 0x63] :=
  rs256_any_k_blocks_decode_small 3 5 (by decide) (by decide) (by decide) [0x61, 0x62, 0x63] _
    (by decide) (by decide) (by decide)

/-- The byte-level Lagrange identity (proved below for all N ≤ 256 as `rs256_scalar_identity`; it was
the remaining assumption before the interpolation argument was formalised) —
for distinct share numbers `ids` (|ids| = k) below `n ≤ 256`, interpolating through the points
`pt ids_s` the values the systematic encoding rows give to input bytes `v`, and evaluating at the
primary point `pt m`, returns `v[m]`. It mentions only single bytes; it follows from "a polynomial of
degree < k over a field is determined by its values at k distinct points" (the 256 points are
distinct: `rs256_generator_small`). -/
def RS256_ScalarIdentity : Prop :=
  ∀ k n : Nat, 1 ≤ k → k ≤ n → n ≤ 256 → ∀ ids : List Nat, ids.length = k → ids.Nodup →
    (∀ i ∈ ids, i < n) → ScalarRecover k n ids

/-- the block-level assumption `RS256_MDS` follows from the byte-level identity, for every k ≤ N ≤ 256 -/
theorem rs256_mds_of_scalar_identity (h : RS256_ScalarIdentity) : RS256_MDS :=
  fun k n hk hkn hn => rs256_mds_of_scalar k n hk hkn hn (h k n hk hkn hn)

/-- **The byte-level Lagrange identity holds for every 1 ≤ k ≤ N ≤ 256** (uniqueness of polynomial
interpolation over the field `GF`, Mathlib's `Lagrange.eq_interpolate`; the 256 evaluation points
are distinct by `rsPoints_nodup`). -/
theorem rs256_scalar_identity : RS256_ScalarIdentity :=
  fun k n hk hkn hn ids hl hnd hb => scalarRecover_all k n hk hkn hn ids hl hnd hb

/-- **zfec's code (as transcribed in `rs256`) is MDS for every 1 ≤ k ≤ N ≤ 256** on blocks of bytes of
any length: the former assumption `RS256_MDS` is a theorem. -/
theorem rs256_mds : RS256_MDS := rs256_mds_of_scalar_identity rs256_scalar_identity

/-- C36, bare pipeline, for the code the repo actually uses — no hypothesis on the code -/
theorem zfec_code_any_k_blocks_decode (k n : Nat) (hk : 1 ≤ k) (hkn : k ≤ n) (hn : n ≤ 256)
    (seg : Block) (supplied : List (Nat × Block)) (hlen : k ≤ supplied.length)
    (hnd : (supplied.map (·.1)).Nodup)
    (hgen : ∀ p ∈ supplied, (encodeSegment (rs256 k n) k seg)[p.1]? = some p.2) :
    decodeSegment (rs256 k n) k seg.length supplied = seg :=
  rs256_any_k_blocks_decode rs256_mds k n hk hkn hn seg supplied hlen hnd hgen

set_option maxRecDepth 100000 in
example : decodeSegment (rs256 2 7) 2 3 [(6, [0x41, 0x42]), (5, [0x21, 0x22])] = [0x01, 0x02, 0x03] ∧
    encodeSegment (rs256 2 7) 2 [0x01, 0x02, 0x03] =
      [[0x01, 0x02], [0x03, 0x00], [0x05, 0x06], [0x09, 0x0a], [0x11, 0x12], [0x21, 0x22], [0x41, 0x42]] := by
  decide

/-- **The model's generator is the matrix fec.c specifies.** fec.c builds the n×k Vandermonde matrix `V`
of the evaluation points (`V[i][c] = x_i^c`, first row `1, 0, …, 0` for `x_0 = 0`), inverts its top
k×k block and sets `enc_matrix = V · V_top⁻¹`. For the model's `encMatrix k n` (the coefficients
`rs256` applies): (1) `E · V_top = V` entry by entry — `Σ_j E[i][j] · x_j^c = x_i^c` for all rows
`i < n`, columns `c < k` — and since `V_top` is invertible (distinct points) `E` is *the* matrix
`V · V_top⁻¹`; (2) the top k×k block of `E` is the identity (systematic code). Stated in the field
`GF` (`GF.of` reads a byte as a field element; `pt i` is share `i`'s evaluation point). -/
theorem rs256_generator_is_vandermonde_systematic (k n : Nat) (hkn : k ≤ n) (hn : n ≤ 256) :
    (∀ i c, i < n → c < k →
      (List.zipWith (fun a b => GF.of a * b) ((encMatrix k n).getD i [])
        ((List.range k).map (fun j => GF.of (pt j) ^ c))).sum = GF.of (pt i) ^ c) ∧
    (∀ i, i < k → (encMatrix k n).getD i [] = (List.range k).map (fun j => if i = j then (1 : UInt8) else 0)) :=
  ⟨fun i c hi hc => encMatrix_mul_vandermonde k n i c hkn hn hi hc,
   fun i hi => encMatrix_top_identity k n i hkn hn hi⟩

example : encMatrix 2 4 = [[1, 0], [0, 1], [3, 2], [5, 4]] ∧ pt 0 = 0 ∧ pt 1 = 1 ∧ pt 2 = 2 ∧ pt 3 = 4 := by
  decide +kernel

/-- the immutable path (`Encoder._encode_segment` → `DownloadNode._decode_blocks`) with zfec's code:
no hypothesis on the code -/
theorem immutable_any_k_blocks_decode_rs256 (fileSize k n segSize segnum : Nat) (data : Block)
    (hk : 0 < k) (hkn : k ≤ n) (hn : n ≤ 256) (hs : 0 < segSize) (hdiv : segSize % k = 0)
    (hdata : data.length =
      if segnum + 1 = divCeil fileSize segSize then tailSizeOf fileSize segSize else segSize) :
    ∃ e z blocks,
      immEncoderSetup fileSize k n segSize = .ok e ∧
      calculateSizes fileSize k segSize = .ok z ∧
      immEncodeSegment rs256 e (segnum + 1 == e.numSegments) data = .ok (blocks, List.range n) ∧
      blocks.length = n ∧ Uniform (divCeil data.length k) blocks ∧
      ∀ sel : List (Nat × Block), sel.length = k → (sel.map (·.1)).Nodup →
        (∀ p ∈ sel, blocks[p.1]? = some p.2) →
        immDecodeBlocks rs256 k n segSize z segnum sel = .ok data :=
  immutable_any_k_blocks_decode rs256 fileSize k n segSize segnum data hk hkn hn hs hdiv
    (rs256_mds k n hk hkn hn) hdata

/-- the mutable path (`Publish._encode_segment` → `Retrieve._decode_blocks`) with zfec's code -/
theorem mutable_any_k_blocks_decode_rs256 (seg0 datalength k n segnum : Nat)
    (crypttext : Block) (hk : 0 < k) (hkn : k ≤ n) (hn : n ≤ 256) :
    ∃ e d, mutPublishSetup seg0 datalength k n = .ok e ∧
      mutRetrieveSetup e.segSize datalength k n = .ok d ∧
      (crypttext.length = (if segnum + 1 = e.numSegments then e.tailSegSize else e.segSize) →
       ∃ blocks, mutEncodeSegment rs256 e segnum crypttext = .ok (blocks, List.range n) ∧
         blocks.length = n ∧ Uniform (divCeil crypttext.length k) blocks ∧
         ∀ sel : List (Nat × Block), k ≤ sel.length → (sel.map (·.1)).Nodup →
           (∀ p ∈ sel, blocks[p.1]? = some p.2) →
           mutDecodeBlocks rs256 d segnum sel = .ok crypttext) :=
  mutable_any_k_blocks_decode rs256 seg0 datalength k n segnum crypttext hk hkn hn (rs256_mds k n hk hkn hn)

/-- and the byte-level identity is a theorem for N ≤ 5 (so the hypothesis is not vacuous there) -/
example (k n : Nat) (hk : 1 ≤ k) (hn : n ≤ 5) (ids : List Nat) (hl : ids.length = k) (hnd : ids.Nodup)
    (hb : ∀ i ∈ ids, i < n) : ScalarRecover k n ids := scalarRecover_small k n hk hn ids hl hnd hb

/-- the assumption is satisfiable by *some* code for the shapes proved: the instances -/
theorem mds_instances :
    (∀ n, MDS (replication n) 1 n) ∧ (∀ k, MDS (identityCode k) k k) ∧ MDS (xorParity 2) 2 3 :=
  ⟨replication_mds, identity_mds, xorParity2_mds⟩

end Tahoe.C36
