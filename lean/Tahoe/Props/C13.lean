import Tahoe.Mutable.SerializerInv
import Tahoe.Mutable.Routing
/-! C13 — one client serializes operations on a mutable node (property theorems).
Models: Tahoe/Mutable/Serializer.lean (callback chain, retry attempts, requests from inside a body,
NodeMaker memoisation), Tahoe/Mutable/Routing.lean (which operations enter the serializer); helper
lemmas: SerializerLemmas.lean, SerializerInv.lean.
Schedules = arbitrary lists of events `Op` (requests, completions of the operations' inner
Deferreds with success or failure, colliding attempts, requests made from inside a running body,
eventual-queue turns), of any length.

## Coverage of the statement

| clause of the statement | theorem(s) on the model | rest |
|---|---|---|
| within one client, operations on a node obtained through the same capability string … | `same_cap_same_node`, `same_cap_same_node_any_hint` (one node object, hence one `_serializer`, per cap string, whatever read-cap hint is passed), `cache_stable` | WeakValueDictionary collection between two lookups: not modelled; that `DirectoryNode` keeps using the one filenode: **correspondence/monitor only** |
| … (reading the best version, overwriting, uploading, modifying, directory edits built on them) | every such operation is a `_do_serialized` request (`Op.req`); its kind does not matter to the queue | `every_node_op_serialized_none_reenters`, `every_directory_op_serialized`, `routing_tables_complete`: a routing table (which public operation of the backing node each file / directory operation reaches, that it enters `_do_serialized`), compared with the code by instrumentation (seed C13-b = a disagreement on `list`/`get`/…) |
| run one at a time, in request order | `starts_and_finishes_alternate`, `serial_order`, `successes_in_request_order` | |
| none starts before the previous one finished | `serial_order`, `no_start_before_last_attempt`, `no_attempt_after_finish` (an operation = all of its attempts; seed C13-c) | that `_modify_and_retry` chains the next attempt into the operation's Deferred: **correspondence** (the real function is the callable in the scripted schedules) |
| a failed operation does not block later ones | `failed_op_does_not_block` (for operation bodies that do not enqueue on their own node and wait: `NoInner`), `idle_means_all_done`, `no_inner_never_blocked`; `self_enqueue_deadlocks` / `self_enqueue_counterexample`: a body that does (seed C13-e) blocks the node for ever | that no operation body of the real code does so: `every_node_op_serialized_none_reenters` on the routing table, whose `bodyEnqueues` column is compared with the code by instrumentation, incl. the read-only retry path (seed C13-e = a disagreement) |
| so concurrent directory edits through one client never lose each other's changes | `no_lost_edit`, `no_lost_directory_edit` (final contents = the successful modifiers folded in request order over what the first read) | each directory edit being such a modifier on a name map: C20; competing writers from other clients: C12 (monitor here: collision family) |
-/
namespace Tahoe.C13
open Tahoe.Serializer

/-- reading of `scan`: in an accepted log, every operation before `j` has finished before `start j` -/
theorem scan_precedes (log : List Ev) : ∀ (n : Nat) (o : Option Nat) (st : Nat × Option Nat)
    (pre post : List Ev) (j : Nat),
    scan log (n, o) = some st → log = pre ++ Ev.start j :: post →
    ∀ i, n ≤ i → i < j → ∃ r, Ev.finish i r ∈ pre := by
  induction log with
  | nil => intro n o st pre post j _ h; simp at h
  | cons e rest ih =>
    intro n o st pre post j hs hlog i hni hij
    cases pre with
    | nil =>
      simp only [List.nil_append, List.cons.injEq] at hlog
      obtain ⟨he, _⟩ := hlog
      subst he
      cases o with
      | none =>
        simp only [scan] at hs
        split at hs
        · omega
        · simp at hs
      | some m => simp [scan] at hs
    | cons p pre' =>
      simp only [List.cons_append, List.cons.injEq] at hlog
      obtain ⟨he, hrest⟩ := hlog
      subst he
      cases e with
      | start i0 =>
        cases o with
        | none =>
          simp only [scan] at hs
          split at hs
          · obtain ⟨r, hr⟩ := ih n (some i0) st pre' post j hs hrest i hni hij
            exact ⟨r, List.mem_cons_of_mem _ hr⟩
          · simp at hs
        | some m => simp [scan] at hs
      | finish i0 r0 =>
        cases o with
        | none => simp [scan] at hs
        | some m =>
          simp only [scan] at hs
          split at hs
          · rename_i hc
            by_cases hin : i = n
            · exact ⟨r0, by rw [hin, ← hc.2]; exact List.mem_cons_self⟩
            · obtain ⟨r, hr⟩ := ih (n + 1) none st pre' post j hs hrest i (by omega) hij
              exact ⟨r, List.mem_cons_of_mem _ hr⟩
          · simp at hs
      | deliver i0 r0 =>
        simp only [scan] at hs
        obtain ⟨r, hr⟩ := ih n o st pre' post j hs hrest i hni hij
        exact ⟨r, List.mem_cons_of_mem _ hr⟩
      | retry i0 =>
        cases o with
        | none => simp [scan] at hs
        | some m =>
          simp only [scan] at hs
          split at hs
          · obtain ⟨r, hr⟩ := ih n (some m) st pre' post j hs hrest i hni hij
            exact ⟨r, List.mem_cons_of_mem _ hr⟩
          · simp at hs

/-- Starts and finishes alternate, in request order, under every schedule: the log of every
reachable state is accepted by `scan` (no operation starts while another is in progress, none
starts twice or out of order). -/
theorem starts_and_finishes_alternate (ops : List Op) :
    ∃ n, scan (runOps ops).core.log (0, none) = some (n, (runOps ops).core.waiting) := by
  obtain ⟨n, _, h⟩ := inv_runOps ops
  rcases h with hi | ⟨j, k, _, hb⟩
  · exact ⟨n, by rw [hi.scan, hi.waiting]⟩
  · exact ⟨j, by rw [hb.scan, hb.waiting]⟩

/-- **serial order**: for any interleaving of requests, completions and queue turns, when the
callable of operation `j` is invoked, every earlier-requested operation `i < j` has already
produced its result (success or failure). -/
theorem serial_order (ops : List Op) (pre post : List Ev) (j : Nat)
    (h : (runOps ops).core.log = pre ++ Ev.start j :: post) :
    ∀ i, i < j → ∃ r, Ev.finish i r ∈ pre := by
  obtain ⟨n, hn⟩ := starts_and_finishes_alternate ops
  intro i hij
  exact scan_precedes _ 0 none _ pre post j hn h i (Nat.zero_le _) hij

/-- **retries are part of the operation**: an operation is a sequence of attempts (`Ev.retry i` marks
the beginning of a further attempt of operation `i` after an UncoordinatedWriteError) and is complete
only when its last attempt ends.  Under every schedule, when the callable of operation `j` is invoked,
every earlier-requested operation `i < j` has produced its result AND no attempt of `i` begins
afterwards: the queue never starts operation i+1 before the last attempt of operation i ended. -/
theorem no_start_before_last_attempt (ops : List Op) (pre post : List Ev) (j : Nat)
    (h : (runOps ops).core.log = pre ++ Ev.start j :: post) :
    ∀ i, i < j → (∃ r, Ev.finish i r ∈ pre) ∧ Ev.retry i ∉ post := by
  obtain ⟨n, hn⟩ := starts_and_finishes_alternate ops
  intro i hij
  refine ⟨scan_precedes _ 0 none _ pre post j hn h i (Nat.zero_le _) hij, ?_⟩
  rw [h, scan_append] at hn
  cases hpre : scan pre (0, none) with
  | none => rw [hpre] at hn; simp at hn
  | some st =>
    obtain ⟨n', o'⟩ := st
    rw [hpre] at hn
    simp only [Option.bind_some] at hn
    cases o' with
    | some m => simp [scan] at hn
    | none =>
      simp only [scan] at hn
      split at hn
      · rename_i hjn
        intro hmem
        have := scan_retry_ge post n' (some j) _ hn (by intro j' hj'; cases hj'; exact hjn) i hmem
        omega
      · simp at hn

/-- every further attempt of an operation lies inside its extent: after operation `i` produced its
result (and hence after its caller's Deferred can fire) no attempt of `i` begins -/
theorem no_attempt_after_finish (ops : List Op) (pre post : List Ev) (i : Nat) (r : Res)
    (h : (runOps ops).core.log = pre ++ Ev.finish i r :: post) : Ev.retry i ∉ post := by
  obtain ⟨n, hn⟩ := starts_and_finishes_alternate ops
  rw [h, scan_append] at hn
  cases hpre : scan pre (0, none) with
  | none => rw [hpre] at hn; simp at hn
  | some st =>
    obtain ⟨n', o'⟩ := st
    rw [hpre] at hn
    simp only [Option.bind_some] at hn
    cases o' with
    | none => simp [scan] at hn
    | some m =>
      simp only [scan] at hn
      split at hn
      · rename_i hc
        intro hmem
        have := scan_retry_ge post (n' + 1) none _ hn (by intro j' hj'; cases hj') i hmem
        omega
      · simp at hn

example : (runOps [.req none, .req none, .retry 0, .retry 1, .retry 0, .fin 0 .ok, .retry 0, .retry 1, .fin 1 .ok]).core.log =
    [.start 0, .retry 0, .retry 0, .finish 0 .ok, .start 1, .retry 1, .finish 1 .ok] := by decide

example : (runOps [.req none, .req none, .fin 0 .fail, .fin 1 .ok, .turn]).core.log =
    [.start 0, .finish 0 .fail, .start 1, .finish 1 .ok, .deliver 0 .fail, .deliver 1 .ok] := by decide

/-- **a failed operation does not block later ones / nothing waits needlessly**: in every reachable
state in which no operation is in progress, every requested operation has started and finished. -/
theorem idle_means_all_done (ops : List Op) (h : (runOps ops).core.waiting = none) :
    (runOps ops).chain = [] ∧
    scan (runOps ops).core.log (0, none) = some ((runOps ops).core.nextId, none) := by
  obtain ⟨n, hn, hinv⟩ := inv_runOps ops
  rcases hinv with hi | ⟨j, k, _, hb⟩
  · exact ⟨hi.chain, by rw [hn]; exact hi.scan⟩
  · rw [hb.waiting] at h; simp at h

/-- when the running operation `j` fails, the serializer moves on at once: it is idle (everything
requested has run) or it has started a later operation.  Hypothesis `NoInner`: no operation body
enqueues on its own node's serializer and waits for it (what the comment in `_do_serialized` forbids);
`self_enqueue_deadlocks` shows what the code does when one does. -/
theorem failed_op_does_not_block (ops : List Op) (hno : NoInner ops) (j : Nat) (h : (runOps ops).core.waiting = some j) :
    let s' := runOps (ops ++ [.fin j .fail])
    Ev.finish j .fail ∈ s'.core.log ∧
    (s'.core.waiting = none ∨ ∃ j', s'.core.waiting = some j' ∧ j < j') := by
  intro s'
  have hinv' := inv_runOps (ops ++ [.fin j .fail])
  have hs' : s' = step (runOps ops) (.fin j .fail) := by simp [s', runOps, List.foldl_append]
  obtain ⟨n, hn, hinv⟩ := inv_runOps ops
  rcases hinv with hi | ⟨j0, k, hjk, hb⟩
  · rw [hi.waiting] at h; simp at h
  · have hj0 : j0 = j := by have := hb.waiting; rw [h] at this; simpa using this.symm
    subst hj0
    obtain ⟨n', hn', hinv'⟩ := hinv'
    have hscan' : ∃ m o, scan s'.core.log (0, none) = some (m, o) ∧ s'.core.waiting = o ∧ (o = none ∨ o = some m) := by
      rcases hinv' with hi' | ⟨j', k', _, hb'⟩
      · exact ⟨n', none, hi'.scan, hi'.waiting, Or.inl rfl⟩
      · exact ⟨j', some j', hb'.scan, hb'.waiting, Or.inr rfl⟩
    -- the log of s' extends the old log by `finish j fail` and what ran afterwards
    have hlog : ∃ tail, s'.core.log = ((runOps ops).core.log ++ [Ev.finish j0 .fail]) ++ tail := by
      rw [hs']
      have hbl : blocked (runOps ops).core j0 = false := by
        unfold blocked; rw [inner_nil_of_noInner ops hno]; rfl
      simp only [step, hbl, Bool.false_eq_true, if_false, finStep, if_pos h, commit]
      rw [kick_idle _ rfl]
      exact run_log_grows _ _
    obtain ⟨tail, htail⟩ := hlog
    refine ⟨by rw [htail]; simp, ?_⟩
    obtain ⟨m, o, hsc, hw, ho⟩ := hscan'
    rw [htail, scan_append, scan_append, hb.scan] at hsc
    simp only [Option.bind_some, scan, and_self, if_true] at hsc
    have hm := scan_mono _ _ _ _ _ hsc
    rcases ho with ho | ho
    · left; rw [hw, ho]
    · right; exact ⟨m, by rw [hw, ho], by omega⟩

/-- bodies that do not enqueue on their own node are never blocked from inside -/
theorem no_inner_never_blocked (ops : List Op) (hno : NoInner ops) (i : Nat) : blocked (runOps ops).core i = false := by
  unfold blocked; rw [inner_nil_of_noInner ops hno]; rfl

example : NoInner [.req none, .req none, .fin 0 .fail, .retry 1, .fin 1 .ok, .turn] := by
  intro op hop i
  simp only [List.mem_cons, List.not_mem_nil, or_false] at hop
  rcases hop with h | h | h | h | h | h <;> subst h <;> simp

/-- **self-enqueue deadlocks**: once the body of an operation has requested another serialized
operation on its own node and waits for it, that operation never finishes under ANY continuation of
the schedule, nothing requested on the node afterwards ever starts (the log never gets past
`start 0`), and no event can repair it.  This is the behaviour `_do_serialized` warns about; the
statement's "a failed operation does not block later ones" cannot hold for such a body. -/
theorem self_enqueue_deadlocks (ops : List Op) :
    let s := runOps ([.req none, .innerReq 0] ++ ops)
    s.core.waiting = some 0 ∧ scan s.core.log (0, none) = some (0, some 0) := by
  intro s
  have h0 : SelfWait (runOps [.req none, .innerReq 0]) 0 1 := ⟨by decide, by decide, by decide⟩
  have h : SelfWait s 0 1 := by
    simp only [s, runOps, List.foldl_append]
    exact selfWait_foldl ops _ 0 1 h0
  refine ⟨h.1, ?_⟩
  obtain ⟨n, _, hinv⟩ := inv_runOps ([.req none, .innerReq 0] ++ ops)
  rcases hinv with hi | ⟨j, k, _, hb⟩
  · have := hi.waiting; rw [h.1] at this; simp at this
  · have hj : j = 0 := by have := hb.waiting; rw [h.1] at this; simpa using this.symm
    subst hj; exact hb.scan

/-- the same on one concrete schedule: every completion is attempted, a later request is made, the
eventual queue runs -- the log stays at `start 0`, three operations are queued for ever -/
theorem self_enqueue_counterexample :
    let s := runOps [.req none, .innerReq 0, .req none, .fin 1 .ok, .fin 0 .ok, .fin 2 .fail, .turn, .fin 0 .fail]
    s.core.log = [.start 0] ∧ s.core.waiting = some 0 ∧ s.core.nextId = 3 ∧ s.chain.length = 8 := by decide

/-- **no lost edit**: under every schedule the shared content equals the successful operations'
modifiers applied in request order (each read-modify-write operation reads when it starts and
writes when it finishes; none can interleave).  Composed with C20 (each directory edit is such a
modifier) this is "concurrent directory edits through one client never lose each other's changes". -/
theorem no_lost_edit (ops : List Op) :
    (runOps ops).core.content = succeeded (runOps ops).core.log := by
  obtain ⟨n, _, h⟩ := inv_runOps ops
  rcases h with hi | ⟨j, k, _, hb⟩
  · exact hi.content
  · exact hb.content

example : (runOps [.req none, .req none, .req (some .ok), .fin 0 .ok, .fin 1 .fail, .turn]).core.content = [0, 2] := by
  decide

/-- **successes are in request order**: the operations that finished successfully appear in the log
(hence, by `no_lost_edit`, in the contents) in the order in which they were requested. -/
theorem successes_in_request_order (ops : List Op) :
    (succeeded (runOps ops).core.log).Pairwise (· < ·) := by
  obtain ⟨n, hn⟩ := starts_and_finishes_alternate ops
  exact (scan_succeeded_sorted _ 0 none _ hn (by intro j hj; cases hj)).2

/-- **no lost directory edit**: read every operation `i` as a modifier `edit i` of some contents type
(a directory's name map with `Adder` / `Deleter` / `MetadataSetter`, C20).  Under every schedule the
node's contents are the modifiers of exactly the successful operations, folded over the initial
contents in request order -- no edit is lost, none is applied twice or out of order. -/
theorem no_lost_directory_edit {D : Type} (edit : Nat → D → D) (base : D) (ops : List Op) :
    let s := runOps ops
    s.core.content.foldl (fun d i => edit i d) base = (succeeded s.core.log).foldl (fun d i => edit i d) base ∧
    s.core.content.Pairwise (· < ·) := by
  intro s
  have h := no_lost_edit ops
  exact ⟨by simp only [s, h], by simp only [s, h]; exact successes_in_request_order ops⟩

/-- a name map: op 0 adds "a", op 1 (fails) would add "b", op 2 deletes "a", op 3 adds "c" after a collision -/
example : ((runOps [.req none, .req none, .req none, .req none, .fin 0 .ok, .fin 1 .fail, .fin 2 .ok, .retry 3, .fin 3 .ok]).core.content.foldl
    (fun (d : List String) i => match i with
      | 0 => d ++ ["a"] | 1 => d ++ ["b"] | 2 => d.filter (· != "a") | _ => d ++ ["c"]) ["keep"]) = ["keep", "c"] := by decide

/-! ### which operations go through the serializer (routing table, compared with the code by instrumentation) -/
section Routing
open Tahoe.Routing

/-- **every whole-file operation is serialized and none re-enters**: each public whole-file operation
of a mutable node hands its body to `_do_serialized`, and no body requests another serialized
operation on its own node (so the schedules of the real operations are `NoInner` schedules, to which
`failed_op_does_not_block` applies). -/
theorem every_node_op_serialized_none_reenters (o : NodeOp) : serialized o = true ∧ bodyEnqueues o = false := by
  cases o <;> exact ⟨rfl, rfl⟩

/-- **directory operations are built on serialized operations only**: every read and every edit of a
directory reaches its backing node through a serialized whole-file operation whose body does not
re-enter -- reads through `download_best_version`, edits through `modify`. -/
theorem every_directory_op_serialized (d : DirOp) :
    dirOpCalls d ≠ [] ∧ ∀ o, o ∈ dirOpCalls d → serialized o = true ∧ bodyEnqueues o = false := by
  refine ⟨by cases d <;> simp [dirOpCalls], fun o _ => every_node_op_serialized_none_reenters o⟩

/-- the tables are complete: every constructor is listed (the harness walks these lists) -/
theorem routing_tables_complete : (∀ o : NodeOp, o ∈ allNodeOps) ∧ (∀ d : DirOp, d ∈ allDirOps) := by
  refine ⟨fun o => by cases o <;> simp [allNodeOps], fun d => by cases d <;> simp [allDirOps]⟩

example : dirOpCalls .moveChildWithin = [.downloadBestVersion, .modify, .modify] ∧ dirOpCalls .hasChild = [.downloadBestVersion] := by decide

end Routing

/-- once a mutable node has been created for a cap string it stays in the cache under its key -/
theorem cache_stable (m : Maker) (key : String) (n : Nat) (h : m.cache.lookup key = some n)
    (d : Bool) (cap : String) (kd : Kind) : (createFromCap m d cap kd).1.cache.lookup key = some n := by
  unfold createFromCap
  split
  · exact h
  · rename_i hnone
    cases kd with
    | mutable =>
      simp only [List.lookup_cons]
      by_cases hk : key = memokey d cap
      · subst hk; rw [h] at hnone; simp at hnone
      · have : (key == memokey d cap) = false := by simpa using hk
        simp [this, h]
    | unknown => exact h
    | immutable => exact h

/-- **same cap, same node**: after a mutable node was made from a cap string, any later
`create_from_cap` with the same cap string (and the same deep-immutable flag), after any number of
other calls, returns the very same node object (no garbage collection in between). -/
theorem same_cap_same_node (m : Maker) (d : Bool) (cap : String)
    (others : List (Bool × String × Kind)) :
    let r1 := createFromCap m d cap .mutable
    let m2 := others.foldl (fun acc c => (createFromCap acc c.1 c.2.1 c.2.2).1) r1.1
    (createFromCap m2 d cap .mutable).2 = r1.2 := by
  intro r1 m2
  have h1 : r1.1.cache.lookup (memokey d cap) = some r1.2 := by
    simp only [r1]
    unfold createFromCap
    split
    · rename_i n hn; exact hn
    · simp
  have h2 : ∀ (l : List (Bool × String × Kind)) (acc : Maker), acc.cache.lookup (memokey d cap) = some r1.2 →
      (l.foldl (fun acc c => (createFromCap acc c.1 c.2.1 c.2.2).1) acc).cache.lookup (memokey d cap) = some r1.2 := by
    intro l
    induction l with
    | nil => intro acc h; exact h
    | cons c rest ih => intro acc h; exact ih _ (cache_stable acc _ _ h _ _ _)
  have h3 := h2 others r1.1 h1
  show (createFromCap m2 d cap Kind.mutable).2 = r1.2
  unfold createFromCap
  simp only [m2] at *
  rw [h3]

example : (createFromCap (createFromCap {} false "URI:SSK:w" .mutable).1 false "URI:SSK:w" .mutable).2 = 0 := by decide

/-- **the read-cap hint does not matter**: a node reached through a parent directory
(`create_from_cap(rw_uri, ro_uri)`) and the node made from the cap string alone
(`create_from_cap(cap)`) are the same object, whatever other calls happen in between. -/
theorem same_cap_same_node_any_hint (m : Maker) (d : Bool) (w r1 r2 : String) (hw : w.isEmpty = false)
    (others : List (Bool × String × Kind)) :
    let first := createFromCaps m d w r1 .mutable
    let m2 := others.foldl (fun acc c => (createFromCap acc c.1 c.2.1 c.2.2).1) first.1
    (createFromCaps m2 d w r2 .mutable).2 = first.2 := by
  have hb : ∀ r, bigcapOf w r = w := by intro r; simp [bigcapOf, hw]
  simp only [createFromCaps, hb]
  exact same_cap_same_node m d w others

example : (createFromCaps (createFromCaps {} false "URI:SSK:w" "URI:SSK-RO:r" .mutable).1 false "URI:SSK:w" "" .mutable).2 = 0 := by decide

end Tahoe.C13
