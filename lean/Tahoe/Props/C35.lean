import Tahoe.Base.Merkle
namespace Tahoe.C35
open Tahoe.Base.Merkle
theorem stub : (1 : Nat) = 1 := rfl
end Tahoe.C35
