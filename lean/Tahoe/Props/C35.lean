import Tahoe.Base.LemmasMerkleComplete
import Tahoe.Base.LemmasMerkleOrder
import Tahoe.Base.LemmasMerkleClosed
import Tahoe.Base.LemmasMerkleBuild
import Tahoe.Base.LemmasMerkleStray
import Tahoe.Base.LemmasMerkleMinimal
import Tahoe.Base.LemmasMerkleGenuine
import Tahoe.Base.LemmasMerkleHistory
/-! C35 — Merkle hash trees accept only genuine leaves (hashtree.py `IncompleteHashTree.set_hashes`).

## Coverage of the statement (properties.jsonl C35)

| clause of the statement | theorems (model `Tahoe.Base.Merkle`) |
|---|---|
| "a partially populated hash tree seeded with a trusted root accepts a leaf value only if it equals that leaf in the tree that produced the root" | `sound`, `accepted_leaf_genuine` (natural keys); `sound_any_batch` (arbitrary Python-int keys); "the tree that produced the root" = any `Genuine` tree, and `hashtree_is_genuine` shows `HashTree(L)` is one (padding included) |
| "whatever auxiliary hashes an adversary supplies" | the batch is universally quantified in all of the above: any values of the abstract hash type (any length — `pair` is only assumed injective), any node numbers incl. stray / negative / too large and any dict order (`sound_any_batch`, `rollback_any_batch`); hypothesis `PairInjective` (collision-freeness) |
| "it always accepts the genuine hashes it asked for" | `needed_hashes_accepted` (exactly `needed_hashes(leaf)` answered from `T` + the genuine leaf, model function `validateLeaf`), `needed_hashes_accepted_hashtree` (every list of leaves of every length, every leaf slot incl. padding), `complete` / `complete_int_keys` (any genuine superset on the chain), `genuine_batch_never_refuted` (genuine values anywhere, on or off the chain: accepted or NotEnoughHashesError, never BadHashError / IndexError); the tree-shape hypotheses `Closed` are invariants: `closed_preserved`, `new_tree_closed`; that nothing less would do: `needed_hashes_minimal` (with `sib_closed_preserved`, `new_tree_sib_closed`) |
| the quantifier "histories" | `history_invariant`: along any history of calls (arbitrary int-key batches, accepted or rejected, a pop order per call; model function `runBatches`, which is what the driver runs) the tree keeps its size and root and equals `T` wherever populated |
| "in any validation order" | every theorem is for an arbitrary `pick` (the `set.pop()` oracle); `order_irrelevant`, `order_irrelevant_int_keys`: accept/reject and the accepted list do not depend on it |
| "and leaves its state unchanged when it rejects an input" | `rollback` (natural keys, per exception class), `rollback_any_batch` / `every_exception_exit_restores` (arbitrary int keys: every call that does not return normally ends in one of the named exceptions and restores the list); `exits_are_named`: the model has no other exit, and `parent_level_assertion_never_fires` discharges the one `assert` inside the `try:`. An exception of any *other* type out of the real `set_hashes` (e.g. from building an error message) is therefore a correspondence disagreement; the monitor demands the tree unchanged after any exception type (corpus cases for seeds C35-c, C35-e) |
| the code as it was before fix b65c364 (`Cfg.asIs`: falsy stored hash, IndexError escaping the rollback) | `sound_counterexample_falsy_root`, `rollback_counterexample_falsy_leaf`, `rollback_counterexample_index_error` (`Cfg.asIs`) |

Not covered by a theorem: that `pair_hash` / `empty_leaf_hash` are the SHA-256d tagged hashes and are
collision-free (hypothesis `PairInjective`; correspondence runs the real hashes); the text of the exception
messages (`_name_hash`, base32) — not modelled, an exception raised there is a correspondence disagreement and a
monitor violation; which of the three exception classes is raised for a batch with a red-dotted negative key
(order dependent, left open as `BatchOutcome.unvalidatable`; rollback is proved for all of them); exactly when a
genuine batch with values *off* the chain is accepted rather than found insufficient (only the dichotomy
`genuine_batch_never_refuted` is proved).

Vocabulary (Tahoe/Base/Merkle.lean): `Genuine ops T` — `T` is a fully populated Merkle tree; `Agree t T` — the
partial tree `t` equals `T` wherever populated; `PairInjective ops` — the pair hash is collision-free;
`StrictPresence ops cfg` — the presence test never takes a stored hash for `None` (`Cfg.repaired` = the code in
/repo since fix b65c364, `is not None`; or `Cfg.asIs` = the earlier `if self[i]:` over hashes that are never `b""`);
`HInv T t` — right size, root present, agrees with `T`; `Batch` / `runBatches` — one call / a history of calls; `Closed` / `SibClosed` — node and sibling known ⇒ parent
known / known non-root node ⇒ sibling known (both invariants of successful calls); `pick` — the order in which
`set.pop()` hands out the red-dotted nodes of a level (any function). Helper lemmas: Tahoe/Base/LemmasMerkle*.lean. -/
namespace Tahoe.C35
open Tahoe.Base.Merkle

variable {H : Type} [DecidableEq H]

/-- **rollback**: when `set_hashes` rejects (BadHashError / NotEnoughHashesError, and IndexError where it is
    caught) the list is exactly the input list. -/
theorem rollback (ops : HashOps H) (cfg : Cfg) (hstrict : StrictPresence ops cfg)
    (pick : List Nat → Nat) (first : Nat) (t : Tree H) (hashes leaves : List (Nat × H))
    (o : Outcome) (t' : Tree H)
    (h : setHashes ops cfg pick first t hashes leaves = (o, t')) (hne : o ≠ .ok)
    (hidx : o = .indexError → cfg.catchIndex = true) : t' = t := by
  rcases setHashes_fail h hne with ⟨_, h2⟩ | ⟨new, st, _, hres, _, ht'⟩
  · exact h2
  · have hreach := tryBody_reach (ops.withCfg cfg) pick t new
    rw [hres] at hreach
    have hinv : RollInv t st := hreach.rollInv hstrict (rollInv_init t)
    have : ¬ (o = .indexError ∧ cfg.catchIndex = false) := by
      intro ⟨e1, e2⟩; rw [hidx e1] at e2; cases e2
    rw [if_neg this] at ht'
    rw [ht']; exact rollback_spec hinv

/-- **sound**: a tree that agrees with the genuine tree `T` wherever populated and holds a root still agrees
    with `T` after a *successful* `set_hashes` with arbitrary (adversarial) hashes and leaves, for every pop
    order — given that the pair hash is collision-free. -/
theorem sound (ops : HashOps H) (cfg : Cfg) (hstrict : StrictPresence ops cfg) (hinj : PairInjective ops)
    (T t : Tree H) (hT : Genuine ops T) (hlen : t.length = T.length) (hagree : Agree t T)
    (hroot : get t 0 ≠ none)
    (pick : List Nat → Nat) (first : Nat) (hashes leaves : List (Nat × H)) (t' : Tree H)
    (h : setHashes ops cfg pick first t hashes leaves = (.ok, t')) : Agree t' T := by
  obtain ⟨new, st, _, hres, ht'⟩ := setHashes_ok h
  rw [← ht']
  exact tryBody_sound (ops := ops.withCfg cfg) hstrict hinj ⟨hT.odd, hT.full, hT.node⟩ hlen hagree hroot
    pick new hres

/-- **an accepted leaf is genuine**: under the hypotheses of `sound`, every leaf value (and every other hash)
    passed to a successful `set_hashes` equals the corresponding entry of `T`. -/
theorem accepted_leaf_genuine (ops : HashOps H) (cfg : Cfg) (hstrict : StrictPresence ops cfg)
    (hinj : PairInjective ops) (T t : Tree H) (hT : Genuine ops T) (hlen : t.length = T.length)
    (hagree : Agree t T) (hroot : get t 0 ≠ none)
    (pick : List Nat → Nat) (first : Nat) (hashes leaves : List (Nat × H)) (t' : Tree H)
    (h : setHashes ops cfg pick first t hashes leaves = (.ok, t')) :
    (∀ k v, (k, v) ∈ leaves → get T (first + k) = some v) ∧ (∀ i v, (i, v) ∈ hashes → get T i = some v) := by
  have hs := sound ops cfg hstrict hinj T t hT hlen hagree hroot pick first hashes leaves t' h
  obtain ⟨new, st, hm, hres, ht'⟩ := setHashes_ok h
  obtain ⟨m1, m2⟩ := mergeLeaves_mem first hashes leaves hm
  have hst := tryBody_stored (ops := ops.withCfg cfg) hstrict pick t new hres
  rw [ht'] at hst
  exact ⟨fun k v hk => hs _ _ (hst _ _ (m2 k v hk)), fun i v hi => hs _ _ (hst _ _ (m1 _ hi))⟩

/-- **complete**: on a tree that agrees with `T`, is closed (see `Closed`; every tree built by successful
    `set_hashes` calls is) and is at least as long as node `L = first + k` requires, supplying `T`'s values
    for (at least) every hash `needed_hashes` asks for on the chain of `L` — and nothing off that chain — plus
    `T`'s value for leaf `k` is accepted, for every pop order `pick`. -/
theorem complete (ops : HashOps H) (cfg : Cfg) (hstrict : StrictPresence ops cfg)
    (T t : Tree H) (hT : Genuine ops T) (hlen : t.length = T.length) (hagree : Agree t T)
    (hclosed : Closed t) (pick : List Nat → Nat) (first k : Nat) (hL : first + k < t.length)
    (v : H) (hv : get T (first + k) = some v) (hashes : List (Nat × H))
    (hgen : ∀ i w, (i, w) ∈ hashes → get T i = some w)
    (hkeys : ∀ i w, (i, w) ∈ hashes → i ∈ neededFor (first + k))
    (hcov : ∀ i, i ∈ neededHashes t (first + k) → ∃ w, (i, w) ∈ hashes) :
    ∃ t', setHashes ops cfg pick first t hashes [(k, v)] = (.ok, t') :=
  setHashes_complete ops cfg hstrict T t hT hlen hagree hclosed pick first k hL v hv hashes hgen hkeys hcov

/-- the `Closed` hypothesis of `complete` is an invariant: a fresh `IncompleteHashTree` is closed and every
    successful `set_hashes` keeps the tree closed (a rejected one restores it, by `rollback`). -/
theorem closed_preserved (ops : HashOps H) (cfg : Cfg) (hstrict : StrictPresence ops cfg)
    (pick : List Nat → Nat) (first : Nat) (t : Tree H) (hashes leaves : List (Nat × H)) (t' : Tree H)
    (hclosed : Closed t) (h : setHashes ops cfg pick first t hashes leaves = (.ok, t')) : Closed t' := by
  obtain ⟨new, st, _, hres, ht'⟩ := setHashes_ok h
  rw [← ht']
  exact tryBody_closed (ops := ops.withCfg cfg) hstrict pick t new hclosed hres

omit [DecidableEq H] in
theorem new_tree_closed (n : Nat) : Closed (newTree H n) := newTree_closed n

omit [DecidableEq H] in
/-- **HashTree construction**: `HashTree(L)` is a genuine Merkle tree (odd length, every node present, every
    internal node the pair hash of its children) whose bottom row, starting at `first_leaf_num`, is `L`
    followed by `empty_leaf_hash(i)` for the padding positions `len(L) ≤ i < roundup_pow2(len(L))` — so the
    `T` of `sound`/`complete` can be any tree the uploader built. -/
theorem hashtree_is_genuine (ops : HashOps H) (L : List H) :
    Genuine ops (build ops L) ∧
    (∀ k, k < L.length → Base.Merkle.get (build ops L) (firstLeafNum L.length + k) = L[k]?) ∧
    (∀ k, L.length ≤ k → k < roundupPow2 L.length →
      Base.Merkle.get (build ops L) (firstLeafNum L.length + k) = some (ops.emptyLeaf k)) :=
  ⟨build_genuine ops L, build_leaf ops L, build_padding ops L⟩

/-! ### the exits of `set_hashes`, and genuine values are never refuted -/

/-- **exits_are_named**: whatever the batch, the model of `set_hashes` ends in `ok`, BadHashError,
    NotEnoughHashesError or IndexError — never in the `internal` exit that stands for the remaining raise sites of
    the code (`pair_hash(None, …)` → TypeError, an exhausted loop). So an exception of any other type coming out of
    the real `set_hashes` is a correspondence disagreement, not a modelled behaviour. -/
theorem exits_are_named (ops : HashOps H) (cfg : Cfg) (pick : List Nat → Nat) (first : Nat) (t : Tree H)
    (hashes leaves : List (Nat × H)) :
    (setHashes ops cfg pick first t hashes leaves).1 = .ok ∨
    (setHashes ops cfg pick first t hashes leaves).1 = .badHash ∨
    (setHashes ops cfg pick first t hashes leaves).1 = .notEnough ∨
    (setHashes ops cfg pick first t hashes leaves).1 = .indexError :=
  setHashes_outcome_named ops cfg pick first t hashes leaves

/-- **every exit restores the tree** (int keys, the whole input domain): a call that does not return normally
    ends in one of the named exceptions (or the order-dependent choice among them for a red-dotted negative key)
    and the list is exactly the input list. -/
theorem every_exception_exit_restores (ops : HashOps H) (cfg : Cfg) (hstrict : StrictPresence ops cfg)
    (hcatch : cfg.catchIndex = true) (pick : List Nat → Nat) (first : Nat) (t : Tree H)
    (hashes leaves : List (Int × H)) (o : BatchOutcome) (t' : Tree H)
    (h : setHashesZ ops cfg pick first t hashes leaves = (o, t')) (hne : o ≠ .ok) :
    (o = .unvalidatable ∨ o = .err .badHash ∨ o = .err .notEnough ∨ o = .err .indexError) ∧ t' = t := by
  refine ⟨?_, setHashesZ_rollback hstrict hcatch pick first t hashes leaves h hne⟩
  have := setHashesZ_outcome_named ops cfg pick first t hashes leaves
  rw [h] at this
  rcases this with e | e
  · exact absurd e hne
  · exact e

/-- the code's `assert parent_level == level-1` (an AssertionError would bypass the rollback) can never fire -/
theorem parent_level_assertion_never_fires (i : Nat) (hi : i ≠ 0) : depthOf (parent i) = depthOf i - 1 := by
  have := depthOf_parent hi; omega

/-- **genuine_batch_never_refuted**: a batch all of whose values are the genuine tree's (any node numbers of the
    tree, on or off any chain, any number of leaves), given to a tree that agrees with `T`, is never answered with
    BadHashError or IndexError: it is accepted — and the tree still agrees with `T` — or found insufficient
    (NotEnoughHashesError). No collision-freeness, no root and no shape hypothesis is needed. -/
theorem genuine_batch_never_refuted (ops : HashOps H) (cfg : Cfg) (T t : Tree H) (hT : Genuine ops T)
    (hlen : t.length = T.length) (hagree : Agree t T) (pick : List Nat → Nat) (first : Nat)
    (hashes leaves : List (Nat × H))
    (hh : ∀ i w, (i, w) ∈ hashes → Base.Merkle.get T i = some w)
    (hl : ∀ k v, (k, v) ∈ leaves → Base.Merkle.get T (first + k) = some v) :
    ((setHashes ops cfg pick first t hashes leaves).1 = .ok ∧
        Agree (setHashes ops cfg pick first t hashes leaves).2 T) ∨
      (setHashes ops cfg pick first t hashes leaves).1 = .notEnough :=
  setHashes_genuine ops cfg hT hlen hagree pick first hashes leaves hh hl

/-- genuine values off the chain: leaf 0 of a 4-leaf tree with the genuine value of the unrelated node 5 added is
    found insufficient (node 5 has no sibling), with node 5 *and* its sibling 6 it is accepted -/
example :
    let T : Tree Sym := build symOps [Sym.atom 0, Sym.atom 1, Sym.atom 2, Sym.atom 3]
    let t : Tree Sym := Base.Merkle.get T 0 :: List.replicate 6 none
    (setHashes symOps Cfg.repaired (fun _ => 0) 3 t
      [(4, Sym.atom 1), (2, Sym.pair (Sym.atom 2) (Sym.atom 3)), (5, Sym.atom 2)] [(0, Sym.atom 0)]).1 = .notEnough ∧
    setHashes symOps Cfg.repaired (fun _ => 0) 3 t
      [(4, Sym.atom 1), (5, Sym.atom 2), (6, Sym.atom 3)] [(0, Sym.atom 0)] = (.ok, T) := by decide

/-! ### `needed_hashes`: what the tree asks for is enough, and nothing less is -/

/-- **needed_hashes_accepted**: ask `needed_hashes(k)`, answer with the genuine tree's values and the genuine
    leaf (`validateLeaf`): `set_hashes` accepts, for every pop order — on any closed tree agreeing with `T`. -/
theorem needed_hashes_accepted (ops : HashOps H) (cfg : Cfg) (hstrict : StrictPresence ops cfg)
    (T t : Tree H) (hT : Genuine ops T) (hlen : t.length = T.length) (hagree : Agree t T)
    (hclosed : Closed t) (pick : List Nat → Nat) (first k : Nat) (hL : first + k < t.length) :
    ∃ batch t', validateLeaf ops cfg pick first t T k = some (batch, .ok, t') ∧
      batch = genuineBatch T (neededHashes t (first + k)) :=
  validateLeaf_ok ops cfg hstrict T t hT hlen hagree hclosed pick first k hL

/-- … in particular for the tree `HashTree(L)` of any list of leaves (any length, so with padding), any leaf
    slot `k < roundup_pow2(len(L))` and any partial tree of the right size (e.g. a fresh
    `IncompleteHashTree(len(L))` seeded with the root, or what earlier validations left). -/
theorem needed_hashes_accepted_hashtree (ops : HashOps H) (cfg : Cfg) (hstrict : StrictPresence ops cfg)
    (L : List H) (t : Tree H) (hlen : t.length = (build ops L).length) (hagree : Agree t (build ops L))
    (hclosed : Closed t) (pick : List Nat → Nat) (k : Nat) (hk : k < roundupPow2 L.length) :
    ∃ batch t', validateLeaf ops cfg pick (firstLeafNum L.length) t (build ops L) k = some (batch, .ok, t') := by
  have hl := build_length ops L
  obtain ⟨b, t', h, _⟩ := needed_hashes_accepted ops cfg hstrict (build ops L) t (build_genuine ops L) hlen hagree
    hclosed pick (firstLeafNum L.length) k (by unfold firstLeafNum; omega)
  exact ⟨b, t', h⟩

/-- **needed_hashes_minimal**: on a tree built by successful calls (`Closed`, `SibClosed`), a batch confined to
    the chain of leaf `k` that leaves out one of the nodes `needed_hashes(k)` asks for is never accepted —
    whatever values it carries, whatever the pop order. (A node that is already known is not asked for; a batch
    may of course replace a missing node by hashes *below* it, which is why it is confined to the chain.) -/
theorem needed_hashes_minimal (ops : HashOps H) (cfg : Cfg) (hstrict : StrictPresence ops cfg)
    (t : Tree H) (hclosed : Closed t) (hsib : SibClosed t) (pick : List Nat → Nat) (first k : Nat)
    (j : Nat) (hj : j ∈ neededHashes t (first + k)) (v : H) (hashes : List (Nat × H))
    (hkeys : ∀ i w, (i, w) ∈ hashes → i ∈ neededFor (first + k)) (hdrop : ∀ w, (j, w) ∉ hashes) :
    (setHashes ops cfg pick first t hashes [(k, v)]).1 ≠ .ok :=
  setHashes_minimal ops cfg hstrict t hclosed hsib pick first k j hj v hashes hkeys hdrop

/-- `SibClosed` is an invariant (as `Closed` is) -/
theorem sib_closed_preserved (ops : HashOps H) (cfg : Cfg) (hstrict : StrictPresence ops cfg)
    (pick : List Nat → Nat) (first : Nat) (t : Tree H) (hashes leaves : List (Nat × H)) (t' : Tree H)
    (hsib : SibClosed t) (h : setHashes ops cfg pick first t hashes leaves = (.ok, t')) : SibClosed t' := by
  obtain ⟨new, st, _, hres, ht'⟩ := setHashes_ok h
  rw [← ht']
  exact tryBody_sibClosed (ops := ops.withCfg cfg) hstrict pick t new hsib hres

omit [DecidableEq H] in
theorem new_tree_sib_closed (n : Nat) : SibClosed (newTree H n) := newTree_sibClosed n

/-- leaf 2 of a 3-leaf (padded to 4) tree holding only its root: the request is `{6: e3, 1: P(a0,a1)}`; it is
    accepted; without node 1, or without node 6, it is not -/
example :
    let T : Tree Sym := build symOps [Sym.atom 0, Sym.atom 1, Sym.atom 2]
    let t : Tree Sym := [Base.Merkle.get T 0, none, none, none, none, none, none]
    (validateLeaf symOps Cfg.repaired (fun _ => 0) 3 t T 2).map (fun r => (r.1, r.2.1)) =
      some ([(6, Sym.emptyLeaf 3), (1, Sym.pair (Sym.atom 0) (Sym.atom 1))], .ok) ∧
    (setHashes symOps Cfg.repaired (fun _ => 0) 3 t [(6, Sym.emptyLeaf 3)] [(2, Sym.atom 2)]).1 = .notEnough ∧
    (setHashes symOps Cfg.repaired (fun _ => 0) 3 t [(1, Sym.pair (Sym.atom 0) (Sym.atom 1))] [(2, Sym.atom 2)]).1
      = .notEnough ∧
    Closed t ∧ SibClosed t := by
  intro T t
  have ht : t = Base.Merkle.get T 0 :: List.replicate 6 none := rfl
  refine ⟨by decide, by decide, by decide, ?_, ?_⟩
  · rw [ht]; exact (rootOnly_closed _ 6).1
  · rw [ht]; exact (rootOnly_closed _ 6).2

/-- **order_irrelevant**: whether `set_hashes` accepts does not depend on the order in which `set.pop()`
    hands out the red-dotted nodes, and when it accepts the resulting list is the same.  (When it rejects the
    list is the input list for every order, by `rollback`; only *which* of BadHashError /
    NotEnoughHashesError is raised may depend on the order.) -/
theorem order_irrelevant (ops : HashOps H) (cfg : Cfg) (hstrict : StrictPresence ops cfg)
    (pick1 pick2 : List Nat → Nat) (first : Nat) (t : Tree H) (hashes leaves : List (Nat × H)) :
    ((setHashes ops cfg pick1 first t hashes leaves).1 = .ok ↔
      (setHashes ops cfg pick2 first t hashes leaves).1 = .ok) ∧
    ((setHashes ops cfg pick1 first t hashes leaves).1 = .ok →
      setHashes ops cfg pick2 first t hashes leaves = setHashes ops cfg pick1 first t hashes leaves) := by
  have key : ∀ p1 p2 : List Nat → Nat, (setHashes ops cfg p1 first t hashes leaves).1 = .ok →
      setHashes ops cfg p2 first t hashes leaves = setHashes ops cfg p1 first t hashes leaves := by
    intro p1 p2 h
    have h' : setHashes ops cfg p1 first t hashes leaves
        = (.ok, (setHashes ops cfg p1 first t hashes leaves).2) := by
      rw [← h]
    obtain ⟨new, st, hm, hres, ht'⟩ := setHashes_ok h'
    obtain ⟨st2, h2, he⟩ := tryBody_order (ops := ops.withCfg cfg) hstrict p1 p2 t new hres
    rw [setHashes_ok_of hm h2, he, ht', ← h']
  refine ⟨⟨fun h => ?_, fun h => ?_⟩, key pick1 pick2⟩
  · rw [key pick1 pick2 h]; exact h
  · rw [key pick2 pick1 h]; exact h

/-! ### the whole input domain: batches with arbitrary Python-int keys (`setHashesZ`)

`hashes` / `leaves` may carry stray node numbers: negative ones (list indexing aliases `-len ≤ i < 0` onto real
slots, and `depth_of` files them under the deepest level, where they can never be validated), numbers `≥ len`,
nodes off the chain — in any dict order relative to forged or genuine entries. -/

/-- **rollback, any batch**: whatever int keys and values the batch holds and in whatever order, if it is not
    accepted the list is exactly the input list (repaired code: IndexError is rolled back too). -/
theorem rollback_any_batch (ops : HashOps H) (cfg : Cfg) (hstrict : StrictPresence ops cfg)
    (hcatch : cfg.catchIndex = true) (pick : List Nat → Nat) (first : Nat) (t : Tree H)
    (hashes leaves : List (Int × H)) (o : BatchOutcome) (t' : Tree H)
    (h : setHashesZ ops cfg pick first t hashes leaves = (o, t')) (hne : o ≠ .ok) : t' = t :=
  setHashesZ_rollback hstrict hcatch pick first t hashes leaves h hne

/-- **sound, any batch**: an accepted batch with arbitrary int keys keeps the tree in agreement with `T`. -/
theorem sound_any_batch (ops : HashOps H) (cfg : Cfg) (hstrict : StrictPresence ops cfg)
    (hinj : PairInjective ops) (T t : Tree H) (hT : Genuine ops T) (hlen : t.length = T.length)
    (hagree : Agree t T) (hroot : Base.Merkle.get t 0 ≠ none) (pick : List Nat → Nat) (first : Nat)
    (hashes leaves : List (Int × H)) (t' : Tree H)
    (h : setHashesZ ops cfg pick first t hashes leaves = (.ok, t')) : Agree t' T :=
  setHashesZ_sound hstrict hinj hT hlen hagree hroot pick first hashes leaves h

/-- on batches whose keys are natural numbers the int-key model is the model of the theorems above -/
theorem int_keys_conservative (ops : HashOps H) (cfg : Cfg) (pick : List Nat → Nat) (first : Nat) (t : Tree H)
    (hashes leaves : List (Nat × H)) :
    setHashesZ ops cfg pick first t (castKeys hashes) (castKeys leaves) =
      (toBatch (setHashes ops cfg pick first t hashes leaves).1, (setHashes ops cfg pick first t hashes leaves).2) :=
  setHashesZ_castKeys ops cfg pick first t hashes leaves

/-- **complete, int keys**: `complete` stated directly for a batch with Python-int keys -/
theorem complete_int_keys (ops : HashOps H) (cfg : Cfg) (hstrict : StrictPresence ops cfg)
    (T t : Tree H) (hT : Genuine ops T) (hlen : t.length = T.length) (hagree : Agree t T)
    (hclosed : Closed t) (pick : List Nat → Nat) (first k : Nat) (hL : first + k < t.length)
    (v : H) (hv : Base.Merkle.get T (first + k) = some v) (hashes : List (Int × H))
    (hgen : ∀ i w, (i, w) ∈ hashes → 0 ≤ i ∧ Base.Merkle.get T i.toNat = some w ∧ i.toNat ∈ neededFor (first + k))
    (hcov : ∀ i, i ∈ neededHashes t (first + k) → ∃ w, ((i : Int), w) ∈ hashes) :
    ∃ t', setHashesZ ops cfg pick first t hashes [((k : Int), v)] = (.ok, t') :=
  setHashesZ_complete ops cfg hstrict T t hT hlen hagree hclosed pick first k hL v hv hashes hgen hcov

/-- **order_irrelevant, int keys**: for a batch with arbitrary int keys (stray ones included) accept/reject and
    the accepted list do not depend on the pop order; a batch that is not accepted leaves the input list under
    every order (`rollback_any_batch`). -/
theorem order_irrelevant_int_keys (ops : HashOps H) (cfg : Cfg) (hstrict : StrictPresence ops cfg)
    (pick1 pick2 : List Nat → Nat) (first : Nat) (t : Tree H) (hashes leaves : List (Int × H)) :
    ((setHashesZ ops cfg pick1 first t hashes leaves).1 = .ok ↔
      (setHashesZ ops cfg pick2 first t hashes leaves).1 = .ok) ∧
    ((setHashesZ ops cfg pick1 first t hashes leaves).1 = .ok →
      setHashesZ ops cfg pick2 first t hashes leaves = setHashesZ ops cfg pick1 first t hashes leaves) := by
  refine ⟨⟨fun h => ?_, fun h => ?_⟩, setHashesZ_order hstrict pick1 pick2 first t hashes leaves⟩
  · rw [setHashesZ_order hstrict pick1 pick2 first t hashes leaves h]; exact h
  · rw [setHashesZ_order hstrict pick2 pick1 first t hashes leaves h]; exact h

/-- an int-key batch: genuine chain for leaf 0 of a 2-leaf tree, accepted under two different pop orders -/
example :
    let t : Tree Sym := [some (Sym.pair (Sym.atom 0) (Sym.atom 1)), none, none]
    setHashesZ symOps Cfg.repaired (fun _ => 1) 1 t [(2, Sym.atom 1)] [(0, Sym.atom 0)] =
      (.ok, [some (Sym.pair (Sym.atom 0) (Sym.atom 1)), some (Sym.atom 0), some (Sym.atom 1)]) ∧
    setHashesZ symOps Cfg.repaired (fun _ => 2) 1 t [(2, Sym.atom 1)] [(0, Sym.atom 0)] =
      setHashesZ symOps Cfg.repaired (fun _ => 1) 1 t [(2, Sym.atom 1)] [(0, Sym.atom 0)] := by decide

/-- stray keys on a two-leaf tree holding its root: a forged node followed by `-1` (aliases the empty last
    slot), `-1` first, a key beyond the tree, a negative key below `-len`, a negative leaf number — all
    rejected, nothing left behind; `-1` carrying the value already stored in the slot it aliases is a no-op -/
example :
    let t : Tree Sym := [some (Sym.pair (Sym.atom 0) (Sym.atom 1)), none, none]
    setHashesZ symOps Cfg.repaired (fun _ => 0) 1 t [(1, Sym.atom 1001), (-1, Sym.atom 1396)] [] = (.unvalidatable, t) ∧
    setHashesZ symOps Cfg.repaired (fun _ => 0) 1 t [(-1, Sym.atom 1396), (1, Sym.atom 1001)] [] = (.unvalidatable, t) ∧
    setHashesZ symOps Cfg.repaired (fun _ => 0) 1 t [(1, Sym.atom 1001), (3, Sym.atom 5)] [] = (.err .indexError, t) ∧
    setHashesZ symOps Cfg.repaired (fun _ => 0) 1 t [(1, Sym.atom 1001), (-4, Sym.atom 5)] [] = (.err .indexError, t) ∧
    setHashesZ symOps Cfg.repaired (fun _ => 0) 1 t [(1, Sym.atom 1001)] [(-2, Sym.atom 5)] = (.unvalidatable, t) ∧
    setHashesZ symOps Cfg.repaired (fun _ => 0) 1 t [(-3, Sym.pair (Sym.atom 0) (Sym.atom 1))] [] = (.ok, t) := by
  decide

/-! ### whole histories -/

/-- **history_invariant**: take a tree of the right size that holds the trusted root and agrees with `T`
    (`HInv`; e.g. a fresh `IncompleteHashTree` after `set_hashes({0: root})`) and run ANY history of `set_hashes`
    calls on it — arbitrary int-key batches, accepted or rejected (the caller survives the exceptions), a pop order
    of its own for every call (`runBatches`).  After every call the tree still has its size, still holds the root
    and equals `T` wherever it is populated: in particular every leaf it ever holds is the genuine leaf. -/
theorem history_invariant (ops : HashOps H) (cfg : Cfg) (hstrict : StrictPresence ops cfg)
    (hcatch : cfg.catchIndex = true) (hinj : PairInjective ops) (T : Tree H) (hT : Genuine ops T)
    (first : Nat) (t : Tree H) (hinv : HInv T t) (calls : List (Batch H)) :
    ∀ r ∈ runBatches ops cfg first t calls, HInv T r.2 :=
  runBatches_hinv hstrict hcatch hinj hT first calls t hinv

/-- a history on a two-leaf tree: forged node + stray key (rejected), the forged leaf alone (rejected), the
    genuine request (accepted); the list after each call -/
example :
    let root := Sym.pair (Sym.atom 0) (Sym.atom 1)
    let t : Tree Sym := [some root, none, none]
    runBatches symOps Cfg.repaired 1 t
      [{ pick := fun _ => 0, hashes := [(1, Sym.atom 1001), (-1, Sym.atom 1396)], leaves := [] },
       { pick := fun _ => 0, hashes := [], leaves := [(0, Sym.atom 1001)] },
       { pick := fun _ => 0, hashes := [(2, Sym.atom 1)], leaves := [(0, Sym.atom 0)] }] =
      [(.unvalidatable, t), (.err .notEnough, t), (.ok, [some root, some (Sym.atom 0), some (Sym.atom 1)])] ∧
    HInv (build symOps [Sym.atom 0, Sym.atom 1]) t := by
  refine ⟨by decide, by decide, ?_, by decide⟩
  intro j h hj
  match j with
  | 0 => have : h = Sym.pair (Sym.atom 0) (Sym.atom 1) := by simpa [Base.Merkle.get] using hj.symm
         subst this; decide
  | 1 => simp [Base.Merkle.get] at hj
  | 2 => simp [Base.Merkle.get] at hj
  | j + 3 => simp [Base.Merkle.get] at hj

/-! ### the hypotheses are satisfiable, and a concrete instance -/

/-- the symbolic pair hash is collision-free by construction -/
example : PairInjective symOps := by
  intro a b c d h
  have h' : Sym.pair a b = Sym.pair c d := h
  injection h' with h1 h2
  exact ⟨h1, h2⟩

/-- the repaired presence test is strict for every hash type, in particular with Python truthiness and `b""` -/
example : StrictPresence symOps Cfg.repaired := fun _ => rfl

/-- the code as it is has a strict presence test over non-empty byte strings (real SHA-256d outputs) -/
example : StrictPresence neBytesOps Cfg.asIs := by
  intro h
  show (h.val != []) = true
  have := h.property
  simp [this]

/-- a genuine two-leaf tree, a partial tree holding its root, and an accepted / a rejected call -/
example :
    let T : Tree Sym := build symOps [Sym.atom 0, Sym.atom 1]
    let t : Tree Sym := [some (Sym.pair (Sym.atom 0) (Sym.atom 1)), none, none]
    Genuine symOps T ∧ t.length = T.length ∧ Agree t T ∧ Base.Merkle.get t 0 ≠ none ∧ Closed t ∧
    setHashes symOps Cfg.repaired (fun _ => 0) 1 t [(2, Sym.atom 1)] [(0, Sym.atom 0)] = (.ok, T) ∧
    setHashes symOps Cfg.repaired (fun _ => 0) 1 t [(2, Sym.atom 1)] [(0, Sym.atom 7)] = (.badHash, t) := by
  intro T t
  have hT : T = [some (Sym.pair (Sym.atom 0) (Sym.atom 1)), some (Sym.atom 0), some (Sym.atom 1)] := by decide
  refine ⟨?_, by decide, ?_, by decide, ?_, by decide, by decide⟩
  · rw [hT]
    refine ⟨by decide, by decide, ?_⟩
    intro i a b h1 h2
    match i with
    | 0 =>
      simp [Base.Merkle.get] at h1 h2
      subst h1; subst h2; rfl
    | i + 1 => simp [Base.Merkle.get] at h2
  · intro j h hj
    match j with
    | 0 => rw [hT]; exact hj
    | 1 => simp [Base.Merkle.get, t] at hj
    | 2 => simp [Base.Merkle.get, t] at hj
    | j + 3 => simp [Base.Merkle.get, t] at hj
  · intro i hi h1 h2
    match i with
    | 0 => exact absurd rfl hi
    | 1 => simp [Base.Merkle.get, t] at h1
    | 2 => simp [Base.Merkle.get, t] at h1
    | i + 3 => simp [Base.Merkle.get, t] at h1

/-- `HashTree([a0, a1, a2])`: the bottom row is padded with `empty_leaf_hash(3)`, rows are flattened root first;
    `needed_hashes` of leaf 2 in a tree that only holds the root -/
example :
    build symOps [Sym.atom 0, Sym.atom 1, Sym.atom 2] =
      [some (Sym.pair (Sym.pair (Sym.atom 0) (Sym.atom 1)) (Sym.pair (Sym.atom 2) (Sym.emptyLeaf 3))),
       some (Sym.pair (Sym.atom 0) (Sym.atom 1)), some (Sym.pair (Sym.atom 2) (Sym.emptyLeaf 3)),
       some (Sym.atom 0), some (Sym.atom 1), some (Sym.atom 2), some (Sym.emptyLeaf 3)] ∧
    firstLeafNum 3 = 3 ∧
    neededHashes ([some (Sym.atom 9), none, none, none, none, none, none] : Tree Sym) 5 = [6, 1] := by decide

/-! ### the Python-truthiness corner: what goes wrong in the code as it is (`Cfg.asIs`) with `b""` -/

/-- with `if self[i]:` a one-leaf tree whose trusted root is `b""` accepts a forged leaf … -/
theorem sound_counterexample_falsy_root :
    setHashes symOps Cfg.asIs (fun _ => 0) 0 [some Sym.empty] [] [(0, Sym.atom 1000)]
      = (.ok, [some (Sym.atom 1000)]) := by decide

/-- … and a validated genuine leaf equal to `b""` is erased by a *rejected* call (the list changes) -/
theorem rollback_counterexample_falsy_leaf :
    setHashes symOps Cfg.asIs (fun _ => 0) 1
      [some (Sym.pair Sym.empty (Sym.atom 1)), some Sym.empty, some (Sym.atom 1)] [] [(0, Sym.atom 1000)]
      = (.badHash, [some (Sym.pair Sym.empty (Sym.atom 1)), none, some (Sym.atom 1)]) := by decide

/-- an out-of-range index escapes `except (BadHashError, NotEnoughHashesError)`: the unvalidated hash stays -/
theorem rollback_counterexample_index_error :
    setHashes symOps Cfg.asIs (fun _ => 0) 1 [some (Sym.atom 9), none, none] [(1, Sym.atom 1000), (100, Sym.atom 5)] []
      = (.indexError, [some (Sym.atom 9), some (Sym.atom 1000), none]) := by decide

/-- the same three calls on the repaired code -/
example :
    setHashes symOps Cfg.repaired (fun _ => 0) 0 [some Sym.empty] [] [(0, Sym.atom 1000)]
      = (.badHash, [some Sym.empty]) ∧
    setHashes symOps Cfg.repaired (fun _ => 0) 1
      [some (Sym.pair Sym.empty (Sym.atom 1)), some Sym.empty, some (Sym.atom 1)] [] [(0, Sym.atom 1000)]
      = (.badHash, [some (Sym.pair Sym.empty (Sym.atom 1)), some Sym.empty, some (Sym.atom 1)]) ∧
    setHashes symOps Cfg.repaired (fun _ => 0) 1 [some (Sym.atom 9), none, none] [(1, Sym.atom 1000), (100, Sym.atom 5)] []
      = (.indexError, [some (Sym.atom 9), none, none]) := by decide

end Tahoe.C35
