import Tahoe.Base.LemmasMerkleSound
/-! C35 — Merkle hash trees accept only genuine leaves (hashtree.py `IncompleteHashTree.set_hashes`).

Vocabulary (Tahoe/Base/Merkle.lean): `Genuine ops T` — `T` is a fully populated Merkle tree; `Agree t T` — the
partial tree `t` equals `T` wherever populated; `PairInjective ops` — the pair hash is collision-free;
`StrictPresence ops cfg` — the `if self[i]:` test never takes a stored hash for `None` (the repaired code, or
the code as it is over hashes that are never `b""`); `pick` — the order in which `set.pop()` hands out the
red-dotted nodes of a level (any function). Helper lemmas: Tahoe/Base/LemmasMerkle*.lean. -/
namespace Tahoe.C35
open Tahoe.Base.Merkle

variable {H : Type} [DecidableEq H]

/-- **rollback**: when `set_hashes` rejects (BadHashError / NotEnoughHashesError, and IndexError where it is
    caught) the list is exactly the input list. -/
theorem rollback (ops : HashOps H) (cfg : Cfg) (hstrict : StrictPresence ops cfg)
    (pick : List Nat → Nat) (first : Nat) (t : Tree H) (hashes leaves : List (Nat × H))
    (o : Outcome) (t' : Tree H)
    (h : setHashes ops cfg pick first t hashes leaves = (o, t')) (hne : o ≠ .ok)
    (hidx : o = .indexError → cfg.catchIndex = true) : t' = t := by
  unfold setHashes at h
  cases hm : mergeLeaves first hashes leaves with
  | none => rw [hm] at h; injection h with h1 h2; exact h2.symm
  | some new =>
    rw [hm] at h
    have hreach := tryBody_reach (ops.withCfg cfg) pick t new
    cases hres : tryBody (ops.withCfg cfg) pick t new with
    | ok st => rw [hres] at h; injection h with h1 h2; exact absurd h1.symm hne
    | error e =>
      obtain ⟨o', st⟩ := e
      rw [hres] at h hreach
      have hcls := tryBody_no_internal (ops.withCfg cfg) pick t new hres
      have hinv : RollInv t st := hreach.rollInv hstrict (rollInv_init t)
      simp only at h
      by_cases hc : o' = .badHash ∨ o' = .notEnough ∨ (o' = .indexError ∧ cfg.catchIndex = true)
      · rw [if_pos hc] at h
        injection h with h1 h2
        rw [← h2]; exact rollback_spec hinv
      · rw [if_neg hc] at h
        injection h with h1 h2
        subst h1
        exfalso; apply hc
        cases hcls with
        | inl e => exact Or.inl e
        | inr e =>
          cases e with
          | inl e => exact Or.inr (Or.inl e)
          | inr e => exact Or.inr (Or.inr ⟨e, hidx e⟩)

/-- **sound**: a tree that agrees with the genuine tree `T` wherever populated and holds a root still agrees
    with `T` after a *successful* `set_hashes` with arbitrary (adversarial) hashes and leaves, for every pop
    order — given that the pair hash is collision-free. -/
theorem sound (ops : HashOps H) (cfg : Cfg) (hstrict : StrictPresence ops cfg) (hinj : PairInjective ops)
    (T t : Tree H) (hT : Genuine ops T) (hlen : t.length = T.length) (hagree : Agree t T)
    (hroot : get t 0 ≠ none)
    (pick : List Nat → Nat) (first : Nat) (hashes leaves : List (Nat × H)) (t' : Tree H)
    (h : setHashes ops cfg pick first t hashes leaves = (.ok, t')) : Agree t' T := by
  unfold setHashes at h
  cases hm : mergeLeaves first hashes leaves with
  | none => rw [hm] at h; injection h with h1 h2; cases h1
  | some new =>
    rw [hm] at h
    cases hres : tryBody (ops.withCfg cfg) pick t new with
    | ok st =>
      rw [hres] at h; injection h with h1 h2; subst h2
      exact tryBody_sound (ops := ops.withCfg cfg) hstrict hinj ⟨hT.odd, hT.full, hT.node⟩ hlen hagree hroot
        pick new hres
    | error e =>
      obtain ⟨o', st⟩ := e
      rw [hres] at h
      have hcls := tryBody_no_internal (ops.withCfg cfg) pick t new hres
      simp only at h
      split at h <;> (injection h with h1 h2; subst h1; simp at hcls)

/-- **an accepted leaf is genuine**: under the hypotheses of `sound`, every leaf value (and every other hash)
    passed to a successful `set_hashes` equals the corresponding entry of `T`. -/
theorem accepted_leaf_genuine (ops : HashOps H) (cfg : Cfg) (hstrict : StrictPresence ops cfg)
    (hinj : PairInjective ops) (T t : Tree H) (hT : Genuine ops T) (hlen : t.length = T.length)
    (hagree : Agree t T) (hroot : get t 0 ≠ none)
    (pick : List Nat → Nat) (first : Nat) (hashes leaves : List (Nat × H)) (t' : Tree H)
    (h : setHashes ops cfg pick first t hashes leaves = (.ok, t')) :
    (∀ k v, (k, v) ∈ leaves → get T (first + k) = some v) ∧ (∀ i v, (i, v) ∈ hashes → get T i = some v) := by
  have hs := sound ops cfg hstrict hinj T t hT hlen hagree hroot pick first hashes leaves t' h
  unfold setHashes at h
  cases hm : mergeLeaves first hashes leaves with
  | none => rw [hm] at h; injection h with h1 h2; cases h1
  | some new =>
    rw [hm] at h
    obtain ⟨m1, m2⟩ := mergeLeaves_mem first hashes leaves hm
    cases hres : tryBody (ops.withCfg cfg) pick t new with
    | ok st =>
      rw [hres] at h; injection h with h1 h2; subst h2
      have hst := tryBody_stored (ops := ops.withCfg cfg) hstrict pick t new hres
      exact ⟨fun k v hk => hs _ _ (hst _ _ (m2 k v hk)), fun i v hi => hs _ _ (hst _ _ (m1 _ hi))⟩
    | error e =>
      obtain ⟨o', st⟩ := e
      rw [hres] at h
      have hcls := tryBody_no_internal (ops.withCfg cfg) pick t new hres
      simp only at h
      split at h <;> (injection h with h1 h2; subst h1; simp at hcls)

end Tahoe.C35
