import Tahoe.Happiness.Flow
/-! C08 — happiness value equals a maximum server/share matching (placeholder while proofs are built). -/
namespace Tahoe.C08
open Tahoe.Happiness

/-- test: the docstring example of `servers_of_happiness` -/
theorem docstring_example :
    serversOfHappiness [(1, [1]), (2, [1, 5]), (3, [1, 3]), (4, [1, 4]), (6, [2])] = 5 := by decide

end Tahoe.C08
