import Tahoe.Happiness.LemmasBrute
import Tahoe.Happiness.LemmasMerge
/-!
C08 — the happiness value equals the size of a maximum server/share matching.

Model: `Tahoe/Happiness/{Graph,Flow}.lean` (transcription of `util/happinessutil.py` and of the flow
code of `immutable/happiness_upload.py`: re-indexing, adjacency lists, BFS with colour / predecessor
/ distance arrays and a FIFO queue, 0/±1 flow matrix, residual network rebuilt every round; the
`while` loops run on fuel `len(graph)`, which the lemmas show is never exhausted; `mergeServers`,
`sharesByServer` and `effectiveHappiness`, the uploader's per-round happiness test).

`rel m` is the list of (server, share) pairs of the sharemap `m`; `IsMatching E M` says `M` is a
list of edges of `E` no two of which share a server or a share; `IsMaxMatchingSize E k` says some
matching has `k` edges and none has more; `maxMatchingBrute E` is the executable maximum over all
sublists of `E`.  A sharemap is a list of `(share, list of servers)`: *any* list, so every theorem
holds for every insertion order of the dict and every iteration order of its sets.
Helper lemmas: `Tahoe/Happiness/Lemmas*.lean` (loop invariant "the flow matrix is the indicator of
a matching", BFS soundness/completeness, alternating-path augmentation, König cover argument,
`LemmasMerge.lean` for the callers).  No `_partial` theorem.

## Coverage of the statement

| clause of the statement | theorem(s) over the model |
|---|---|
| "the servers-of-happiness value computed for any mapping from share numbers to sets of servers … equals the size of a maximum matching between servers and the shares they hold" | `soh_eq_maxMatching` (= exhaustive maximum over edge subsets injective in both coordinates), `soh_is_maxMatchingSize` (attained, and an upper bound of every matching); ingredients exported: `loop_exit_no_augmenting_path`, `bfs_sound_complete`, `soh_of_servermap` |
| "(used for upload decisions …)": `upload.py` computes `servers_of_happiness(merge_servers(peer_selector.get_sharemap_of_preexisting_shares(), use_trackers))` after every allocation round and for the verdict | model `effectiveHappiness`; `upload_effective_happiness` (= maximum matching number of "server holds an existing share or has allocated a bucket for it"), with `merge_servers_relation`, `soh_of_merged`, `shares_by_server_converse` |
| "(… and in check results)": `immutable/filenode.py` (`_gather_repair_results`: union of the check and upload sharemaps) and `mutable/checker.py` (sharemap keyed by `"<version>-sh<n>"`) build a `DictOfSets` and pass it to `servers_of_happiness` | the value of whatever map they pass is covered by `soh_eq_maxMatching`; how those two call sites build their maps is **not covered** (not modelled; outside util/happinessutil.py) |
| "it does not depend on the iteration order of the mapping" | `soh_order_independent` (same pairs ⇒ same value, for any order and multiplicity), and every theorem above quantifies over all list presentations |

Nothing of the statement is "correspondence only"; the tie of the model to the code is the trace
comparison in `harness/props/c08.py` (flow network, every residual network, BFS table, path, value).
-/
namespace Tahoe.C08
open Tahoe.Happiness

/-- the computed value is a natural number `k` such that some matching of the server/share
relation has `k` edges and no matching has more -/
theorem soh_is_maxMatchingSize (m : SetMap) :
    0 ≤ serversOfHappiness m ∧ IsMaxMatchingSize (rel m) (serversOfHappiness m).toNat := by
  obtain ⟨k, h1, h2⟩ := serversOfHappiness_spec m
  rw [h1]
  exact ⟨by omega, by simpa using h2⟩

example : IsMatching (rel [(1, [1]), (2, [1, 5]), (3, [1, 3])]) [(1, 1), (5, 2), (3, 3)] := by
  refine ⟨by decide, ?_⟩
  simp only [List.pairwise_cons, List.Pairwise.nil]
  decide

/-- `servers_of_happiness(m)` = maximum matching number of the server/share relation of `m`,
for every finite relation (the maximum taken by exhaustive search over all edge subsets) -/
theorem soh_eq_maxMatching (m : SetMap) :
    serversOfHappiness m = (maxMatchingBrute (rel m) : Int) := by
  obtain ⟨k, h1, h2⟩ := serversOfHappiness_spec m
  rw [h1, isMaxMatchingSize_unique h2 (maxMatchingBrute_spec (rel m))]

example : serversOfHappiness [(1, [1]), (2, [1, 5]), (3, [1, 3]), (4, [1, 4]), (6, [2])] = 5 ∧
    maxMatchingBrute (rel [(1, [1]), (2, [1, 5]), (3, [1, 3]), (4, [1, 4]), (6, [2])]) = 5 := by
  decide +kernel

/-- the value depends only on the relation, not on the order (or multiplicity) in which the dict
and its sets present it -/
theorem soh_order_independent (m m' : SetMap) (h : ∀ e, e ∈ rel m ↔ e ∈ rel m') :
    serversOfHappiness m = serversOfHappiness m' := by
  obtain ⟨k, h1, h2⟩ := serversOfHappiness_spec m
  obtain ⟨k', h1', h2'⟩ := serversOfHappiness_spec m'
  rw [h1, h1', isMaxMatchingSize_unique ((isMaxMatchingSize_congr h k).mp h2) h2']

example : (∀ e, e ∈ rel [(0, [1, 2]), (1, [2])] ↔ e ∈ rel [(1, [2]), (0, [2, 1])]) := by
  intro e; simp [rel]; grind

/-- the same for the part of `servers_of_happiness` after `shares_by_server`, with the dict of
servers in any order and every share set in any order -/
theorem soh_of_servermap (sm : SetMap) (hk : (sm.map (·.1)).Nodup) (hr : ∀ e ∈ sm, e.2.Nodup) :
    sohOfServermap sm = (maxMatchingBrute (relOfServermap sm) : Int) := by
  obtain ⟨k, h1, h2⟩ := sohOfServermap_spec sm hk hr
  rw [h1, isMaxMatchingSize_unique h2 (maxMatchingBrute_spec _)]

example : ([(7, [3, 1]), (2, [1])].map (·.1)).Nodup ∧ ∀ e ∈ [(7, [3, 1]), (2, [1])], e.2.Nodup := by
  decide

/-- `shares_by_server` returns the converse relation as a well-formed dict: distinct servers,
duplicate-free share sets, exactly the pairs of the argument -/
theorem shares_by_server_converse (m : SetMap) :
    ((sharesByServer m).map (·.1)).Nodup ∧ (∀ e ∈ sharesByServer m, e.2.Nodup) ∧
    ∀ e, e ∈ relOfServermap (sharesByServer m) ↔ e ∈ rel m := by
  obtain ⟨h1, h2⟩ := sharesByServer_spec m
  exact ⟨h1.1, fun e he => nodup_of_sorted _ (h1.2 e he), h2⟩

example : sharesByServer [(0, [2, 1]), (1, [2])] = [(2, [0, 1]), (1, [0])] := by decide

/-- `merge_servers(servermap, upload_trackers)` relates exactly the (server, share) pairs of the
servermap and, for every tracker `(serverid, buckets)`, the server with each of its buckets -/
theorem merge_servers_relation (m trackers : SetMap) (p s : Nat) :
    (p, s) ∈ rel (mergeServers m trackers) ↔ (p, s) ∈ rel m ∨ ∃ t ∈ trackers, t.1 = p ∧ s ∈ t.2 :=
  mergeServers_rel m trackers p s

example : mergeServers [(0, [1])] [(2, [0, 3])] = [(0, [1, 2]), (3, [2])] := by decide

/-- the happiness the uploader computes after a round, `servers_of_happiness(merge_servers(m, t))`,
is the maximum matching number of the union of the existing pairs and the trackers' pairs -/
theorem soh_of_merged (m trackers : SetMap) (E : List (Nat × Nat))
    (hE : ∀ p s, (p, s) ∈ E ↔ (p, s) ∈ rel m ∨ ∃ t ∈ trackers, t.1 = p ∧ s ∈ t.2) :
    serversOfHappiness (mergeServers m trackers) = (maxMatchingBrute E : Int) := by
  obtain ⟨k, h1, h2⟩ := serversOfHappiness_spec (mergeServers m trackers)
  have hcongr : ∀ e, e ∈ rel (mergeServers m trackers) ↔ e ∈ E := by
    intro e; obtain ⟨p, s⟩ := e
    rw [mergeServers_rel, hE]
  rw [h1, isMaxMatchingSize_unique ((isMaxMatchingSize_congr hcongr k).mp h2) (maxMatchingBrute_spec E)]

example : serversOfHappiness (mergeServers [(0, [1])] [(2, [0, 3])]) = 2 ∧
    maxMatchingBrute [(1, 0), (2, 0), (2, 3)] = 2 := by decide +kernel

/-- **upload_effective_happiness**: the uploader's happiness test after a round -- existing shares as
the selector recorded them, merged with the buckets the trackers have allocated -- is the maximum
matching number of the relation "server holds an existing share, or has a bucket for it" -/
theorem upload_effective_happiness (existing trackers : SetMap) (E : List (Nat × Nat))
    (hE : ∀ p s, (p, s) ∈ E ↔ (p, s) ∈ relOfServermap existing ∨ ∃ t ∈ trackers, t.1 = p ∧ s ∈ t.2) :
    effectiveHappiness existing trackers = (maxMatchingBrute E : Int) := by
  unfold effectiveHappiness
  apply soh_of_merged
  intro p s
  rw [hE, preexisting_rel]

/-- server 0 holds share 0, server 1 holds shares 0 and 1, a tracker for server 2 has bucket 1:
three servers, two shares, happiness 2 -/
example : effectiveHappiness [(0, [0]), (1, [0, 1])] [(2, [1])] = 2 ∧
    maxMatchingBrute [(0, 0), (1, 0), (1, 1), (2, 1)] = 2 := by decide +kernel

/-- the loop exits because `augmenting_path_for` returned `False`, never because the fuel
`len(graph)` ran out; at that point the flow matrix is the indicator of a matching `M` of the
network's server/share edges, the returned sum is `|M|`, and no matching is larger -/
theorem loop_exit_no_augmenting_path (g : Graph) (n s : Nat) (hL : Layered g n s) :
    ∃ M, FlowInv g n s none (maxFlowOuter g).1 M ∧ flowValue (maxFlowOuter g).1 n = M.length ∧
      augmentingPathFor (maxFlowOuter g).2.1 = none ∧
      ∀ M' : List (Nat × Nat), Matching M' →
        (∀ e ∈ M', 1 ≤ e.1 ∧ e.1 ≤ n ∧ e.2 ∈ adj g e.1) → M'.length ≤ M.length :=
  maxFlowOuter_spec hL

/-- `bfs` is sound and complete: after the run every vertex reachable from a reached vertex is
reached, predecessors are edges with distance one less, and the `while queue` loop ended because
the queue was empty (fuel `len(graph)` suffices) -/
theorem bfs_sound_complete (g : Graph) (s : Nat) (hr : InRange g) (hs : s < g.length) :
    BfsSpec g s (bfsRun g s) := bfsRun_spec g s hr hs

example : InRange [[1, 2], [2], []] ∧ 0 < [[1, 2], [2], ([] : List Nat)].length := by
  refine ⟨?_, by decide⟩
  intro u v h
  have hu := lt_of_mem_adj h
  simp only [List.length_cons, List.length_nil] at hu ⊢
  have : u = 0 ∨ u = 1 ∨ u = 2 := by omega
  rcases this with rfl | rfl | rfl <;> simp [adj] at h <;> omega

end Tahoe.C08
