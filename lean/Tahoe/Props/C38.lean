import Tahoe.Base.NetstringCanon
import Tahoe.Base.Base32Lemmas
import Tahoe.Base.Base62Lemmas
import Tahoe.Base.Struct
import Tahoe.Codec.LemmasUebCanon
import Tahoe.Codec.LemmasUtf8
import Tahoe.Codec.LemmasHeaders
/-!
C38 — on-disk and wire encodings round-trip (property theorems; the models and helper lemmas live in
`Tahoe/Base/*` and `Tahoe/Codec/*`).

## Coverage of the statement

Statement (properties.jsonl): "Base32, base62, netstrings, URI extension blocks, lease records and share
headers decode back to exactly the values that were encoded.  Malformed encodings are rejected rather
than silently read as a different value."  Clause by clause, for the models (each model function is
tied to the Python function by `harness/props/c38.py`, including exception kinds):

| clause | theorems |
|---|---|
| base32 decodes back                    | `base32_decode_encode` |
| base62 decodes back                    | `base62_decode_encode`, `base62_lengths` |
| netstrings decode back                 | `netstring_decode_encode`, `netstring_split_concat`, `decimal_roundtrip_and_canonical` |
| URI extension blocks decode back       | `ueb_decode_encode` (as packed: sorted), `ueb_decode_entries` (any order) |
| lease records decode back              | `lease_immutable_decode_encode`, `lease_mutable_decode_encode`, `lease_v2_decode_encode` (hashed secrets; hash = injective hypothesis), `lease_renew_roundtrip`, `lease_renew_roundtrip_mutable` (values the code produces itself) |
| share headers decode back              | `immutable_header_decode_encode`, `immutable_header_known_versions` (v1, v2), `mutable_header_decode_encode` (v1, v2), `mutable_header_fields` (data length / extra-lease offset / count read at fixed offsets) |
| integer / fixed-width fields           | `be_decode_encode`, `be_canonical`, `struct_decode_encode`, `struct_canonical`; out of range: `be_out_of_range_wraps`, `lease_out_of_range_rejected` |
| malformed base32 rejected              | `base32_exact` (decoder accepts exactly the image of the encoder), `base32_canonical` |
| malformed base62 rejected              | `base62_exact`, `base62_canonical` |
| malformed netstrings rejected          | `netstring_exact`, `netstring_canonical`, `netstring_split_canonical`, `netstring_split_canonical_trailer` (whole `split_netstring`), `netstring_prefix_free`, `netstring_concat_unique` |
| malformed URI extension blocks rejected| `utf8_accept_exact` (key bytes accepted iff they are the UTF-8 encoding of a string), `ueb_exact` (accepts exactly concatenations of canonical entries with distinct, colon-free, UTF-8 keys and well-typed values — in particular no trailing bytes, no block cut inside an entry), `ueb_canonical_pack` |
| malformed lease records rejected       | `lease_immutable_exact`, `lease_mutable_exact`, `lease_immutable_canonical`, `lease_mutable_canonical` |
| malformed share headers rejected       | `immutable_header_canonical` (+ `readImmHeader = none ↔ < 12 bytes`), `mutable_header_canonical`, `mutable_magic_exact`, `mutable_header_accepted_iff` (accepted iff the full 32-byte magic is one of the schemas'), `mutable_header_rejects_malformed` |
| constants are the documented ones      | `base32_alphabet_pinned`, `base32_length_tables_pinned`, `base62_alphabet_pinned`, `struct_formats_pinned`, `record_sizes_pinned`, `mutable_magic_pinned` |

Where the statement is silent and nothing is claimed: the UEB decoder does not enforce key *order* nor the
key pattern `[a-zA-Z_\-]+` (`ueb_exact` says precisely what it does enforce); the immutable header's
second field is documented as unused and is saturated (`immutable_header_saturates`); `struct`'s `Ns`
fields pad/truncate secrets of the wrong length, which is why every round trip carries the length guard
(example after `lease_immutable_exact`).  UTF-8 validity of UEB keys (`str(key, "utf-8")`) is no longer
correspondence only: `utf8_accept_exact` proves the model's check accepts exactly the image of the UTF-8
encoder.  Still correspondence only (no theorem): Python's `int()` model `pyInt` and the `asIs` decoder
variants (not in the code any more — kept as documentation of the four repaired defects; each has a
`…_asis_counterexample`), and the `blake2b` hash (an injectivity hypothesis in `lease_v2_decode_encode`).

As built: /repo contains the four repairs `fixes/C38-*.diff` (base32 trailing bits, netstring length,
base62 canonical check, UEB strict unpack), so the real decoders are the checked ones (`strictLen`, slack 0,
`a2bStrict`, `Ueb.strict`) and the driver compares those.  In the model files and the driver, "the code as it
is" / mode `p` means the code *before* these repairs.  Those pre-repair decoders (`Netstring.split pyLen`,
`Base32.a2b 1`, `Base62.a2b`, `Ueb.unpack asIs`) are modelled too; for each leniency a
`…_asis_counterexample` shows by evaluation the malformed input it accepted, next to the fact that the
checked decoder rejects the same input.
-/
namespace Tahoe.C38
open Tahoe.Base Tahoe.Base.Bytes Tahoe.Codec
open Tahoe.Generated.Encodings

/-! ### constants extracted from the source are the documented ones -/

theorem base32_alphabet_pinned : base32_chars = Base32.alphabet ∧ base32_chars.length = 32 := by decide

theorem base32_length_tables_pinned :
    base32_NUM_OS_TO_NUM_QS = (List.range 5).map Base32.numQuintets ∧
    ((List.range 8).filter Base32.legitLen).map (fun q => base32_NUM_QS_TO_NUM_OS.getD q 99)
      = ((List.range 8).filter Base32.legitLen).map Base32.numOctets ∧
    base32_NUM_QS_LEGIT = (List.range 8).map (fun q => if Base32.legitLen q then 1 else 0) := by decide

theorem base62_alphabet_pinned : base62_chars = Base62.alphabet ∧ base62_chars.length = 62 := by decide

theorem struct_formats_pinned :
    Struct.parseFormat lease_IMMUTABLE_FORMAT = some Records.immLeaseFields ∧
    Struct.parseFormat lease_MUTABLE_FORMAT = some Records.mutLeaseFields ∧
    Struct.parseFormat imm_HEADER_FORMAT = some Records.immHeaderFields ∧
    Struct.parseFormat mut_HEADER_FORMAT = some Records.mutHeaderFields ∧
    Struct.parseFormat mut_HEADER_PACK_FORMAT = some Records.mutHeaderFields := by decide

theorem record_sizes_pinned :
    Struct.size Records.immLeaseFields = 72 ∧ lease_IMMUTABLE_FORMAT_size = 72 ∧ imm_LEASE_SIZE = 72 ∧
    Struct.size Records.mutLeaseFields = 92 ∧ lease_MUTABLE_FORMAT_size = 92 ∧ mut_LEASE_SIZE = 92 ∧
    Struct.size Records.immHeaderFields = 12 ∧ imm_HEADER_FORMAT_size = 12 ∧
    Struct.size Records.mutHeaderFields = 100 ∧ mut_HEADER_SIZE = 100 ∧
    mut_DATA_LENGTH_OFFSET = 84 ∧ mut_EXTRA_LEASE_OFFSET_FIELD = 92 ∧
    mut_EXTRA_LEASE_OFFSET_VALUE = 100 + 4 * 92 ∧
    imm_SCHEMA_VERSIONS = [1, 2] ∧ mut_SCHEMA_VERSIONS = [1, 2] := by decide

/-! ### big-endian integers and `struct` records -/

/-- `struct.unpack(">L", struct.pack(">L", n)) = n` for `n < 2^32`, likewise `>Q` for `n < 2^64` -/
theorem be_decode_encode (w n : Nat) (h : n < 256 ^ w) : beVal (be w n) = n ∧ (be w n).length = w :=
  ⟨beVal_be h, length_be w n⟩

example : beVal (be 4 4294967295) = 4294967295 ∧ beVal (be 8 (2 ^ 64 - 1)) = 2 ^ 64 - 1 := by decide

/-- every `w`-byte string is the encoding of its value: fixed-width integers are canonical -/
theorem be_canonical (b : Bytes) : be b.length (beVal b) = b ∧ beVal b < 256 ^ b.length :=
  ⟨be_beVal b, beVal_lt b⟩

example : be 4 (beVal [0, 0, 1, 2]) = [0, 0, 1, 2] := by decide

/-- outside the guard the value is silently reduced (which is why `struct.pack` range-checks: `packU`) -/
theorem be_out_of_range_wraps (w n : Nat) : beVal (be w n) = n % 256 ^ w := beVal_be_mod w n

example : Bytes.packU 4 4294967296 = none ∧ Bytes.packU 4 (-1) = none ∧ (Bytes.packU 4 4294967295).isSome := by
  decide

/-- **struct round trip**: values in range pack, and unpack to themselves -/
theorem struct_decode_encode (fs : List Struct.Field) (vs : List Struct.Value) (h : Struct.FitsAll fs vs) :
    ∃ b, Struct.pack fs vs = some b ∧ b.length = Struct.size fs ∧ Struct.unpack fs b = some vs := by
  obtain ⟨b, h1, h2⟩ := Struct.unpack_pack fs vs h
  exact ⟨b, h1, Struct.pack_length h1, h2⟩

example : Struct.FitsAll [.u 4, .s 2] [.int 7, .bytes [1, 2]] := by decide

/-- **struct canonicity and strictness**: only buffers of exactly `calcsize` bytes unpack, and what
    unpacks re-packs to the same bytes -/
theorem struct_canonical (fs : List Struct.Field) (b : Bytes) :
    (∀ vs, Struct.unpack fs b = some vs → Struct.pack fs vs = some b ∧ Struct.FitsAll fs vs) ∧
    (Struct.unpack fs b = none ↔ b.length ≠ Struct.size fs) :=
  ⟨fun vs h => Struct.pack_unpack fs b vs h, Struct.unpack_eq_none_iff fs b⟩

example : Struct.unpack [.u 2, .s 1] [1, 2, 3] = some [.int 258, .bytes [3]] ∧
    Struct.unpack [.u 2, .s 1] [1, 2] = none := by decide

/-! ### netstrings -/

/-- **decode ∘ encode**: a netstring followed by anything is read back, leaving the remainder -/
theorem netstring_decode_encode (s rest : Bytes) :
    Netstring.parseOne Netstring.strictLen (Netstring.enc s ++ rest) = .ok (s, rest) :=
  Netstring.parseOne_enc s rest

example : Netstring.enc [97, 98, 99] = [51, 58, 97, 98, 99, 44] := by decide

/-- **canonicity**: the checked decoder reads `s` (leaving `rest`) only from `netstring(s) ++ rest` -/
theorem netstring_canonical (x s rest : Bytes)
    (h : Netstring.parseOne Netstring.strictLen x = .ok (s, rest)) : x = Netstring.enc s ++ rest :=
  Netstring.enc_of_parseOne h

example : Netstring.parseOne Netstring.strictLen [51, 58, 97, 98, 99, 44, 120] = .ok ([97, 98, 99], [120]) := by
  decide

/-- **prefix-freeness / unique decodability from the front** -/
theorem netstring_prefix_free (a b x y : Bytes) (h : Netstring.enc a ++ x = Netstring.enc b ++ y) :
    a = b ∧ x = y :=
  Netstring.enc_append_inj h

/-- **unique decodability of concatenations** (what the tagged-hash and dirnode encodings rely on) -/
theorem netstring_concat_unique (xs ys : List Bytes)
    (h : (xs.map Netstring.enc).flatten = (ys.map Netstring.enc).flatten) : xs = ys :=
  Netstring.concat_enc_inj xs ys h

example : ([[1], []].map Netstring.enc).flatten ≠ ([[], [1]].map Netstring.enc).flatten := by decide

/-- **`split_netstring` round trip**: `k ≥ 1` netstrings followed by any tail are read back exactly and
    the returned position is where the tail starts -/
theorem netstring_split_concat (ss : List Bytes) (tail : Bytes) (h : ss ≠ []) :
    Netstring.split Netstring.strictLen ((ss.map Netstring.enc).flatten ++ tail) ss.length 0 none
      = .ok (ss, ((ss.map Netstring.enc).flatten).length) :=
  Netstring.split_concat ss tail h

/-- **exactness**: one netstring is accepted exactly when the input is its encoding followed by the rest -/
theorem netstring_exact (x s rest : Bytes) :
    Netstring.parseOne Netstring.strictLen x = .ok (s, rest) ↔ x = Netstring.enc s ++ rest :=
  Netstring.parseOne_iff x s rest

/-- **canonicity of the whole `split_netstring`** (no trailer): whatever it accepts is, from `position`
    on, the concatenation of the encodings of the returned elements; the returned position is just past
    them; at least `numstrings` elements were read -/
theorem netstring_split_canonical (data : Bytes) (n p pos : Nat) (els : List Bytes)
    (h : Netstring.split Netstring.strictLen data n p none = .ok (els, pos)) (hp : p ≤ data.length) :
    data.drop p = (els.map Netstring.enc).flatten ++ data.drop pos ∧
      pos = p + ((els.map Netstring.enc).flatten).length ∧ n ≤ els.length :=
  Netstring.split_canonical_none h hp

example : Netstring.split Netstring.strictLen [120, 49, 58, 97, 44, 48, 58, 44, 121] 2 1 none
    = .ok ([[97], []], 8) := by decide

/-- … and with `required_trailer`: nothing but the trailer may follow the last element -/
theorem netstring_split_canonical_trailer (data t : Bytes) (n p pos : Nat) (els : List Bytes)
    (h : Netstring.split Netstring.strictLen data n p (some t) = .ok (els, pos)) :
    p ≤ data.length ∧ data.drop p = (els.map Netstring.enc).flatten ++ t ∧ pos = data.length ∧
      n ≤ els.length :=
  Netstring.split_canonical_trailer h

example : Netstring.split Netstring.strictLen [49, 58, 97, 44, 122] 1 0 (some [122]) = .ok ([[97]], 5) ∧
    Netstring.split Netstring.strictLen [49, 58, 97, 44, 122, 122] 1 0 (some [122]) = .error .value :=
  ⟨by decide, by decide⟩

/-- the decimal length field: printing then strict parsing is the identity, and the strict parser
    accepts only what the printer produces -/
theorem decimal_roundtrip_and_canonical (n : Nat) (ds : Bytes) :
    Netstring.parseDecStrict (Netstring.toDec n) = some n ∧
    (Netstring.parseDecStrict ds = some n → Netstring.toDec n = ds) :=
  ⟨Netstring.parseDecStrict_toDec n, Netstring.toDec_of_parseDecStrict⟩

/-- The decoder that hands the length field to `int()` (the code before the fix
    `fixes/C38-netstring-strict-length.diff`) accepts `b"03:abc,+2:de,"` and reads `[abc, de]` from it,
    although that is not the encoding of `[abc, de]`; the checked decoder rejects it. -/
theorem netstring_asis_counterexample :
    let x : Bytes := [48, 51, 58, 97, 98, 99, 44, 43, 50, 58, 100, 101, 44]        -- b"03:abc,+2:de,"
    Netstring.split Netstring.pyLen x 2 0 none = .ok ([[97, 98, 99], [100, 101]], 13) ∧
    ([[97, 98, 99], [100, 101]].map Netstring.enc).flatten ≠ x ∧
    Netstring.split Netstring.strictLen x 2 0 none = .error .value := by decide

/-! ### base32 -/

/-- **decode ∘ encode** -/
theorem base32_decode_encode (os : Bytes) : Base32.a2b 0 (Base32.b2a os) = some os :=
  Base32.a2b_b2a os

example : Base32.b2a [104, 105] = [110, 98, 117, 113] := by decide      -- b2a(b"hi") = b"nbuq"

/-- **canonicity**: with the corrected trailing-bits table, `a2b` accepts exactly the outputs of `b2a` -/
theorem base32_canonical (cs os : Bytes) (h : Base32.a2b 0 cs = some os) : Base32.b2a os = cs :=
  Base32.b2a_of_a2b h

example : Base32.a2b 0 [110, 98, 117, 113] = some [104, 105] := by decide

/-- **exactness**: the corrected decoder accepts exactly the image of the encoder -/
theorem base32_exact (cs os : Bytes) : Base32.a2b 0 cs = some os ↔ cs = Base32.b2a os :=
  ⟨fun h => (Base32.b2a_of_a2b h).symm, fun h => h ▸ Base32.a2b_b2a os⟩

-- wrong length class, non-alphabet character, non-zero padding bits: all rejected
example : Base32.a2b 0 [97] = none ∧ Base32.a2b 0 [97, 65] = none ∧ Base32.a2b 0 [97, 98] = none := by decide

/-- The table `s8` as the code built it before the repair (`4-(bits%5)`, one bit short) let `a2b(b"ac")` through and
    reads it as `b"\x00"`, whose encoding is `b"aa"`; with `5-(bits%5)`
    (`fixes/C38-base32-trailing-bits.diff`) it is rejected. -/
theorem base32_asis_counterexample :
    Base32.a2b 1 [97, 99] = some [0] ∧ Base32.b2a [0] = [97, 97] ∧ Base32.a2b 0 [97, 99] = none := by decide

/-! ### base62 -/

/-- **decode ∘ encode** (already true of the unchecked `a2b`) -/
theorem base62_decode_encode (os : Bytes) :
    Base62.a2b (Base62.b2a os) = os ∧ Base62.a2bStrict (Base62.b2a os) = some os :=
  ⟨Base62.a2b_b2a os, Base62.a2bStrict_b2a os⟩

example : Base62.b2a [104, 101, 108, 108, 111] = [55, 116, 81, 76, 70, 72, 122] := by decide   -- b"7tQLFHz"

/-- **canonicity** of the checked decoder (`fixes/C38-base62-canonical-a2b.diff`) -/
theorem base62_canonical (cs os : Bytes) (h : Base62.a2bStrict cs = some os) : Base62.b2a os = cs :=
  Base62.b2a_of_a2bStrict h

example : Base62.a2bStrict [55, 116, 81, 76, 70, 72, 122] = some [104, 101, 108, 108, 111] := by decide

/-- **exactness**: the checked decoder accepts exactly the image of the encoder (no impossible
    lengths such as 4 characters, no overflowing values, no characters outside the alphabet) -/
theorem base62_exact (cs os : Bytes) : Base62.a2bStrict cs = some os ↔ cs = Base62.b2a os :=
  ⟨fun h => (Base62.b2a_of_a2bStrict h).symm, fun h => h ▸ Base62.a2bStrict_b2a os⟩

-- `b"0000"` (impossible length; value fits), `b"zz"` (overflow), `b"0!"`: rejected; `b"000"` is b2a(b"\0\0")
example : Base62.a2bStrict [48, 48, 48, 48] = none ∧ Base62.a2bStrict [122, 122] = none ∧
    Base62.a2bStrict [48, 33] = none ∧ Base62.a2bStrict [48, 48, 48] = some [0, 0] :=
  ⟨by decide, by decide, by decide, by decide⟩

/-- the decoder determines the byte count from the character count -/
theorem base62_lengths (n : Nat) : Base62.numOctets (Base62.numChars n) = n :=
  Base62.numOctets_numChars n

/-- `a2b` as it was before the repair (`Base62.a2b`, no re-encode check) validated nothing: `b"!!!!"` (no alphabet character, impossible length) is read as
    `f99b`, and `b"zz"` (value 3843 does not fit one byte) as `03`; the checked decoder rejects both. -/
theorem base62_asis_counterexample :
    Base62.a2b [33, 33, 33, 33] = [249, 155] ∧ Base62.b2a [249, 155] ≠ [33, 33, 33, 33] ∧
    Base62.a2bStrict [33, 33, 33, 33] = none ∧
    Base62.a2b [122, 122] = [3] ∧ Base62.b2a [3] ≠ [122, 122] ∧ Base62.a2bStrict [122, 122] = none := by
  decide

/-! ### URI extension block -/

/-- **decode ∘ encode**: `unpack_extension(pack_extension(d)) = d` for dictionaries whose keys are
    distinct and match `[a-zA-Z_\-]+`, with integers exactly under the five integer keys.
    (A dictionary is an entry list; the result is listed in key order.) -/
theorem ueb_decode_encode (d : Ueb.Dict) (hk : ∀ e ∈ d, Ueb.KeyStrict e.1)
    (hnd : (d.map Prod.fst).Nodup) (ht : ∀ e ∈ d, Ueb.Typed e) :
    ∃ p, Ueb.pack d = some p ∧ Ueb.unpack Ueb.strict p = .ok (Ueb.sortDict d) :=
  Ueb.unpack_pack d hk hnd ht

example :
    let size : Bytes := [115, 105, 122, 101]
    let cn : Bytes := [99, 110]
    Ueb.pack [(size, .int 12), (cn, .bytes [120])]
      = some [99, 110, 58, 49, 58, 120, 44, 115, 105, 122, 101, 58, 50, 58, 49, 50, 44] ∧   -- cn:1:x,size:2:12,
    Ueb.unpack Ueb.strict [99, 110, 58, 49, 58, 120, 44, 115, 105, 122, 101, 58, 50, 58, 49, 50, 44]
      = .ok [(cn, .bytes [120]), (size, .int 12)] := by decide

/-- entries in any order are read back exactly (the decoder does not depend on the sorting) -/
theorem ueb_decode_entries (es : Ueb.Dict) (hk : ∀ e ∈ es, Ueb.KeyStrict e.1)
    (hnd : (es.map Prod.fst).Nodup) (ht : ∀ e ∈ es, Ueb.Typed e) :
    Ueb.unpack Ueb.strict ((es.map Ueb.packEntry).flatten) = .ok es :=
  Ueb.unpack_entries es hk hnd ht

/-- **exactness of `unpack_extension`** (with the canonical checks): a block is accepted, and read as the
    entry list `d`, exactly when it is the concatenation of the canonical encodings
    `key ":" netstring(value)` of the entries of `d` in that order, the keys are distinct, contain no `:`
    and are valid UTF-8, and integers (canonical decimal) sit exactly under the five integer keys.
    Hence no trailing bytes, no block cut inside a key, length or value, no duplicate. -/
theorem ueb_exact (x : Bytes) (d : Ueb.Dict) :
    Ueb.unpack Ueb.strict x = .ok d ↔
      (x = (d.map Ueb.packEntry).flatten ∧ (d.map Prod.fst).Nodup ∧ (∀ e ∈ d, Ueb.KeyWire e.1) ∧
        (∀ e ∈ d, Ueb.Typed e)) :=
  Ueb.unpack_iff x d

-- `cn:1:x,` is accepted; with a trailing byte, or cut inside the next key / inside the value, it is not
example : Ueb.unpack Ueb.strict [99, 110, 58, 49, 58, 120, 44] = .ok [([99, 110], .bytes [120])] ∧
    Ueb.unpack Ueb.strict [99, 110, 58, 49, 58, 120, 44, 120] = .error .value ∧
    Ueb.unpack Ueb.strict [99, 110, 58, 49, 58, 120, 44, 115, 105] = .error .value ∧
    Ueb.unpack Ueb.strict [99, 110, 58, 49, 58, 120] = .error .assertion ∧
    Ueb.unpack Ueb.strict [99, 110] = .error .value :=
  ⟨by decide, by decide, by decide, by decide, by decide⟩

/-- **`str(key, "utf-8")` succeeds exactly on the image of the UTF-8 encoder**: the validity check of the
    decoder accepts a byte string iff it is the encoding of a string of Unicode scalar values (no
    surrogates, nothing above U+10FFFF, no overlong or truncated forms).  This gives the `KeyWire`
    condition of `ueb_exact` its meaning: the key is colon-free and *is* the UTF-8 encoding of a string. -/
theorem utf8_accept_exact (k : Bytes) :
    Ueb.utf8Ok k.length k = true ↔ ∃ cs, (∀ c ∈ cs, Utf8.IsScalar c) ∧ Utf8.encStr cs = k :=
  Utf8.utf8Ok_iff k

-- "é€😀" encodes to c3 a9 e2 82 ac f0 9f 98 80; overlong `c0 80`, a lone surrogate `ed a0 80`, a value
-- above U+10FFFF `f4 90 80 80` and a truncated sequence are rejected
example : Utf8.encStr [233, 8364, 128512] = [195, 169, 226, 130, 172, 240, 159, 152, 128] ∧
    Ueb.utf8Ok 9 [195, 169, 226, 130, 172, 240, 159, 152, 128] = true ∧
    Ueb.utf8Ok 2 [192, 128] = false ∧ Ueb.utf8Ok 3 [237, 160, 128] = false ∧
    Ueb.utf8Ok 4 [244, 144, 128, 128] = false ∧ Ueb.utf8Ok 2 [226, 130] = false := by decide

/-- when the entries were read in key order and the keys match the documented pattern, the block is
    byte for byte what `pack_extension` produces for the decoded dictionary -/
theorem ueb_canonical_pack (x : Bytes) (d : Ueb.Dict) (h : Ueb.unpack Ueb.strict x = .ok d)
    (hs : Ueb.sortDict d = d) (hk : ∀ e ∈ d, Ueb.KeyStrict e.1) : Ueb.pack d = some x :=
  Ueb.pack_of_unpack h hs hk

example : Ueb.sortDict [([99, 110], Ueb.Val.bytes [120]), ([115], .bytes [])]
    = [([99, 110], .bytes [120]), ([115], .bytes [])] := by decide

/-- `unpack_extension` as it was before the repair (lengths and integer values through `int()`, repeated keys
    overwrite):
    `size:02:12,` and `size:2: 7,` are read as 12 and 7, `size:1:5,size:1:6,` as 6, and a negative
    length indexes from the end (`k:-5:XY,:0:,`).  With `fixes/C38-ueb-strict-unpack.diff` all four are
    rejected. -/
theorem ueb_asis_counterexample :
    -- size:02:12,
    Ueb.unpack Ueb.asIs [115, 105, 122, 101, 58, 48, 50, 58, 49, 50, 44] = .ok [([115, 105, 122, 101], .int 12)] ∧
    Ueb.unpack Ueb.strict [115, 105, 122, 101, 58, 48, 50, 58, 49, 50, 44] = .error .value ∧
    -- size:2: 7,
    Ueb.unpack Ueb.asIs [115, 105, 122, 101, 58, 50, 58, 32, 55, 44] = .ok [([115, 105, 122, 101], .int 7)] ∧
    Ueb.unpack Ueb.strict [115, 105, 122, 101, 58, 50, 58, 32, 55, 44] = .error .value ∧
    -- size:1:5,size:1:6,
    Ueb.unpack Ueb.asIs [115, 105, 122, 101, 58, 49, 58, 53, 44, 115, 105, 122, 101, 58, 49, 58, 54, 44]
      = .ok [([115, 105, 122, 101], .int 6)] ∧
    Ueb.unpack Ueb.strict [115, 105, 122, 101, 58, 49, 58, 53, 44, 115, 105, 122, 101, 58, 49, 58, 54, 44]
      = .error .value ∧
    -- k:-5:XY,:0:,
    Ueb.unpack Ueb.asIs [107, 58, 45, 53, 58, 88, 89, 44, 58, 48, 58, 44]
      = .ok [([107], .bytes [88, 89]), ([], .bytes [])] ∧
    Ueb.unpack Ueb.strict [107, 58, 45, 53, 58, 88, 89, 44, 58, 48, 58, 44] = .error .value :=
  ⟨by decide, by decide, by decide, by decide, by decide, by decide, by decide, by decide⟩

/-! ### lease records -/

/-- **decode ∘ encode**, immutable-container lease record (`>L32s32sL`): guard = 32-bit owner number
    and expiration time, 32-byte secrets; the node id is not stored -/
theorem lease_immutable_decode_encode (l : Records.Lease) (h : Records.LeaseFits l) :
    ∃ b, Records.toImmutable l = some b ∧ b.length = 72 ∧
      Records.fromImmutable b = some { l with nodeid := none } :=
  Records.fromImmutable_toImmutable l h

example : Records.LeaseFits ⟨1, List.replicate 32 7, List.replicate 32 9, 4294967295, none⟩ := by decide

/-- **canonicity and strictness**: exactly the 72-byte strings decode, each to a lease that re-encodes
    to the same bytes -/
theorem lease_immutable_canonical (b : Bytes) :
    (∀ l, Records.fromImmutable b = some l → Records.toImmutable l = some b ∧ Records.LeaseFits l) ∧
    (Records.fromImmutable b = none ↔ b.length ≠ 72) :=
  ⟨fun l h => ⟨(Records.toImmutable_fromImmutable b l h).1, (Records.toImmutable_fromImmutable b l h).2.1⟩,
   Records.fromImmutable_none_iff b⟩

/-- **exactness**: the decoder accepts exactly the encodings of in-range leases -/
theorem lease_immutable_exact (b : Bytes) (l : Records.Lease) :
    Records.fromImmutable b = some l ↔
      (Records.toImmutable l = some b ∧ Records.LeaseFits l ∧ l.nodeid = none) :=
  Records.fromImmutable_iff b l

-- why the guard is there: a 31-byte secret is NUL-padded by the encoder, so the record decodes to a
-- different lease (the storage protocol only lets 32-byte secrets through)
example : ∃ b, Records.toImmutable ⟨1, List.replicate 31 7, List.replicate 32 9, 5, none⟩ = some b ∧
    Records.fromImmutable b = some ⟨1, List.replicate 31 7 ++ [0], List.replicate 32 9, 5, none⟩ :=
  ⟨_, rfl, by decide⟩

theorem lease_mutable_exact (b : Bytes) (l : Records.Lease) :
    Records.fromMutable b = some l ↔
      (Records.toMutable l = some b ∧ Records.LeaseFits l ∧ ∃ nid, l.nodeid = some nid ∧ nid.length = 20) :=
  Records.fromMutable_iff b l

/-- **decode ∘ encode**, mutable-container lease record (`>LL32s32s20s`) -/
theorem lease_mutable_decode_encode (l : Records.Lease) (nid : Bytes) (h : Records.LeaseFits l)
    (hn : l.nodeid = some nid) (hl : nid.length = 20) :
    ∃ b, Records.toMutable l = some b ∧ b.length = 92 ∧ Records.fromMutable b = some l :=
  Records.fromMutable_toMutable l nid h hn hl

example : (Records.toMutable ⟨1, List.replicate 32 7, List.replicate 32 9, 5, some (List.replicate 20 3)⟩).isSome := by
  decide

theorem lease_mutable_canonical (b : Bytes) :
    (∀ l, Records.fromMutable b = some l → Records.toMutable l = some b ∧ Records.LeaseFits l) ∧
    (Records.fromMutable b = none ↔ b.length ≠ 92) :=
  ⟨fun l h => Records.toMutable_fromMutable b l h, Records.fromMutable_none_iff b⟩

/-- out-of-range values are refused by the encoder rather than wrapped -/
theorem lease_out_of_range_rejected :
    Records.toImmutable ⟨4294967296, List.replicate 32 0, List.replicate 32 0, 0, none⟩ = none ∧
    Records.toImmutable ⟨0, List.replicate 32 0, List.replicate 32 0, -1, none⟩ = none := by decide

/-- **v2 (hashed-secret) lease schema**: what is read back holds the owner number, the expiration time
    and the *hashes* of the secrets; a candidate secret is accepted iff its hash equals the stored hash —
    hence, for an injective hash, iff it is the secret that was encoded.  `h` stands for blake2b-256. -/
theorem lease_v2_decode_encode (h : Bytes → Bytes) (l : Records.Lease)
    (hfit : Records.LeaseFits (Records.hashLease h l)) (hinj : Function.Injective h) :
    ∃ b stored, Records.toImmutableV2 h l = some b ∧ Records.fromImmutable b = some stored ∧
      stored.owner = l.owner ∧ stored.expire = l.expire ∧
      (∀ cand, Records.isRenewSecretV2 h stored cand = true ↔ cand = l.renew) ∧
      (∀ cand, Records.isCancelSecretV2 h stored cand = true ↔ cand = l.cancel) := by
  obtain ⟨b, hb, _, hd⟩ := Records.fromImmutable_toImmutable (Records.hashLease h l) hfit
  refine ⟨b, _, hb, hd, rfl, rfl, ?_, ?_⟩
  · intro cand
    simp only [Records.isRenewSecretV2, Records.hashLease, beq_iff_eq]
    exact ⟨fun e => (hinj e).symm, fun e => by rw [e]⟩
  · intro cand
    simp only [Records.isCancelSecretV2, Records.hashLease, beq_iff_eq]
    exact ⟨fun e => (hinj e).symm, fun e => by rw [e]⟩

-- the hypotheses are satisfiable: the identity is injective and keeps 32-byte secrets 32 bytes long
example : Function.Injective (id : Bytes → Bytes) ∧
    Records.LeaseFits (Records.hashLease id ⟨1, List.replicate 32 7, List.replicate 32 9, 5, none⟩) :=
  ⟨fun _ _ h => h, by decide⟩

/-- **renewal keeps a lease record decodable to the same lease**: decode → `renew(e)` → encode → decode
    yields the same owner and the same *stored* secrets (cleartext in v1, the single hash in v2 — the
    record read back is packed as it is, never hashed again) with the new expiration time.  Together
    with `lease_v2_decode_encode` this means the real secret is still recognised after any number of
    renewals. -/
theorem lease_renew_roundtrip (b : Bytes) (stored : Records.Lease) (e : Int)
    (hdec : Records.fromImmutable b = some stored) (he : 0 ≤ e) (he2 : e.toNat < 256 ^ 4) :
    ∃ b', Records.toImmutable (Records.renew stored e) = some b' ∧
      Records.fromImmutable b' = some { stored with expire := e } := by
  obtain ⟨_, hfit, hnid⟩ := Records.toImmutable_fromImmutable b stored hdec
  have hfit' : Records.LeaseFits (Records.renew stored e) := by
    obtain ⟨h1, h2, _, _, h5, h6⟩ := hfit
    exact ⟨h1, h2, he, he2, h5, h6⟩
  obtain ⟨b', hb', _, hd'⟩ := Records.fromImmutable_toImmutable (Records.renew stored e) hfit'
  refine ⟨b', hb', ?_⟩
  rw [hd']
  cases stored
  simp_all [Records.renew]

theorem lease_renew_roundtrip_mutable (b : Bytes) (stored : Records.Lease) (e : Int)
    (hdec : Records.fromMutable b = some stored) (he : 0 ≤ e) (he2 : e.toNat < 256 ^ 4) :
    ∃ b', Records.toMutable (Records.renew stored e) = some b' ∧
      Records.fromMutable b' = some { stored with expire := e } := by
  obtain ⟨hre, hfit⟩ := Records.toMutable_fromMutable b stored hdec
  have hfit' : Records.LeaseFits (Records.renew stored e) := by
    obtain ⟨h1, h2, _, _, h5, h6⟩ := hfit
    exact ⟨h1, h2, he, he2, h5, h6⟩
  obtain ⟨nid, hn, hl⟩ := Records.fromMutable_nodeid hdec
  obtain ⟨b', hb', _, hd'⟩ := Records.fromMutable_toMutable (Records.renew stored e) nid hfit'
    (by simp [Records.renew, hn]) hl
  exact ⟨b', hb', by rw [hd']; rfl⟩

example : Records.renewCycle false
    ((Records.toImmutable ⟨1, List.replicate 32 7, List.replicate 32 9, 5, none⟩).getD []) [6, 7]
    = [Records.toImmutable ⟨1, List.replicate 32 7, List.replicate 32 9, 6, none⟩,
       Records.toImmutable ⟨1, List.replicate 32 7, List.replicate 32 9, 7, none⟩] := by decide

/-! ### share-container headers -/

/-- **immutable container header** (`>LLL`): the version and a zero lease count are read back; the
    second field holds `min(2^32-1, max_size)` — saturated, and documented as unused by the reader. -/
theorem immutable_header_decode_encode (v m : Int) (rest : Bytes) (hv : 0 ≤ v) (hv2 : v.toNat < 256 ^ 4)
    (hm : 0 ≤ m) :
    ∃ b, Records.immHeader v m = some b ∧ b.length = 12 ∧
      Records.readImmHeader (b ++ rest) = some (v.toNat, (min 4294967295 m).toNat, 0) :=
  Records.readImmHeader_immHeader v m rest hv hv2 hm

/-- **immutable container, schema versions 1 and 2**: the header is recognised by `is_valid_header` /
    `schema_from_version` and read back as (version, saturated size, 0 leases), whatever follows -/
theorem immutable_header_known_versions (v : Nat) (m : Int) (rest : Bytes) (hv : v = 1 ∨ v = 2) (hm : 0 ≤ m) :
    ∃ b, Records.immHeader v m = some b ∧ b.length = 12 ∧
      Records.readImmHeader (b ++ rest) = some (v, (min 4294967295 m).toNat, 0) ∧
      Records.immVersionKnown v = true ∧ Records.immIsValidHeader (b ++ rest) = some true :=
  Records.immHeader_known_versions v m rest hv hm

example : Records.immIsValidHeader [0, 0, 0, 1] = some true ∧ Records.immIsValidHeader [0, 0, 0, 3] = some false ∧
    Records.immIsValidHeader [0, 0, 1] = none := by decide

/-- **immutable header canonicity and strictness**: the three values read are exactly the three
    big-endian words in the first 12 bytes; fewer than 12 bytes are rejected -/
theorem immutable_header_canonical (file : Bytes) :
    (∀ v u n, Records.readImmHeader file = some (v, u, n) →
      Struct.pack Records.immHeaderFields [.int v, .int u, .int n] = some (file.take 12) ∧ 12 ≤ file.length) ∧
    (Records.readImmHeader file = none ↔ file.length < 12) :=
  ⟨fun _ _ _ h => ⟨(Records.readImmHeader_canonical h).1, (Records.readImmHeader_canonical h).2.1⟩,
   Records.readImmHeader_none_iff file⟩

example : Records.readImmHeader [0, 0, 0, 2, 0, 0, 0, 9, 0, 0, 0, 1, 77] = some (2, 9, 1) := by decide

/-- the saturation, on an example: `max_size = 2^32 + 5` is stored as `2^32 - 1` -/
theorem immutable_header_saturates :
    Records.immHeader 2 4294967301 = some [0, 0, 0, 2, 255, 255, 255, 255, 0, 0, 0, 0] ∧
    Records.readImmHeader [0, 0, 0, 2, 255, 255, 255, 255, 0, 0, 0, 0] = some (2, 4294967295, 0) ∧
    Records.readImmHeader [0, 0, 0, 2, 255, 255, 255, 255, 0, 0, 0] = none := by decide

/-- **mutable container header** (`>32s20s32sQQ` + four blank lease slots + `>L` 0): the magic check
    passes for the version written, and node id and write enabler are read back exactly; data length 0,
    extra-lease offset 468 -/
theorem mutable_header_decode_encode (version : Nat) (nid we : Bytes) (hv : version = 1 ∨ version = 2)
    (hn : nid.length = 20) (hw : we.length = 32) :
    ∃ file magic, Records.mutHeader version nid we = some file ∧ Records.magicOf version = some magic ∧
      Records.readMutHeader file = .ok (magic, nid, we, 0, 468) ∧ Records.mutSchemaOf file = some version :=
  Records.readMutHeader_mutHeader version nid we hv hn hw

example : (Records.mutHeader 2 (List.replicate 20 1) (List.replicate 32 2)).isSome := by decide

/-- **fixed-offset readers on a fresh mutable container** (`_read_data_length`,
    `_read_extra_lease_offset`, `_read_num_extra_leases`): 0, 468 and 0, in a 472-byte file -/
theorem mutable_header_fields (version : Nat) (nid we : Bytes) (hv : version = 1 ∨ version = 2)
    (hn : nid.length = 20) (hw : we.length = 32) :
    ∃ file, Records.mutHeader version nid we = some file ∧ file.length = 472 ∧
      Records.readDataLength file = some 0 ∧ Records.readExtraLeaseOffset file = some 468 ∧
      Records.readNumExtraLeases file = some 0 :=
  Records.mutHeader_fields version nid we hv hn hw

/-- **mutable header canonicity**: what is read re-packs to exactly the first 100 bytes of the file, and
    only the two known magic strings are accepted -/
theorem mutable_header_canonical (file m n w : Bytes) (dl elo : Nat)
    (h : Records.readMutHeader file = .ok (m, n, w, dl, elo)) :
    Struct.pack Records.mutHeaderFields [.bytes m, .bytes n, .bytes w, .int dl, .int elo] = some (file.take 100) ∧
      100 ≤ file.length ∧ (m = mut_MAGIC_v1 ∨ m = mut_MAGIC_v2) :=
  Records.readMutHeader_canonical h

-- the hypothesis is met by every freshly written header (`mutable_header_decode_encode`)
example : ∃ file m n w dl elo, Records.readMutHeader file = .ok (m, n, w, dl, elo) := by
  obtain ⟨file, magic, _, _, h, _⟩ := Records.readMutHeader_mutHeader 1 (List.replicate 20 1) (List.replicate 32 2)
    (Or.inl rfl) (by decide) (by decide)
  exact ⟨file, magic, _, _, _, _, h⟩

/-- **`schema_from_header` is exact**: version `v` is recognised iff the first 32 bytes equal, in full,
    the magic of schema `v` — the readable line *and* the five anti-collision bytes; no other spelling of
    the version number is accepted -/
theorem mutable_magic_exact (h : Bytes) (v : Nat) :
    Records.mutSchemaOf h = some v ↔
      ((v = 1 ∧ h.take 32 = mut_MAGIC_v1) ∨ (v = 2 ∧ h.take 32 = mut_MAGIC_v2)) :=
  Records.mutSchemaOf_iff h v

-- damaged only in the last byte, or version written `01`: not recognised
example : Records.mutSchemaOf mut_MAGIC_v1 = some 1 ∧
    Records.mutSchemaOf (mut_MAGIC_v1.take 31 ++ [0]) = none ∧
    Records.mutSchemaOf (mut_MAGIC_v1.take 25 ++ [48, 49, 10] ++ (mut_MAGIC_v1.drop 27).take 4) = none :=
  ⟨by decide, by decide, by decide⟩

/-- **the mutable header reader accepts exactly** the files with at least the 100 header bytes whose
    first 32 bytes are one of the two magics in full -/
theorem mutable_header_accepted_iff (file : Bytes) :
    (∃ r, Records.readMutHeader file = .ok r) ↔
      (100 ≤ file.length ∧ (file.take 32 = mut_MAGIC_v1 ∨ file.take 32 = mut_MAGIC_v2)) :=
  Records.readMutHeader_accepts_iff file

example : 100 ≤ (mut_MAGIC_v2 ++ List.replicate 68 0).length ∧
    (mut_MAGIC_v2 ++ List.replicate 68 0).take 32 = mut_MAGIC_v2 := ⟨by decide, by decide⟩

/-- the magics extracted from the source are the documented ones: the readable line
    `Tahoe mutable container v<N>\n` followed by five bytes (for v1 the historical `75 09 44 03 8e`) -/
theorem mutable_magic_pinned :
    mut_MAGIC_v1 = ([84, 97, 104, 111, 101, 32, 109, 117, 116, 97, 98, 108, 101, 32, 99, 111, 110, 116, 97, 105, 110, 101, 114, 32, 118] : Bytes) ++ [49, 10, 117, 9, 68, 3, 142] ∧
    mut_MAGIC_v2.take 27 = ([84, 97, 104, 111, 101, 32, 109, 117, 116, 97, 98, 108, 101, 32, 99, 111, 110, 116, 97, 105, 110, 101, 114, 32, 118] : Bytes) ++ [50, 10] ∧
    mut_MAGIC_v1.length = 32 ∧ mut_MAGIC_v2.length = 32 ∧ mut_MAGIC_v1 ≠ mut_MAGIC_v2 := by decide

/-- a header whose magic is not one of the known ones is rejected, as is a truncated one -/
theorem mutable_header_rejects_malformed :
    Records.readMutHeader (List.replicate 100 0) = .error .assertion ∧
    Records.readMutHeader (List.replicate 99 0) = .error .struct := ⟨by decide, by decide⟩

end Tahoe.C38
