import Tahoe.Base.Netstring
import Tahoe.Base.Base32
import Tahoe.Base.Base62
import Tahoe.Base.Struct
import Tahoe.Codec.Ueb
import Tahoe.Codec.Records
/-! C38 — on-disk and wire encodings round-trip (property theorems). -/
namespace Tahoe.C38
open Tahoe.Base

theorem netstring_decode_encode (s r : Bytes) :
    Netstring.parseOne Netstring.strictLen (Netstring.enc s ++ r) = .ok (s, r) :=
  Netstring.parseOne_enc s r

end Tahoe.C38
