import Tahoe.Base.Netstring
import Tahoe.Base.Base32Lemmas
import Tahoe.Base.Base62Lemmas
import Tahoe.Base.Struct
import Tahoe.Codec.LemmasUeb
import Tahoe.Codec.LemmasRecords
/-!
C38 — on-disk and wire encodings round-trip (property theorems; the models and helper lemmas live in
`Tahoe/Base/*` and `Tahoe/Codec/*`).

For every codec: `decode (encode v) = v` under the explicit range guard, and canonicity
`decode x = v → encode v = x` for the decoder with the canonical checks.  The decoders of the code
as it is (`Netstring.split pyLen`, `Base32.a2b 1`, `Base62.a2b`, `Ueb.unpack asIs`) are modelled too;
for each leniency a `…_asis_counterexample` shows by evaluation the malformed input it accepts, next
to the fact that the checked decoder rejects the same input.

Not proved here (tested by the monitor only): canonicity of the URI-extension-block decoder, i.e.
`Ueb.unpack strict x = .ok d → (d.map packEntry).flatten = x` (the decoder is insensitive to key order,
so the statement is about the entries in the order read).
-/
namespace Tahoe.C38
open Tahoe.Base Tahoe.Base.Bytes Tahoe.Codec
open Tahoe.Generated.Encodings

/-! ### constants extracted from the source are the documented ones -/

theorem base32_alphabet_pinned : base32_chars = Base32.alphabet ∧ base32_chars.length = 32 := by decide

theorem base32_length_tables_pinned :
    base32_NUM_OS_TO_NUM_QS = (List.range 5).map Base32.numQuintets ∧
    ((List.range 8).filter Base32.legitLen).map (fun q => base32_NUM_QS_TO_NUM_OS.getD q 99)
      = ((List.range 8).filter Base32.legitLen).map Base32.numOctets ∧
    base32_NUM_QS_LEGIT = (List.range 8).map (fun q => if Base32.legitLen q then 1 else 0) := by decide

theorem base62_alphabet_pinned : base62_chars = Base62.alphabet ∧ base62_chars.length = 62 := by decide

theorem struct_formats_pinned :
    Struct.parseFormat lease_IMMUTABLE_FORMAT = some Records.immLeaseFields ∧
    Struct.parseFormat lease_MUTABLE_FORMAT = some Records.mutLeaseFields ∧
    Struct.parseFormat imm_HEADER_FORMAT = some Records.immHeaderFields ∧
    Struct.parseFormat mut_HEADER_FORMAT = some Records.mutHeaderFields ∧
    Struct.parseFormat mut_HEADER_PACK_FORMAT = some Records.mutHeaderFields := by decide

theorem record_sizes_pinned :
    Struct.size Records.immLeaseFields = 72 ∧ lease_IMMUTABLE_FORMAT_size = 72 ∧ imm_LEASE_SIZE = 72 ∧
    Struct.size Records.mutLeaseFields = 92 ∧ lease_MUTABLE_FORMAT_size = 92 ∧ mut_LEASE_SIZE = 92 ∧
    Struct.size Records.immHeaderFields = 12 ∧ imm_HEADER_FORMAT_size = 12 ∧
    Struct.size Records.mutHeaderFields = 100 ∧ mut_HEADER_SIZE = 100 ∧
    mut_DATA_LENGTH_OFFSET = 84 ∧ mut_EXTRA_LEASE_OFFSET_FIELD = 92 ∧
    mut_EXTRA_LEASE_OFFSET_VALUE = 100 + 4 * 92 ∧
    imm_SCHEMA_VERSIONS = [1, 2] ∧ mut_SCHEMA_VERSIONS = [1, 2] := by decide

/-! ### big-endian integers and `struct` records -/

/-- `struct.unpack(">L", struct.pack(">L", n)) = n` for `n < 2^32`, likewise `>Q` for `n < 2^64` -/
theorem be_decode_encode (w n : Nat) (h : n < 256 ^ w) : beVal (be w n) = n ∧ (be w n).length = w :=
  ⟨beVal_be h, length_be w n⟩

example : beVal (be 4 4294967295) = 4294967295 ∧ beVal (be 8 (2 ^ 64 - 1)) = 2 ^ 64 - 1 := by decide

/-- every `w`-byte string is the encoding of its value: fixed-width integers are canonical -/
theorem be_canonical (b : Bytes) : be b.length (beVal b) = b ∧ beVal b < 256 ^ b.length :=
  ⟨be_beVal b, beVal_lt b⟩

example : be 4 (beVal [0, 0, 1, 2]) = [0, 0, 1, 2] := by decide

/-- outside the guard the value is silently reduced (which is why `struct.pack` range-checks: `packU`) -/
theorem be_out_of_range_wraps (w n : Nat) : beVal (be w n) = n % 256 ^ w := beVal_be_mod w n

example : Bytes.packU 4 4294967296 = none ∧ Bytes.packU 4 (-1) = none ∧ (Bytes.packU 4 4294967295).isSome := by
  decide

/-- **struct round trip**: values in range pack, and unpack to themselves -/
theorem struct_decode_encode (fs : List Struct.Field) (vs : List Struct.Value) (h : Struct.FitsAll fs vs) :
    ∃ b, Struct.pack fs vs = some b ∧ b.length = Struct.size fs ∧ Struct.unpack fs b = some vs := by
  obtain ⟨b, h1, h2⟩ := Struct.unpack_pack fs vs h
  exact ⟨b, h1, Struct.pack_length h1, h2⟩

example : Struct.FitsAll [.u 4, .s 2] [.int 7, .bytes [1, 2]] := by decide

/-- **struct canonicity and strictness**: only buffers of exactly `calcsize` bytes unpack, and what
    unpacks re-packs to the same bytes -/
theorem struct_canonical (fs : List Struct.Field) (b : Bytes) :
    (∀ vs, Struct.unpack fs b = some vs → Struct.pack fs vs = some b ∧ Struct.FitsAll fs vs) ∧
    (Struct.unpack fs b = none ↔ b.length ≠ Struct.size fs) :=
  ⟨fun vs h => Struct.pack_unpack fs b vs h, Struct.unpack_eq_none_iff fs b⟩

example : Struct.unpack [.u 2, .s 1] [1, 2, 3] = some [.int 258, .bytes [3]] ∧
    Struct.unpack [.u 2, .s 1] [1, 2] = none := by decide

/-! ### netstrings -/

/-- **decode ∘ encode**: a netstring followed by anything is read back, leaving the remainder -/
theorem netstring_decode_encode (s rest : Bytes) :
    Netstring.parseOne Netstring.strictLen (Netstring.enc s ++ rest) = .ok (s, rest) :=
  Netstring.parseOne_enc s rest

example : Netstring.enc [97, 98, 99] = [51, 58, 97, 98, 99, 44] := by decide

/-- **canonicity**: the checked decoder reads `s` (leaving `rest`) only from `netstring(s) ++ rest` -/
theorem netstring_canonical (x s rest : Bytes)
    (h : Netstring.parseOne Netstring.strictLen x = .ok (s, rest)) : x = Netstring.enc s ++ rest :=
  Netstring.enc_of_parseOne h

example : Netstring.parseOne Netstring.strictLen [51, 58, 97, 98, 99, 44, 120] = .ok ([97, 98, 99], [120]) := by
  decide

/-- **prefix-freeness / unique decodability from the front** -/
theorem netstring_prefix_free (a b x y : Bytes) (h : Netstring.enc a ++ x = Netstring.enc b ++ y) :
    a = b ∧ x = y :=
  Netstring.enc_append_inj h

/-- **unique decodability of concatenations** (what the tagged-hash and dirnode encodings rely on) -/
theorem netstring_concat_unique (xs ys : List Bytes)
    (h : (xs.map Netstring.enc).flatten = (ys.map Netstring.enc).flatten) : xs = ys :=
  Netstring.concat_enc_inj xs ys h

example : ([[1], []].map Netstring.enc).flatten ≠ ([[], [1]].map Netstring.enc).flatten := by decide

/-- **`split_netstring` round trip**: `k ≥ 1` netstrings followed by any tail are read back exactly and
    the returned position is where the tail starts -/
theorem netstring_split_concat (ss : List Bytes) (tail : Bytes) (h : ss ≠ []) :
    Netstring.split Netstring.strictLen ((ss.map Netstring.enc).flatten ++ tail) ss.length 0 none
      = .ok (ss, ((ss.map Netstring.enc).flatten).length) :=
  Netstring.split_concat ss tail h

/-- the decimal length field: printing then strict parsing is the identity, and the strict parser
    accepts only what the printer produces -/
theorem decimal_roundtrip_and_canonical (n : Nat) (ds : Bytes) :
    Netstring.parseDecStrict (Netstring.toDec n) = some n ∧
    (Netstring.parseDecStrict ds = some n → Netstring.toDec n = ds) :=
  ⟨Netstring.parseDecStrict_toDec n, Netstring.toDec_of_parseDecStrict⟩

/-- The decoder that hands the length field to `int()` (the code before the fix
    `fixes/C38-netstring-strict-length.diff`) accepts `b"03:abc,+2:de,"` and reads `[abc, de]` from it,
    although that is not the encoding of `[abc, de]`; the checked decoder rejects it. -/
theorem netstring_asis_counterexample :
    let x : Bytes := [48, 51, 58, 97, 98, 99, 44, 43, 50, 58, 100, 101, 44]        -- b"03:abc,+2:de,"
    Netstring.split Netstring.pyLen x 2 0 none = .ok ([[97, 98, 99], [100, 101]], 13) ∧
    ([[97, 98, 99], [100, 101]].map Netstring.enc).flatten ≠ x ∧
    Netstring.split Netstring.strictLen x 2 0 none = .error .value := by decide

/-! ### base32 -/

/-- **decode ∘ encode** -/
theorem base32_decode_encode (os : Bytes) : Base32.a2b 0 (Base32.b2a os) = some os :=
  Base32.a2b_b2a os

example : Base32.b2a [104, 105] = [110, 98, 117, 113] := by decide      -- b2a(b"hi") = b"nbuq"

/-- **canonicity**: with the corrected trailing-bits table, `a2b` accepts exactly the outputs of `b2a` -/
theorem base32_canonical (cs os : Bytes) (h : Base32.a2b 0 cs = some os) : Base32.b2a os = cs :=
  Base32.b2a_of_a2b h

example : Base32.a2b 0 [110, 98, 117, 113] = some [104, 105] := by decide

/-- The table `s8` as the code builds it (`4-(bits%5)`, one bit short) lets `a2b(b"ac")` through and
    reads it as `b"\x00"`, whose encoding is `b"aa"`; with `5-(bits%5)`
    (`fixes/C38-base32-trailing-bits.diff`) it is rejected. -/
theorem base32_asis_counterexample :
    Base32.a2b 1 [97, 99] = some [0] ∧ Base32.b2a [0] = [97, 97] ∧ Base32.a2b 0 [97, 99] = none := by decide

/-! ### base62 -/

/-- **decode ∘ encode** (already true of the unchecked `a2b`) -/
theorem base62_decode_encode (os : Bytes) :
    Base62.a2b (Base62.b2a os) = os ∧ Base62.a2bStrict (Base62.b2a os) = some os :=
  ⟨Base62.a2b_b2a os, Base62.a2bStrict_b2a os⟩

example : Base62.b2a [104, 101, 108, 108, 111] = [55, 116, 81, 76, 70, 72, 122] := by decide   -- b"7tQLFHz"

/-- **canonicity** of the checked decoder (`fixes/C38-base62-canonical-a2b.diff`) -/
theorem base62_canonical (cs os : Bytes) (h : Base62.a2bStrict cs = some os) : Base62.b2a os = cs :=
  Base62.b2a_of_a2bStrict h

example : Base62.a2bStrict [55, 116, 81, 76, 70, 72, 122] = some [104, 101, 108, 108, 111] := by decide

/-- the decoder determines the byte count from the character count -/
theorem base62_lengths (n : Nat) : Base62.numOctets (Base62.numChars n) = n :=
  Base62.numOctets_numChars n

/-- `a2b` as it is validates nothing: `b"!!!!"` (no alphabet character, impossible length) is read as
    `f99b`, and `b"zz"` (value 3843 does not fit one byte) as `03`; the checked decoder rejects both. -/
theorem base62_asis_counterexample :
    Base62.a2b [33, 33, 33, 33] = [249, 155] ∧ Base62.b2a [249, 155] ≠ [33, 33, 33, 33] ∧
    Base62.a2bStrict [33, 33, 33, 33] = none ∧
    Base62.a2b [122, 122] = [3] ∧ Base62.b2a [3] ≠ [122, 122] ∧ Base62.a2bStrict [122, 122] = none := by
  decide

/-! ### URI extension block -/

/-- **decode ∘ encode**: `unpack_extension(pack_extension(d)) = d` for dictionaries whose keys are
    distinct and match `[a-zA-Z_\-]+`, with integers exactly under the five integer keys.
    (A dictionary is an entry list; the result is listed in key order.) -/
theorem ueb_decode_encode (d : Ueb.Dict) (hk : ∀ e ∈ d, Ueb.KeyStrict e.1)
    (hnd : (d.map Prod.fst).Nodup) (ht : ∀ e ∈ d, Ueb.Typed e) :
    ∃ p, Ueb.pack d = some p ∧ Ueb.unpack Ueb.strict p = .ok (Ueb.sortDict d) :=
  Ueb.unpack_pack d hk hnd ht

example :
    let size : Bytes := [115, 105, 122, 101]
    let cn : Bytes := [99, 110]
    Ueb.pack [(size, .int 12), (cn, .bytes [120])]
      = some [99, 110, 58, 49, 58, 120, 44, 115, 105, 122, 101, 58, 50, 58, 49, 50, 44] ∧   -- cn:1:x,size:2:12,
    Ueb.unpack Ueb.strict [99, 110, 58, 49, 58, 120, 44, 115, 105, 122, 101, 58, 50, 58, 49, 50, 44]
      = .ok [(cn, .bytes [120]), (size, .int 12)] := by decide

/-- entries in any order are read back exactly (the decoder does not depend on the sorting) -/
theorem ueb_decode_entries (es : Ueb.Dict) (hk : ∀ e ∈ es, Ueb.KeyStrict e.1)
    (hnd : (es.map Prod.fst).Nodup) (ht : ∀ e ∈ es, Ueb.Typed e) :
    Ueb.unpack Ueb.strict ((es.map Ueb.packEntry).flatten) = .ok es :=
  Ueb.unpack_entries es hk hnd ht

/-- `unpack_extension` as it is (lengths and integer values through `int()`, repeated keys overwrite):
    `size:02:12,` and `size:2: 7,` are read as 12 and 7, `size:1:5,size:1:6,` as 6, and a negative
    length indexes from the end (`k:-5:XY,:0:,`).  With `fixes/C38-ueb-strict-unpack.diff` all four are
    rejected. -/
theorem ueb_asis_counterexample :
    -- size:02:12,
    Ueb.unpack Ueb.asIs [115, 105, 122, 101, 58, 48, 50, 58, 49, 50, 44] = .ok [([115, 105, 122, 101], .int 12)] ∧
    Ueb.unpack Ueb.strict [115, 105, 122, 101, 58, 48, 50, 58, 49, 50, 44] = .error .value ∧
    -- size:2: 7,
    Ueb.unpack Ueb.asIs [115, 105, 122, 101, 58, 50, 58, 32, 55, 44] = .ok [([115, 105, 122, 101], .int 7)] ∧
    Ueb.unpack Ueb.strict [115, 105, 122, 101, 58, 50, 58, 32, 55, 44] = .error .value ∧
    -- size:1:5,size:1:6,
    Ueb.unpack Ueb.asIs [115, 105, 122, 101, 58, 49, 58, 53, 44, 115, 105, 122, 101, 58, 49, 58, 54, 44]
      = .ok [([115, 105, 122, 101], .int 6)] ∧
    Ueb.unpack Ueb.strict [115, 105, 122, 101, 58, 49, 58, 53, 44, 115, 105, 122, 101, 58, 49, 58, 54, 44]
      = .error .value ∧
    -- k:-5:XY,:0:,
    Ueb.unpack Ueb.asIs [107, 58, 45, 53, 58, 88, 89, 44, 58, 48, 58, 44]
      = .ok [([107], .bytes [88, 89]), ([], .bytes [])] ∧
    Ueb.unpack Ueb.strict [107, 58, 45, 53, 58, 88, 89, 44, 58, 48, 58, 44] = .error .value :=
  ⟨by decide, by decide, by decide, by decide, by decide, by decide, by decide, by decide⟩

/-! ### lease records -/

/-- **decode ∘ encode**, immutable-container lease record (`>L32s32sL`): guard = 32-bit owner number
    and expiration time, 32-byte secrets; the node id is not stored -/
theorem lease_immutable_decode_encode (l : Records.Lease) (h : Records.LeaseFits l) :
    ∃ b, Records.toImmutable l = some b ∧ b.length = 72 ∧
      Records.fromImmutable b = some { l with nodeid := none } :=
  Records.fromImmutable_toImmutable l h

example : Records.LeaseFits ⟨1, List.replicate 32 7, List.replicate 32 9, 4294967295, none⟩ := by decide

/-- **canonicity and strictness**: exactly the 72-byte strings decode, each to a lease that re-encodes
    to the same bytes -/
theorem lease_immutable_canonical (b : Bytes) :
    (∀ l, Records.fromImmutable b = some l → Records.toImmutable l = some b ∧ Records.LeaseFits l) ∧
    (Records.fromImmutable b = none ↔ b.length ≠ 72) :=
  ⟨fun l h => ⟨(Records.toImmutable_fromImmutable b l h).1, (Records.toImmutable_fromImmutable b l h).2.1⟩,
   Records.fromImmutable_none_iff b⟩

/-- **decode ∘ encode**, mutable-container lease record (`>LL32s32s20s`) -/
theorem lease_mutable_decode_encode (l : Records.Lease) (nid : Bytes) (h : Records.LeaseFits l)
    (hn : l.nodeid = some nid) (hl : nid.length = 20) :
    ∃ b, Records.toMutable l = some b ∧ b.length = 92 ∧ Records.fromMutable b = some l :=
  Records.fromMutable_toMutable l nid h hn hl

example : (Records.toMutable ⟨1, List.replicate 32 7, List.replicate 32 9, 5, some (List.replicate 20 3)⟩).isSome := by
  decide

theorem lease_mutable_canonical (b : Bytes) :
    (∀ l, Records.fromMutable b = some l → Records.toMutable l = some b ∧ Records.LeaseFits l) ∧
    (Records.fromMutable b = none ↔ b.length ≠ 92) :=
  ⟨fun l h => Records.toMutable_fromMutable b l h, Records.fromMutable_none_iff b⟩

/-- out-of-range values are refused by the encoder rather than wrapped -/
theorem lease_out_of_range_rejected :
    Records.toImmutable ⟨4294967296, List.replicate 32 0, List.replicate 32 0, 0, none⟩ = none ∧
    Records.toImmutable ⟨0, List.replicate 32 0, List.replicate 32 0, -1, none⟩ = none := by decide

/-- **v2 (hashed-secret) lease schema**: what is read back holds the owner number, the expiration time
    and the *hashes* of the secrets; a candidate secret is accepted iff its hash equals the stored hash —
    hence, for an injective hash, iff it is the secret that was encoded.  `h` stands for blake2b-256. -/
theorem lease_v2_decode_encode (h : Bytes → Bytes) (l : Records.Lease)
    (hfit : Records.LeaseFits (Records.hashLease h l)) (hinj : Function.Injective h) :
    ∃ b stored, Records.toImmutableV2 h l = some b ∧ Records.fromImmutable b = some stored ∧
      stored.owner = l.owner ∧ stored.expire = l.expire ∧
      (∀ cand, Records.isRenewSecretV2 h stored cand = true ↔ cand = l.renew) ∧
      (∀ cand, Records.isCancelSecretV2 h stored cand = true ↔ cand = l.cancel) := by
  obtain ⟨b, hb, _, hd⟩ := Records.fromImmutable_toImmutable (Records.hashLease h l) hfit
  refine ⟨b, _, hb, hd, rfl, rfl, ?_, ?_⟩
  · intro cand
    simp only [Records.isRenewSecretV2, Records.hashLease, beq_iff_eq]
    exact ⟨fun e => (hinj e).symm, fun e => by rw [e]⟩
  · intro cand
    simp only [Records.isCancelSecretV2, Records.hashLease, beq_iff_eq]
    exact ⟨fun e => (hinj e).symm, fun e => by rw [e]⟩

-- the hypotheses are satisfiable: the identity is injective and keeps 32-byte secrets 32 bytes long
example : Function.Injective (id : Bytes → Bytes) ∧
    Records.LeaseFits (Records.hashLease id ⟨1, List.replicate 32 7, List.replicate 32 9, 5, none⟩) :=
  ⟨fun _ _ h => h, by decide⟩

/-- **renewal keeps a lease record decodable to the same lease**: decode → `renew(e)` → encode → decode
    yields the same owner and the same *stored* secrets (cleartext in v1, the single hash in v2 — the
    record read back is packed as it is, never hashed again) with the new expiration time.  Together
    with `lease_v2_decode_encode` this means the real secret is still recognised after any number of
    renewals. -/
theorem lease_renew_roundtrip (b : Bytes) (stored : Records.Lease) (e : Int)
    (hdec : Records.fromImmutable b = some stored) (he : 0 ≤ e) (he2 : e.toNat < 256 ^ 4) :
    ∃ b', Records.toImmutable (Records.renew stored e) = some b' ∧
      Records.fromImmutable b' = some { stored with expire := e } := by
  obtain ⟨_, hfit, hnid⟩ := Records.toImmutable_fromImmutable b stored hdec
  have hfit' : Records.LeaseFits (Records.renew stored e) := by
    obtain ⟨h1, h2, _, _, h5, h6⟩ := hfit
    exact ⟨h1, h2, he, he2, h5, h6⟩
  obtain ⟨b', hb', _, hd'⟩ := Records.fromImmutable_toImmutable (Records.renew stored e) hfit'
  refine ⟨b', hb', ?_⟩
  rw [hd']
  cases stored
  simp_all [Records.renew]

theorem lease_renew_roundtrip_mutable (b : Bytes) (stored : Records.Lease) (e : Int)
    (hdec : Records.fromMutable b = some stored) (he : 0 ≤ e) (he2 : e.toNat < 256 ^ 4) :
    ∃ b', Records.toMutable (Records.renew stored e) = some b' ∧
      Records.fromMutable b' = some { stored with expire := e } := by
  obtain ⟨hre, hfit⟩ := Records.toMutable_fromMutable b stored hdec
  have hfit' : Records.LeaseFits (Records.renew stored e) := by
    obtain ⟨h1, h2, _, _, h5, h6⟩ := hfit
    exact ⟨h1, h2, he, he2, h5, h6⟩
  -- the node id read back has 20 bytes
  cases hn : stored.nodeid with
  | none => simp [Records.toMutable, hn] at hre
  | some nid =>
    have hl : nid.length = 20 := by
      have hb92 : b.length = 92 := by
        by_cases h : b.length = 92
        · exact h
        · rw [(Records.fromMutable_none_iff b).mpr h] at hdec; simp at hdec
      simp only [Records.fromMutable, Struct.unpack, hb92, Struct.size, Records.mutLeaseFields,
        Struct.Field.size, ↓reduceIte, Struct.unpackFields, Struct.unpackField, Option.some.injEq] at hdec
      subst hdec
      simp only [Option.some.injEq] at hn
      subst hn
      simp; omega
    obtain ⟨b', hb', _, hd'⟩ := Records.fromMutable_toMutable (Records.renew stored e) nid hfit'
      (by simp [Records.renew, hn]) hl
    exact ⟨b', hb', by rw [hd']; simp [Records.renew, hn]⟩

example : Records.renewCycle false
    ((Records.toImmutable ⟨1, List.replicate 32 7, List.replicate 32 9, 5, none⟩).getD []) [6, 7]
    = [Records.toImmutable ⟨1, List.replicate 32 7, List.replicate 32 9, 6, none⟩,
       Records.toImmutable ⟨1, List.replicate 32 7, List.replicate 32 9, 7, none⟩] := by decide

/-! ### share-container headers -/

/-- **immutable container header** (`>LLL`): the version and a zero lease count are read back; the
    second field holds `min(2^32-1, max_size)` — saturated, and documented as unused by the reader. -/
theorem immutable_header_decode_encode (v m : Int) (rest : Bytes) (hv : 0 ≤ v) (hv2 : v.toNat < 256 ^ 4)
    (hm : 0 ≤ m) :
    ∃ b, Records.immHeader v m = some b ∧ b.length = 12 ∧
      Records.readImmHeader (b ++ rest) = some (v.toNat, (min 4294967295 m).toNat, 0) :=
  Records.readImmHeader_immHeader v m rest hv hv2 hm

/-- the saturation, on an example: `max_size = 2^32 + 5` is stored as `2^32 - 1` -/
theorem immutable_header_saturates :
    Records.immHeader 2 4294967301 = some [0, 0, 0, 2, 255, 255, 255, 255, 0, 0, 0, 0] ∧
    Records.readImmHeader [0, 0, 0, 2, 255, 255, 255, 255, 0, 0, 0, 0] = some (2, 4294967295, 0) ∧
    Records.readImmHeader [0, 0, 0, 2, 255, 255, 255, 255, 0, 0, 0] = none := by decide

/-- **mutable container header** (`>32s20s32sQQ` + four blank lease slots + `>L` 0): the magic check
    passes for the version written, and node id and write enabler are read back exactly; data length 0,
    extra-lease offset 468 -/
theorem mutable_header_decode_encode (version : Nat) (nid we : Bytes) (hv : version = 1 ∨ version = 2)
    (hn : nid.length = 20) (hw : we.length = 32) :
    ∃ file magic, Records.mutHeader version nid we = some file ∧ Records.magicOf version = some magic ∧
      Records.readMutHeader file = .ok (magic, nid, we, 0, 468) ∧ Records.mutSchemaOf file = some version :=
  Records.readMutHeader_mutHeader version nid we hv hn hw

example : (Records.mutHeader 2 (List.replicate 20 1) (List.replicate 32 2)).isSome := by decide

/-- a header whose magic is not one of the known ones is rejected, as is a truncated one -/
theorem mutable_header_rejects_malformed :
    Records.readMutHeader (List.replicate 100 0) = .error .assertion ∧
    Records.readMutHeader (List.replicate 99 0) = .error .struct := ⟨by decide, by decide⟩

end Tahoe.C38
