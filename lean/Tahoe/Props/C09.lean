import Tahoe.Mutable.ContentLemmas
import Tahoe.Generated.Mutpublish
/-! C09 — mutable files read back what one writer wrote (property theorems; helper lemmas are in
    `Tahoe/Mutable/ContentLemmas.lean`, the model in `Tahoe/Mutable/Content.lean`).

    The model is the code with fixes/C09-update-stale-node-size.diff and
    fixes/C09-sdmf-update-past-eof.diff applied.  `WF cfg v` says that the version was published by a
    client with configuration `cfg` (segment size = `next_multiple(DEFAULT_MUTABLE_MAX_SEGMENT_SIZE | len, k)`);
    it is established by `create` and preserved by every operation (`history_refines_bytes` carries it). -/
namespace Tahoe.C09
open Tahoe.Mutable.Content

/-- **update = splice.**  An update of a non-empty file at `off ≤ size` is accepted and yields
    `old[:off] ++ data ++ old[off+len:]` — an append when `off = size`, an extension when
    `off + len > size` — in both formats, any segment size, any number of segments.
    Precise guard (everything outside it is *refused* by the code, i.e. raises, see `update_refused`):
    the file is non-empty; for MDMF `off ≤ size`, and not (`off = size` and `size` a multiple of the segment size). -/
theorem update_is_splice (cfg : Cfg) (v : Version) (off : Nat) (data : Bytes)
    (hk : 0 < cfg.k) (hm : 0 < cfg.maxSeg) (wf : WF cfg v)
    (hpos : 0 < v.content.length) (hoff : off ≤ v.content.length)
    (hb : v.fmt = .mdmf → ¬ (off = v.content.length ∧ off % v.segsize = 0)) :
    ∃ v', update cfg v off data = .ok v'
      ∧ v'.content = v.content.take off ++ data ++ v.content.drop (off + data.length)
      ∧ v'.fmt = v.fmt ∧ WF cfg v' := by
  obtain ⟨v', h1, h2, h3, h4⟩ := update_spec cfg v off data hk hm wf hpos (fun hf => ⟨hoff, hb hf⟩)
  refine ⟨v', h1, ?_, h3, h4⟩
  rw [h2, ← splice_eq_spec _ _ _ hoff]; rfl

example : ∃ v, publishAll ⟨2, 4⟩ .mdmf [1, 2, 3, 4, 5, 6, 7, 8, 9, 10] = some v ∧ WF ⟨2, 4⟩ v
    ∧ (update ⟨2, 4⟩ v 3 [100, 101, 102]).toOption.map (·.content) = some [1, 2, 3, 100, 101, 102, 7, 8, 9, 10]
    ∧ (update ⟨2, 4⟩ v 10 [100]).toOption.map (·.content) = some [1, 2, 3, 4, 5, 6, 7, 8, 9, 10, 100]
    ∧ (update ⟨2, 4⟩ v 7 [100, 101, 102, 103, 104, 105, 106]).toOption.map (·.content)
        = some [1, 2, 3, 4, 5, 6, 7, 100, 101, 102, 103, 104, 105, 106] :=
  ⟨_, rfl, rfl, by decide, by decide, by decide⟩

/-- SDMF (with the zero-fill repair): a write that starts beyond the end puts the data at `off`,
    keeps the old bytes and fills the gap with zeros. -/
theorem update_past_eof_sdmf (cfg : Cfg) (v : Version) (off : Nat) (data : Bytes)
    (hk : 0 < cfg.k) (hm : 0 < cfg.maxSeg) (wf : WF cfg v) (hf : v.fmt = .sdmf)
    (hpos : 0 < v.content.length) (hoff : v.content.length < off) :
    ∃ v', update cfg v off data = .ok v'
      ∧ v'.content = v.content ++ List.replicate (off - v.content.length) 0 ++ data := by
  obtain ⟨v', h1, h2, _, _⟩ := update_spec cfg v off data hk hm wf hpos (by intro h; rw [hf] at h; cases h)
  refine ⟨v', h1, ?_⟩
  rw [h2]
  simp only [specStep]
  rw [List.take_of_length_le (by omega), List.drop_of_length_le (by omega), List.append_nil]

example : (update ⟨2, 8⟩ ⟨.sdmf, 4, [1, 2, 3]⟩ 5 [9, 9]).toOption.map (·.content) = some [1, 2, 3, 0, 0, 9, 9] := by
  decide

/-- The refusals of the code (exceptions; nothing is published): every update of an empty file, and for
    MDMF a start beyond the end or exactly at an end that is a segment boundary. -/
theorem update_refused (cfg : Cfg) (v : Version) (off : Nat) (data : Bytes) (wf : WF cfg v)
    (h : v.content.length = 0 ∨
         (v.fmt = .mdmf ∧ (v.content.length < off ∨ (off = v.content.length ∧ off % v.segsize = 0)))) :
    ∃ e, update cfg v off data = .error e := by
  cases hu : update cfg v off data with
  | error e => exact ⟨e, rfl⟩
  | ok v' =>
    exfalso
    have hseg : v.segsize ≠ 0 := by intro h0; simp [update, h0] at hu
    cases hf : v.fmt with
    | sdmf =>
      rcases h with h0 | ⟨hm', _⟩
      · apply hseg; rw [wf, hf, h0]; simp [pubSegsize, nextMultiple, divCeil]
      · rw [hf] at hm'; cases hm'
    | mdmf =>
      have hm' : mdmfUpdate cfg v off data = .ok v' := by simpa [update, hseg, hf] using hu
      obtain ⟨g1, g2, g3⟩ := mdmfUpdate_ok_guard cfg v v' off data hm'
      rcases h with h0 | ⟨_, hgt | ⟨he, hmod⟩⟩
      · omega
      · omega
      · -- off = size is a multiple of seg: start_segment = num_segments
        have hs : 0 < v.segsize := Nat.pos_of_ne_zero hseg
        have g := geom_numSegments v.content.length v.segsize hs
        obtain ⟨_, s2, s3⟩ := div_bounds off v.segsize hs
        obtain ⟨_, g'⟩ := g
        rcases g' with ⟨_, h0⟩ | ⟨hn0, hl, ht0, hts⟩
        · omega
        · have := Nat.mul_le_mul_right v.segsize
            (show off / v.segsize + 1 ≤ numSegments v.content.length v.segsize by omega)
          have e : (numSegments v.content.length v.segsize - 1 + 1) * v.segsize
              = (numSegments v.content.length v.segsize - 1) * v.segsize + v.segsize := Nat.succ_mul _ _
          have e' : numSegments v.content.length v.segsize - 1 + 1 = numSegments v.content.length v.segsize := by omega
          rw [e'] at e
          rw [Nat.succ_mul] at this
          omega

example : update ⟨2, 4⟩ ⟨.mdmf, 4, [1, 2, 3, 4, 5, 6, 7, 8]⟩ 8 [9] = .error .index
    ∧ update ⟨2, 4⟩ ⟨.mdmf, 4, [1, 2, 3]⟩ 5 [9] = .error .assertion
    ∧ update ⟨2, 4⟩ ⟨.sdmf, 0, []⟩ 0 [9] = .error .zerodiv := ⟨rfl, rfl, rfl⟩

/-- **TransformingUploadable.read is correct.**  Built by the updater from the old start segment (and,
    where old bytes after the write are needed, the old end segment), and read with the publisher's
    segment lengths (`seg`, or the tail size for the last segment of the new file) for the segments
    `off/seg, off/seg+1, …`, it passes every `assert len(data) == segsize` and returns exactly the
    segments of `old[:off] ++ data ++ old[off+len:]`. -/
theorem transforming_read_correct (old data : Bytes) (seg off : Nat) (hseg : 0 < seg) (hoff : off ≤ old.length)
    (endSeg : Bytes) (count : Nat)
    (hcount : off / seg + count ≤ numSegments (max old.length (off + data.length)) seg)
    (hend : ∀ j, off / seg ≤ j → j < off / seg + count →
      off + data.length < j * seg + want (numSegments (max old.length (off + data.length)) seg) seg
          (tailSize (max old.length (off + data.length)) seg) j →
      endSeg = segmentOf old seg j) :
    pushLoop TU.read (numSegments (max old.length (off + data.length)) seg) seg
        (tailSize (max old.length (off + data.length)) seg) (off / seg) count
        (TU.init data off seg (segmentOf old seg (off / seg)) endSeg)
      = some ((List.range' (off / seg) count).map fun j =>
          slice (splice old off data) (j * seg)
            (j * seg + want (numSegments (max old.length (off + data.length)) seg) seg
              (tailSize (max old.length (off + data.length)) seg) j)) :=
  tu_pushLoop old data seg off hseg hoff endSeg count hcount hend

example : pushLoop TU.read 3 4 2 0 2 (TU.init [100, 101, 102] 3 4 [1, 2, 3, 4] [5, 6, 7, 8])
    = some [[1, 2, 3, 100], [101, 102, 7, 8]] := by decide

/-- **read(offset, size) is the slice.**  `MutableFileVersion.read(consumer, offset, size)` of a valid
    range returns `content[offset : offset+size]`, whatever the segment size (Retrieve's
    `_start_segment`/`_last_segment` and `_set_segment` head/tail trimming). -/
theorem read_range_slice (v : Version) (off size : Nat) (hseg : 0 < v.segsize) (hsize : 0 < size)
    (hlen : off + size ≤ v.content.length) :
    read v off (some size) = .ok ((v.content.drop off).take size) := by
  rw [read_spec v off size hseg hsize hlen]
  congr 1
  simp only [slice]
  rw [List.drop_take]
  congr 1; omega

/-- `read(consumer, offset)` (size = None) returns everything from `offset`; an empty range is empty. -/
theorem read_to_end (v : Version) (off : Nat) (hseg : 0 < v.segsize) (hoff : off ≤ v.content.length) :
    read v off none = .ok (v.content.drop off) := by
  by_cases h : off = v.content.length
  · subst h; simp [Mutable.Content.read]
  · have := read_range_slice v off (v.content.length - off) hseg (by omega) (by omega)
    simp only [Mutable.Content.read, hoff, if_true] at this ⊢
    rw [this, List.take_of_length_le (by simp)]

example : read ⟨.mdmf, 4, [1, 2, 3, 4, 5, 6, 7, 8, 9, 10]⟩ 3 (some 6) = .ok [4, 5, 6, 7, 8, 9]
    ∧ read ⟨.mdmf, 4, [1, 2, 3, 4, 5, 6, 7, 8, 9, 10]⟩ 5 none = .ok [6, 7, 8, 9, 10] := ⟨rfl, rfl⟩

/-- **Histories refine the byte-string fold.**  For every operation list (create / overwrite / modify
    with any modifier / update, either format) started from a client-published state, the content
    after operation `i` is the fold of the byte-string semantics `specStep` over the operations that
    were accepted up to `i` (a refused operation changes nothing). -/
theorem history_refines_bytes (cfg : Cfg) (hk : 0 < cfg.k) (hm : 0 < cfg.maxSeg) (ops : List Op)
    (st : Option Version) (wf : ∀ v, st = some v → WF cfg v) :
    (run cfg st ops).map (fun r => contentOf r.2)
      = specRun (contentOf st) (((run cfg st ops).map (·.1)).zip ops) :=
  run_refines cfg hk hm ops st wf

example : (run ⟨2, 4⟩ none [.create .mdmf [1, 2, 3, 4, 5], .update 5 [6, 7, 8, 9], .update 2 [0, 0, 0],
      .update 20 [1], .modify (fun old => some (old ++ [42])), .overwrite [7]]).map (fun r => (r.1, contentOf r.2))
    = [(true, [1, 2, 3, 4, 5]), (true, [1, 2, 3, 4, 5, 6, 7, 8, 9]), (true, [1, 2, 0, 0, 0, 6, 7, 8, 9]),
       (false, [1, 2, 0, 0, 0, 6, 7, 8, 9]), (true, [1, 2, 0, 0, 0, 6, 7, 8, 9, 42]), (true, [7])] := by decide

/-- a whole-file publish (create / overwrite / changed modify) stores exactly the new bytes -/
theorem publish_stores_data (cfg : Cfg) (fmt : Fmt) (data : Bytes) (hk : 0 < cfg.k) (hm : 0 < cfg.maxSeg) :
    ∃ v, publishAll cfg fmt data = some v ∧ v.content = data ∧ v.fmt = fmt ∧ WF cfg v :=
  ⟨_, publishAll_eq cfg fmt data hk hm, rfl, rfl, rfl⟩

/-- the documented MDMF maximum segment size (128 KiB), pinned to the source constant -/
theorem default_max_segment_size_is_128KiB :
    Tahoe.Generated.Mutpublish.DEFAULT_MUTABLE_MAX_SEGMENT_SIZE = 128 * 1024
      ∧ Tahoe.Generated.Mutpublish.KiB = 1024 := by decide

end Tahoe.C09
