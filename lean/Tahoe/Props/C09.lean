import Tahoe.Mutable.ContentLemmas
import Tahoe.Mutable.HandleLemmas
import Tahoe.Generated.Mutpublish
/-! C09 — mutable files read back what one writer wrote (property theorems; helper lemmas are in
    `Tahoe/Mutable/ContentLemmas.lean`, the model in `Tahoe/Mutable/Content.lean`).

    As built: the model describes the code as repaired in /repo — b67174d (`Publish.update` takes the old length
    from the version, fixes/C09-update-stale-node-size.diff), 2a6f1c2 (SDMF update beyond EOF zero-fills,
    fixes/C09-sdmf-update-past-eof.diff), 6586d18 (a second `update()` through one version object applies to the
    version the first one published, fixes/C09-update-twice-stale-version.diff).  16 theorems, none `_partial`.
    `WF cfg v` says that the version was published by a
    client with configuration `cfg` (segment size = `next_multiple(DEFAULT_MUTABLE_MAX_SEGMENT_SIZE | len, k)`);
    it is established by `create` and preserved by every operation (`history_refines_bytes` carries it).

    ## Coverage of the statement (clauses of C09 in properties.jsonl → theorems about the model)

    | clause | where |
    |---|---|
    | any sequence of operations by one client: create, overwrite, modify, update/append; content after each successful operation = the operations applied in order to a byte string | `history_refines_bytes` (all op lists, any modifier function, induction over the history), `publish_stores_data` |
    | … in SDMF or MDMF format | all theorems are for `Fmt.sdmf` and `Fmt.mdmf` (`update_is_splice` has both branches; `update_past_eof_sdmf`) |
    | … of any size including multi-segment files | no bound on content, offsets, lengths or segment size anywhere; segment arithmetic: `transforming_read_correct`, `update_is_splice`, `read_range_slice` |
    | in-place update or append at any offset | `update_is_splice` (`off ≤ size`, append at `off = size`), `update_past_eof_sdmf` (`off > size`, SDMF), `update_refused` (exactly which starts the code refuses with an exception) |
    | each read after a successful operation returns those bytes (whole read) | `history_reads_refine`, `read_to_end` |
    | … (`read(offset, size)`, Retrieve's segment selection, `_decode_blocks` tail trimming, `_set_segment` head/tail trimming) | `read_range_slice`, `decode_blocks_is_stored_segment`, `history_reads_refine` |
    | an in-place update changes only the bytes it writes | `update_changes_only_written_bytes` (pointwise), `update_is_splice` |
    | extending the file if it writes past the end | `update_changes_only_written_bytes` (length = `max size (off+len)`), `update_past_eof_sdmf` |
    | and leaves every other byte intact | `update_changes_only_written_bytes` (bytes before `off` and from `off+len` on) |
    | the boundary merge inside the updater (old prefix/suffix of the boundary segments, publisher's segment lengths; agreement of `_do_update_update` and `setup_encoding_parameters` on start/end segments) | `transforming_read_correct`, `updater_and_publisher_agree` |
    | quantifier "every server response ordering" (schedules) | correspondence only: the model abstracts publish/servermap networking ("publish succeeded ⇒ shares hold the version", C47/C11); the harness runs every history under a seeded random/fifo/lifo delivery order |
    | hash-tree reshaping at power-of-two segment counts, FEC, AES, share layout | correspondence only (reads on the grid validate block/share hash trees and decode real shares); the model keeps per-segment plaintext and the decoder's padding only |
    | which of the two fetched boundary segments is `_start` and which is `_end` (`ServermapUpdater._got_results` → `_got_update_results_one_share` → `ServerMap.update_data` → `_decode_and_decrypt_segments` → `Retrieve.decode`) | `boundary_segments_paired` (the modelled step: `fetchShare`, `gotUpdateResults`, `recordUpdate`, `selectDatum`, `boundaryMaps`, `decodeFetched`; `mdmfUpdate` now goes through it, so `update_is_splice` / `history_refines_bytes` depend on it), arithmetic of the pair: `updater_and_publisher_agree`. Tie: driver op `ud` against the real `_got_update_results_one_share` + `_decode_and_decrypt_segments` + `Retrieve.decode` on real zfec blocks (entries in arrival order, stale versions, duplicates, conflicts, too few shares), and the order of the gathered list in `_got_results` by the many-segment corpus histories (pairs {7,8}, {5,8}, {1,8}, {6,9}, {15,16}, …). Not modelled: block hashes / salts, shares answering with different versions at once |
    | operations through a reused `MutableFileVersion` object (`mv = get_best_mutable_version(); mv.update(..); mv.update(..)`, also mixed with `mv.overwrite/modify/read`) | `held_object_refines`, `held_object_invariant` over the executable model `Tahoe/Mutable/Handle.lean` (the object = pinned version + its servermap's best; `update` and `modify` re-pin, `overwrite` does not; read = bytes while pinned = best, KeyError after a publish through the object, empty range / range refusal decided against the pinned version first): mutators through the object ≡ the node-level `step` (so `history_refines_bytes` / `history_reads_refine` cover them), reads through it return the current bytes or nothing. Tie: histories with `pin`/`held` ops map to the driver tokens `p`, `hu:` `ho:` `hm:` `hr:` and every outcome incl. `err:key` is compared. Still monitor only: an object overtaken by a change made through another object (what the code refuses — UncoordinatedWriteError / IndexError / AssertionError — or which cached old bytes a read shows depends on its cached servermap/proxies; `HInv` excludes it) |
    | stale `node.get_size()` (the defect repaired by the fix diff) | monitor + correspondence (the model has no node-level cache: it takes the length from the version, as the repaired code does) | -/
namespace Tahoe.C09
open Tahoe.Mutable.Content

/-- **update = splice.**  An update of a non-empty file at `off ≤ size` is accepted and yields
    `old[:off] ++ data ++ old[off+len:]` — an append when `off = size`, an extension when
    `off + len > size` — in both formats, any segment size, any number of segments.
    Precise guard (everything outside it is *refused* by the code, i.e. raises, see `update_refused`):
    the file is non-empty; for MDMF `off ≤ size`, and not (`off = size` and `size` a multiple of the segment size). -/
theorem update_is_splice (cfg : Cfg) (v : Version) (off : Nat) (data : Bytes)
    (hk : 0 < cfg.k) (hm : 0 < cfg.maxSeg) (wf : WF cfg v)
    (hpos : 0 < v.content.length) (hoff : off ≤ v.content.length)
    (hb : v.fmt = .mdmf → ¬ (off = v.content.length ∧ off % v.segsize = 0)) :
    ∃ v', update cfg v off data = .ok v'
      ∧ v'.content = v.content.take off ++ data ++ v.content.drop (off + data.length)
      ∧ v'.fmt = v.fmt ∧ WF cfg v' := by
  obtain ⟨v', h1, h2, h3, h4⟩ := update_spec cfg v off data hk hm wf hpos (fun hf => ⟨hoff, hb hf⟩)
  refine ⟨v', h1, ?_, h3, h4⟩
  rw [h2, ← splice_eq_spec _ _ _ hoff]; rfl

example : ∃ v, publishAll ⟨2, 4⟩ .mdmf [1, 2, 3, 4, 5, 6, 7, 8, 9, 10] = some v ∧ WF ⟨2, 4⟩ v
    ∧ (update ⟨2, 4⟩ v 3 [100, 101, 102]).toOption.map (·.content) = some [1, 2, 3, 100, 101, 102, 7, 8, 9, 10]
    ∧ (update ⟨2, 4⟩ v 10 [100]).toOption.map (·.content) = some [1, 2, 3, 4, 5, 6, 7, 8, 9, 10, 100]
    ∧ (update ⟨2, 4⟩ v 7 [100, 101, 102, 103, 104, 105, 106]).toOption.map (·.content)
        = some [1, 2, 3, 4, 5, 6, 7, 100, 101, 102, 103, 104, 105, 106] :=
  ⟨_, rfl, rfl, by decide, by decide, by decide⟩

/-- **An update changes only the bytes it writes** and extends the file when it writes past the end:
    under the guard of `update_is_splice`, the new length is `max size (off+len)`, byte `off+i` is
    `data[i]`, and every byte before `off` and from `off+len` on is the old byte (absent where the old
    file had none). -/
theorem update_changes_only_written_bytes (cfg : Cfg) (v : Version) (off : Nat) (data : Bytes)
    (hk : 0 < cfg.k) (hm : 0 < cfg.maxSeg) (wf : WF cfg v)
    (hpos : 0 < v.content.length) (hoff : off ≤ v.content.length)
    (hb : v.fmt = .mdmf → ¬ (off = v.content.length ∧ off % v.segsize = 0)) :
    ∃ v', update cfg v off data = .ok v'
      ∧ v'.content.length = max v.content.length (off + data.length)
      ∧ (∀ i, i < off → v'.content[i]? = v.content[i]?)
      ∧ (∀ i, i < data.length → v'.content[off + i]? = data[i]?)
      ∧ (∀ i, off + data.length ≤ i → v'.content[i]? = v.content[i]?) := by
  obtain ⟨v', h1, h2, _, _⟩ := update_spec cfg v off data hk hm wf hpos (fun hf => ⟨hoff, hb hf⟩)
  rw [← splice_eq_spec _ _ _ hoff] at h2
  refine ⟨v', h1, by rw [h2, length_splice _ _ _ hoff], ?_, ?_, ?_⟩
  · intro i hi; rw [h2, getElem?_splice _ _ _ _ hoff, if_pos hi]
  · intro i hi
    rw [h2, getElem?_splice _ _ _ _ hoff, if_neg (by omega), if_pos (by omega)]
    congr 1; omega
  · intro i hi; rw [h2, getElem?_splice _ _ _ _ hoff, if_neg (by omega), if_neg (by omega)]

-- a write ending exactly on a segment boundary before EOF (publisher's vs updater's end segment), and a
-- write from an earlier segment into the tail segment short of EOF (the end segment must be fetched)
example : (update ⟨2, 4⟩ ⟨.mdmf, 4, [1, 2, 3, 4, 5, 6, 7, 8, 9, 10, 11]⟩ 2 [100, 101, 102, 103, 104, 105]).toOption.map (·.content)
      = some [1, 2, 100, 101, 102, 103, 104, 105, 9, 10, 11]
    ∧ (update ⟨2, 4⟩ ⟨.mdmf, 4, [1, 2, 3, 4, 5, 6, 7, 8, 9, 10, 11]⟩ 3 [100, 101, 102, 103, 104, 105, 106]).toOption.map (·.content)
      = some [1, 2, 3, 100, 101, 102, 103, 104, 105, 106, 11] := ⟨by decide, by decide⟩

/-- SDMF (with the zero-fill repair): a write that starts beyond the end puts the data at `off`,
    keeps the old bytes and fills the gap with zeros. -/
theorem update_past_eof_sdmf (cfg : Cfg) (v : Version) (off : Nat) (data : Bytes)
    (hk : 0 < cfg.k) (hm : 0 < cfg.maxSeg) (wf : WF cfg v) (hf : v.fmt = .sdmf)
    (hpos : 0 < v.content.length) (hoff : v.content.length < off) :
    ∃ v', update cfg v off data = .ok v'
      ∧ v'.content = v.content ++ List.replicate (off - v.content.length) 0 ++ data := by
  obtain ⟨v', h1, h2, _, _⟩ := update_spec cfg v off data hk hm wf hpos (by intro h; rw [hf] at h; cases h)
  refine ⟨v', h1, ?_⟩
  rw [h2]
  simp only [specStep]
  rw [List.take_of_length_le (by omega), List.drop_of_length_le (by omega), List.append_nil]

example : (update ⟨2, 8⟩ ⟨.sdmf, 4, [1, 2, 3]⟩ 5 [9, 9]).toOption.map (·.content) = some [1, 2, 3, 0, 0, 9, 9] := by
  decide

/-- The refusals of the code (exceptions; nothing is published): every update of an empty file, and for
    MDMF a start beyond the end or exactly at an end that is a segment boundary. -/
theorem update_refused (cfg : Cfg) (v : Version) (off : Nat) (data : Bytes) (wf : WF cfg v)
    (h : v.content.length = 0 ∨
         (v.fmt = .mdmf ∧ (v.content.length < off ∨ (off = v.content.length ∧ off % v.segsize = 0)))) :
    ∃ e, update cfg v off data = .error e := by
  cases hu : update cfg v off data with
  | error e => exact ⟨e, rfl⟩
  | ok v' =>
    exfalso
    have hseg : v.segsize ≠ 0 := by intro h0; simp [update, h0] at hu
    cases hf : v.fmt with
    | sdmf =>
      rcases h with h0 | ⟨hm', _⟩
      · apply hseg; rw [wf, hf, h0]; simp [pubSegsize, nextMultiple, divCeil]
      · rw [hf] at hm'; cases hm'
    | mdmf =>
      have hm' : mdmfUpdate cfg v off data = .ok v' := by simpa [update, hseg, hf] using hu
      obtain ⟨g1, g2, g3⟩ := mdmfUpdate_ok_guard cfg v v' off data hm'
      rcases h with h0 | ⟨_, hgt | ⟨he, hmod⟩⟩
      · omega
      · omega
      · -- off = size is a multiple of seg: start_segment = num_segments
        have hs : 0 < v.segsize := Nat.pos_of_ne_zero hseg
        have g := geom_numSegments v.content.length v.segsize hs
        obtain ⟨_, s2, s3⟩ := div_bounds off v.segsize hs
        obtain ⟨_, g'⟩ := g
        rcases g' with ⟨_, h0⟩ | ⟨hn0, hl, ht0, hts⟩
        · omega
        · have := Nat.mul_le_mul_right v.segsize
            (show off / v.segsize + 1 ≤ numSegments v.content.length v.segsize by omega)
          have e : (numSegments v.content.length v.segsize - 1 + 1) * v.segsize
              = (numSegments v.content.length v.segsize - 1) * v.segsize + v.segsize := Nat.succ_mul _ _
          have e' : numSegments v.content.length v.segsize - 1 + 1 = numSegments v.content.length v.segsize := by omega
          rw [e'] at e
          rw [Nat.succ_mul] at this
          omega

example : update ⟨2, 4⟩ ⟨.mdmf, 4, [1, 2, 3, 4, 5, 6, 7, 8]⟩ 8 [9] = .error .index
    ∧ update ⟨2, 4⟩ ⟨.mdmf, 4, [1, 2, 3]⟩ 5 [9] = .error .assertion
    ∧ update ⟨2, 4⟩ ⟨.sdmf, 0, []⟩ 0 [9] = .error .zerodiv := ⟨rfl, rfl, rfl⟩

/-- **TransformingUploadable.read is correct.**  Built by the updater from the old start segment (and,
    where old bytes after the write are needed, the old end segment), and read with the publisher's
    segment lengths (`seg`, or the tail size for the last segment of the new file) for the segments
    `off/seg, off/seg+1, …`, it passes every `assert len(data) == segsize` and returns exactly the
    segments of `old[:off] ++ data ++ old[off+len:]`. -/
theorem transforming_read_correct (old data : Bytes) (seg off : Nat) (hseg : 0 < seg) (hoff : off ≤ old.length)
    (endSeg : Bytes) (count : Nat)
    (hcount : off / seg + count ≤ numSegments (max old.length (off + data.length)) seg)
    (hend : ∀ j, off / seg ≤ j → j < off / seg + count →
      off + data.length < j * seg + want (numSegments (max old.length (off + data.length)) seg) seg
          (tailSize (max old.length (off + data.length)) seg) j →
      endSeg = segmentOf old seg j) :
    pushLoop TU.read (numSegments (max old.length (off + data.length)) seg) seg
        (tailSize (max old.length (off + data.length)) seg) (off / seg) count
        (TU.init data off seg (segmentOf old seg (off / seg)) endSeg)
      = some ((List.range' (off / seg) count).map fun j =>
          slice (splice old off data) (j * seg)
            (j * seg + want (numSegments (max old.length (off + data.length)) seg) seg
              (tailSize (max old.length (off + data.length)) seg) j)) :=
  tu_pushLoop old data seg off hseg hoff endSeg count hcount hend

example : pushLoop TU.read 3 4 2 0 2 (TU.init [100, 101, 102] 3 4 [1, 2, 3, 4] [5, 6, 7, 8])
    = some [[1, 2, 3, 100], [101, 102, 7, 8]] := by decide

/-- **The updater's and the publisher's segment arithmetic agree.**  Take `start_segment`/`end_segment`
    exactly as `_do_update_update` computes them (`updateRange`: the two old segments given to
    TransformingUploadable; `end_segment` is the segment of the last written byte when the write stops
    short of EOF) and the publisher's `starting_segment`/`end_segment` exactly as
    `setup_encoding_parameters` computes them (`pubEndSegment`; `c` = number of segments pushed).  Then the
    publisher stays inside the new file, covers every written byte, and its reads are exactly the segments
    of `old[:off] ++ data ++ old[off+len:]`.  (A change of either site alone — e.g. not subtracting 1 when
    the write ends on a segment boundary, or not fetching the end segment for a write ending inside the
    tail segment — falsifies this statement.) -/
theorem updater_and_publisher_agree (old data : Bytes) (seg off : Nat) (hseg : 0 < seg)
    (hpos : 0 < old.length) (hoff : off ≤ old.length)
    (hstart : off / seg < numSegments old.length seg) :
    let r := updateRange old.length seg off data.length
    let D := max old.length (off + data.length)
    let c := (pubEndSegment D seg (off + data.length) + 1 - ((off / seg : Nat) : Int)).toNat
    r.1 = off / seg ∧ r.1 + c ≤ numSegments D seg ∧ off + data.length ≤ (r.1 + c) * seg
      ∧ pushLoop TU.read (numSegments D seg) seg (tailSize D seg) r.1 c
          (TU.init data off seg (segmentOf old seg r.1)
            (if r.2 < 0 then [] else segmentOf old seg r.2.toNat))
        = some ((List.range' r.1 c).map fun j =>
            slice (splice old off data) (j * seg) (j * seg + want (numSegments D seg) seg (tailSize D seg) j)) := by
  intro r D c
  obtain ⟨c', hc, h1, h2, h3⟩ := updater_publisher_agree old data seg off hseg hpos hoff hstart
  have hcc : c = c' := hc
  rw [hcc]
  exact ⟨rfl, h1, h2, h3⟩

-- the two boundary shapes: a write ending exactly on a segment boundary before EOF pushes one segment
-- (not two), a write from segment 0 into the tail segment short of EOF uses the tail segment as `_end`
example : (pubEndSegment 11 4 8 + 1 - ((4 / 4 : Nat) : Int)).toNat = 1
    ∧ updateRange 11 4 4 4 = (1, 1)
    ∧ updateRange 11 4 3 7 = (0, 2)
    ∧ pushLoop TU.read 3 4 3 0 3 (TU.init [100, 101, 102, 103, 104, 105, 106] 3 4 [1, 2, 3, 4] [9, 10, 11])
        = some [[1, 2, 3, 100], [101, 102, 103, 104], [105, 106, 11]] := ⟨by decide, by decide, by decide, by decide⟩

/-- **The servermap-to-Retrieve step hands the updater its two boundary segments, start first.**
    For any set of ≥ k distinct shares answering the MODE_WRITE servermap update with an update range
    (`_got_results`: `[verinfo, blockhashes, block(start_segment), block(end_segment)]`, recorded by
    `_got_update_results_one_share` into `update_data`), `_decode_and_decrypt_segments` (select the entry of the
    object's version per share, build the start/end block dicts, `Retrieve.decode` each with its segment number)
    yields exactly the old plaintext of `start_segment` and of `end_segment`, in that order — for every file,
    segment size, `k`, and pair of existing segments (`end_segment = -1`, the zero-length write at 0, gives an
    unused empty end segment). -/
theorem boundary_segments_paired (shares : List Nat) (content : Bytes) (seg k s : Nat) (e : Int)
    (hnd : shares.Nodup) (hk0 : 0 < k) (hk : k ≤ shares.length) (hseg : 0 < seg)
    (hs : s < numSegments content.length seg) (he : e < (numSegments content.length seg : Int)) :
    boundarySegmentsFrom shares content seg k s e
      = .ok (segmentOf content seg s, if e < 0 then [] else segmentOf content seg e.toNat) := by
  rw [boundarySegmentsFrom_spec shares content seg k s e hnd hk0 hk]
  have hlen : content.length ≠ 0 := by
    intro h0; rw [h0] at hs; simp [numSegments, divCeil] at hs
  rw [if_neg hlen, if_neg (fun hneg => hneg ⟨hs, he⟩), decodeBlocks_eq content seg k s hseg hs]
  by_cases hneg : e < 0
  · rw [if_pos hneg, if_pos hneg]
  · rw [if_neg hneg, if_neg hneg, decodeBlocks_eq content seg k e.toNat hseg (by omega)]

-- 10 four-byte segments, the pair (7, 8) (segment numbers that wrap mod 8), shares answering in the order 2, 0, 1
example : boundarySegmentsFrom [2, 0, 1] (List.range 38 |>.map UInt8.ofNat) 4 2 7 8
    = .ok ([28, 29, 30, 31], [32, 33, 34, 35]) := rfl
-- what a swapped pair would do (block of segment 8 decoded as segment 7): the wrong old bytes, silently
example : decodeFetched (List.range 38 |>.map UInt8.ofNat) 4 2 [(0, .block 8), (1, .block 8)] 7
    = .ok [32, 33, 34, 35] := rfl
-- outside the hypotheses the code refuses: start segment beyond the file (IndexError), fewer than k shares
-- (AssertionError), two different entries of the same version for one share (AssertionError)
example : boundarySegmentsFrom [0, 1] [1, 2, 3, 4, 5, 6, 7, 8] 4 2 2 2 = .error .index
    ∧ boundarySegmentsFrom [0] [1, 2, 3, 4, 5, 6, 7, 8] 4 2 0 1 = .error .assertion
    ∧ selectDatum (.verinfo 1) [(.verinfo 1, (.blockhashes, .block 0, .block 1)),
        (.verinfo 1, (.blockhashes, .block 1, .block 1))] = .error .assertion
    -- an older version's entry in a reused servermap is skipped
    ∧ selectDatum (.verinfo 1) [(.verinfo 0, (.blockhashes, .block 5, .block 6)),
        (.verinfo 1, (.blockhashes, .block 0, .block 1))] = .ok (.blockhashes, .block 0, .block 1) := ⟨rfl, rfl, rfl, rfl⟩

/-- **read(offset, size) is the slice.**  `MutableFileVersion.read(consumer, offset, size)` of a valid
    range returns `content[offset : offset+size]`, whatever the segment size (Retrieve's
    `_start_segment`/`_last_segment` and `_set_segment` head/tail trimming). -/
theorem read_range_slice (k : Nat) (v : Version) (off size : Nat) (hseg : 0 < v.segsize) (hsize : 0 < size)
    (hlen : off + size ≤ v.content.length) :
    read k v off (some size) = .ok ((v.content.drop off).take size) := by
  rw [read_spec k v off size hseg hsize hlen]
  congr 1
  simp only [slice]
  rw [List.drop_take]
  congr 1; omega

/-- `read(consumer, offset)` (size = None) returns everything from `offset`; an empty range is empty. -/
theorem read_to_end (k : Nat) (v : Version) (off : Nat) (hseg : 0 < v.segsize) (hoff : off ≤ v.content.length) :
    read k v off none = .ok (v.content.drop off) := by
  by_cases h : off = v.content.length
  · subst h; simp [Mutable.Content.read]
  · have := read_range_slice k v off (v.content.length - off) hseg (by omega) (by omega)
    simp only [Mutable.Content.read, hoff, if_true] at this ⊢
    rw [this, List.take_of_length_le (by simp)]

example : read 2 ⟨.mdmf, 4, [1, 2, 3, 4, 5, 6, 7, 8, 9, 10]⟩ 3 (some 6) = .ok [4, 5, 6, 7, 8, 9]
    ∧ read 2 ⟨.mdmf, 4, [1, 2, 3, 4, 5, 6, 7, 8, 9, 10]⟩ 5 none = .ok [6, 7, 8, 9, 10]
    -- a range that ends in a non-final segment beyond the tail length (the shape a wrong tail test breaks)
    ∧ read 3 ⟨.mdmf, 6, [1, 2, 3, 4, 5, 6, 7, 8, 9, 10, 11, 12, 13]⟩ 1 (some 5) = .ok [2, 3, 4, 5, 6]
    ∧ read 3 ⟨.mdmf, 6, [1, 2, 3, 4, 5, 6, 7, 8, 9, 10, 11, 12, 13]⟩ 5 (some 7) = .ok [6, 7, 8, 9, 10, 11, 12]
    -- SDMF: one segment of next_multiple(len, k) bytes
    ∧ read 3 ⟨.sdmf, 12, [1, 2, 3, 4, 5, 6, 7, 8, 9, 10]⟩ 4 (some 3) = .ok [5, 6, 7]
    -- outside the guard the code refuses (precondition of `_start_download`)
    ∧ read 2 ⟨.mdmf, 4, [1, 2, 3]⟩ 2 (some 5) = .error .assertion
    ∧ read 2 ⟨.mdmf, 4, [1, 2, 3]⟩ 7 none = .error .assertion := ⟨rfl, rfl, rfl, rfl, rfl, rfl, rfl⟩

/-- **`_decode_blocks` returns the stored segment.**  For every segment of the file, cutting the
    decoder's padded output to `size_to_use` (`_tail_data_size` exactly for the file's last segment,
    `segsize` otherwise) gives back the bytes the publisher pushed, for every `k`. -/
theorem decode_blocks_is_stored_segment (content : Bytes) (seg k i : Nat) (hseg : 0 < seg)
    (hi : i < numSegments content.length seg) :
    decodeBlocks content seg k i = slice content (i * seg) (i * seg + seg) :=
  decodeBlocks_eq content seg k i hseg hi

example : decodedJoined [1, 2, 3, 4, 5, 6, 7, 8] 6 3 1 = [7, 8, 0]         -- tail decoder: next_multiple(2, 3) bytes
    ∧ decodeBlocks [1, 2, 3, 4, 5, 6, 7, 8] 6 3 1 = [7, 8]
    ∧ decodeBlocks [1, 2, 3, 4, 5, 6, 7, 8] 6 3 0 = [1, 2, 3, 4, 5, 6] := ⟨rfl, rfl, rfl⟩

/-- **Histories refine the byte-string fold.**  For every operation list (create / overwrite / modify
    with any modifier / update, either format) started from a client-published state, the content
    after operation `i` is the fold of the byte-string semantics `specStep` over the operations that
    were accepted up to `i` (a refused operation changes nothing). -/
theorem history_refines_bytes (cfg : Cfg) (hk : 0 < cfg.k) (hm : 0 < cfg.maxSeg) (ops : List Op)
    (st : Option Version) (wf : ∀ v, st = some v → WF cfg v) :
    (run cfg st ops).map (fun r => contentOf r.2)
      = specRun (contentOf st) (((run cfg st ops).map (·.1)).zip ops) :=
  run_refines cfg hk hm ops st wf

example : (run ⟨2, 4⟩ none [.create .mdmf [1, 2, 3, 4, 5], .update 5 [6, 7, 8, 9], .update 2 [0, 0, 0],
      .update 20 [1], .modify (fun old => some (old ++ [42])), .overwrite [7]]).map (fun r => (r.1, contentOf r.2))
    = [(true, [1, 2, 3, 4, 5]), (true, [1, 2, 3, 4, 5, 6, 7, 8, 9]), (true, [1, 2, 0, 0, 0, 6, 7, 8, 9]),
       (false, [1, 2, 0, 0, 0, 6, 7, 8, 9]), (true, [1, 2, 0, 0, 0, 6, 7, 8, 9, 42]), (true, [7])] := by decide

/-- **Every read after a history returns the folded bytes.**  If after operation `i` of any history the
    file is version `v`, then `v.content` is the `i`-th value of the byte-string fold, and every valid
    `read(offset, size)` / `read(offset)` of it returns that byte string's slice. -/
theorem history_reads_refine (cfg : Cfg) (hk : 0 < cfg.k) (hm : 0 < cfg.maxSeg) (ops : List Op)
    (st : Option Version) (wf : ∀ v, st = some v → WF cfg v) (i : Nat) (acc : Bool) (v : Version)
    (hi : (run cfg st ops)[i]? = some (acc, some v)) :
    (specRun (contentOf st) (((run cfg st ops).map (·.1)).zip ops))[i]? = some v.content
    ∧ (∀ off size, 0 < size → off + size ≤ v.content.length →
        read cfg.k v off (some size) = .ok ((v.content.drop off).take size))
    ∧ (∀ off, off ≤ v.content.length → read cfg.k v off none = .ok (v.content.drop off)) := by
  have hwf : WF cfg v :=
    run_wf cfg hk hm ops st wf (acc, some v) (List.mem_of_getElem? hi) v rfl
  refine ⟨?_, ?_, ?_⟩
  · rw [← history_refines_bytes cfg hk hm ops st wf, List.getElem?_map, hi]; rfl
  · intro off size hs hl
    exact read_range_slice cfg.k v off size (wf_segsize_pos cfg v hk hm hwf (by omega)) hs hl
  · intro off ho
    by_cases h0 : v.content.length = 0
    · have : off = 0 := by omega
      subst this
      have : v.content = [] := List.length_eq_zero_iff.mp h0
      simp [Mutable.Content.read, this]
    · exact read_to_end cfg.k v off (wf_segsize_pos cfg v hk hm hwf (by omega)) ho

example : (run ⟨2, 4⟩ none [.create .mdmf [1, 2, 3, 4, 5], .update 5 [6, 7, 8, 9], .update 2 [0, 0, 0]])[2]?.map
      (fun r => (r.1, r.2.map (fun v => (read 2 v 3 (some 5)).toOption)))
    = some (true, some (some [0, 0, 6, 7, 8])) := by decide

/-- **A reused version object stays in step with the grid.**  Starting from a freshly obtained object (or any
    state in which the object's servermap best is the version on the grid), after every history of operations
    through the object — `update` (re-pins, 6586d18), `overwrite`, `modify` (re-pins), `read`, re-`pin` — its
    servermap's best version is still the version on the grid, and if it is pinned to that version its pinned
    verinfo is that version's. -/
theorem held_object_invariant (cfg : Cfg) (ops : List HOp) (s : HState) (inv : HInv s) :
    ∀ r ∈ hrun cfg s ops, HInv r.1 :=
  hrun_inv cfg ops s inv

/-- **Operations through a reused version object refine the node-level operations.**  While the object is not
    overtaken (`HInv`): a mutator through it has exactly the outcome (`.ok` / the same refusal) and the resulting
    file of the same operation on the node's current version (`step`, hence `history_refines_bytes` applies); a
    read through it, while it is pinned to the servermap's best version, returns exactly the current file's range
    (or the same range refusal); and after a publish through it (pinned ≠ best) a read never returns any byte:
    it answers an empty range, refuses the range, or raises KeyError — until `update`/`modify`/`pin` re-pin it. -/
theorem held_object_refines (cfg : Cfg) (s : HState) (op : HOp) (inv : HInv s) :
    (∀ p, op.plain = some p →
      match step cfg (some s.file) p with
      | .ok st' => st' = some (hstep cfg s op).1.file ∧ (hstep cfg s op).2 = .ok
      | .error e => (hstep cfg s op).1.file = s.file ∧ (hstep cfg s op).2 = .refused e)
    ∧ (∀ off size?, op = .read off size? →
        (hstep cfg s op).1 = s
        ∧ (s.h.pinned = s.seq → (hstep cfg s op).2
            = match Mutable.Content.read cfg.k s.file off size? with | .ok b => .bytes b | .error e => .refused e)
        ∧ (s.h.pinned ≠ s.seq → ∀ b, (hstep cfg s op).2 = .bytes b → b = [])) := by
  refine ⟨fun p hp => hstep_file cfg s op p hp inv, ?_⟩
  intro off size? h; subst h
  exact ⟨hstep_read_state cfg s off size?, (hstep_read cfg s off size? inv).1, (hstep_read cfg s off size? inv).2⟩

-- update → read (KeyError) → no-op modify (re-pins) → read (current bytes) → overwrite → read (KeyError) → empty range
example : (let v : Version := ⟨.mdmf, 4, [1, 2, 3, 4, 5]⟩
    (hrun ⟨2, 4⟩ { seq := 0, file := v, h := ⟨0, v, 0, v⟩ }
      [.update 3 [9], .read 0 none, .modify (fun _ => none), .read 1 (some 3), .overwrite [7, 8], .read 0 none,
       .read 0 (some 0)]).map
      (fun r => match r.2 with
        | .bytes b => some b | .keyError => some [255] | _ => none))
    = [none, some [255], none, some [2, 3, 9], none, some [255], some []] := rfl

example : HInv (let v : Version := ⟨.mdmf, 4, [1, 2, 3, 4, 5]⟩; { seq := 0, file := v, h := ⟨0, v, 0, v⟩ }) :=
  ⟨rfl, rfl, Nat.le_refl _, fun _ => rfl⟩

/-- a whole-file publish (create / overwrite / changed modify) stores exactly the new bytes -/
theorem publish_stores_data (cfg : Cfg) (fmt : Fmt) (data : Bytes) (hk : 0 < cfg.k) (hm : 0 < cfg.maxSeg) :
    ∃ v, publishAll cfg fmt data = some v ∧ v.content = data ∧ v.fmt = fmt ∧ WF cfg v :=
  ⟨_, publishAll_eq cfg fmt data hk hm, rfl, rfl, rfl⟩

/-- the documented MDMF maximum segment size (128 KiB), pinned to the source constant -/
theorem default_max_segment_size_is_128KiB :
    Tahoe.Generated.Mutpublish.DEFAULT_MUTABLE_MAX_SEGMENT_SIZE = 128 * 1024
      ∧ Tahoe.Generated.Mutpublish.KiB = 1024 := by decide

end Tahoe.C09
