import Tahoe.Mutable.Content
/-! C09 placeholder while the model is being tied to the code. -/
namespace Tahoe.C09
open Tahoe.Mutable.Content

end Tahoe.C09
