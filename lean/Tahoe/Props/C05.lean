import Tahoe.Immutable.LemmasConvergence
import Tahoe.Immutable.LemmasSizes
import Tahoe.Immutable.LemmasUploadable
/-! C05 — convergent capabilities and literal files (property theorems; helper lemmas live in
    `Tahoe/Immutable/LemmasConvergence.lean`, `LemmasUploadable.lean`).

## Coverage of the statement (properties.jsonl C05)

| clause of the statement | theorem(s) for the model |
|---|---|
| with a convergence secret the read-cap is a deterministic function of plaintext, secret and encoding parameters | `cap_deterministic` (independent of random source, read chunking, and of `max_segment_size` beyond the effective segment size) |
| re-uploading the same data … from any data source | `cap_source_independent` (any two uploadables keeping the `IUploadable` contract `Supplies` for the same bytes and returning the same keys get the same result, whatever piece sizes their `read` returns) + `source_cap_is_uploadCap` (a FileHandle-like source — key = convergent hash of what its file object's reads deliver, or the random key — gets exactly `uploadCap`'s result, to which `cap_deterministic` applies); C01 `upload_download_any_source` for the bytes |
| … and with any read chunking | `chunking_irrelevant` (key-hashing loop over any read sequence, short reads included), `cap_source_independent` (piece sizes of `IUploadable.read`) |
| changing the secret, k, N or segment size changes the storage index | `params_separate`: the tag and the byte string fed to SHA-256d differ. That the *hash values* (key, storage index) then differ is collision resistance of truncated SHA-256d: **not a theorem** (no satisfiable hypothesis states it for a 16-byte hash); **monitor only** |
| files of at most 55 bytes get a literal cap that embeds the data | `lit_threshold` (threshold pinned to 55 by `constants_pinned`), `literal_any_source` (through `read_this_many_bytes` for any source, short reads allowed) |
| … and needs no servers | `lit_needs_no_servers`: in the model of `Uploader.upload` that takes the broker's server list as an input (`uploadCapOn`, order of tests as in the code: size threshold first, servers consulted only on the CHK branch), a file of ≤ 55 bytes gets its literal cap for *every* server count including zero, while a larger file on a client without servers fails with NoServersError; plus `lit_threshold` / `literal_any_source` (`sharesPushed = 0`, no storage index).  `uploadCapOn` is tied to the code on zero-server and normal grids (driver op `capon`) |
| uploads without a convergence secret get a fresh random key | `random_key_is_input` (the key in the cap is exactly the `os.urandom` output); freshness itself is a property of `os.urandom`: **monitor only** |
-/
namespace Tahoe.C05
open Tahoe.Immutable Tahoe.Immutable.Sizes Tahoe.Immutable.Convergence
open Tahoe.Generated

/-- the constants taken from the live source are the documented ones: literal threshold 55 bytes, 16-byte
    keys and storage indexes, the v1 convergence tag, and `_convergence_hasher_tag` accepts exactly
    `1 ≤ k ≤ n ≤ 256` on the probe pairs -/
theorem constants_pinned :
    Immutable.URI_LIT_SIZE_THRESHOLD = 55 ∧ Immutable.KEYLEN = 16 ∧ Immutable.CONVERGENCE_KEY_LEN = 16 ∧
    Immutable.STORAGE_INDEX_LEN = 16 ∧
    Immutable.CONVERGENT_ENCRYPTION_TAG =
      "allmydata_immutable_content_to_key_with_added_secret_v1+".toList.map (fun c => UInt8.ofNat c.toNat) ∧
    [(1, 1), (256, 256), (1, 256), (0, 1), (1, 0), (2, 1), (257, 257), (1, 257)].map
        (fun (p : Nat × Nat) => if (convergenceTag p.1 p.2 1024 []).isSome then 1 else 0)
      = Immutable.CONVERGENCE_KN_ACCEPTED := by
  decide

/-- a lawful incremental hasher exists (state = the bytes fed so far), so the theorems below are not vacuous -/
example : (⟨[], fun s b => s ++ b, fun s => s⟩ : Hasher (List UInt8)).Lawful := by
  intro s a b; simp [List.append_assoc]

/-- `chunking_irrelevant`: the convergent key depends on the file object's reads only through the bytes
    they deliver — for every lawful incremental hasher, every parameter set, and any two read sequences
    (any chunk sizes, short reads) that deliver the same bytes before their first empty read.  For
    non-empty chunks the delivered bytes are the concatenation, so every split of the data gives the
    same key. -/
theorem chunking_irrelevant {S : Type} (h : Hasher S) (hl : h.Lawful) (k n segsize : Nat) (secret : List UInt8)
    (reads reads' : List (List UInt8)) (hsame : consumed reads = consumed reads') :
    convergentKey h k n segsize secret reads = convergentKey h k n segsize secret reads' ∧
    ((∀ c ∈ reads, c ≠ []) → consumed reads = reads.flatten) := by
  constructor
  · unfold convergentKey
    cases convergenceTag k n segsize secret with
    | none => rfl
    | some tag =>
      simp only
      rw [hashReads_eq h hl, hashReads_eq h hl, hsame]
  · exact consumed_of_nonempty reads

example :
    let h : Hasher (List UInt8) := ⟨[], fun s b => s ++ b, fun s => s⟩
    convergentKey h 3 10 1024 [1, 2] [[7, 8], [9], [], [99]] = convergentKey h 3 10 1024 [1, 2] [[7], [8, 9]] ∧
    (convergentKey h 3 10 1024 [1, 2] [[7, 8], [9]]).isSome := by
  decide

/-- `params_separate`: if `(secret, k, n, segsize) ≠ (secret', k', n', segsize')` (both accepted by
    `_convergence_hasher_tag`) then the tags differ, and so do the byte strings actually fed to SHA-256d
    (`netstring(tag) ++ data`), whatever the file contents — injectivity of decimal rendering, comma
    separation and netstring framing. -/
theorem params_separate (k n s k' n' s' : Nat) (secret secret' tag tag' : List UInt8)
    (hne : (secret, k, n, s) ≠ (secret', k', n', s'))
    (ht : convergenceTag k n s secret = some tag) (ht' : convergenceTag k' n' s' secret' = some tag') :
    tag ≠ tag' ∧ ∀ data data' : List UInt8, netstring tag ++ data ≠ netstring tag' ++ data' := by
  have hdiff : tag ≠ tag' := by
    intro heq
    subst heq
    obtain ⟨h1, h2, h3, h4⟩ := convergenceTag_inj ht ht'
    apply hne
    rw [h1, h2, h3, h4]
  exact ⟨hdiff, fun data data' heq => hdiff (netstring_append_inj heq).1⟩

example : convergenceTag 3 10 1024 [1] ≠ convergenceTag 3 10 1025 [1] ∧
    convergenceTag 3 10 1024 [1] ≠ convergenceTag 31 0 1024 [1] ∧
    (convergenceTag 3 10 1024 [1]).isSome ∧ (convergenceTag 1 256 0 []).isSome := by
  decide

/-- `cap_deterministic`: with a convergence secret the result of an upload is determined by the
    plaintext, the secret, `k`, `n` and the *effective* segment size: it does not depend on the random
    source, on how the file object chunks its reads, or on `max_segment_size` beyond the segment size it
    yields for this file. -/
theorem cap_deterministic {S : Type} (h : Hasher S) (hl : h.Lawful)
    (uebHashOf : List UInt8 → List UInt8 → Nat → Nat → Nat → List UInt8)
    (secret urandom urandom' pt : List UInt8) (k n maxSeg maxSeg' : Nat) (reads reads' : List (List UInt8))
    (hr : consumed reads = pt) (hr' : consumed reads' = pt)
    (hseg : segSize k maxSeg pt.length = segSize k maxSeg' pt.length) :
    uploadCap h uebHashOf (some secret) urandom k n maxSeg pt reads
      = uploadCap h uebHashOf (some secret) urandom' k n maxSeg' pt reads' := by
  unfold uploadCap
  rw [hseg]
  cases isLiteral pt.length with
  | true => rfl
  | false =>
    simp only [Bool.false_eq_true, if_false]
    cases segSize k maxSeg' pt.length with
    | error e => rfl
    | ok segsize =>
      simp only [encryptionKey]
      rw [(chunking_irrelevant h hl k n segsize secret reads reads' (by rw [hr, hr'])).1]

/-- without a convergence secret the key in the cap is exactly what the random source returned (freshness
    is a property of `os.urandom`, an input of the model) -/
theorem random_key_is_input {S : Type} (h : Hasher S)
    (uebHashOf : List UInt8 → List UInt8 → Nat → Nat → Nat → List UInt8)
    (urandom pt : List UInt8) (k n maxSeg : Nat) (reads : List (List UInt8)) (r : UploadResult)
    (hbig : 55 < pt.length) (hr : uploadCap h uebHashOf none urandom k n maxSeg pt reads = some r) :
    ∃ ueb, r.cap = .chk urandom ueb k n pt.length := by
  unfold uploadCap at hr
  have : isLiteral pt.length = false := by
    simp only [isLiteral, decide_eq_false_iff_not]
    show ¬ pt.length ≤ 55
    omega
  simp only [this, Bool.false_eq_true, if_false] at hr
  cases hs : segSize k maxSeg pt.length with
  | error e => simp [hs] at hr
  | ok segsize =>
    simp only [hs, encryptionKey] at hr
    injection hr with hr
    exact ⟨_, by rw [← hr]⟩

/-- `lit_threshold`: a file is uploaded as a literal iff it has at most 55 bytes; the literal cap embeds
    exactly the plaintext, needs no key, no hashing and pushes no share to any server (for every
    hasher, secret, random source, parameters — even invalid ones — and read pattern); anything longer
    becomes a CHK cap recording `k`, `n` and the size and pushes `n` shares. -/
theorem lit_threshold {S : Type} (h : Hasher S) (uebHashOf : List UInt8 → List UInt8 → Nat → Nat → Nat → List UInt8)
    (siHash : List UInt8 → List UInt8)
    (convergence : Option (List UInt8)) (urandom pt : List UInt8) (k n maxSeg : Nat) (reads : List (List UInt8)) :
    (isLiteral pt.length = true ↔ pt.length ≤ 55) ∧
    (pt.length ≤ 55 → uploadCap h uebHashOf convergence urandom k n maxSeg pt reads
        = some { cap := .lit pt, sharesPushed := 0 } ∧ storageIndex siHash (.lit pt) = none) ∧
    (55 < pt.length → ∀ r, uploadCap h uebHashOf convergence urandom k n maxSeg pt reads = some r →
        ∃ key ueb, r.cap = .chk key ueb k n pt.length ∧ r.sharesPushed = n ∧
                   storageIndex siHash r.cap = some (siHash key)) := by
  have hiff : isLiteral pt.length = true ↔ pt.length ≤ 55 := by
    simp only [isLiteral, decide_eq_true_eq]; exact Iff.rfl
  refine ⟨hiff, fun hle => ?_, fun hgt r hr => ?_⟩
  · unfold uploadCap
    rw [hiff.mpr hle]
    exact ⟨rfl, rfl⟩
  · unfold uploadCap at hr
    have : isLiteral pt.length = false := by
      cases hb : isLiteral pt.length with
      | false => rfl
      | true => have := hiff.mp hb; omega
    simp only [this, Bool.false_eq_true, if_false] at hr
    cases hs : segSize k maxSeg pt.length with
    | error e => simp [hs] at hr
    | ok segsize =>
      simp only [hs] at hr
      cases hk : encryptionKey h convergence urandom k n segsize reads with
      | none => simp [hk] at hr
      | some key =>
        simp only [hk] at hr
        injection hr with hr
        exact ⟨key, _, by rw [← hr], by rw [← hr], by rw [← hr]; rfl⟩

example :
    let h : Hasher (List UInt8) := ⟨[], fun s b => s ++ b, fun s => s⟩
    (uploadCap h (fun _ _ _ _ _ => [0]) (some [1]) [] 3 10 128 (List.replicate 55 7) [List.replicate 55 7]).map (·.sharesPushed) = some 0 ∧
    (uploadCap h (fun _ _ _ _ _ => [0]) (some [1]) [] 3 10 128 (List.replicate 56 7) [List.replicate 56 7]).map (·.sharesPushed) = some 10 := by
  decide

/-- `cap_source_independent`: the upload result does not depend on *how* the bytes are supplied.  For any
    two uploadables that keep the `IUploadable` contract for the same `data` (`Supplies`: right size, `read`
    returns the next bytes in whatever piece sizes) and answer `get_encryption_key()` alike (first call:
    encryptor; second call, after `close()`: read-cap), `Uploader.upload` returns the same result — literal
    or CHK — and it is the result determined by `(data, keys, k, n, maxSeg)` alone (`capSpec`). -/
theorem cap_source_independent (uebHashOf : List UInt8 → List UInt8 → Nat → Nat → Nat → List UInt8)
    (s s' : Uploadable.Source) (data : List UInt8) (k n maxSeg chunk : Nat)
    (hs : Uploadable.Supplies s data) (hs' : Uploadable.Supplies s' data) (hch : 0 < chunk)
    (hk0 : s.key 0 = s'.key 0) (hk1 : s.key 1 = s'.key 1) :
    (Uploadable.uploadCapVia uebHashOf s k n maxSeg chunk).2 = (Uploadable.uploadCapVia uebHashOf s' k n maxSeg chunk).2 ∧
    (Uploadable.uploadCapVia uebHashOf s k n maxSeg chunk).2
      = Uploadable.capSpec uebHashOf (s.key 0) (s.key 1) data k n maxSeg := by
  rw [Uploadable.uploadCapVia_supplies uebHashOf s data k n maxSeg chunk hs hch,
      Uploadable.uploadCapVia_supplies uebHashOf s' data k n maxSeg chunk hs' hch, hk0, hk1]
  exact ⟨rfl, rfl⟩

/-- two different sources (one string per read / odd-sized pieces) of 60 bytes: same read calls, same CHK result -/
example : (Uploadable.exampleResult []).2 = some { cap := .chk [7] [60, 18] 3 10 60, sharesPushed := 10 } := by decide
example : (Uploadable.exampleResult [5, 3]).2 = some { cap := .chk [7] [60, 18] 3 10 60, sharesPushed := 10 } := by decide
example : (Uploadable.exampleResult []).1 = [(0, 18), (18, 18), (36, 18), (54, 6)] := by decide
example : ((Uploadable.chunkySource Uploadable.exampleData60 [5, 3] (fun _ => [7])).read 0 18).map List.length
    = [5, 3, 5, 3, 2] := by decide

/-- `source_cap_is_uploadCap`: a `FileHandle`-like source — it supplies `data`, and each
    `get_encryption_key()` answers with `encryptionKey` (convergent hash over whatever its file object's
    reads deliver, provided they deliver `data`; or the cached random key) — gets exactly the result of the
    cap-level model `uploadCap`, so `cap_deterministic`, `lit_threshold`, `random_key_is_input` apply to it.
    (`maxSeg = 0` is excluded: the real encoder then raises ZeroDivisionError, `encoderSizes` = error.) -/
theorem source_cap_is_uploadCap {S : Type} (h : Hasher S) (hl : h.Lawful)
    (uebHashOf : List UInt8 → List UInt8 → Nat → Nat → Nat → List UInt8)
    (convergence : Option (List UInt8)) (urandom : List UInt8) (s : Uploadable.Source) (data : List UInt8)
    (k n maxSeg chunk : Nat) (reads : List (List UInt8)) (hch : 0 < chunk) (hk : 0 < k) (hmax : 0 < maxSeg)
    (hs : Uploadable.Supplies s data) (hr : consumed reads = data)
    (hkey : ∀ seg, segSize k maxSeg data.length = .ok seg → ∀ i, ∃ reads_i, consumed reads_i = data ∧
        encryptionKey h convergence urandom k n seg reads_i = some (s.key i)) :
    (Uploadable.uploadCapVia (fun _ => uebHashOf (s.key 1)) s k n maxSeg chunk).2
      = uploadCap h uebHashOf convergence urandom k n maxSeg data reads := by
  rw [Uploadable.uploadCapVia_supplies _ s data k n maxSeg chunk hs hch]
  unfold Uploadable.capSpec uploadCap
  cases hlit : isLiteral data.length with
  | true => rfl
  | false =>
    simp only [Bool.false_eq_true, if_false]
    cases hseg : segSize k maxSeg data.length with
    | error e => rfl
    | ok seg =>
      simp only
      obtain ⟨reads1, hc1, hk1⟩ := hkey seg hseg 1
      have hsame : encryptionKey h convergence urandom k n seg reads = some (s.key 1) := by
        rw [← hk1]
        cases convergence with
        | none => rfl
        | some secret =>
          simp only [encryptionKey]
          exact (chunking_irrelevant h hl k n seg secret reads reads1 (by rw [hr, hc1])).1
      rw [hsame]
      have hsegpos : seg % k = 0 ∧ (0 < data.length → 0 < seg) := by
        simp only [segSize, Nat.ne_of_gt hk, if_false] at hseg
        injection hseg with hseg
        rw [← hseg]
        exact ⟨nextMultiple_mod _ _, fun hd => nextMultiple_pos (by omega) hk⟩
      have hpos : 0 < data.length := by
        rcases Nat.eq_zero_or_pos data.length with h0 | hp
        · rw [h0] at hlit; simp [isLiteral] at hlit
        · exact hp
      rw [encoderSizes_ok hk (hsegpos.2 hpos) hsegpos.1]

/-- non-vacuity of `source_cap_is_uploadCap`: a convergent source over the transparent hasher -/
example :
    let h : Hasher (List UInt8) := ⟨[], fun st b => st ++ b, fun st => st⟩
    let data : List UInt8 := (List.range 60).map UInt8.ofNat
    (uploadCap h (fun _ _ _ _ _ => [0]) (some [1]) [] 3 10 16 data [data.take 7, data.drop 7]).map (·.sharesPushed) = some 10 ∧
    convergentKey h 3 10 18 [1] [data.take 7, data.drop 7] = convergentKey h 3 10 18 [1] [data] := by
  decide

/-- `literal_any_source`: every uploadable holding at most 55 bytes gets the literal cap embedding exactly
    those bytes and pushes nothing to any server — even if its `read` returns short results (the literal
    uploader loops), whatever its keys, `k`, `n`, segment size or `CHUNKSIZE`. -/
theorem literal_any_source (uebHashOf : List UInt8 → List UInt8 → Nat → Nat → Nat → List UInt8)
    (s : Uploadable.Source) (data : List UInt8) (k n maxSeg chunk : Nat)
    (hs : Uploadable.SuppliesShort s data) (hsmall : data.length ≤ 55) :
    (Uploadable.uploadCapVia uebHashOf s k n maxSeg chunk).2 = some { cap := .lit data, sharesPushed := 0 } := by
  apply Uploadable.uploadCapVia_literal uebHashOf s data k n maxSeg chunk hs
  simp only [isLiteral, decide_eq_true_eq]
  exact hsmall

/-- a source whose reads deliver one byte at a time still yields the literal cap -/
example :
    (Uploadable.uploadCapVia (fun _ _ _ _ _ => [])
      { size := 4, read := fun pos _ => [(([5, 6, 7, 8] : List UInt8).drop pos).take 1], key := fun _ => [] } 0 0 0 0).2
      = some { cap := .lit [5, 6, 7, 8], sharesPushed := 0 } := by
  decide

/-- `lit_needs_no_servers`: with the storage broker's server list as an input of `Uploader.upload`
    (`uploadCapOn`), a file of at most 55 bytes gets exactly the same literal result whatever the number of
    servers — zero included — and whatever the secret, random source, parameters and read pattern; a file of more
    than 55 bytes on a client without servers never gets a cap (NoServersError, or a parameter error), and with at
    least one server known it gets what `uploadCap` says. -/
theorem lit_needs_no_servers {S : Type} (h : Hasher S) (uebHashOf : List UInt8 → List UInt8 → Nat → Nat → Nat → List UInt8)
    (servers : Nat) (convergence : Option (List UInt8)) (urandom pt : List UInt8) (k n maxSeg : Nat)
    (reads : List (List UInt8)) :
    (pt.length ≤ 55 → uploadCapOn h uebHashOf servers convergence urandom k n maxSeg pt reads
        = .ok { cap := .lit pt, sharesPushed := 0 }) ∧
    (55 < pt.length → ∀ r, uploadCapOn h uebHashOf 0 convergence urandom k n maxSeg pt reads ≠ .ok r) ∧
    (55 < pt.length → 0 < servers → ∀ r, uploadCap h uebHashOf convergence urandom k n maxSeg pt reads = some r →
        uploadCapOn h uebHashOf servers convergence urandom k n maxSeg pt reads = .ok r) := by
  have hiff : isLiteral pt.length = true ↔ pt.length ≤ 55 := by
    simp only [isLiteral, decide_eq_true_eq]; exact Iff.rfl
  refine ⟨fun hle => ?_, fun hgt r => ?_, fun hgt hs r hr => ?_⟩
  · unfold uploadCapOn; rw [hiff.mpr hle]; rfl
  · have hf : isLiteral pt.length = false := by
      cases hb : isLiteral pt.length with
      | false => rfl
      | true => have := hiff.mp hb; omega
    unfold uploadCapOn
    simp only [hf, Bool.false_eq_true, if_false]
    cases uploadCap h uebHashOf convergence urandom k n maxSeg pt reads with
    | none => intro hh; cases hh
    | some r' => simp
  · have hf : isLiteral pt.length = false := by
      cases hb : isLiteral pt.length with
      | false => rfl
      | true => have := hiff.mp hb; omega
    unfold uploadCapOn
    simp only [hf, Bool.false_eq_true, if_false, hr]
    rw [if_neg (by omega)]

example :
    let h : Hasher (List UInt8) := ⟨[], fun st b => st ++ b, fun st => st⟩
    uploadCapOn h (fun _ _ _ _ _ => [0]) 0 (some [1]) [] 3 10 128 (List.replicate 55 7) [] = .ok { cap := .lit (List.replicate 55 7), sharesPushed := 0 } ∧
    uploadCapOn h (fun _ _ _ _ _ => [0]) 0 (some [1]) [] 3 10 128 (List.replicate 56 7) [List.replicate 56 7] = .noServers ∧
    uploadCapOn h (fun _ _ _ _ _ => [0]) 4 (some [1]) [] 3 10 128 (List.replicate 56 7) [List.replicate 56 7]
      = (match uploadCap h (fun _ _ _ _ _ => [0]) (some [1]) [] 3 10 128 (List.replicate 56 7) [List.replicate 56 7] with
         | some r => .ok r | none => .error) := by
  decide

end Tahoe.C05
