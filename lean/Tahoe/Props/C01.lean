import Tahoe.Immutable.LemmasSizes
import Tahoe.Immutable.LemmasLayout
import Tahoe.Immutable.LemmasPipeline
import Tahoe.Immutable.Examples
import Tahoe.Immutable.LemmasUploadable
import Tahoe.Immutable.LemmasRS256
/-! C01 — immutable upload/download round-trip (property theorems; helper lemmas live in
    `Tahoe/Immutable/Lemmas*.lean`).

## Coverage of the statement (properties.jsonl C01)

| clause of the statement | theorem(s) for the model |
|---|---|
| uploading any byte string as an immutable file and reading it back with the returned read-cap yields exactly the uploaded bytes | `upload_download` (bytes given directly) and `upload_download_any_source` (bytes supplied by any `IUploadable` keeping the contract `Supplies` + `StableKey`; the cap's key is the one returned by the *second* `get_encryption_key()` call); `stale_key_breaks_roundtrip` shows the key-stability hypothesis is necessary |
| … for every file size: empty, literal-sized | literal files: C05 `lit_threshold`, `literal_any_source`, C04 `read_slice_literal`; the empty file is literal. In the CHK pipeline `size = 0` is an error in model and code alike (`sizes_agree`: both raise ZeroDivisionError) and is unreachable through `Uploader.upload` |
| … on and across segment boundaries | `upload_download` (no size bound); arithmetic: `sizes_agree`, `sizes_consistent` |
| … every valid k-of-N encoding and segment size | `roundtrip_rs256`, `roundtrip_rs256_any_source`: **no hypothesis on the code** — the codec is zfec's Reed–Solomon code `rs256` (C36's transcription) and the MDS law is C36's theorem `rs256_mds`, for all `1 ≤ k ≤ N ≤ 256`; codec-parametric versions `upload_download`, `upload_download_any_source` (every codec with the MDS law).  Remaining tie for FEC: zfec's C routines ↔ the model's generator — correspondence (C36 harness byte-exact blocks/matrices; here: all N share data sections of real uploads vs `rs256Codec`, op `sharesrs`); `happy ≤ N` is C06 and plays no role in the bytes |
| … share files on disk: offset tables v1/v2, section sizes, what the reader fetches | `offsets_wellformed`, `layout_constants` |
| … every order in which storage servers answer requests | at model level: `upload_download` quantifies over `pick` (any k distinct share numbers per segment = whichever blocks arrived first) and C04 `read_slice` over guessed/known segment size; the asynchronous machinery that realises `pick` (ShareFinder, SegmentFetcher, Share) is **correspondence/monitor only** (seeded delivery orders in harness/props/c01.py); termination is C03/C46 |
| grids of 1..N+3 honest servers | **monitor only** (server selection is C06/C07) |
| hash trees / UEB hash written by the encoder and checked by the downloader | **not covered here** (C02, C35); AES-CTR is a parameter (keystream xor); the erasure code is no longer an assumption (`rs256_mds`) |
-/
namespace Tahoe.C01
open Tahoe.Immutable Tahoe.Immutable.Sizes Tahoe.Immutable.Layout Tahoe.Immutable.Pipeline
open Tahoe.Generated

/-- The constants the layout model takes from the live source are the documented ones: v1 tables have
    4-byte fields and data at 0x24, v2 8-byte fields and data at 0x44, limits 2^32 / 2^64, 32-byte
    hashes, 34-byte share-hash entries; uploader and downloader assume the same default segment size. -/
theorem layout_constants :
    Ver.v1.dataStart = 0x24 ∧ Ver.v2.dataStart = 0x44 ∧ Ver.v1.fieldSize = 4 ∧ Ver.v2.fieldSize = 8 ∧
    Ver.v1.tableStart = 0x0c ∧ Ver.v2.tableStart = 0x14 ∧
    Ver.v1.limit = 2 ^ 32 ∧ Ver.v2.limit = 2 ^ 64 ∧ Ver.v1.num = 1 ∧ Ver.v2.num = 2 ∧
    Immutable.V1_HEADER_LEN = 0x24 ∧ Immutable.V2_HEADER_LEN = 0x44 ∧
    Immutable.V1_LIMIT_EXP_BLOCK = 32 ∧ Immutable.V2_LIMIT_EXP_BLOCK = 64 ∧
    Immutable.V1_FIELDSTRUCT_SIZE = 4 ∧ Immutable.V2_FIELDSTRUCT_SIZE = 8 ∧
    Immutable.HASH_SIZE = 32 ∧ Immutable.SHARE_HASH_ENTRY_SIZE = 34 ∧
    segmentHashSize 1 = Immutable.SEGMENT_HASH_SIZE_1 ∧ segmentHashSize 3 = Immutable.SEGMENT_HASH_SIZE_3 ∧
    Immutable.UPLOAD_DEFAULT_MAX_SEGMENT_SIZE = Immutable.DOWNLOAD_DEFAULT_MAX_SEGMENT_SIZE := by
  decide

/-- `sizes_agree`: for every file size, `k` and segment size, `DownloadNode._calculate_sizes` returns
    exactly the encoder's `tail_size`, `padded_tail_size`, `num_segments` and the two codecs' block
    sizes — or raises the same exception (`k = 0`, `segsize = 0`, `segsize % k ≠ 0`).  In particular this
    holds for the segment size the uploader derives from any `maxSeg` and writes into the UEB. -/
theorem sizes_agree (size k maxSeg : Nat) :
    (∀ segsize, calculateSizes size k segsize = (encoderSizes size k segsize).map EncSizes.toDl) ∧
    (0 < k → 0 < maxSeg → 0 < size →
      ∃ e, segSize k maxSeg size = .ok e.segmentSize ∧ encoderSizes size k e.segmentSize = .ok e ∧
           calculateSizes size k e.segmentSize = .ok e.toDl) := by
  refine ⟨fun s => calculateSizes_eq_encoder size k s, fun hk hm hs => ?_⟩
  obtain ⟨seg, hseg, hpos, hmod, _, _⟩ := segSize_ok (maxSeg := maxSeg) hk hm hs
  obtain ⟨e, he⟩ : ∃ e, encoderSizes size k seg = .ok e := ⟨_, encoderSizes_ok hk hpos hmod⟩
  obtain ⟨_, hes, _, _⟩ := consistent_of_ok hs he
  refine ⟨e, by rw [hes]; exact hseg, by rw [hes]; exact he, ?_⟩
  rw [calculateSizes_eq_encoder, hes, he]; rfl

example : segSize 3 10 25 = .ok 12 ∧
    encoderSizes 25 3 12 = .ok ⟨12, 3, 9, 1, 3, 4, 1⟩ ∧ calculateSizes 25 3 12 = .ok ⟨1, 3, 3, 4, 1⟩ := by decide

/-- `sizes_consistent`: the identities the share layout and the decoder rely on, for every non-empty
    file: blocks are `segment/k`, the tail is padded by less than `k` bytes to a multiple of `k`, the
    segments tile the file, and the data section of a share (`div_ceil(size, k)` bytes) is exactly
    `num_segments - 1` full blocks plus one tail block. -/
theorem sizes_consistent (size k segsize : Nat) (e : EncSizes) (hsize : 0 < size)
    (h : encoderSizes size k segsize = .ok e) :
    e.blockSize * k = e.segmentSize ∧ e.tailBlockSize * k = e.paddedTailSize ∧
    0 < e.tailSize ∧ e.tailSize ≤ e.paddedTailSize ∧ e.paddedTailSize < e.tailSize + k ∧
    e.paddedTailSize ≤ e.segmentSize ∧ 0 < e.numSegments ∧
    (e.numSegments - 1) * e.segmentSize + e.tailSize = size ∧
    (e.numSegments - 1) * e.blockSize + e.tailBlockSize = e.shareSize := by
  obtain ⟨hc, _⟩ := consistent_of_ok hsize h
  exact ⟨hc.block_mul, hc.tail_block_mul, hc.tail_pos, hc.tail_le_padded, hc.padded_lt, hc.padded_le_seg,
    hc.nseg_pos, hc.size_split, hc.share_split⟩

example : encoderSizes 56 3 21 = .ok ⟨21, 3, 19, 14, 15, 7, 5⟩ ∧ 2 * 7 + 5 = 19 ∧ 2 * 21 + 14 = 56 := by decide

/-- `offsets_wellformed` (v1 and v2): whenever `_create_offsets` succeeds,
    * the sections are contiguous in the order data, plaintext hash tree (unused), crypttext hash tree,
      block hashes, share hashes, UEB, starting right after the header (0x24 / 0x44) — hence disjoint;
    * a reader parsing the first bytes of the share recovers the version and exactly the writer's table;
    * every block the reader fetches (`data + segnum*block_size`, tail length for the last) is the byte
      range `put_block` wrote for that segment, inside the data section, and the last one ends where
      the data section ends;
    * the reader's extents for crypttext hashes / block hashes / share hashes / UEB length field are the
      writer's sections with the writer's sizes;
    * every `_queue_write` offset assertion of the writer holds and the share ends at `get_allocated_size()`. -/
theorem offsets_wellformed (v : Ver) (size k segsize : Nat) (e : EncSizes) (numShareHashes uebSize : Nat)
    (o : Offsets) (hdr : List UInt8) (hsize : 0 < size) (he : encoderSizes size k segsize = .ok e)
    (h : createOffsets v (paramsOf e numShareHashes uebSize) = .ok (o, hdr)) :
    let p := paramsOf e numShareHashes uebSize
    let shs := segmentHashSize e.numSegments
    (hdr.length = v.dataStart ∧ o.data = v.dataStart ∧
     o.plaintextHashTree = o.data + e.shareSize ∧ o.crypttextHashTree = o.plaintextHashTree + shs ∧
     o.blockHashes = o.crypttextHashTree + shs ∧ o.shareHashes = o.blockHashes + shs ∧
     o.uriExtension = o.shareHashes + numShareHashes * 34 ∧
     allocatedSize v p o = o.uriExtension + v.fieldSize + uebSize) ∧
    (∀ rest, parseOffsets (hdr ++ rest) = .ok (v, o)) ∧
    (∀ segnum, segnum < e.numSegments →
       readBlockStart o e.toDl segnum = putBlockOffset p o segnum ∧
       readBlockLen e.toDl segnum = putBlockLen p segnum ∧
       o.data ≤ readBlockStart o e.toDl segnum ∧
       readBlockStart o e.toDl segnum + readBlockLen e.toDl segnum ≤ o.plaintextHashTree ∧
       (segnum + 1 < e.numSegments →
          readBlockStart o e.toDl segnum + readBlockLen e.toDl segnum = readBlockStart o e.toDl (segnum + 1)) ∧
       (segnum + 1 = e.numSegments →
          readBlockStart o e.toDl segnum + readBlockLen e.toDl segnum = o.plaintextHashTree)) ∧
    (readerCrypttextHashes o = (o.crypttextHashTree, shs) ∧ readerBlockHashes o = (o.blockHashes, shs) ∧
     readerShareHashes o = (o.shareHashes, numShareHashes * 34) ∧
     readerUebLenField v o = (o.uriExtension, v.fieldSize) ∧ readerUebStart v o + uebSize = allocatedSize v p o) ∧
    contiguousFrom 0 (writeSequence v p o hdr) = some (allocatedSize v p o) := by
  intro p shs
  obtain ⟨hc, _, _, _⟩ := consistent_of_ok hsize he
  obtain ⟨ho, hh, _, _, _⟩ := createOffsets_ok h
  have hnp := hc.nseg_pos
  have hshare := hc.share_split
  have hd : p.blockSize * (p.numSegments - 1) ≤ p.dataSize := by
    show e.blockSize * (e.numSegments - 1) ≤ e.shareSize
    rw [← hshare, Nat.mul_comm]; omega
  have h34 : shareHashtreeSize numShareHashes = numShareHashes * 34 := rfl
  refine ⟨?_, parse_written h, ?_, ?_, write_contiguous h hnp hd⟩
  · subst ho
    exact ⟨by rw [hh, headerLen], rfl, rfl, rfl, rfl, rfl, rfl, rfl⟩
  · intro segnum hs
    have hdata : o.plaintextHashTree = o.data + e.shareSize := by subst ho; rfl
    have hstart : ∀ s, readBlockStart o e.toDl s = o.data + s * e.blockSize := fun s => rfl
    have hlen : readBlockLen e.toDl segnum = if segnum = e.numSegments - 1 then e.tailBlockSize else e.blockSize := rfl
    have hput : putBlockLen p segnum = if segnum < e.numSegments - 1 then e.blockSize
        else e.shareSize - e.blockSize * (e.numSegments - 1) := rfl
    have hmul : segnum * e.blockSize ≤ (e.numSegments - 1) * e.blockSize :=
      Nat.mul_le_mul_right _ (by omega)
    rw [hstart, hstart, hlen, hput, hdata]
    by_cases hlast : segnum = e.numSegments - 1
    · subst hlast
      rw [if_pos rfl, if_neg (Nat.lt_irrefl _), Nat.mul_comm e.blockSize]
      refine ⟨rfl, by omega, by omega, by omega, fun h => by omega, fun _ => by omega⟩
    · have hl : segnum < e.numSegments - 1 := by omega
      rw [if_neg hlast, if_pos hl]
      have hmul2 : (segnum + 1) * e.blockSize ≤ (e.numSegments - 1) * e.blockSize :=
        Nat.mul_le_mul_right _ (by omega)
      rw [Nat.add_mul] at hmul2
      refine ⟨rfl, rfl, by omega, by omega, fun _ => by rw [Nat.add_mul]; omega, fun h => by omega⟩
  · subst ho
    simp only [readerCrypttextHashes, readerBlockHashes, readerShareHashes, readerUebLenField, readerUebStart,
      offsetsOf, allocatedSize, paramsOf, h34, p, shs]
    refine ⟨?_, ?_, ?_, trivial, trivial⟩
    · congr 1; omega
    · congr 1; omega
    · congr 1; omega

example : createOffsets .v1 (paramsOf ⟨21, 3, 19, 14, 15, 7, 5⟩ 3 100)
      = .ok (⟨36, 55, 279, 503, 727, 829⟩,
             encodeFields [(4, 1), (4, 7), (4, 19), (4, 36), (4, 55), (4, 279), (4, 503), (4, 727), (4, 829)]) ∧
    (createOffsets .v2 (paramsOf ⟨21, 3, 19, 14, 15, 7, 5⟩ 3 100)).toOption.map (·.1) = some ⟨68, 87, 311, 535, 759, 861⟩ := by
  decide

/-- `upload_download`: for every non-empty plaintext, every `k ≥ 1`, `n`, every maximum segment size
    `maxSeg > 0`, every key, every keystream function, every erasure code satisfying the MDS law for
    `(k, n)`, and every function `pick` choosing for each segment any `k` distinct share numbers
    `< n` (the schedule quantifier: which servers answered first), the upload succeeds and
    downloading with the returned cap yields exactly the plaintext.  (`k ≤ n` is implied by the
    existence of `pick`; files of ≤ 55 bytes never reach this path — C05 `lit_threshold` — but the
    statement does not need that.) -/
theorem upload_download {Key : Type} (ks : Key → Nat → Block16) (c : Codec) (key : Key) (pt : List UInt8)
    (k n maxSeg : Nat) (hk : 1 ≤ k) (hmax : 0 < maxSeg) (hpt : 0 < pt.length) (hlaw : c.Lawful k n)
    (pick : Nat → List Nat) (hpick : ∀ s, ValidIds k n (pick s)) :
    ∃ u, upload ks c key pt k n maxSeg = .ok u ∧ download ks c u pick = .ok pt := by
  obtain ⟨e, m, hc, hm, _, _, hcalc, hct, hup⟩ := upload_ok ks c key pt k n maxSeg hk hmax hpt
  refine ⟨_, hup, ?_⟩
  unfold download downloadCiphertext
  simp only [hcalc]
  have hseg := getSegment_uploaded ks c key pt k n e m hlaw hc hm hct pick hpick
    { size := pt.length, segmentSize := e.segmentSize, numSegments := e.numSegments,
      neededShares := k, totalShares := n, codecSize := e.segmentSize, tailCodecSize := e.paddedTailSize } rfl
  have hmap := mapE_ok
    (fun s => (getSegment c
      { key := key, k := k, n := n, size := pt.length
        ueb := { size := pt.length, segmentSize := e.segmentSize, numSegments := e.numSegments,
                 neededShares := k, totalShares := n, codecSize := e.segmentSize, tailCodecSize := e.paddedTailSize }
        shares := (List.range n).map (shareData (segsOf c k n e m (encrypt ks key pt))) } e.toDl pick s).map (·.2))
    (fun s => ((encrypt ks key pt).drop (s * e.segmentSize)).take e.segmentSize)
    (List.range e.toDl.numSegments)
    (by
      intro s hs
      have : s ≤ m := by
        have := List.mem_range.mp hs
        simp only [EncSizes.toDl, hm] at this
        omega
      rw [hseg s, if_pos this]; rfl)
  simp only [hmap]
  have hflat := flatten_slices e.segmentSize e.toDl.numSegments (encrypt ks key pt)
    (by
      simp only [EncSizes.toDl, hm, hct, Nat.add_mul]
      have := hc.tail_le_seg
      omega)
  simp only [hflat, Except.map]
  have := decrypt_slice ks key pt 0 pt.length
  simp only [List.drop_zero] at this
  rw [List.take_of_length_le (by simp), List.take_of_length_le (by simp)] at this
  rw [this]

/-- the hypotheses are satisfiable and the pipeline really runs: 1-of-3 replication (`repl_lawful`), a toy
    keystream, three segments, a schedule picking a different share for each segment -/
example : repl.Lawful 1 3 ∧ (∀ s, ValidIds 1 3 [s % 3]) ∧
    (upload toyKs repl 5 [1, 2, 3, 4, 5] 1 3 2).toOption.map
        (fun u => (u.ueb.numSegments, (download toyKs repl u (fun s => [s % 3])).toOption))
      = some (3, some [1, 2, 3, 4, 5]) ∧ encrypt toyKs 5 [1, 2, 3, 4, 5] ≠ [1, 2, 3, 4, 5] := by
  refine ⟨repl_lawful 3, fun s => ⟨rfl, by simp, fun i hi => ?_⟩, by decide, by decide⟩
  simp only [List.mem_singleton] at hi
  omega

/-- `upload_download_any_source`: the round trip for bytes supplied by *any* uploadable.  For every source
    `s` that keeps the `IUploadable` contract for `data` (`Supplies`: `get_size()` is the number of bytes and
    `read(length)` returns strings concatenating to the next `length` bytes, fewer only at EOF — in any
    piece sizes) and whose `get_encryption_key()` is stable (`StableKey`: the call made after `close()` for
    the read-cap returns what the encryptor was created with), for every `CHUNKSIZE > 0`, encoding, lawful
    codec, keystream and schedule: the upload succeeds and reading back through the cap it returned gives
    exactly `data`.  The key itself is arbitrary (convergent hash or `os.urandom` output alike). -/
theorem upload_download_any_source (ks : List UInt8 → Nat → Block16) (c : Codec) (s : Uploadable.Source)
    (data : List UInt8) (k n maxSeg chunk : Nat)
    (hs : Uploadable.Supplies s data) (hkey : Uploadable.StableKey s) (hch : 0 < chunk)
    (hk : 1 ≤ k) (hmax : 0 < maxSeg) (hd : 0 < data.length) (hlaw : c.Lawful k n)
    (pick : Nat → List Nat) (hpick : ∀ seg, ValidIds k n (pick seg)) :
    ∃ u, Uploadable.uploadVia ks c s k n maxSeg chunk = .ok u ∧ u.key = s.key 1 ∧ download ks c u pick = .ok data := by
  rw [Uploadable.uploadVia_eq ks c s data k n maxSeg chunk hs hkey hch hk hmax hd]
  obtain ⟨u, hu, hdl⟩ := upload_download ks c (s.key 0) data k n maxSeg hk hmax hd hlaw pick hpick
  refine ⟨u, hu, ?_, hdl⟩
  obtain ⟨e, m, _, _, _, _, _, _, hup⟩ := upload_ok ks c (s.key 0) data k n maxSeg hk hmax hd
  rw [hup] at hu
  injection hu with hu
  rw [← hu, hkey 1]

/-- a source returning its bytes in odd-sized pieces keeps the contract, and the pipeline runs on it -/
example :
    let s := Uploadable.chunkySource [1, 2, 3, 4, 5, 6, 7] [2, 1] (fun _ => [9])
    (s.read 1 5).flatten = [2, 3, 4, 5, 6] ∧ (s.read 1 5).length = 3 ∧ s.read 6 5 = [[7]] ∧
    (Uploadable.uploadVia (fun key blk j => toyKs key.length blk j) repl s 1 3 2 3).toOption.map
        (fun u => (u.ueb.numSegments, (download (fun key blk j => toyKs key.length blk j) repl u (fun g => [g % 3])).toOption))
      = some (4, some [1, 2, 3, 4, 5, 6, 7]) := by
  decide

/-- `stale_key_breaks_roundtrip`: the `StableKey` hypothesis is necessary.  A source that keeps `Supplies` but
    answers the second `get_encryption_key()` (after `close()`) with a different key — what a
    `FileHandle.close()` that forgets a random key does — uploads "successfully" and its cap does not
    read back the data. -/
theorem stale_key_breaks_roundtrip :
    ∃ (s : Uploadable.Source) (data : List UInt8), Uploadable.Supplies s data ∧
      ∃ u, Uploadable.uploadVia (fun key blk j => toyKs key.length blk j) repl s 1 3 2 3 = .ok u ∧
        download (fun key blk j => toyKs key.length blk j) repl u (fun g => [g % 3]) ≠ .ok data := by
  refine ⟨{ size := 3, read := fun pos len => [(([1, 2, 3] : List UInt8).drop pos).take len],
            key := fun i => if i = 0 then [1] else [1, 1] }, [1, 2, 3], ⟨rfl, fun pos len => by simp⟩, ?_⟩
  refine ⟨_, rfl, by decide⟩

/-- `roundtrip_rs256`: the round trip with zfec's code and **no assumption on the erasure code**.  The codec is
    `rs256Codec` = C36's transcription `Tahoe.Codec.rs256` of zfec's Reed–Solomon code over GF(2^8); its MDS law
    is C36's theorem `rs256_mds`.  For every non-empty plaintext, every `1 ≤ k ≤ n ≤ 256`, `maxSeg > 0`, key,
    keystream and every per-segment choice of `k` distinct shares, upload succeeds and download returns the
    plaintext.  (What is left of FEC outside the proof: that zfec's C code computes this code — correspondence.) -/
theorem roundtrip_rs256 {Key : Type} (ks : Key → Nat → Block16) (key : Key) (pt : List UInt8)
    (k n maxSeg : Nat) (hk : 1 ≤ k) (hkn : k ≤ n) (hn : n ≤ 256) (hmax : 0 < maxSeg) (hpt : 0 < pt.length)
    (pick : Nat → List Nat) (hpick : ∀ s, ValidIds k n (pick s)) :
    ∃ u, upload ks rs256Codec key pt k n maxSeg = .ok u ∧ download ks rs256Codec u pick = .ok pt :=
  upload_download ks rs256Codec key pt k n maxSeg hk hmax hpt (rs256Codec_lawful k n hk hkn hn) pick hpick

/-- `roundtrip_rs256_any_source`: the same for bytes supplied by any contract-keeping uploadable -/
theorem roundtrip_rs256_any_source (ks : List UInt8 → Nat → Block16) (s : Uploadable.Source)
    (data : List UInt8) (k n maxSeg chunk : Nat)
    (hs : Uploadable.Supplies s data) (hkey : Uploadable.StableKey s) (hch : 0 < chunk)
    (hk : 1 ≤ k) (hkn : k ≤ n) (hn : n ≤ 256) (hmax : 0 < maxSeg) (hd : 0 < data.length)
    (pick : Nat → List Nat) (hpick : ∀ seg, ValidIds k n (pick seg)) :
    ∃ u, Uploadable.uploadVia ks rs256Codec s k n maxSeg chunk = .ok u ∧ u.key = s.key 1 ∧
      download ks rs256Codec u pick = .ok data :=
  upload_download_any_source ks rs256Codec s data k n maxSeg chunk hs hkey hch hk hmax hd
    (rs256Codec_lawful k n hk hkn hn) pick hpick

/-- 2-of-3 with zfec's code: 5 bytes in 2-byte segments, each segment decoded from a different pair of shares
    (including the pair without share 0) -/
example :
    (upload toyKs rs256Codec 5 [1, 2, 3, 4, 5] 2 3 2).toOption.map
        (fun u => (u.ueb.numSegments, u.shares.map List.length,
                   (download toyKs rs256Codec u (fun s => [[0, 1], [2, 1], [0, 2]].getD (s % 3) [])).toOption))
      = some (3, [3, 3, 3], some [1, 2, 3, 4, 5]) := by
  decide +kernel

end Tahoe.C01
