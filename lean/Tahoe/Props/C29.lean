import Tahoe.Storage.CrashLemmas
import Tahoe.Storage.ImmConnLemmas
/-!
C29 — share containers survive a server crash (immutable containers, plus the extra-lease append of
mutable `add_lease`; property theorems only).
Model: `Tahoe/Base/FsOp.lean` (primitive operations, crash = prefix), `Tahoe/Storage/Crash.lean`
(each storage operation as its primitive operations in program order; restart = `_clean_incomplete`
+ reopening; torn writes `tornOp` / `tornAt`).  All theorems quantify over every file-system state,
every storage operation and every crash index `n` (`crashAt fs op n` = run the first `n` primitive
operations, then restart; `tornAt fs op n j` = additionally the `n`-th write torn after `j` bytes).
Limits: `rename`/`unlink`/`mkdir` are atomic (a write may be torn); durability (fsync) is not
modelled; of the mutable containers only the `add_lease` extra-lease append is covered.  One open
known finding (immutable `add_lease`: `lease_ops_preserve_data_counterexample`); the two `_partial`
theorems are partial because of it.
-/
/-!
## Coverage of the statement (properties.jsonl C29)

| clause of the statement | theorem(s) for the model |
|---|---|
| killed at any point during any share operation and restarted | `crashAt fs op n` for every state `fs`, storage operation `op` and prefix length `n` of its primitive operation list; every theorem below is ∀ n |
| every share not being written keeps its data and leases | `other_shares_untouched` (one storage operation), `other_shares_untouched_seq` (whole server operations = lists of storage operations: allocate_buckets, add_lease over an SI) — byte-for-byte |
| an operation that only adds or renews leases never changes any share's data | FALSE for immutable `add_lease`: `lease_ops_preserve_data_counterexample` (open known finding); `lease_ops_preserve_data_partial` (every crash index but the one between record and count write; renewals always) |
| an immutable share is either absent or complete | `immutable_absent_or_complete` (non-lease ops; rename is the commit point), `every_crash_prefix_absent_or_complete_partial` (all ops, all prefixes except the known-finding index) |
| uploads still in progress are discarded at restart | `incoming_discarded_at_restart` (files, crash model), `restart_discards_uploads` (server model: no writer, handle, connection registration or reservation survives; completed shares unchanged; agrees with the crash model's `restart`); restart is a front-end operation of the C22 histories (`FOp.restart`, token `Z`), so all C22/C28 reachable-state theorems hold across restarts |
| lease-only operation never changes share data — mutable `add_lease` (extra-lease append) | `mutable_add_extra_lease_crash_effect`: data unchanged at every crash index (the leases of the operated-on share being unreadable at index 1 is an observation, not a clause); tied by the real-code probe in harness/props/c29.py |
| mutable containers: lease relocation when growing, truncation, deletion | not covered here (mutable container models belong to C23–C25) |
| a kill in the MIDDLE of a write (torn write: only a prefix of the bytes reaches the file) | `other_shares_untouched_torn`, `immutable_absent_or_complete_torn` (non-lease operations: every final file unchanged or the complete incoming container, for every torn index and length); lease operations: `torn_add_lease_counterexample` (ANY partial append of the 72-byte record shifts the data region — the open known finding's window is the whole first write plus the gap before the count write); tied by the fault layer tearing every write at 1 and len/2 bytes |
| rename/unlink atomicity, fsync/durability | not covered (assumption: these are atomic and everything written before the crash is durable) |
| the primitive operation lists are those of the code | correspondence only: recorded trace of the real code compared with `fsops` on every case (seeded C29-b/C29-c change the trace) |
-/
namespace Tahoe.C29
open Tahoe.Base.File Tahoe.Base.FsOp Tahoe.Storage Tahoe.Storage.Imm Tahoe.Storage.Crash

/-! concrete instances for the `example`s -/
def recA : Bytes := List.replicate 72 1
def recB : Bytes := List.replicate 72 2
/-- a completed 10-byte share with one lease -/
def share10 : File := pwrite (newContainer 10 recA) 12 [10, 11, 12, 13, 14, 15, 16, 17, 18, 19]
def exFs : IFs := fun p =>
  if p = .fin (0, 0) then some share10 else if p = .inc (0, 1) then some (newContainer 4 recA) else none

/-- **other_shares_untouched**: a crash at any point of any storage operation leaves every file
    that is not the share being written byte-for-byte as it was (data and leases), and in progress
    uploads other than those are only removed by the restart itself. -/
theorem other_shares_untouched (fs : IFs) (sop : SOp) (n : Nat) (q : Path) (hq : q ∉ targets sop) :
    crashAt fs sop n q = restart fs q := by
  have h : Tahoe.Base.FsOp.run fs ((fsops fs sop).take n) q = fs q :=
    run_take_untouched fs _ n q (fun op ho hmem => hq (fsops_touch fs sop op ho q hmem))
  cases q <;> simp_all [crashAt, restart]

example : crashAt exFs (.close (0, 1) true) 2 (.fin (0, 0)) = some share10 ∧
    crashAt exFs (.lease (0, 0) recB 1000) 1 (.fin (0, 1)) = none := by
  constructor <;> rw [other_shares_untouched _ _ _ _ (by decide)] <;> decide

set_option maxRecDepth 20000 in
/-- **lease_ops_preserve_data** is FALSE for immutable containers: a crash between the two writes
    of `add_lease` (the 72-byte record at EOF, then the count at 0x08) leaves a container whose
    reopened data length is 82 instead of 10 (the old lease record is read as share data). -/
theorem lease_ops_preserve_data_counterexample :
    (fsops exFs (.lease (0, 0) recB 1000)).length = 2 ∧
    (crashAt exFs (.lease (0, 0) recB 1000) 1 (.fin (0, 0))).map shareLength = some 82 ∧
    (reopen share10).map (fun r => r.1.length) = some 10 ∧
    ((crashAt exFs (.lease (0, 0) recB 1000) 1 (.fin (0, 0))).bind reopen).map (fun r => (r.1.length, r.2)) =
      some (82, [recB]) := by
  decide

/-- full statement (false, see the counterexample):
      ∀ fs k f rec avail n, fs (.fin k) = some f → WFFin f → rec.length = 72 →
        ∃ f', crashAt fs (.lease k rec avail) n (.fin k) = some f' ∧ SameData f f'
    **lease_ops_preserve_data_partial**: it holds at every crash index except the single one between
    the record write and the count write of an `add_lease` (operation list of length 2, `n = 1`):
    the reopened container is well formed and holds the same share data with the same length.
    Renewals (at most one in-place record write) are safe at every index. -/
theorem lease_ops_preserve_data_partial (fs : IFs) (k : Key) (f : File) (rec : Bytes) (avail n : Nat)
    (hf : fs (.fin k) = some f) (hw : WFFin f) (hr : rec.length = 72)
    (guard : ¬ ((fsops fs (.lease k rec avail)).length = 2 ∧ n = 1)) :
    ∃ f', crashAt fs (.lease k rec avail) n (.fin k) = some f' ∧ SameData f f' ∧
      (reopen f').map (·.1) = (reopen f).map (·.1) := by
  have key : ∃ f', Tahoe.Base.FsOp.run fs ((fsops fs (.lease k rec avail)).take n) (.fin k) = some f' ∧
      SameData f f' := by
    simp only [fsops, hf, leaseOps, openLeaseOffset_wf f hw] at guard ⊢
    rcases renewOps_spec (.fin k) (f.length - numLeases f * 72) f rec 0
        (getLeases (f.length - numLeases f * 72) f) with ⟨h1, h2⟩ | ⟨h1, h2⟩ | ⟨o, d, h1, h2⟩
    · -- no matching lease: add
      simp only [h1] at guard ⊢
      split
      · exact ⟨f, by simp [Tahoe.Base.FsOp.run, hf], sameData_refl f hw⟩
      · split
        · rename_i _ hn
          simp only [hn, if_true, if_neg (by assumption : ¬ 72 > avail)] at guard
          have hadd : addLease (f.length - numLeases f * 72) f rec = some
              (pwrite (pwrite f (f.length - numLeases f * 72 + numLeases f * 72) rec) 8
                (packBE 4 (numLeases f + 1))) := by
            simp [addLease, writeLeaseRecord, hn]
          rcases n with _ | _ | n
          · exact ⟨f, by simp [Tahoe.Base.FsOp.run, hf], sameData_refl f hw⟩
          · exact absurd ⟨by simp, rfl⟩ guard
          · refine ⟨_, ?_, sameData_addLease f hw rec hr _ hadd⟩
            have : List.take (n + 1 + 1) [FsOp.pwrite (Path.fin k) (f.length - numLeases f * 72 + numLeases f * 72) rec,
                FsOp.pwrite (Path.fin k) 8 (packBE 4 (numLeases f + 1))] = [FsOp.pwrite (Path.fin k) (f.length - numLeases f * 72 + numLeases f * 72) rec,
                FsOp.pwrite (Path.fin k) 8 (packBE 4 (numLeases f + 1))] := by simp
            rw [this]; exact run_pwrite2_same fs _ f hf _ _ _ _
        · exact ⟨f, by simp [Tahoe.Base.FsOp.run, hf], sameData_refl f hw⟩
    · simp only [h1]
      exact ⟨f, by simp [Tahoe.Base.FsOp.run, hf], sameData_refl f hw⟩
    · simp only [h1]
      rcases n with _ | n
      · exact ⟨f, by simp [Tahoe.Base.FsOp.run, hf], sameData_refl f hw⟩
      · refine ⟨_, ?_, sameData_renewLoop f hw rec _ 0 (by simpa using length_getLeases_le _ f) _ h2⟩
        have : List.take (n + 1) [FsOp.pwrite (Path.fin k) o d] = [FsOp.pwrite (Path.fin k) o d] := by simp
        rw [this]; exact run_pwrite_same fs _ f hf o d
  obtain ⟨f', h1, h2⟩ := key
  refine ⟨f', by simp [crashAt, restart, h1], h2, ?_⟩
  rw [reopen_data f' h2.1, reopen_data f hw, h2.2.1]

example : WFFin share10 ∧ (fsops exFs (.lease (0, 0) recA 1000)).length = 0 ∧
    (fsops exFs (.lease (0, 0) (recA.take 68 ++ [9, 9, 9, 9]) 1000)).length = 1 := by
  refine ⟨⟨by decide, by decide⟩, by decide, by decide⟩

/-- **immutable_absent_or_complete**: whatever operation (other than a lease operation, which
    never creates or removes a share) crashes at whatever point, after restart every final share
    file is exactly what it was before, or — only for a `close` of that very share, from the rename
    on — exactly the container the uploader had written in incoming/ when it called `close`.
    A share is never visible in a partially moved or partially created state: `rename` is the
    commit point. -/
theorem immutable_absent_or_complete (fs : IFs) (sop : SOp) (n : Nat) (k' : Key)
    (hl : ∀ k rec avail, sop ≠ .lease k rec avail) :
    crashAt fs sop n (.fin k') = fs (.fin k') ∨
    (∃ last, sop = .close k' last ∧ (fs (.inc k')).isSome ∧ 2 ≤ n ∧
      crashAt fs sop n (.fin k') = fs (.inc k')) := by
  by_cases ht : Path.fin k' ∈ targets sop
  · cases sop with
    | create k size rec => simp [targets] at ht
    | write k off data => simp [targets] at ht
    | abort k last => simp [targets] at ht
    | mkFinDir si => simp [targets] at ht
    | lease k rec avail => exact absurd rfl (hl k rec avail)
    | close k last =>
      simp only [targets, List.mem_cons, List.mem_nil_iff, or_false, reduceCtorEq, false_or,
        Path.fin.injEq] at ht
      subst ht
      rcases n with _ | _ | n
      · left; simp [crashAt, restart, Tahoe.Base.FsOp.run]
      · left; simp [crashAt, restart, Tahoe.Base.FsOp.run, fsops, apply]
      · cases hinc : fs (.inc k') with
        | none =>
          left
          cases last <;> rcases n with _ | _ | n <;>
            simp [crashAt, restart, Tahoe.Base.FsOp.run, fsops, apply, hinc]
        | some f =>
          right
          refine ⟨last, rfl, by simp, by omega, ?_⟩
          cases last <;> rcases n with _ | _ | n <;>
            simp [crashAt, restart, Tahoe.Base.FsOp.run, fsops, apply, hinc, upd]
  · left; rw [other_shares_untouched fs sop n _ ht]; rfl

example : crashAt exFs (.close (0, 1) true) 1 (.fin (0, 1)) = none ∧
    crashAt exFs (.close (0, 1) true) 2 (.fin (0, 1)) = some (newContainer 4 recA) ∧
    crashAt exFs (.create (0, 2) 4 recA) 3 (.fin (0, 2)) = none := by decide

/-- **other_shares_untouched for whole server operations**: `allocate_buckets` (lease operations on
    the shares already present, then one container creation per accepted share, then a mkdir) and
    `add_lease` / `renew_lease` over all shares of a storage index are *lists* of storage operations;
    at every crash index of the concatenated primitive operation list, every file that none of them
    targets is byte-for-byte as before. -/
theorem other_shares_untouched_seq (fs : IFs) (sops : List SOp) (n : Nat) (q : Path)
    (hq : ∀ sop ∈ sops, q ∉ targets sop) :
    restart (Tahoe.Base.FsOp.run fs ((sops.flatMap (fsops fs)).take n)) q = restart fs q := by
  have h : Tahoe.Base.FsOp.run fs ((sops.flatMap (fsops fs)).take n) q = fs q := by
    apply run_take_untouched
    intro op ho hmem
    obtain ⟨sop, hs, hop⟩ := List.mem_flatMap.mp ho
    exact hq sop hs (fsops_touch fs sop op hop q hmem)
  cases q <;> simp_all [restart]

example : restart (Tahoe.Base.FsOp.run exFs
      (([SOp.lease (0, 0) recB 1000, .create (0, 2) 4 recA, .mkFinDir 0].flatMap (fsops exFs)).take 4))
      (.fin (0, 5)) = none ∧
    (([SOp.lease (0, 0) recB 1000, .create (0, 2) 4 recA, .mkFinDir 0].flatMap (fsops exFs)).length = 8) := by
  constructor
  · rw [other_shares_untouched_seq _ _ _ _ (by decide)]; decide
  · decide

/-- Full statement (FALSE, see `lease_ops_preserve_data_counterexample`): for every storage
    operation and EVERY prefix of its primitive operation list, each final share file after restart
    is absent-or-complete.
    **every_crash_prefix_absent_or_complete_partial**: it holds for every operation and every prefix
    except the one index between the two writes of an `add_lease`.  "Absent or complete" is made
    precise per final path `k'`: the file is exactly what it was before the operation (absent stays
    absent, a complete share stays identical), or it is exactly the container the uploader had in
    incoming/ when `close` was called (from the rename on), or — for a lease operation on that
    share — a well-formed container holding the same share data with the same length. -/
theorem every_crash_prefix_absent_or_complete_partial (fs : IFs) (sop : SOp) (n : Nat) (k' : Key)
    (hw : ∀ f, fs (.fin k') = some f → WFFin f)
    (hr : ∀ k rec avail, sop = .lease k rec avail → rec.length = 72)
    (guard : ¬ ((∃ k rec avail, sop = .lease k rec avail) ∧ (fsops fs sop).length = 2 ∧ n = 1)) :
    crashAt fs sop n (.fin k') = fs (.fin k') ∨
    (∃ last, sop = .close k' last ∧ (fs (.inc k')).isSome ∧ crashAt fs sop n (.fin k') = fs (.inc k')) ∨
    (∃ rec avail f f', sop = .lease k' rec avail ∧ fs (.fin k') = some f ∧
      crashAt fs sop n (.fin k') = some f' ∧ SameData f f') := by
  by_cases hl : ∃ k rec avail, sop = .lease k rec avail
  · obtain ⟨k, rec, avail, rfl⟩ := hl
    by_cases hk : k = k'
    · subst hk
      cases hf : fs (.fin k) with
      | none =>
        left
        simp [crashAt, restart, fsops, hf, Tahoe.Base.FsOp.run]
      | some f =>
        right; right
        obtain ⟨f', h1, h2, _⟩ := lease_ops_preserve_data_partial fs k f rec avail n hf (hw f hf)
          (hr k rec avail rfl) (fun hg => guard ⟨⟨k, rec, avail, rfl⟩, hg.1, hg.2⟩)
        exact ⟨rec, avail, f, f', rfl, rfl, h1, h2⟩
    · left
      rw [other_shares_untouched fs _ n _ (by simp [targets]; exact fun h => hk h.symm)]; rfl
  · rcases immutable_absent_or_complete fs sop n k' (fun k rec avail h => hl ⟨k, rec, avail, h⟩) with h | ⟨last, h1, h2, _, h4⟩
    · exact Or.inl h
    · exact Or.inr (Or.inl ⟨last, h1, h2, h4⟩)

example : (∀ f, exFs (.fin (0, 0)) = some f → WFFin f) ∧
    ¬ ((∃ k rec avail, SOp.lease (0, 0) recB 1000 = .lease k rec avail) ∧
        (fsops exFs (.lease (0, 0) recB 1000)).length = 2 ∧ 2 = 1) := by
  refine ⟨fun f hf => ?_, fun h => absurd h.2.2 (by decide)⟩
  have : f = share10 := by simp [exFs] at hf; exact hf.symm
  subst this; exact ⟨by decide, by decide⟩

/-- a minimal mutable container: empty data, four (blank) header slots, empty extra-lease area at 468 -/
def mutEx : File := zeros 84 ++ packU64 0 ++ packU64 468 ++ zeros 368 ++ packU32 0

/-- **mutable_add_extra_lease_crash_effect**: for EVERY mutable container whose lease slots are all
    taken (`MutWF`: the extra-lease area ends the file) and every crash index of the two writes of
    `MutableShareFile.add_lease` (the incremented extra-lease count, then the 92-byte record), the
    share DATA is unchanged — clause "a lease-only operation never changes any share's data" for
    mutable containers.
    Observation about the code as it is (not a C29 clause: the share is the one being written): the
    leases of that share are enumerable at every crash index except index 1 (between the count and the
    record write), where a restarted server gets `struct.error` on the short read of the
    counted-but-missing record although every existing lease record is still on disk; an unapplied
    candidate reorder is in fixes/unapplied/C29-mutable-extra-lease-order.diff. -/
theorem mutable_add_extra_lease_crash_effect (fs : IFs) (p : Path) (f : File) (rec : Bytes)
    (hf : fs p = some f) (h : MutWF f) (hr : rec.length = 92) :
    (∀ n, (Tahoe.Base.FsOp.run fs ((mutAddExtraLeaseOps p f rec).take n) p).map mutData = some (mutData f)) ∧
    mutLeasesReadable f = true ∧
    (Tahoe.Base.FsOp.run fs ((mutAddExtraLeaseOps p f rec).take 1) p).map mutLeasesReadable = some false ∧
    (∀ n, n ≠ 1 →
      (Tahoe.Base.FsOp.run fs ((mutAddExtraLeaseOps p f rec).take n) p).map mutLeasesReadable = some true) := by
  obtain ⟨hl, he, hn, hd, hdat⟩ := mut_after_count_write f h
  obtain ⟨hr2, hdat2⟩ := mut_after_record_write f h rec hr
  have hfull := h.full
  have h0 : mutLeasesReadable f = true := by simp [mutLeasesReadable]; omega
  have t1 : (mutAddExtraLeaseOps p f rec).take 1 =
      [.pwrite p (Mutable.extOff f) (packU32 (Mutable.numExtra f + 1))] := rfl
  have r1 := run_pwrite_same fs p f hf (Mutable.extOff f) (packU32 (Mutable.numExtra f + 1))
  have r2 := run_pwrite2_same fs p f hf (Mutable.extOff f) (packU32 (Mutable.numExtra f + 1))
    (Mutable.extOff f + 4 + Mutable.numExtra f * 92) rec
  refine ⟨?_, h0, ?_, ?_⟩
  · intro n
    rcases n with _ | _ | n
    · simp [Tahoe.Base.FsOp.run, hf]
    · rw [t1, r1]; simp only [Option.map_some]; exact congrArg some hdat
    · have : (mutAddExtraLeaseOps p f rec).take (n + 1 + 1) = mutAddExtraLeaseOps p f rec := by
        simp [mutAddExtraLeaseOps]
      rw [this]; simp only [mutAddExtraLeaseOps]; rw [r2]; simp only [Option.map_some]; exact congrArg some hdat2
  · rw [t1, r1]
    simp only [Option.map_some, mutLeasesReadable, Option.some.injEq, decide_eq_false_iff_not]
    rw [he, hn, hl]; omega
  · intro n hn1
    rcases n with _ | _ | n
    · simp [Tahoe.Base.FsOp.run, hf, h0]
    · exact absurd rfl hn1
    · have : (mutAddExtraLeaseOps p f rec).take (n + 1 + 1) = mutAddExtraLeaseOps p f rec := by
        simp [mutAddExtraLeaseOps]
      rw [this]; simp only [mutAddExtraLeaseOps]; rw [r2]; simp only [Option.map_some]; exact congrArg some hr2

set_option maxRecDepth 20000 in
example : MutWF mutEx ∧ Mutable.extOff mutEx = 468 ∧ Mutable.numExtra mutEx = 0 ∧ mutEx.length = 472 :=
  ⟨⟨by decide, by decide, by decide⟩, by decide, by decide, by decide⟩

/-- **restart_discards_uploads** (server level): killing the server process and starting a new
    `StorageServer` on the directory leaves no upload in progress — no writer, no live handle, no
    connection registration, no reservation — turns every in-progress share of the specification
    into "absent" and leaves every completed share exactly as it was; and the file system of the
    restarted server model is the crash model's `restart` of the old one. -/
theorem restart_discards_uploads (s : Server) :
    allocatedSize (restartOp s) = 0 ∧ (restartOp s).incoming = [] ∧ (restartOp s).final = s.final ∧
    (∀ wid, findWid wid (restartOp s).incoming = none) ∧ (∀ c, widsOfConn (restartOp s) c = []) ∧
    (∀ k, absShare (restartOp s) k = match absShare s k with
      | .inProgress _ _ => .absent
      | other => other) ∧
    fsOfServer (restartOp s) = restart (fsOfServer s) := by
  refine ⟨rfl, rfl, rfl, fun _ => rfl, fun _ => rfl, ?_, ?_⟩
  · intro k
    simp only [restartOp, absShare, getK]
    cases hfin : getK k s.final with
    | some f => rfl
    | none =>
      simp only
      cases getK k s.incoming with
      | none => rfl
      | some v => rfl
  · funext p
    cases p <;> simp [fsOfServer, restart, restartOp, getK]

example :
    let s := frun (Server.empty false 0) [.allocConn 1 0 [0, 1] 4 recA 1000 [], .direct (.write 0 0 [1, 2, 3, 4]),
      .direct (.close 0), .direct (.write 1 0 [9])]
    allocatedSize s = 4 ∧ allocatedSize (fstep s .restart) = 0 ∧ visible (fstep s .restart) (0, 0) = true ∧
    absShare (fstep s .restart) (0, 1) = .absent ∧ (writeOp (fstep s .restart) 1 1 [8]).2 = .closed := by decide

/-- **other_shares_untouched_torn**: also when the crash tears the `n`-th primitive write after `j`
    bytes, every file that is not the share being written is byte-for-byte as before. -/
theorem other_shares_untouched_torn (fs : IFs) (sop : SOp) (n j : Nat) (q : Path) (hq : q ∉ targets sop) :
    tornAt fs sop n j q = restart fs q := by
  have h : Tahoe.Base.FsOp.run fs ((fsops fs sop).take n ++ (((fsops fs sop)[n]?).map (tornOp j)).getD []) q = fs q := by
    apply run_untouched
    intro op ho hmem
    rcases List.mem_append.mp ho with h1 | h1
    · exact hq (fsops_touch fs sop op (List.mem_of_mem_take h1) q hmem)
    · cases hn : (fsops fs sop)[n]? with
      | none => simp [hn] at h1
      | some o =>
        simp only [hn, Option.map_some, Option.getD_some] at h1
        exact hq (fsops_touch fs sop o (List.mem_of_getElem? hn) q (tornOp_touch j o op h1 q hmem))
  cases q <;> simp_all [tornAt, restart]

/-- **immutable_absent_or_complete_torn**: for every storage operation other than a lease operation,
    every index `n` and every torn length `j`, each final share file after restart is exactly what it
    was, or (close of that share, from the rename on) exactly the uploader's complete incoming
    container: a torn write can only hit a file under incoming/, and `rename` is atomic. -/
theorem immutable_absent_or_complete_torn (fs : IFs) (sop : SOp) (n j : Nat) (k' : Key)
    (hl : ∀ k rec avail, sop ≠ .lease k rec avail) :
    tornAt fs sop n j (.fin k') = fs (.fin k') ∨
    (∃ last, sop = .close k' last ∧ (fs (.inc k')).isSome ∧ tornAt fs sop n j (.fin k') = fs (.inc k')) := by
  cases sop with
  | close k last =>
    have : tornAt fs (.close k last) n j = crashAt fs (.close k last) n := by
      simp only [tornAt, crashAt, close_torn_nil, List.append_nil]
    rw [this]
    rcases immutable_absent_or_complete fs (.close k last) n k' hl with h | ⟨l, h1, h2, _, h4⟩
    · exact Or.inl h
    · exact Or.inr ⟨l, h1, h2, h4⟩
  | lease k rec avail => exact absurd rfl (hl k rec avail)
  | create k size rec => left; rw [other_shares_untouched_torn _ _ _ _ _ (by simp [targets])]; rfl
  | write k off data => left; rw [other_shares_untouched_torn _ _ _ _ _ (by simp [targets])]; rfl
  | abort k last => left; rw [other_shares_untouched_torn _ _ _ _ _ (by simp [targets])]; rfl
  | mkFinDir si => left; rw [other_shares_untouched_torn _ _ _ _ _ (by simp [targets])]; rfl

set_option maxRecDepth 20000 in
/-- **torn_add_lease_counterexample**: tearing the record append of `add_lease` after a single byte
    already lengthens the reopened share (11 instead of 10): the crash window of the open known
    finding is the whole first write, not only the gap between the two writes. -/
theorem torn_add_lease_counterexample :
    (tornAt exFs (.lease (0, 0) recB 1000) 0 1 (.fin (0, 0))).map shareLength = some 11 ∧
    (tornAt exFs (.lease (0, 0) recB 1000) 0 36 (.fin (0, 0))).map shareLength = some 46 ∧
    (tornAt exFs (.write (0, 1) 1 [7, 8, 9]) 0 2 (.fin (0, 0))) = some share10 := by
  decide

/-- **incoming_discarded_at_restart**: after a crash at any point of any operation, the restarted
    server has no incoming file at all (`_clean_incomplete`), and restart itself changes no final
    share. -/
theorem incoming_discarded_at_restart (fs : IFs) (sop : SOp) (n : Nat) (k : Key) :
    crashAt fs sop n (.inc k) = none ∧ restart fs (.inc k) = none ∧ restart fs (.fin k) = fs (.fin k) := by
  simp [crashAt, restart]

example : exFs (.inc (0, 1)) ≠ none ∧ crashAt exFs (.write (0, 1) 0 [1]) 1 (.inc (0, 1)) = none := by decide

end Tahoe.C29
