import Tahoe.Storage.CrawlerLemmas
/-!
# C27 - the share crawler covers every bucket each cycle

Property theorems over the slice-level state machine `Tahoe.Storage.Crawler` (model of
`ShareCrawler.start_slice / start_current_prefix / process_prefixdir / save_state`).
A schedule is a list of events: complete slices (each with its own time-check oracle and directory
listing), slices killed after any number of `process_bucket` calls (state reverts to the state
file, bucket cache lost), restarts between slices.  `run np init evs` is the final state and the
log of completed `process_bucket(cycle, prefix, bucket)` calls.

Hypotheses shared by the coverage theorems, and why they are there:
* `2 ≤ np`: the code has 1024 prefixes (`num_prefixes_pinned`).  With a single prefix the
  `bucket_cache` filled in one cycle would be reused by the next (`single_prefix_stale_cache`).
* `pf` monotone + `ListingsFollowPrefixes`: a bucket name starts with the prefix of the directory it
  is listed in, so names of later prefixes compare greater; the code relies on this because
  `last-complete-bucket` is not reset between prefixes.

## Coverage of the statement (properties.jsonl C27)

| clause of the statement | theorem(s) on the model |
|---|---|
| "under any pattern of time-slice interruptions" (every oracle stream, per slice) | quantified in every theorem below (`Event.slice ls o`, `o` arbitrary) |
| "… and restarts from its persisted state" - the state file is what a restarted process resumes from | `state_file_tracks_memory` (file = in-memory progress incl. last-complete-bucket after EVERY event), `proc_refines_slice_machine` (explicit save_state/load_state machine makes the same calls), `load_save_round_trip` |
| "each crawl cycle processes every bucket that exists throughout the cycle at least once" (kills at any point included) | `covers_at_least_once`, process level: `covers_at_least_once_proc` |
| "exactly once when the process is not killed in the middle of a slice" (restarts and orderly stops between slices allowed) | `exactly_once_without_kill`, `exactly_once_without_kill_proc`; stronger upper bound `at_most_once_without_kill` |
| resumption is exactly after the marker (nothing at or before last-complete-bucket is repeated inside a slice) | `slice_calls_beyond_marker` |
| "cycle numbers increase by one per completed cycle" | `cycle_numbers_increment` |
| constants: 1024 sorted two-character prefixes | `num_prefixes_pinned` |
| why the hypotheses: one prefix / a mid-slice kill | `single_prefix_stale_cache`, `kill_repeats_work` (counterexamples) |
| "process kills at every point" incl. kills INSIDE the state write (after truncate / partial write / before / after the rename) | atomicity of `_LeaseStateSerializer.save` is a model parameter: `cycle_numbers_increment_atomic`, `state_file_tracks_memory_with_save_kills`, `save_kill_is_kill_or_restart` (tmp + rename: such a kill is a pre-save kill or a restart, so the coverage theorems apply); in-place variant refuted: `nonatomic_save_resets_cycle_numbers`; which variant the code is: observed by the harness |
| the crawler orders each directory listing itself (listing = a set) | the model sorts (`sortNames`) inside `bucketsFor`; `sorted_listing_is_covered`; without the sort: `unsorted_listing_skips_buckets` (counterexample) |
| subclass state in the state file | for the lease crawler: C26 `histogram_survives_state_file` + the `gcrun` / `hist` correspondence (mid-cycle restarts of a real LeaseCheckingCrawler); other subclass keys (space-recovered counters): correspondence only |
| timing (`allowed_cpu_percentage`, sleep times) | not covered |
-/
namespace Tahoe.C27
open Tahoe.Storage.Crawler

/-- The prefix table of the live source: 1024 two-character prefixes, strictly sorted. -/
theorem num_prefixes_pinned :
    Tahoe.Generated.Gc.crawler_num_prefixes = 1024 ∧ 2 ≤ Tahoe.Generated.Gc.crawler_num_prefixes ∧
    Tahoe.Generated.Gc.crawler_prefixes_strictly_sorted = true ∧
    Tahoe.Generated.Gc.crawler_prefixes_two_chars = true := by decide

/-- For every oracle stream, every kill and restart pattern and every evolution of the directory
    listings: once cycle `c` is finished (`last-cycle-finished ≥ c` in the state file), every bucket
    that was listed under its prefix in every slice working on cycle `c` has been processed at
    least once with cycle number `c`. -/
theorem covers_at_least_once (np : Nat) (hnp : 2 ≤ np)
    (pf : Nat → Nat) (hmono : ∀ a b, a ≤ b → pf a ≤ pf b)
    (evs : List Event) (hls : ListingsFollowPrefixes pf evs)
    (c p b : Nat) (hp : p < np) (hpb : pf b = p)
    (hpres : PresentThroughout np c p b init evs)
    (hdone : ∃ c', (run np init evs).1.p.lcf = some c' ∧ c ≤ c') :
    (⟨c, p, b⟩ : Entry) ∈ (run np init evs).2 := by
  have h := run_cov pf hmono np hnp c p b hpb hp evs init [] hls wfC_init (wfP_init pf np) (cov_init c p b) hpres
  obtain ⟨c', hc', hle⟩ := hdone
  have := h.done (by rw [hc']; simp only [nextCycle]; omega)
  simpa using this

/-- If no slice is killed in the middle (interruptions by the time-slice check and restarts between
    slices are allowed), such a bucket is processed exactly once in the cycle. -/
theorem exactly_once_without_kill (np : Nat) (hnp : 2 ≤ np)
    (pf : Nat → Nat) (hmono : ∀ a b, a ≤ b → pf a ≤ pf b)
    (evs : List Event) (hls : ListingsFollowPrefixes pf evs)
    (hnokill : ∀ ev ∈ evs, ev.isKill = false)
    (c p b : Nat) (hp : p < np) (hpb : pf b = p)
    (hpres : PresentThroughout np c p b init evs)
    (hdone : ∃ c', (run np init evs).1.p.lcf = some c' ∧ c ≤ c') :
    (run np init evs).2.count (⟨c, p, b⟩ : Entry) = 1 := by
  have hmem := covers_at_least_once np hnp pf hmono evs hls c p b hp hpb hpres hdone
  have hu := run_uniq np c evs init [] hnokill wfC_init (uniq_init c)
  have hle := count_le_one_of_pairwise (run np init evs).2 ⟨c, p, b⟩ c rfl (by simpa using hu.incr)
  have hpos : 0 < (run np init evs).2.count (⟨c, p, b⟩ : Entry) := List.count_pos_iff.2 hmem
  omega

/-- Without mid-slice kills no `(cycle, bucket)` pair is ever processed twice - whether or not the
    bucket stays listed (no hypothesis on names or listings). -/
theorem at_most_once_without_kill (np : Nat) (evs : List Event)
    (hnokill : ∀ ev ∈ evs, ev.isKill = false) (e : Entry) :
    (run np init evs).2.count e ≤ 1 := by
  have hu := run_uniq np e.cycle evs init [] hnokill wfC_init (uniq_init e.cycle)
  exact count_le_one_of_pairwise (run np init evs).2 e e.cycle rfl (by simpa using hu.incr)

/-- Cycle numbers: in any reachable state, one more event either leaves `last-cycle-finished`
    unchanged or moves it from `None` to 0 / from `n` to `n + 1` (and then no cycle is in progress);
    every `process_bucket` call of the event carries exactly that next number. -/
theorem cycle_numbers_increment (np : Nat) (evs : List Event) (ev : Event) :
    let s := (run np init evs).1
    let r := step np s ev
    (r.1.p.lcf = s.p.lcf ∨ (r.1.p.lcf = some (nextCycle s.p.lcf) ∧ r.1.p.cur = none)) ∧
    ∀ e ∈ r.2, e.cycle = nextCycle s.p.lcf :=
  step_cycle np _ ev (run_wfC np evs init wfC_init)

/-! ### The state file (process machine: in-memory crawler + JSON file, explicit save_state / load_state) -/

/-- `load_state ∘ save_state` loses nothing of the base-class progress (incl. the prefix-name ↔ index
    mapping of "last-complete-prefix" and "last-complete-bucket"). -/
theorem load_save_round_trip (p : Persist) : (loadState (saveState p)).p = p := load_save p

/-- After every event of every schedule (slices, kills at any point, restarts, orderly stops), what a
    new process would load from the state file is exactly the progress the running process has in
    memory - `current-cycle`, `last-cycle-finished`, last complete prefix AND `last-complete-bucket`. -/
theorem state_file_tracks_memory (np : Nat) (evs : List PEvent) :
    let P := (runProc np procInit evs).1
    loadFile P.file = { P.mem with cache := none } :=
  runProc_sync np evs procInit sync_init

/-- The machine with an explicit state file makes exactly the `process_bucket` calls of the slice
    machine (an orderly stop behaves like a restart), and ends in the same in-memory state: every
    theorem about `run` is a theorem about processes restarted from their persisted state. -/
theorem proc_refines_slice_machine (np : Nat) (evs : List PEvent) :
    (runProc np procInit evs).1.mem = (run np init (evs.map PEvent.toEvent)).1 ∧
    (runProc np procInit evs).2 = (run np init (evs.map PEvent.toEvent)).2 :=
  runProc_eq_run np evs procInit sync_init

/-- coverage, stated for processes and their state file -/
theorem covers_at_least_once_proc (np : Nat) (hnp : 2 ≤ np)
    (pf : Nat → Nat) (hmono : ∀ a b, a ≤ b → pf a ≤ pf b)
    (evs : List PEvent) (hls : ListingsFollowPrefixes pf (evs.map PEvent.toEvent))
    (c p b : Nat) (hp : p < np) (hpb : pf b = p)
    (hpres : PresentThroughout np c p b init (evs.map PEvent.toEvent))
    (hdone : ∃ c', (loadFile (runProc np procInit evs).1.file).p.lcf = some c' ∧ c ≤ c') :
    (⟨c, p, b⟩ : Entry) ∈ (runProc np procInit evs).2 := by
  obtain ⟨h1, h2⟩ := proc_refines_slice_machine np evs
  have hs := state_file_tracks_memory np evs
  simp only at hs
  rw [hs, h1] at hdone
  rw [h2]
  exact covers_at_least_once np hnp pf hmono _ hls c p b hp hpb hpres hdone

/-- exactly once, stated for processes: restarts and orderly stops between slices are allowed -/
theorem exactly_once_without_kill_proc (np : Nat) (hnp : 2 ≤ np)
    (pf : Nat → Nat) (hmono : ∀ a b, a ≤ b → pf a ≤ pf b)
    (evs : List PEvent) (hls : ListingsFollowPrefixes pf (evs.map PEvent.toEvent))
    (hnokill : ∀ ev ∈ evs, ev.toEvent.isKill = false)
    (c p b : Nat) (hp : p < np) (hpb : pf b = p)
    (hpres : PresentThroughout np c p b init (evs.map PEvent.toEvent))
    (hdone : ∃ c', (loadFile (runProc np procInit evs).1.file).p.lcf = some c' ∧ c ≤ c') :
    (runProc np procInit evs).2.count (⟨c, p, b⟩ : Entry) = 1 := by
  obtain ⟨h1, h2⟩ := proc_refines_slice_machine np evs
  have hs := state_file_tracks_memory np evs
  simp only at hs
  rw [hs, h1] at hdone
  rw [h2]
  refine exactly_once_without_kill np hnp pf hmono _ hls ?_ c p b hp hpb hpres hdone
  intro ev hev
  obtain ⟨pe, hpe, rfl⟩ := List.mem_map.1 hev
  exact hnokill pe hpe

/-- Resumption is strictly after the marker: a slice started in state `s` (fresh from the state
    file or not) never calls `process_bucket` for a name at or before `last-complete-bucket`. -/
theorem slice_calls_beyond_marker (np : Nat) (ls : Nat → List Nat) (s : St) (o : List Bool) :
    ∀ e ∈ (slice np ls s o).2, ∀ l, s.p.lcb = some l → l < e.bucket := by
  intro e he l hl
  have h := (loop_log ls (cycleOf s.p) (np - s.p.next) s.p.next s.p.lcb s.cache o).2.1
  have he' : e ∈ (loop ls (cycleOf s.p) (np - s.p.next) s.p.next s.p.lcb s.cache o).log := by
    simp only [slice] at he; split at he <;> exact he
  have := (h e he').2.1
  have hn : ¬ e.bucket ≤ l := fun hle => this ⟨l, hl, hle⟩
  omega

/-- Non-vacuity for the process theorems: interruption inside prefix 1, orderly stop, a second
    interruption inside the same prefix, process lost, rest of the cycle: the file follows the marker
    (3, then 5), nothing is repeated. -/
example :
    let evs : List PEvent := [.slice exLs [false, true], .stop, .slice exLs [true], .restart, .slice exLs []]
    (runProc 3 procInit evs).2 = [⟨0,1,3⟩, ⟨0,1,5⟩, ⟨0,2,9⟩] ∧
    (runProc 3 procInit (evs.take 1)).1.file = some ⟨some 0, none, some 0, some 3⟩ ∧
    (runProc 3 procInit (evs.take 3)).1.file = some ⟨some 0, none, some 0, some 5⟩ ∧
    (runProc 3 procInit evs).1.file = some ⟨none, some 0, none, none⟩ := by
  decide

example : (loadState (saveState ⟨some 4, some 3, 7, some 12⟩)).p = ⟨some 4, some 3, 7, some 12⟩ ∧
    saveState ⟨some 4, some 3, 7, some 12⟩ = ⟨some 4, some 3, some 6, some 12⟩ := by decide

/-! ### Kills inside the state write (atomicity of `save` as a parameter) -/

/-- Whatever the write discipline, what a new process loads equals what it then has in memory. -/
theorem state_file_tracks_memory_with_save_kills (atomic : Bool) (np : Nat) (evs : List PEventA) :
    let P := (runProcA atomic np procInit evs).1
    loadFile P.file = { P.mem with cache := none } :=
  runProcA_sync atomic np evs procInit sync_init

/-- ATOMIC write (tmp + rename, what the code does): for every schedule - slices, kills at any
    `process_bucket` call, kills at any point INSIDE a state write (end of slice or stopService),
    restarts, orderly stops - one more event leaves `last-cycle-finished` unchanged or advances it by
    exactly one; it never goes back or resets; every call carries the next number. -/
theorem cycle_numbers_increment_atomic (np : Nat) (evs : List PEventA) (ev : PEventA) :
    let P := (runProcA true np procInit evs).1
    let r := stepProcA true np P ev
    (r.1.mem.p.lcf = P.mem.p.lcf ∨ (r.1.mem.p.lcf = some (nextCycle P.mem.p.lcf) ∧ r.1.mem.p.cur = none)) ∧
    ∀ e ∈ r.2, e.cycle = nextCycle P.mem.p.lcf := by
  obtain ⟨hs, hw⟩ := runProcA_inv np evs procInit sync_init wfC_init
  exact (stepProcA_cycle np _ ev hs hw).2

/-- ATOMIC write: a kill inside the final `save_state` of a slice is, for the crawl, a slice killed
    just before its save (old file survives) or a complete slice followed by a restart (new file):
    the coverage / exactly-once theorems, which quantify over both, apply to it. -/
theorem save_kill_is_kill_or_restart (np : Nat) (evs : List PEventA) (ls : Nat → List Nat) (o : List Bool)
    (pt : SavePoint) :
    let P := (runProcA true np procInit evs).1
    let r := stepProcA true np P (.saveKill ls o pt)
    (r.1.mem = (step np P.mem (.killed ls o (slice np ls P.mem o).2.length)).1 ∧
      r.2 = (step np P.mem (.killed ls o (slice np ls P.mem o).2.length)).2) ∨
    (r.1.mem = (step np (slice np ls P.mem o).1 .restart).1 ∧ r.2 = (slice np ls P.mem o).2) :=
  saveKill_is_kill_or_restart np _ ls o pt (runProcA_inv np evs procInit sync_init wfC_init).1

/-- IN-PLACE write (not what the code does; seeded change C27-d): two cycles complete, then the
    process is killed right after the truncating open of the third state write - the file is
    unreadable, the new process starts from scratch: `last-cycle-finished` falls from 1 to None and
    the next completed cycle is numbered 0 again.  With the atomic write the same schedule keeps 1
    and goes on to 2. -/
theorem nonatomic_save_resets_cycle_numbers :
    let evs : List PEventA := [.ev (.slice exLs []), .ev (.slice exLs []), .saveKill exLs [] .truncated]
    (runProcA false 3 procInit evs).1.mem.p.lcf = none ∧
    (runProcA false 3 procInit (evs ++ [.ev (.slice exLs [])])).1.mem.p.lcf = some 0 ∧
    (runProcA true 3 procInit evs).1.mem.p.lcf = some 1 ∧
    (runProcA true 3 procInit (evs ++ [.ev (.slice exLs [])])).1.mem.p.lcf = some 2 := by
  decide

/-! ### The listing is a set; the crawler orders it -/

/-- On a SORTED listing `process_prefixdir`, when it returns normally, has processed every listed
    bucket that was not already at or before the marker. -/
theorem sorted_listing_is_covered (cyc i : Nat) (lcb : Option Nat) (bs : List Nat) (o : List Bool)
    (hsorted : bs.Pairwise (· ≤ ·)) (hdone : (processPrefixdir cyc i lcb bs o).ex = false) :
    ∀ x ∈ bs, (∃ l, lcb = some l ∧ x ≤ l) ∨ (⟨cyc, i, x⟩ : Entry) ∈ (processPrefixdir cyc i lcb bs o).log :=
  fun x hx => ppd_cover cyc i bs lcb o hsorted x hx (ppd_done cyc i bs lcb o hdone x hx)

/-- Why the sort matters (seeded change C26-d dropped it): on the unsorted listing `[5, 3]`
    `process_prefixdir` processes 5, moves the marker to 5 and silently skips 3 - although nothing
    interrupted it.  The model of the code sorts first (`bucketsFor`), and then both are processed. -/
theorem unsorted_listing_skips_buckets :
    (processPrefixdir 0 0 none [5, 3] []).log = [⟨0, 0, 5⟩] ∧ (processPrefixdir 0 0 none [5, 3] []).ex = false ∧
    (processPrefixdir 0 0 none (bucketsFor (fun _ => [5, 3]) none 0) []).log = [⟨0, 0, 3⟩, ⟨0, 0, 5⟩] := by
  decide

example : [3, 5].Pairwise (· ≤ ·) ∧ (processPrefixdir 0 0 none [3, 5] [false, false]).ex = false := by
  decide

/-! Non-vacuity: three prefixes, buckets 3 and 5 under prefix 1 (listed unsorted), 9 under prefix 2.
    Slice interrupted after the second check, a slice killed after one call, two more slices. -/

example : (run 3 init exEvs).2 =
    [⟨0,1,3⟩, ⟨0,1,5⟩, ⟨0,1,5⟩, ⟨0,2,9⟩, ⟨1,1,3⟩, ⟨1,1,5⟩, ⟨1,2,9⟩] ∧ (run 3 init exEvs).1.p.lcf = some 1 := by
  decide

example : (run 3 init exNoKill).2 = [⟨0,1,3⟩, ⟨0,1,5⟩, ⟨0,2,9⟩] ∧ (run 3 init exNoKill).1.p.lcf = some 0 := by
  decide

/-- the hypotheses of `covers_at_least_once` hold for bucket 5 of prefix 1 in cycle 0 of `exEvs` -/
example : PresentThroughout 3 0 1 5 init exEvs ∧ ListingsFollowPrefixes exPf exEvs ∧ exPf 5 = 1 ∧
    (∃ c', (run 3 init exEvs).1.p.lcf = some c' ∧ 0 ≤ c') := by
  refine ⟨?_, ex_follow _ ?_, by decide, ⟨1, by decide, by omega⟩⟩
  · simp [PresentThroughout, exEvs, Event.listing, exLs]
  · intro ev hev ls hl
    simp only [exEvs, List.mem_cons, List.not_mem_nil, or_false] at hev
    rcases hev with rfl | rfl | rfl | rfl <;> (simp only [Event.listing, Option.some.injEq] at hl; exact hl.symm)

/-- … and those of `exactly_once_without_kill` for `exNoKill` -/
example : PresentThroughout 3 0 1 5 init exNoKill ∧ (∀ ev ∈ exNoKill, ev.isKill = false) := by
  refine ⟨?_, ?_⟩
  · simp [PresentThroughout, exNoKill, Event.listing, exLs]
  · intro ev hev
    simp only [exNoKill, List.mem_cons, List.not_mem_nil, or_false] at hev
    rcases hev with rfl | rfl | rfl | rfl <;> rfl

/-- Why `2 ≤ np` is assumed: with ONE prefix the listing cached while finishing cycle 0 (empty) is
    reused by cycle 1, so bucket 5, present throughout cycle 1, is never processed in it. -/
theorem single_prefix_stale_cache :
    let evs : List Event := [.slice (fun _ => []) [], .slice (fun _ => [5]) []]
    (run 1 init evs).1.p.lcf = some 1 ∧ (⟨1, 0, 5⟩ : Entry) ∉ (run 1 init evs).2 := by
  decide

/-- A mid-slice kill does repeat work: in `exEvs` bucket 5 is processed twice in cycle 0. -/
theorem kill_repeats_work : (run 3 init exEvs).2.count (⟨0, 1, 5⟩ : Entry) = 2 := by decide

end Tahoe.C27
