import Tahoe.Storage.CrawlerLemmas
/-!
# C27 - the share crawler covers every bucket each cycle

Property theorems over the slice-level state machine `Tahoe.Storage.Crawler` (model of
`ShareCrawler.start_slice / start_current_prefix / process_prefixdir / save_state`).
A schedule is a list of events: complete slices (each with its own time-check oracle and directory
listing), slices killed after any number of `process_bucket` calls (state reverts to the state
file, bucket cache lost), restarts between slices.  `run np init evs` is the final state and the
log of completed `process_bucket(cycle, prefix, bucket)` calls.

Hypotheses shared by the coverage theorems, and why they are there:
* `2 ≤ np`: the code has 1024 prefixes (`num_prefixes_pinned`).  With a single prefix the
  `bucket_cache` filled in one cycle would be reused by the next (`single_prefix_stale_cache`).
* `pf` monotone + `ListingsFollowPrefixes`: a bucket name starts with the prefix of the directory it
  is listed in, so names of later prefixes compare greater; the code relies on this because
  `last-complete-bucket` is not reset between prefixes.
-/
namespace Tahoe.C27
open Tahoe.Storage.Crawler

/-- The prefix table of the live source: 1024 two-character prefixes, strictly sorted. -/
theorem num_prefixes_pinned :
    Tahoe.Generated.Gc.crawler_num_prefixes = 1024 ∧ 2 ≤ Tahoe.Generated.Gc.crawler_num_prefixes ∧
    Tahoe.Generated.Gc.crawler_prefixes_strictly_sorted = true ∧
    Tahoe.Generated.Gc.crawler_prefixes_two_chars = true := by decide

/-- For every oracle stream, every kill and restart pattern and every evolution of the directory
    listings: once cycle `c` is finished (`last-cycle-finished ≥ c` in the state file), every bucket
    that was listed under its prefix in every slice working on cycle `c` has been processed at
    least once with cycle number `c`. -/
theorem covers_at_least_once (np : Nat) (hnp : 2 ≤ np)
    (pf : Nat → Nat) (hmono : ∀ a b, a ≤ b → pf a ≤ pf b)
    (evs : List Event) (hls : ListingsFollowPrefixes pf evs)
    (c p b : Nat) (hp : p < np) (hpb : pf b = p)
    (hpres : PresentThroughout np c p b init evs)
    (hdone : ∃ c', (run np init evs).1.p.lcf = some c' ∧ c ≤ c') :
    (⟨c, p, b⟩ : Entry) ∈ (run np init evs).2 := by
  have h := run_cov pf hmono np hnp c p b hpb hp evs init [] hls wfC_init (wfP_init pf np) (cov_init c p b) hpres
  obtain ⟨c', hc', hle⟩ := hdone
  have := h.done (by rw [hc']; simp only [nextCycle]; omega)
  simpa using this

/-- If no slice is killed in the middle (interruptions by the time-slice check and restarts between
    slices are allowed), such a bucket is processed exactly once in the cycle. -/
theorem exactly_once_without_kill (np : Nat) (hnp : 2 ≤ np)
    (pf : Nat → Nat) (hmono : ∀ a b, a ≤ b → pf a ≤ pf b)
    (evs : List Event) (hls : ListingsFollowPrefixes pf evs)
    (hnokill : ∀ ev ∈ evs, ev.isKill = false)
    (c p b : Nat) (hp : p < np) (hpb : pf b = p)
    (hpres : PresentThroughout np c p b init evs)
    (hdone : ∃ c', (run np init evs).1.p.lcf = some c' ∧ c ≤ c') :
    (run np init evs).2.count (⟨c, p, b⟩ : Entry) = 1 := by
  have hmem := covers_at_least_once np hnp pf hmono evs hls c p b hp hpb hpres hdone
  have hu := run_uniq np c evs init [] hnokill wfC_init (uniq_init c)
  have hle := count_le_one_of_pairwise (run np init evs).2 ⟨c, p, b⟩ c rfl (by simpa using hu.incr)
  have hpos : 0 < (run np init evs).2.count (⟨c, p, b⟩ : Entry) := List.count_pos_iff.2 hmem
  omega

/-- Without mid-slice kills no `(cycle, bucket)` pair is ever processed twice - whether or not the
    bucket stays listed (no hypothesis on names or listings). -/
theorem at_most_once_without_kill (np : Nat) (evs : List Event)
    (hnokill : ∀ ev ∈ evs, ev.isKill = false) (e : Entry) :
    (run np init evs).2.count e ≤ 1 := by
  have hu := run_uniq np e.cycle evs init [] hnokill wfC_init (uniq_init e.cycle)
  exact count_le_one_of_pairwise (run np init evs).2 e e.cycle rfl (by simpa using hu.incr)

/-- Cycle numbers: in any reachable state, one more event either leaves `last-cycle-finished`
    unchanged or moves it from `None` to 0 / from `n` to `n + 1` (and then no cycle is in progress);
    every `process_bucket` call of the event carries exactly that next number. -/
theorem cycle_numbers_increment (np : Nat) (evs : List Event) (ev : Event) :
    let s := (run np init evs).1
    let r := step np s ev
    (r.1.p.lcf = s.p.lcf ∨ (r.1.p.lcf = some (nextCycle s.p.lcf) ∧ r.1.p.cur = none)) ∧
    ∀ e ∈ r.2, e.cycle = nextCycle s.p.lcf :=
  step_cycle np _ ev (run_wfC np evs init wfC_init)

/-! Non-vacuity: three prefixes, buckets 3 and 5 under prefix 1 (listed unsorted), 9 under prefix 2.
    Slice interrupted after the second check, a slice killed after one call, two more slices. -/

example : (run 3 init exEvs).2 =
    [⟨0,1,3⟩, ⟨0,1,5⟩, ⟨0,1,5⟩, ⟨0,2,9⟩, ⟨1,1,3⟩, ⟨1,1,5⟩, ⟨1,2,9⟩] ∧ (run 3 init exEvs).1.p.lcf = some 1 := by
  decide

example : (run 3 init exNoKill).2 = [⟨0,1,3⟩, ⟨0,1,5⟩, ⟨0,2,9⟩] ∧ (run 3 init exNoKill).1.p.lcf = some 0 := by
  decide

/-- the hypotheses of `covers_at_least_once` hold for bucket 5 of prefix 1 in cycle 0 of `exEvs` -/
example : PresentThroughout 3 0 1 5 init exEvs ∧ ListingsFollowPrefixes exPf exEvs ∧ exPf 5 = 1 ∧
    (∃ c', (run 3 init exEvs).1.p.lcf = some c' ∧ 0 ≤ c') := by
  refine ⟨?_, ex_follow _ ?_, by decide, ⟨1, by decide, by omega⟩⟩
  · simp [PresentThroughout, exEvs, Event.listing, exLs]
  · intro ev hev ls hl
    simp only [exEvs, List.mem_cons, List.not_mem_nil, or_false] at hev
    rcases hev with rfl | rfl | rfl | rfl <;> (simp only [Event.listing, Option.some.injEq] at hl; exact hl.symm)

/-- … and those of `exactly_once_without_kill` for `exNoKill` -/
example : PresentThroughout 3 0 1 5 init exNoKill ∧ (∀ ev ∈ exNoKill, ev.isKill = false) := by
  refine ⟨?_, ?_⟩
  · simp [PresentThroughout, exNoKill, Event.listing, exLs]
  · intro ev hev
    simp only [exNoKill, List.mem_cons, List.not_mem_nil, or_false] at hev
    rcases hev with rfl | rfl | rfl | rfl <;> rfl

/-- Why `2 ≤ np` is assumed: with ONE prefix the listing cached while finishing cycle 0 (empty) is
    reused by cycle 1, so bucket 5, present throughout cycle 1, is never processed in it. -/
theorem single_prefix_stale_cache :
    let evs : List Event := [.slice (fun _ => []) [], .slice (fun _ => [5]) []]
    (run 1 init evs).1.p.lcf = some 1 ∧ (⟨1, 0, 5⟩ : Entry) ∉ (run 1 init evs).2 := by
  decide

/-- A mid-slice kill does repeat work: in `exEvs` bucket 5 is processed twice in cycle 0. -/
theorem kill_repeats_work : (run 3 init exEvs).2.count (⟨0, 1, 5⟩ : Entry) = 2 := by decide

end Tahoe.C27
