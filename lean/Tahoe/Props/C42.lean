import Tahoe.BackupDb.LemmasSession
/-! C42 — the backup database reuses caps only for unchanged content (property theorems; model in
    `Tahoe/BackupDb.lean` and `Tahoe/BackupDb/Session.lean`, helper lemmas in `Tahoe/BackupDb/Lemmas*.lean`).

    ## Coverage of the statement

    | clause of the statement (properties.jsonl) | theorem(s) |
    |---|---|
    | for any history of local file changes and backup runs | the theorems quantify over every list of API calls (`run`) and over every session of the tool working through result objects (`srun`, incl. old objects); the `os.stat` triple seen by each `check_file` is an argument, so all file-change histories — also writes between `check_file` and `did_upload` — are covered: `session_reuse_only_if_unchanged`, `session_results_carry_sampled_stat` |
    | a previously uploaded file cap is reused only when path, size, mtime and ctime all match the record of its most recent upload | `reuse_only_if_unchanged` (the cap is that upload's); the record is the stat sampled at check time: `did_upload_records_sampled_stat`, `reuse_only_if_sampled_stat_unchanged` (seeded change C42-c); exact comparison, no tolerance (C42-a), is the model's `checkFile` tied by correspondence |
    | … and timestamps are trusted | same theorems: `useTs = true` is part of the conclusion |
    | (mechanism) the cap found for a path is the one that was uploaded: fileid allocation | `fileid_of_cap_unique` (same cap ⇒ same fileid), `fileid_determines_cap` (different caps ⇒ different fileids), `alloc_stable_along_history` (a cap keeps its fileid whatever is inserted later, in any table), `alloc_independent_of_other_tables` (seeded change C42-b) |
    | a directory cap is reused only for exactly the same name-to-cap contents | `dir_reuse_only_same_contents`, `dir_reuse_witness`, `session_dir_reuse_only_same_contents` under the explicit hypothesis that the directory hash is injective; the encoding part without hypothesis: `dir_encoding_injective` (+ `dir_encoding_canonical`) |
    | backup *runs* (ordinary and `--ignore-timestamps`) | `toolFileStep`/`toolDirStep`/`trun` (Session.lean) are the per-file / per-directory steps of a run and whole histories of runs; **`backup_runs_reuse_sound`** (every reuse decision in any history of runs, files and directories), `tool_dir_step_reuse_sound`, `ignore_timestamps_run_records_new_cap` (an --ignore-timestamps run records what it uploads: seeded change C42-e), `tool_file_step_reuse_sound` |
    | (not in the statement) when a check of the stored cap is requested | `no_check_within_a_month`, `always_check_after_two_months` |

    Not covered by a theorem (correspondence only): SQLite itself (tables are finite maps), `abspath_expanduser_unicode`,
    the float arithmetic of the check probability, SHA-256d/base32 (hypothesis `Function.Injective H`), and that
    tahoe_backup.py uses the result objects as `SOp` says (six tool-level cases in the harness drive the real
    `BackerUpper.upload`). -/
namespace Tahoe.C42
open Tahoe.BackupDb Tahoe.Generated

variable {K : Type} [DecidableEq K]

/-- Over any history of API calls, `check_file` reports a cap (`was_uploaded()` truthy) only if timestamps
    are trusted and (size, mtime, ctime) of the file now equal the record of the most recent
    `did_upload_file` for that path — and the cap is the one of that upload. -/
theorem reuse_only_if_unchanged (H : Bytes → K) (ops : List Op) (path : Bytes) (st : Stat) (useTs : Bool)
    (now : Int) (rnd : Nat) (c : Bytes)
    (h : (checkFile (run H ops) path st useTs now rnd).2.wasUploaded = some c) :
    useTs = true ∧ lastUploadOf path ops.reverse = some (st.size, st.mtime, st.ctime, c) := by
  obtain ⟨_, hfiles⟩ := fileInv_run H ops
  unfold checkFile at h
  cases hg : get path (run H ops).localFiles with
  | none => simp [hg, FileResult.wasUploaded] at h
  | some rec =>
    obtain ⟨cap, hc1, hc2⟩ := hfiles path rec hg
    simp only [hg, hc1] at h
    cases hu : get rec.fileid (run H ops).lastUpload with
    | none => simp [hu, FileResult.wasUploaded] at h
    | some u =>
      simp only [hu] at h
      split at h
      · simp [FileResult.wasUploaded] at h
      · rename_i hcond
        simp only [not_or, Decidable.not_not, Bool.not_eq_false] at hcond
        obtain ⟨h1, h2, h3, h4⟩ := hcond
        simp only [FileResult.wasUploaded] at h
        split at h
        · cases h
        · cases h
          exact ⟨h2, by rw [hc2, h1, h3, h4]⟩

example : (checkFile (run (K := Bytes) id [Op.didUpload [1] [2] 5 6 7 100, Op.didUpload [3] [2] 5 6 8 150])
    [2] ⟨8, 5, 6⟩ true 200 0).2.wasUploaded = some [3] := by decide

omit [DecidableEq K] in
/-- `FileResult.did_upload` records the stat that `check_file` sampled (whatever branch produced the result). -/
theorem did_upload_records_sampled_stat (db db' : Db K) (path : Bytes) (st : Stat) (useTs : Bool)
    (now : Int) (rnd : Nat) (cap : Bytes) (now' : Int) :
    (checkFile db path st useTs now rnd).2.didUpload db' cap now'
      = didUploadFile db' cap path st.mtime st.ctime st.size now' := by
  unfold checkFile FileResult.didUpload
  (repeat' split) <;> rfl

/-- The reuse decision is about the stat sampled at check time: if the result of `check_file(path)` (stat `st`)
    receives `did_upload(cap)` after any further history, then a later `check_file(path)` reports a cap only if
    the stat it sees equals `st` — a file written between `check_file` and `did_upload` is not reused. -/
theorem reuse_only_if_sampled_stat_unchanged (H : Bytes → K) (ops0 ops : List Op) (path : Bytes) (st : Stat)
    (useTs : Bool) (now : Int) (rnd : Nat) (cap : Bytes) (now' : Int)
    (st' : Stat) (useTs' : Bool) (now'' : Int) (rnd' : Nat) (c : Bytes)
    (h : (checkFile ((checkFile (run H ops0) path st useTs now rnd).2.didUpload (run H ops) cap now')
            path st' useTs' now'' rnd').2.wasUploaded = some c) :
    useTs' = true ∧ st' = st ∧ c = cap := by
  rw [did_upload_records_sampled_stat] at h
  have hrun : didUploadFile (run H ops) cap path st.mtime st.ctime st.size now'
      = run H (ops ++ [Op.didUpload cap path st.mtime st.ctime st.size now']) := by
    simp [run, step]
  rw [hrun] at h
  obtain ⟨h1, h2⟩ := reuse_only_if_unchanged H _ path st' useTs' now'' rnd' c h
  simp [lastUploadOf] at h2
  obtain ⟨a, b, c', d⟩ := h2
  refine ⟨h1, ?_, d.symm⟩
  cases st; cases st'; simp_all

example : (checkFile ((checkFile (run (K := Bytes) id []) [2] ⟨7, 5, 6⟩ true 100 0).2.didUpload
      (run (K := Bytes) id []) [1] 150) [2] ⟨7, 5, 6⟩ true 200 0).2.wasUploaded = some [1]
    ∧ (checkFile ((checkFile (run (K := Bytes) id []) [2] ⟨7, 5, 6⟩ true 100 0).2.didUpload
      (run (K := Bytes) id []) [1] 150) [2] ⟨9, 8, 6⟩ true 200 0).2.wasUploaded = none := by decide

/-- The string hashed by `check_directory` determines the directory contents: two contents with the same
    encoding have exactly the same (name, cap) entries (netstring framing is uniquely decodable; sorting
    only permutes). -/
theorem dir_encoding_injective (c1 c2 : List Entry) (h : dirData c1 = dirData c2) :
    c1.Perm c2 ∧ ∀ e, e ∈ c1 ↔ e ∈ c2 :=
  ⟨(dirData_eq_iff c1 c2).mp h, fun _ => ((dirData_eq_iff c1 c2).mp h).mem_iff⟩

example : dirData [([97], [98, 99])] ≠ dirData [([97, 98], [99])] := by
  intro h
  have := (dir_encoding_injective _ _ h).1
  simp at this

/-- Conversely the encoding does not depend on the iteration order of the dict (sorting is canonical
    because the entry order is a total order). -/
theorem dir_encoding_canonical (c1 c2 : List Entry) (h : c1.Perm c2) : dirData c1 = dirData c2 :=
  (dirData_eq_iff c1 c2).mpr h

example : dirData [([98], [1]), ([97], [2])] = dirData [([97], [2]), ([98], [1])] :=
  dir_encoding_canonical _ _ (List.Perm.swap _ _ _)

/-- Under collision-freeness of the directory hash: over any history, `check_directory(contents)` reports a
    dircap only if it is the dircap given to the most recent `did_create` for exactly the same
    (name, cap) entries. -/
theorem dir_reuse_only_same_contents (H : Bytes → K) (hH : Function.Injective H) (ops : List Op)
    (contents : List Entry) (now : Int) (rnd : Nat) (d : Bytes)
    (h : (checkDirectory H (run H ops) contents now rnd).wasCreated = some d) :
    lastCreateOf contents ops.reverse = some d := by
  have hinv := dirInv_run H ops
  unfold checkDirectory at h
  simp only at h
  cases hg : get (H (dirData contents)) (run H ops).dirs with
  | none => simp [hg, DirResult.wasCreated] at h
  | some rec =>
    have := hinv _ rec hg
    rw [lastCreateKey_eq H hH] at this
    simp only [hg, DirResult.wasCreated] at h
    split at h
    · cases h
    · cases h; exact this

/-- … in particular some earlier `did_create` call received this dircap for the same entries. -/
theorem dir_reuse_witness (H : Bytes → K) (hH : Function.Injective H) (ops : List Op)
    (contents : List Entry) (now : Int) (rnd : Nat) (d : Bytes)
    (h : (checkDirectory H (run H ops) contents now rnd).wasCreated = some d) :
    ∃ c' t, Op.didCreateDir d c' t ∈ ops ∧ c'.Perm contents ∧ ∀ e, e ∈ c' ↔ e ∈ contents := by
  have h1 := dir_reuse_only_same_contents H hH ops contents now rnd d h
  have : ∀ hist : List Op, lastCreateOf contents hist = some d →
      ∃ c' t, Op.didCreateDir d c' t ∈ hist ∧ c'.Perm contents := by
    intro hist
    induction hist with
    | nil => simp [lastCreateOf]
    | cons op rest ih =>
      intro hl
      cases op with
      | didCreateDir d' c' t =>
        simp only [lastCreateOf] at hl
        split at hl
        · rename_i hp
          cases hl
          exact ⟨c', t, by simp, List.isPerm_iff.mp hp⟩
        · obtain ⟨c2, t2, hm, hp⟩ := ih hl
          exact ⟨c2, t2, List.mem_cons_of_mem _ hm, hp⟩
      | _ =>
        simp only [lastCreateOf] at hl
        obtain ⟨c2, t2, hm, hp⟩ := ih hl
        exact ⟨c2, t2, List.mem_cons_of_mem _ hm, hp⟩
  obtain ⟨c', t, hm, hp⟩ := this _ h1
  exact ⟨c', t, by simpa using hm, hp, fun _ => hp.mem_iff⟩

example : Function.Injective (id : Bytes → Bytes) ∧
    (checkDirectory id (run (K := Bytes) id [Op.didCreateDir [9] [([97], [98])] 10]) [([97], [98])] 20 0).wasCreated
      = some [9] := by
  refine ⟨fun _ _ h => h, ?_⟩
  simp [checkDirectory, run, step, didCreateDirectory, put, BackupDb.get, DirResult.wasCreated]

/-! ### the caps table: fileid allocation (`get_or_allocate_fileid_for_cap`) -/

/-- same cap ⇒ same fileid: after any history a cap occurs in `caps` under at most one fileid -/
theorem fileid_of_cap_unique (H : Bytes → K) (ops : List Op) (i j : Nat) (c : Bytes)
    (hi : (i, c) ∈ (run H ops).caps) (hj : (j, c) ∈ (run H ops).caps) : i = j :=
  caps_unique_run H ops i j c hi hj

/-- different caps ⇒ different fileids: after any history a fileid names one cap, and it is the one `check_file` reads -/
theorem fileid_determines_cap (H : Bytes → K) (ops : List Op) (i : Nat) (c c' : Bytes)
    (h : (i, c) ∈ (run H ops).caps) (h' : (i, c') ∈ (run H ops).caps) :
    c = c' ∧ get i (run H ops).caps = some c := by
  obtain ⟨hok, _⟩ := fileInv_run H ops
  have h1 := (hok i c h).2
  have h2 := (hok i c' h').2
  rw [h1] at h2
  exact ⟨Option.some.inj h2, h1⟩

/-- a cap keeps its fileid: whatever calls follow (inserts into any table), allocating for a cap that is already
    known returns the fileid it was given first -/
theorem alloc_stable_along_history (H : Bytes → K) (ops more : List Op) (i : Nat) (c : Bytes)
    (h : (i, c) ∈ (run H ops).caps) : (alloc (run H (ops ++ more)) c).2 = i := by
  have hm : (i, c) ∈ (run H (ops ++ more)).caps := by
    rw [run_append]; exact caps_mono_foldl H more _ i c h
  have hr := alloc_result_mem (run H (ops ++ more)) c
  have hm' := alloc_mem_mono (run H (ops ++ more)) c i c hm
  have hu := alloc_unique _ c (caps_unique_run H (ops ++ more))
  exact hu _ _ c hr hm'

omit [DecidableEq K] in
/-- the fileid depends on the `caps` table only — not on rows of other tables nor on what was inserted last -/
theorem alloc_independent_of_other_tables (db1 db2 : Db K) (cap : Bytes)
    (hc : db1.caps = db2.caps) (hn : db1.nextId = db2.nextId) : (alloc db1 cap).2 = (alloc db2 cap).2 := by
  unfold alloc
  rw [hc, hn]
  split <;> rfl

example : (alloc (run (K := Bytes) id [Op.didUpload [1] [2] 5 6 7 100, Op.didCreateDir [9] [] 101,
      Op.didUpload [3] [4] 5 6 7 102]) [1]).2 = 1
    ∧ (alloc (run (K := Bytes) id [Op.didUpload [1] [2] 5 6 7 100, Op.didUpload [3] [4] 5 6 7 102]) [3]).2 = 2
    ∧ (alloc (run (K := Bytes) id [Op.didUpload [1] [2] 5 6 7 100, Op.didUpload [3] [4] 5 6 7 102]) [8]).2 = 3 := by
  decide

/-! ### sessions: the tool working through `FileResult` / `DirectoryResult` objects -/

/-- every `FileResult` of a session carries exactly the path and stat its `check` step sampled (in order) -/
theorem session_results_carry_sampled_stat (H : Bytes → K) (sops : List SOp) :
    (srun H sops).fres.map (fun r => (r.path, Stat.mk r.size r.mtime r.ctime)) = checksOf sops := by
  have := fres_foldl H sops {}
  simpa [srun] using this

/-- Over any session — checks, `did_upload`/`did_check_healthy` on any (also old) result object, directory calls,
    direct API calls — `check_file` reports a cap only if timestamps are trusted and the stat now equals the one
    recorded by the most recent upload of that path, and the cap is that upload's. -/
theorem session_reuse_only_if_unchanged (H : Bytes → K) (sops : List SOp) (path : Bytes) (st : Stat)
    (useTs : Bool) (now : Int) (rnd : Nat) (c : Bytes)
    (h : (checkFile (srun H sops).db path st useTs now rnd).2.wasUploaded = some c) :
    useTs = true ∧ lastUploadOf path (srun H sops).trace = some (st.size, st.mtime, st.ctime, c) := by
  obtain ⟨hdb, _⟩ := sessInv_run H sops
  rw [hdb] at h
  simpa using reuse_only_if_unchanged H _ path st useTs now rnd c h

/-- … and likewise for directories (hash collision-freeness assumed). -/
theorem session_dir_reuse_only_same_contents (H : Bytes → K) (hH : Function.Injective H) (sops : List SOp)
    (contents : List Entry) (now : Int) (rnd : Nat) (d : Bytes)
    (h : (checkDirectory H (srun H sops).db contents now rnd).wasCreated = some d) :
    lastCreateOf contents (srun H sops).trace = some d := by
  obtain ⟨hdb, _⟩ := sessInv_run H sops
  rw [hdb] at h
  simpa using dir_reuse_only_same_contents H hH _ contents now rnd d h

example :
    let s := srun (K := Bytes) id [SOp.check [2] ⟨7, 5, 6⟩ true 100 0, SOp.check [2] ⟨9, 8, 6⟩ true 110 0,
      SOp.uploadVia 0 [1] 150]
    -- the file was written (7,5,6) → (9,8,6) while its upload was in flight: the old result records (7,5,6)
    (checkFile s.db [2] ⟨9, 8, 6⟩ true 200 0).2.wasUploaded = none
      ∧ (checkFile s.db [2] ⟨7, 5, 6⟩ true 200 0).2.wasUploaded = some [1]
      ∧ s.fres.length = 2 := by decide

/-! ### run level: one file of one `tahoe backup` run (`BackerUpper.upload`) -/

/-- An `--ignore-timestamps` run uploads the file and *records* the upload: whatever the database said before
    (a stale row for the same size/mtime/ctime included), after the step the row for the path is the new cap — the
    next ordinary run that sees the same stat reuses the new cap, not an older one (seeded change C42-e). -/
theorem ignore_timestamps_run_records_new_cap (H : Bytes → K) (sops : List SOp) (path : Bytes) (st : Stat)
    (newcap : Bytes) (healthy : Bool) (now : Int) (rnd : Nat) (now' : Int) (rnd' : Nat) :
    let res := toolFileStep H (srun H sops) path st true newcap healthy now rnd
    res.2.1 = true ∧ res.2.2 = newcap
      ∧ (checkFile res.1.db path st true now' rnd').2.filecap = some newcap := by
  obtain ⟨hdb, _⟩ := sessInv_run H sops
  obtain ⟨hok, _⟩ := fileInv_run H (srun H sops).trace.reverse
  rw [← hdb] at hok
  obtain ⟨h1, h2⟩ := sstep_check_fres H (srun H sops) path st false now rnd
  have hn := checkFile_no_ts_none (srun H sops).db path st now rnd
  obtain ⟨f1, f2, f3, f4⟩ := checkFile_result_fields (srun H sops).db path st false now rnd
  obtain ⟨c1, c2⟩ := checkFile_caps (srun H sops).db path st false now rnd
  simp only [toolFileStep, Bool.not_true, h1, FileResult.wasUploaded, hn]
  refine ⟨by trivial, by trivial, ?_⟩
  simp only [sstep, List.getElem?_concat_length, FileResult.didUpload, f1, f2, f3, f4]
  exact checkFile_after_upload _ (by rw [c1, c2]; exact hok) newcap path st now now' rnd'

/-- Whatever the flags, a run step that does *not* upload uses a cap only if timestamps are trusted and the stat it
    saw equals the record of the most recent upload of that path, whose cap it is. -/
theorem tool_file_step_reuse_sound (H : Bytes → K) (sops : List SOp) (path : Bytes) (st : Stat) (ignoreTs : Bool)
    (newcap : Bytes) (healthy : Bool) (now : Int) (rnd : Nat)
    (h : (toolFileStep H (srun H sops) path st ignoreTs newcap healthy now rnd).2.1 = false) :
    ignoreTs = false ∧ lastUploadOf path (srun H sops).trace
      = some (st.size, st.mtime, st.ctime, (toolFileStep H (srun H sops) path st ignoreTs newcap healthy now rnd).2.2) := by
  obtain ⟨h1, _⟩ := sstep_check_fres H (srun H sops) path st (!ignoreTs) now rnd
  simp only [toolFileStep, h1] at h ⊢
  cases hw : (checkFile (srun H sops).db path st (!ignoreTs) now rnd).2.wasUploaded with
  | none => simp [hw] at h
  | some c =>
    obtain ⟨ht, hl⟩ := session_reuse_only_if_unchanged H sops path st (!ignoreTs) now rnd c hw
    have hi : ignoreTs = false := by cases ignoreTs <;> simp_all
    simp only [hw] at h ⊢
    refine ⟨hi, ?_⟩
    by_cases hs : (checkFile (srun H sops).db path st (!ignoreTs) now rnd).2.shouldCheck = false
    · simp only [hs, if_true]; exact hl
    · by_cases hh : healthy = true
      · simp only [hs, hh, if_true]; exact hl
      · simp [hs, hh] at h

example :
    let s := srun (K := Bytes) id [SOp.check [2] ⟨7, 5, 6⟩ true 100 0, SOp.uploadVia 0 [65] 100]
    -- ordinary run recorded capA=[65]; bytes change, stat does not; an --ignore-timestamps run uploads capB=[66] …
    let r := toolFileStep id s [2] ⟨7, 5, 6⟩ true [66] true 200 0
    -- … and the next ordinary run reuses capB
    r.2.1 = true ∧ (toolFileStep id r.1 [2] ⟨7, 5, 6⟩ false [67] true 300 0).2 = (false, [66]) := by decide

/-- The directory side of a run step: a step that does not create a directory uses the dircap given to the most
    recent creation for exactly the same (name, cap) entries (directory hash collision-free). -/
theorem tool_dir_step_reuse_sound (H : Bytes → K) (hH : Function.Injective H) (sops : List SOp)
    (contents : List Entry) (newd : Bytes) (healthy : Bool) (now : Int) (rnd : Nat)
    (h : (toolDirStep H (srun H sops) contents newd healthy now rnd).2.1 = false) :
    lastCreateOf contents (srun H sops).trace
      = some (toolDirStep H (srun H sops) contents newd healthy now rnd).2.2 := by
  have h1 := sstep_checkDir_dres H (srun H sops) contents now rnd
  simp only [toolDirStep, h1] at h ⊢
  cases hw : (checkDirectory H (srun H sops).db contents now rnd).wasCreated with
  | none => simp [hw] at h
  | some d =>
    have hl := session_dir_reuse_only_same_contents H hH sops contents now rnd d hw
    simp only [hw] at h ⊢
    by_cases hs : (checkDirectory H (srun H sops).db contents now rnd).shouldCheck = false
    · simp only [hs, if_true]; exact hl
    · by_cases hh : healthy = true
      · simp only [hs, hh, if_true]; exact hl
      · simp [hs, hh] at h

/-- **Any history of backup runs** (any number of runs, ordinary or `--ignore-timestamps`, any file changes in between,
    any answers of the grid): whenever a run does not upload a file but reuses a cap, timestamps are trusted in that run,
    and size/mtime/ctime of the file equal the record of the most recent upload of that path in the whole history, whose
    cap it is; whenever a run reuses a directory cap, it is the one of the most recent creation for exactly these entries. -/
theorem backup_runs_reuse_sound (H : Bytes → K) (hH : Function.Injective H) (rs : List RunStep) :
    (∀ path st ign newcap healthy now rnd,
      (tstep H (trun H rs) (.file path st ign newcap healthy now rnd)).2.1 = false →
        ign = false ∧ lastUploadOf path (trun H rs).trace
          = some (st.size, st.mtime, st.ctime, (tstep H (trun H rs) (.file path st ign newcap healthy now rnd)).2.2))
    ∧ (∀ contents newd healthy now rnd,
      (tstep H (trun H rs) (.dir contents newd healthy now rnd)).2.1 = false →
        lastCreateOf contents (trun H rs).trace
          = some (tstep H (trun H rs) (.dir contents newd healthy now rnd)).2.2) := by
  obtain ⟨sops, hs⟩ := reach_trun H rs
  rw [hs]
  exact ⟨fun path st ign newcap healthy now rnd h => tool_file_step_reuse_sound H sops path st ign newcap healthy now rnd h,
         fun contents newd healthy now rnd h => tool_dir_step_reuse_sound H hH sops contents newd healthy now rnd h⟩

example :
    -- run 1 (ordinary) uploads A; the bytes change silently; run 2 (--ignore-timestamps) uploads B; run 3 (ordinary)
    -- reuses B; a fourth run that sees another ctime uploads again
    let rs := [RunStep.file [2] ⟨7, 5, 6⟩ false [65] true 100 0, RunStep.file [3] ⟨1, 1, 1⟩ false [70] true 100 0,
               RunStep.file [2] ⟨7, 5, 6⟩ true [66] true 200 0]
    (tstep (K := Bytes) id (trun id rs) (.file [2] ⟨7, 5, 6⟩ false [67] true 300 0)).2 = (false, [66])
      ∧ (tstep (K := Bytes) id (trun id rs) (.file [3] ⟨1, 1, 1⟩ false [71] true 300 0)).2 = (false, [70])
      ∧ (tstep (K := Bytes) id (trun id rs) (.file [2] ⟨7, 5, 9⟩ false [67] true 300 0)).2 = (true, [67]) := by decide

/-- no check is requested within `NO_CHECK_BEFORE` (30 days) of the last check, whatever `random()` says … -/
theorem no_check_within_a_month (now lastChecked : Int) (rnd : Nat)
    (h : now - lastChecked ≤ 30 * 86400) : shouldCheck now lastChecked rnd = false := by
  have e1 : (Backupdb.ALWAYS_CHECK_AFTER : Int) = 5184000 := rfl
  have e2 : (Backupdb.NO_CHECK_BEFORE : Int) = 2592000 := rfl
  have e3 : (RDEN : Int) = 1024 := rfl
  unfold shouldCheck
  simp only [decide_eq_false_iff_not]
  rw [e1, e2, e3]
  omega

/-- … and a check is always requested after `ALWAYS_CHECK_AFTER` (60 days). -/
theorem always_check_after_two_months (now lastChecked : Int) (rnd : Nat) (hr : rnd < RDEN)
    (h : 60 * 86400 ≤ now - lastChecked) : shouldCheck now lastChecked rnd = true := by
  have e1 : (Backupdb.ALWAYS_CHECK_AFTER : Int) = 5184000 := rfl
  have e2 : (Backupdb.NO_CHECK_BEFORE : Int) = 2592000 := rfl
  have e3 : (RDEN : Int) = 1024 := rfl
  have e4 : RDEN = 1024 := rfl
  unfold shouldCheck
  simp only [decide_eq_true_eq]
  rw [e1, e2, e3]
  omega

example : shouldCheck (45 * 86400) 0 511 = true ∧ shouldCheck (45 * 86400) 0 512 = false := by decide

/-- the model's `netstring` agrees with util/netstring.py on the extractor's sample -/
theorem netstring_sample_pinned :
    netstring [104, 101, 108, 108, 111, 44, 32, 119, 111, 114, 108, 100] = Backupdb.NETSTRING_SAMPLE := by
  simp [netstring, Backupdb.NETSTRING_SAMPLE, dec_ge, dec_lt, digit]

end Tahoe.C42
