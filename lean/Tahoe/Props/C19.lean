import Tahoe.Dir.PackLemmas
/-! C19 — directory contents round-trip (property theorems; helper lemmas in `Tahoe/Dir/PackLemmas.lean`,
    model in `Tahoe/Dir/Pack.lean`).

    The abstract parts of the world enter as the hypotheses collected in `RoundTrip`:
    UTF-8 decode∘encode = id on names, `json.loads ∘ json.dumps = id` on metadata, decrypt∘encrypt = id
    under the directory's write key, a writeable directory has a write key and an immutable one has none.
    `normalize` is only assumed idempotent, and only where it matters (`names_normalized`). -/
/-! ## Coverage of the statement (C19, properties.jsonl)

| clause of the statement | theorem(s) for the model `Tahoe.Dir.Pack` |
|---|---|
| "for any set of children (Unicode names, normalized …) packing and unpacking again yields the same names" | `unpack_pack`, `unpack_pack_all_kept` (names, order), `names_normalized` (any bytes: names normalized and distinct), `pack_children_names_normalized`; `normalize`/UTF-8 abstract with the hypotheses in `RoundTrip` (NFC itself: **correspondence**, C19-a) |
| "… the same capabilities", every capability kind | `unpack_pack` gives `canon` of every child (re-creation by `create_from_cap`); `canon` is the identity for known nodes (`canon_known_node`), for an unknown write cap next to a known or unknown read cap (`canon_unknown_rw_known_ro`, `canon_unknown_rw`), for a lone unknown read cap (`canon_unknown_ro_only`); both slots byte-identical after a second generation (`repack_preserves_both_slots`, `pack_unpack_pack`). Caps with trailing spaces are canonicalised (rstrip, by design — inside `canon`); caps with *two* alleged prefixes are NOT preserved: `double_prefix_child_is_dropped_counterexample` (open known finding) |
| "… unknown future caps" in an immutable directory (strengthening to `imm.`) | inside `canon` (`unpack_pack`); identity for an `imm.`-alleged unknown cap: `canon_unknown_imm_in_immutable_dir` (an `ro.`-alleged or unprefixed one comes back `imm.`-alleged — by design; correspondence + monitor) |
| "arbitrary JSON metadata … the same metadata" | `unpack_pack` / `unpack_pack_all_kept` under `RoundTrip.json` (JSON codec abstract; sampled on the real `json`) |
| "immutable directories refuse mutable or write-capable children instead of storing them" | `immutable_dir_refuses_mutable` (pack succeeds iff …; unpack of an immutable directory never returns such a child, for any bytes) |
| packing a listing for another directory (C19-b), the AuxValueDict cache | cache modelled (`Child.aux`, `pack_unpack_pack`); `pack_children` builds a plain dict, so cached entries are not reused: `listing_packed_for_another_directory` (+ correspondence + monitor on real listings) |
| netstring framing of malformed data (`int()` quirks) | C38; here strict digits: **correspondence** on structured malformed data |
-/
namespace Tahoe.C19
open Tahoe.Dir.Pack
open Tahoe.Dir.Edit (lookup put)

section
variable {Name J Key : Type} [DecidableEq Name] (W : World Name J Key)

/-- `unpack (pack c) = canon c`: for every child list with normalized, distinct names, unpacking what
    `_pack_normalized_children` produced returns — in the same order, with the same names and metadata —
    every child re-created from its stored caps (`canon`: write cap only through a writeable handle,
    trailing spaces stripped, `ro.`/`imm.` prefix dropped and re-derived, node re-created in the directory's
    context), except the children whose re-created node records an error or is not allowed in an immutable
    directory (`keep`), which are dropped.  The raw entry is remembered (`aux`). -/
theorem unpack_pack (cx : DirCtx Key) (H : RoundTrip W cx) (c : List (Name × Child J))
    (hnorm : ∀ e ∈ c, W.norm e.1 = e.1) (hdistinct : (c.map (·.1)).Nodup) (data : Bytes)
    (hpack : pack W cx.writekey (!cx.mutableDir) false c = .ok data) :
    unpack W cx data = some (c.filterMap (keep W cx)) :=
  unpack_pack_core W cx H c hnorm hdistinct data hpack

/-- … in particular, when no re-created child is refused, names, metadata and order are exactly those that
    were packed and every node is `canon` of the packed node. -/
theorem unpack_pack_all_kept (cx : DirCtx Key) (H : RoundTrip W cx) (c : List (Name × Child J))
    (hnorm : ∀ e ∈ c, W.norm e.1 = e.1) (hdistinct : (c.map (·.1)).Nodup) (data : Bytes)
    (hpack : pack W cx.writekey (!cx.mutableDir) false c = .ok data)
    (hkept : ∀ e ∈ c, (canon W cx e.2.node).err = false ∧
      (cx.mutableDir = true ∨ (canon W cx e.2.node).allowedInImmutable = true)) :
    (unpack W cx data).map (fun l => l.map (fun e => (e.1, e.2.node, e.2.metadata))) =
      some (c.map (fun e => (e.1, canon W cx e.2.node, e.2.metadata))) := by
  rw [unpack_pack W cx H c hnorm hdistinct data hpack]
  simp only [Option.map_some, Option.some.injEq]
  clear hpack hdistinct
  induction c with
  | nil => rfl
  | cons e rest ih =>
    have h1 := hkept e (by simp)
    have hk : keep W cx e = some (e.1, ⟨canon W cx e.2.node, e.2.metadata,
        some (entryBytes W cx.writekey (!cx.mutableDir) e.1 e.2)⟩) := by
      unfold keep
      simp only [h1.1, Bool.false_eq_true, if_false]
      rcases h1.2 with h2 | h2 <;> simp [h2]
    simp only [List.filterMap_cons, hk, List.map_cons]
    rw [ih (fun x hx => hnorm x (by simp [hx])) (fun x hx => hkept x (by simp [hx]))]

/-- `pack (unpack (pack c)) = pack c`: re-packing the unpacked dictionary (an `AuxValueDict`, whose cached
    raw entries `_pack_normalized_children` reuses) gives back the same bytes, when no child was dropped. -/
theorem pack_unpack_pack (cx : DirCtx Key) (H : RoundTrip W cx) (c : List (Name × Child J))
    (hnorm : ∀ e ∈ c, W.norm e.1 = e.1) (hdistinct : (c.map (·.1)).Nodup) (data : Bytes)
    (hpack : pack W cx.writekey (!cx.mutableDir) false c = .ok data)
    (hkept : ∀ e ∈ c, (canon W cx e.2.node).err = false ∧
      (cx.mutableDir = true ∨ (canon W cx e.2.node).allowedInImmutable = true)) :
    ∃ l, unpack W cx data = some l ∧ pack W cx.writekey (!cx.mutableDir) true l = .ok data := by
  refine ⟨_, unpack_pack W cx H c hnorm hdistinct data hpack, ?_⟩
  have hp := pack_ok_inv W _ _ _ c data hpack
  rw [pack_ok W _ _ _ c hp] at hpack
  cases hpack
  clear hdistinct hnorm
  have hk : ∀ e ∈ c, keep W cx e = some (e.1, ⟨canon W cx e.2.node, e.2.metadata,
      some (entryBytes W cx.writekey (!cx.mutableDir) e.1 e.2)⟩) := by
    intro e he
    have h1 := hkept e he
    unfold keep
    simp only [h1.1, Bool.false_eq_true, if_false]
    rcases h1.2 with h2 | h2 <;> simp [h2]
  induction c with
  | nil => rfl
  | cons e rest ih =>
    have h1 := hkept e (by simp)
    simp only [List.filterMap_cons, hk e (by simp), List.map_cons, List.flatten_cons, pack]
    -- the cached entry is reused
    have hne : entryBytes W cx.writekey (!cx.mutableDir) e.1 e.2 ≠ [] := by
      unfold entryBytes
      intro h
      have := netstring_length_pos (W.encodeName e.1)
        (netstring (stripPrefixForRo (e.2.node.ro.getD []) (!cx.mutableDir)) ++
          (netstring (rwcapField W cx.writekey (e.2.node.rw.getD [])) ++ netstring (W.dumps e.2.metadata)))
      rw [h] at this
      simp at this
    have hentry : packEntry W cx.writekey (!cx.mutableDir) true e.1
        ⟨canon W cx e.2.node, e.2.metadata, some (entryBytes W cx.writekey (!cx.mutableDir) e.1 e.2)⟩ =
        .ok (netstring (entryBytes W cx.writekey (!cx.mutableDir) e.1 e.2)) := by
      unfold packEntry
      simp only [h1.1, Bool.false_eq_true, if_false]
      have hall : (!cx.mutableDir && !(canon W cx e.2.node).allowedInImmutable) = false := by
        rcases h1.2 with h2 | h2 <;> simp [h2]
      simp only [hall, Bool.false_eq_true, if_false, cachedEntry, if_true]
      cases hb : entryBytes W cx.writekey (!cx.mutableDir) e.1 e.2 with
      | nil => exact absurd hb hne
      | cons b r => rfl
    rw [hentry]
    simp only []
    rw [ih (fun x hx => hkept x (by simp [hx])) (fun x hx => hp x (by simp [hx]))
      (fun x hx => hk x (by simp [hx]))]
    simp [rawEntry, cachedEntry]

/-- A concrete world in which all hypotheses hold (names = bytes, identity normalization and JSON, the
    zero-framed identity cipher of the driver, every cap unknown). -/
def demoWorld : World Bytes Bytes Unit where
  norm := id
  encodeName := id
  decodeName := some
  dumps := id
  loads := some
  encrypt := fun _ m => List.replicate 16 0 ++ m ++ List.replicate 32 0
  decrypt := fun _ c => (c.drop 16).take (c.length - 48)
  classify := fun _ => .unknown

example : RoundTrip demoWorld ⟨true, true, some ()⟩ where
  name := fun _ => rfl
  json := fun _ => rfl
  crypt := by intro k m; simp [demoWorld]
  keyOfWriteable := fun _ => rfl
  noKeyIfImmutable := by intro h; cases h

/-- a concrete child list meeting the hypotheses of `unpack_pack` / `pack_unpack_pack` in that world:
    an unknown child with write and read cap, and a second name -/
example :
    let c : List (Bytes × Child Bytes) :=
      [([97], ⟨⟨true, some [119], some [114, 111, 46, 114], false, false⟩, [123, 125], none⟩),
       ([98], ⟨⟨true, none, some [114, 111, 46, 115], false, false⟩, [123, 125], none⟩)]
    (∃ data, pack demoWorld (some ()) false false c = .ok data) ∧ (c.map (·.1)).Nodup ∧
    (∀ e ∈ c, demoWorld.norm e.1 = e.1) ∧
    (∀ e ∈ c, (canon demoWorld ⟨true, true, some ()⟩ e.2.node).err = false) := by
  intro c
  refine ⟨⟨_, pack_ok demoWorld _ _ _ c ?_⟩, by decide, fun _ _ => rfl, by decide⟩
  intro e he
  simp only [c, List.mem_cons, List.mem_nil_iff, or_false] at he
  rcases he with he | he <;> subst he <;> exact ⟨rfl, fun h => by cases h⟩

/-- Every name `_unpack_contents` returns — from any bytes whatsoever — is normalized, and no name occurs
    twice. -/
theorem names_normalized (hidem : ∀ x, W.norm (W.norm x) = W.norm x) (cx : DirCtx Key) (data : Bytes)
    (l : List (Name × Child J)) (h : unpack W cx data = some l) :
    (∀ e ∈ l, W.norm e.1 = e.1) ∧ (l.map (·.1)).Nodup := by
  unfold unpack at h
  split at h
  · cases h
  · rename_i entries _
    constructor
    · apply unpackEntries_all W cx (fun e => W.norm e.1 = e.1) _ entries [] l (by simp) h
      intro entry x hx
      obtain ⟨⟨raw, hr⟩, _⟩ := unpackEntry_some W cx entry x hx
      simp only [hr, hidem]
    · exact unpackEntries_nodup W cx entries [] l (by simp) h

/-- … and `pack_children` stores every child under its normalized name. -/
theorem pack_children_names_normalized (hidem : ∀ x, W.norm (W.norm x) = W.norm x)
    (l : List (Name × Node × J)) :
    (∀ e ∈ normalizeChildren W l, W.norm e.1 = e.1) ∧ ((normalizeChildren W l).map (·.1)).Nodup := by
  unfold normalizeChildren
  have key : ∀ (l : List (Name × Node × J)) (acc : List (Name × Child J)),
      ((∀ e ∈ acc, W.norm e.1 = e.1) ∧ (acc.map (·.1)).Nodup) →
      ((∀ e ∈ l.foldl (fun acc e => put (W.norm e.1) ⟨e.2.1, e.2.2, none⟩ acc) acc, W.norm e.1 = e.1) ∧
        ((l.foldl (fun acc e => put (W.norm e.1) ⟨e.2.1, e.2.2, none⟩ acc) acc).map (·.1)).Nodup) := by
    intro l
    induction l with
    | nil => intro acc h; exact h
    | cons x rest ih =>
      intro acc h
      simp only [List.foldl_cons]
      apply ih
      constructor
      · intro e he
        rcases mem_put _ _ _ e he with h1 | h1
        · rw [h1]; exact hidem _
        · exact h.1 e h1
      · exact nodup_put _ _ _ h.2
  exact key l [] ⟨by simp, by simp⟩

example : (unpack demoWorld ⟨true, true, some ()⟩ [49, 58, 120, 44]) = none := by decide

/-- Immutable directories refuse mutable or write-capable children instead of storing them:
    `_pack_normalized_children(…, deep_immutable=True)` succeeds **iff** no child records an error and every
    child `is_allowed_in_immutable_directory()` (a known immutable object, or an unknown cap without write
    cap); and whatever bytes an immutable directory is read from, `_unpack_contents` returns no child that is
    not allowed there, none with an error, and none created with a write cap. -/
theorem immutable_dir_refuses_mutable (key : Option Key) (aux : Bool) (c : List (Name × Child J)) :
    ((∃ data, pack W key true aux c = .ok data) ↔
      ∀ e ∈ c, e.2.node.err = false ∧ e.2.node.allowedInImmutable = true) ∧
    (∀ (cx : DirCtx Key) (data : Bytes) (l : List (Name × Child J)), cx.mutableDir = false →
      unpack W cx data = some l →
      ∀ e ∈ l, e.2.node.err = false ∧ e.2.node.allowedInImmutable = true ∧
        (e.2.node.unknown = false → e.2.node.mutableObj = false) ∧
        (e.2.node.unknown = true → truthy e.2.node.rw = false)) := by
  constructor
  · constructor
    · rintro ⟨data, h⟩ e he
      have := pack_ok_inv W key true aux c data h e he
      exact ⟨this.1, this.2 rfl⟩
    · intro h
      exact ⟨_, pack_ok W key true aux c (fun e he => ⟨(h e he).1, fun _ => (h e he).2⟩)⟩
  · intro cx data l hm h
    unfold unpack at h
    split at h
    · cases h
    · rename_i entries _
      refine unpackEntries_all W cx (fun e => e.2.node.err = false ∧ e.2.node.allowedInImmutable = true ∧
        (e.2.node.unknown = false → e.2.node.mutableObj = false) ∧
        (e.2.node.unknown = true → truthy e.2.node.rw = false)) ?_ entries [] l (by simp) h
      intro entry x hx
      obtain ⟨_, herr, hall, _⟩ := unpackEntry_some W cx entry x hx
      have ha := hall hm
      refine ⟨herr, ha, ?_, ?_⟩
      · intro hu
        simpa [Node.allowedInImmutable, hu] using ha
      · intro hu
        simp only [Node.allowedInImmutable, hu, if_true, Bool.and_eq_true, Bool.not_eq_true'] at ha
        exact ha.2

example : pack demoWorld none true false
    [([97], ⟨⟨false, some [119], some [114], true, false⟩, [123, 125], none⟩)] = .error .mustBeDeepImmutable := by
  simp [pack, packEntry, Node.allowedInImmutable]

/-- For children that are known nodes, `canon` is the identity — the caps that come back are the caps that
    went in — in a mutable directory read through its write handle, given what C15/C16 establish about known
    cap strings: `to_string()` and `get_readonly().to_string()` re-parse to the same cap (resp. to the read
    cap of the same object), carry no `ro.`/`imm.` prefix, no trailing space, and are not empty. -/
theorem canon_known_node (cx : DirCtx Key) (hm : cx.mutableDir = true) (hw : cx.writeable = true)
    (m w : Bool) (cn rf : Bytes)
    (hcn : W.classify cn = .known m w cn rf) (hrf : W.classify rf = .known m false rf rf)
    (hcn0 : rstripOrNone cn = some cn) (hrf0 : rstripOrNone rf = some rf)
    (hp1 : startsWith cn immPrefix = false) (hp2 : startsWith cn roPrefix = false)
    (hp3 : startsWith rf immPrefix = false) (hp4 : startsWith rf roPrefix = false) :
    canon W cx ⟨false, if w then some cn else none, some rf, m, false⟩ =
      ⟨false, if w then some cn else none, some rf, m, false⟩ := by
  have hcne : truthy (some cn) = true := by
    cases cn with
    | nil => simp [rstripOrNone, rstrip] at hcn0
    | cons a t => rfl
  have hrfe : truthy (some rf) = true := by
    cases rf with
    | nil => simp [rstripOrNone, rstrip] at hrf0
    | cons a t => rfl
  have hnone : rstripOrNone ([] : Bytes) = none := by simp [rstripOrNone, rstrip]
  have htn : truthy (none : Option Bytes) = false := rfl
  cases w with
  | true =>
    simp [canon, hm, hw, stripPrefixForRo, hp3, hp4, hcn0, hrf0, createFromCap, hcne, orNone, fromString,
      hp1, hp2, hcn]
  | false =>
    cases m <;>
    simp [canon, hm, hw, stripPrefixForRo, hp3, hp4, hrf0, hnone, createFromCap, hrfe, orNone, fromString,
      hrf, htn]

/-- A child whose write cap is in an unknown (future) format next to a read cap of a *known* format stays an
    `UnknownNode` holding both: `create_from_cap` decides on `writecap or readcap` — the unknown write cap — and
    never falls back to the readable read cap, so `canon` is the identity on such a child (`rw` slot kept, `ro`
    slot kept with its `ro.` allegation) in a mutable directory read through its write handle. -/
theorem canon_unknown_rw_known_ro (cx : DirCtx Key) (hm : cx.mutableDir = true) (hw : cx.writeable = true)
    (rw rf : Bytes) (m : Bool)
    (hrw : W.classify rw = .unknown) (hrw0 : rstripOrNone rw = some rw)
    (hp1 : startsWith rw immPrefix = false) (hp2 : startsWith rw roPrefix = false)
    (hrf : W.classify rf = .known m false rf rf) (hrf0 : rstripOrNone rf = some rf)
    (hp3 : startsWith rf immPrefix = false) (hp4 : startsWith rf roPrefix = false) :
    canon W cx ⟨true, some rw, some (roPrefix ++ rf), false, false⟩ =
      ⟨true, some rw, some (roPrefix ++ rf), false, false⟩ := by
  have hrwe : truthy (some rw) = true := by
    cases rw with
    | nil => simp [rstripOrNone, rstrip] at hrw0
    | cons a t => rfl
  have hrfe : truthy (some rf) = true := by
    cases rf with
    | nil => simp [rstripOrNone, rstrip] at hrf0
    | cons a t => rfl
  have hs1 : startsWith (roPrefix ++ rf) immPrefix = false := by
    simp [startsWith, roPrefix, immPrefix, List.isPrefixOf]
  have hs2 : startsWith (roPrefix ++ rf) roPrefix = true := by
    simp [startsWith, roPrefix, List.isPrefixOf]
  have hstrip : stripPrefixForRo (roPrefix ++ rf) false = rf := by
    unfold stripPrefixForRo
    rw [hs1, hs2]
    simp [roPrefix]
  have hfs : fromString W.classify rf false = .known m false rf rf := by
    cases m <;> simp [fromString, hp3, hp4, hrf]
  have hfw : fromString W.classify rw false = .unknownOk := by
    simp [fromString, hp1, hp2, hrw]
  simp only [canon, hm, hw, Option.getD_some, if_true, Bool.not_true, hstrip, hrw0, hrf0, createFromCap, hrwe,
    orNone, hfw, Bool.false_eq_true, if_false, mkUnknown, hrfe, Bool.false_and, hp3, hfs]
  simp [hp3, hp4]

/-- The same for an unknown write cap next to *any* read cap that `uri.from_string` does not reject (known
    read-only cap or another unknown cap), without prefix. -/
theorem canon_unknown_rw (cx : DirCtx Key) (hm : cx.mutableDir = true) (hw : cx.writeable = true)
    (rw rf : Bytes)
    (hrw : W.classify rw = .unknown) (hrw0 : rstripOrNone rw = some rw)
    (hp1 : startsWith rw immPrefix = false) (hp2 : startsWith rw roPrefix = false)
    (hfs : fromString W.classify rf false ≠ .unknownErr) (hrf0 : rstripOrNone rf = some rf)
    (hp3 : startsWith rf immPrefix = false) (hp4 : startsWith rf roPrefix = false) :
    canon W cx ⟨true, some rw, some (roPrefix ++ rf), false, false⟩ =
      ⟨true, some rw, some (roPrefix ++ rf), false, false⟩ := by
  have hrwe : truthy (some rw) = true := by
    cases rw with
    | nil => simp [rstripOrNone, rstrip] at hrw0
    | cons a t => rfl
  have hrfe : truthy (some rf) = true := by
    cases rf with
    | nil => simp [rstripOrNone, rstrip] at hrf0
    | cons a t => rfl
  have hs1 : startsWith (roPrefix ++ rf) immPrefix = false := by
    simp [startsWith, roPrefix, immPrefix, List.isPrefixOf]
  have hs2 : startsWith (roPrefix ++ rf) roPrefix = true := by
    simp [startsWith, roPrefix, List.isPrefixOf]
  have hstrip : stripPrefixForRo (roPrefix ++ rf) false = rf := by
    unfold stripPrefixForRo
    rw [hs1, hs2]
    simp [roPrefix]
  have hfw : fromString W.classify rw false = .unknownOk := by
    simp [fromString, hp1, hp2, hrw]
  have hbeq : (fromString W.classify rf false == Parsed.unknownErr) = false := by
    simpa using hfs
  simp only [canon, hm, hw, Option.getD_some, if_true, Bool.not_true, hstrip, hrw0, hrf0, createFromCap, hrwe,
    orNone, hfw, Bool.false_eq_true, if_false, mkUnknown, hrfe, Bool.false_and, hp3, hbeq]
  simp [hp3, hp4]

/-- A lone read cap of unknown format (held with its `ro.` allegation) comes back as it was. -/
theorem canon_unknown_ro_only (cx : DirCtx Key) (hm : cx.mutableDir = true) (rf : Bytes)
    (hfs : fromString W.classify rf false = .unknownOk) (hrf0 : rstripOrNone rf = some rf)
    (hp3 : startsWith rf immPrefix = false) (hp4 : startsWith rf roPrefix = false) :
    canon W cx ⟨true, none, some (roPrefix ++ rf), false, false⟩ =
      ⟨true, none, some (roPrefix ++ rf), false, false⟩ := by
  have hrfe : truthy (some rf) = true := by
    cases rf with
    | nil => simp [rstripOrNone, rstrip] at hrf0
    | cons a t => rfl
  have hs1 : startsWith (roPrefix ++ rf) immPrefix = false := by
    simp [startsWith, roPrefix, immPrefix, List.isPrefixOf]
  have hs2 : startsWith (roPrefix ++ rf) roPrefix = true := by
    simp [startsWith, roPrefix, List.isPrefixOf]
  have hstrip : stripPrefixForRo (roPrefix ++ rf) false = rf := by
    unfold stripPrefixForRo
    rw [hs1, hs2]
    simp [roPrefix]
  have hnone : rstripOrNone ([] : Bytes) = none := by simp [rstripOrNone, rstrip]
  have htn : truthy (none : Option Bytes) = false := rfl
  have hbeq : (fromString W.classify rf false == Parsed.unknownErr) = false := by rw [hfs]; rfl
  have hite : (if cx.writeable = true then ([] : Bytes) else []) = [] := by split <;> rfl
  simp only [canon, hm, Option.getD_none, Option.getD_some, hite, Bool.not_true, hstrip, hnone, hrf0, createFromCap,
    htn, hrfe, orNone, hfs, Bool.false_eq_true, if_false, if_true, mkUnknown, hbeq]
  simp [hp3, hp4]

example : canon demoWorld ⟨true, true, some ()⟩ ⟨true, some [119], some (roPrefix ++ [114]), false, false⟩ =
      ⟨true, some [119], some (roPrefix ++ [114]), false, false⟩ ∧
    canon demoWorld ⟨true, true, some ()⟩ ⟨true, none, some (roPrefix ++ [114]), false, false⟩ =
      ⟨true, none, some (roPrefix ++ [114]), false, false⟩ := by decide

/-- An unknown read cap held with the `imm.` allegation comes back as it was from an **immutable** directory (the
    stored form has the prefix stripped; reading re-derives it: the documented strengthening). -/
theorem canon_unknown_imm_in_immutable_dir (cx : DirCtx Key) (hm : cx.mutableDir = false) (rf : Bytes)
    (hfs : fromString W.classify rf true = .unknownOk) (hrf0 : rstripOrNone rf = some rf)
    (hp3 : startsWith rf immPrefix = false) (hp4 : startsWith rf roPrefix = false) :
    canon W cx ⟨true, none, some (immPrefix ++ rf), false, false⟩ =
      ⟨true, none, some (immPrefix ++ rf), false, false⟩ := by
  have hrfe : truthy (some rf) = true := by
    cases rf with
    | nil => simp [rstripOrNone, rstrip] at hrf0
    | cons a t => rfl
  have hs1 : startsWith (immPrefix ++ rf) immPrefix = true := by
    simp [startsWith, immPrefix, List.isPrefixOf]
  have hstrip : stripPrefixForRo (immPrefix ++ rf) true = rf := by
    unfold stripPrefixForRo
    rw [hs1]
    simp [immPrefix]
  have hnone : rstripOrNone ([] : Bytes) = none := by simp [rstripOrNone, rstrip]
  have htn : truthy (none : Option Bytes) = false := rfl
  have hbeq : (fromString W.classify rf true == Parsed.unknownErr) = false := by rw [hfs]; rfl
  have hite : (if cx.writeable = true then ([] : Bytes) else []) = [] := by split <;> rfl
  simp only [canon, hm, Option.getD_none, Option.getD_some, hite, Bool.not_false, hstrip, hnone, hrf0, createFromCap,
    htn, hrfe, orNone, hfs, Bool.false_eq_true, if_false, if_true, mkUnknown, hbeq]
  simp [hp3, hp4]

/-- **A listing packed for another directory** (`pack_children(listing, other_writekey)`, what
    `create_subdirectory(initial_children=listing)` / `create_dirnode(initial_children=listing)` do): `pack_children`
    builds a plain dict, so the raw entries cached in the listing (encrypted under the *source* directory's key) are
    not used; every child is encoded afresh under the target's key, and unpacking in the target directory gives
    `canon` of every child exactly as for children that never had a cache (seeded C19-b). -/
theorem listing_packed_for_another_directory (cx : DirCtx Key) (H : RoundTrip W cx) (l : List (Name × Child J))
    (hnorm : ∀ e ∈ l, W.norm e.1 = e.1) (hdistinct : (l.map (·.1)).Nodup) (data : Bytes)
    (hpack : pack W cx.writekey (!cx.mutableDir) false l = .ok data) :
    unpack W cx data = some ((l.map clearAux).filterMap (keep W cx)) := by
  rw [pack_plain_ignores_aux] at hpack
  apply unpack_pack W cx H (l.map clearAux) _ _ data hpack
  · intro e he
    obtain ⟨x, hx, rfl⟩ := List.mem_map.mp he
    exact hnorm x hx
  · have : (l.map clearAux).map (·.1) = l.map (·.1) := by simp [List.map_map, Function.comp_def, clearAux]
    rw [this]; exact hdistinct

example : canon demoWorld ⟨false, false, none⟩ ⟨true, none, some (immPrefix ++ [114]), false, false⟩ =
      ⟨true, none, some (immPrefix ++ [114]), false, false⟩ ∧
    pack demoWorld (some ()) false false [([97], ⟨⟨true, none, some [114, 111, 46, 120], false, false⟩, [123, 125], some [1, 2, 3]⟩)] =
    pack demoWorld (some ()) false false [([97], ⟨⟨true, none, some [114, 111, 46, 120], false, false⟩, [123, 125], none⟩)] :=
  ⟨by decide, pack_plain_ignores_aux demoWorld _ _ _⟩

/-- … hence `pack ∘ unpack ∘ pack` preserves both cap slots: whenever `canon` fixes a node (known nodes —
    `canon_known_node`; a future write cap next to a known read cap — `canon_unknown_rw_known_ro`), the entry that
    the second-generation pack writes for the unpacked child (after `set_metadata_for`, an overwriting add or a
    move dropped its cached raw entry) has the same rwcapdata and ro_uri fields, byte for byte. -/
theorem repack_preserves_both_slots (cx : DirCtx Key) (n : Node) (hfix : canon W cx n = n) (name : Name) (md : J)
    (a a' : Option Bytes) :
    entryBytes W cx.writekey (!cx.mutableDir) name ⟨canon W cx n, md, a⟩ =
      entryBytes W cx.writekey (!cx.mutableDir) name ⟨n, md, a'⟩ := by
  rw [hfix]
  rfl

/-- What the round trip does to caps with two alleged-prefixes (the open finding `roundtrip-double-prefix`):
    an unknown node whose read cap is `ro.ro.X`, with `X` a known write cap, is packed without complaint,
    but `canon` of it records an error, so `_unpack_contents` drops the child. -/
theorem double_prefix_child_is_dropped_counterexample :
    let cls : Bytes → CapClass := fun c => if c = [88] then .known true true [88] [89] else .unknown
    let n : Node := createFromCap cls none (some (roPrefix ++ roPrefix ++ [88])) false
    n.err = false ∧ n.unknown = true ∧
    (createFromCap cls (rstripOrNone (n.rw.getD [])) (rstripOrNone (stripPrefixForRo (n.ro.getD []) false)) false).err
      = true := by decide

end
end Tahoe.C19
