import Tahoe.Uri.LemmasE2E
/-! C16 — capabilities attenuate correctly (`uri.py` get_readonly / get_verify_cap / is_readonly /
is_mutable, `from_string` alleged prefixes, `unknown.py`, `nodemaker.py` create_from_cap with its node
cache, and the ro-slot route through `dirnode.py` pack / `_unpack_contents` for both immutable directory
flavours).  One open exception (known finding `ro-slot-unprefixed-writecap-in-unknownnode`) is carried
explicitly as `roSlotException` and proved inhabited.

All theorems hold for *every* `H : Hashes` (the three tagged hashes are uninterpreted functions),
so a derived cap can depend on a stronger secret only through the hash the code applies to it.
-/
/-! ## Coverage of the statement (properties.jsonl C16)

| clause of the statement | proved for the model by |
|---|---|
| "From a write-cap one can derive the read-cap and the verify-cap, and from a read-cap the verify-cap, with the same storage index and fingerprint along the chain." | `chain_same_si_fp` (every cap object incl. directories; also read∘verify = verify). The hash *values* are abstract here (C17 owns them); that the real objects use the same three hashes is **correspondence** (`att` lines carry the real hash values as tables). |
| "A derived cap never carries the stronger secret …" | `attenuation_noninterference` (derived cap = function of the weaker secrets only, for every choice of hash functions), `flags_sound` (derived objects hold no write key / no read key), `authority_monotone`. |
| "… and never reports write or read authority it lacks." | `flags_sound` (a well-formed cap says writeable only if it holds a write key; derived caps say read-only / not mutable), `authority_monotone` (get_readonly ≤ read and ≤ the original, get_verify_cap = verify, in the explicit order write > read > verify > opaque). |
| "A cap marked as alleged read-only or alleged immutable is never interpreted as writeable or mutable." — by `uri.from_string` | `alleged_prefix_respected`, `parsed_authority_bounded` (all byte strings, both contexts). |
| — by `NodeMaker.create_from_cap`, whatever was created before (seed C16-a) | `node_respects_context`, `cache_is_memoryless` (all histories, incl. weak-reference drops). |
| — by `UnknownNode` (both slots; seed C16-c) | `unknown_prefix_kept` (errored nodes opaque; stored ro_uri always prefixed, `imm.` never weakened; rw_uri kept only when given as such with a read cap outside deep-immutable). |
| — along the route set_uri → `_pack_normalized_children` (cleartext ro slot) → `_unpack_contents` → create_from_cap(None, stored) (seed C16-c) | `ro_slot_never_writes`: the reader's node has at most read authority for every (writecap, readcap, context) and every hash functions, EXCEPT `roSlotException`; `ro_slot_exception_is_real` / `ro_slot_unprefixed_writecap_counterexample` prove the exception is inhabited (open known finding `ro-slot-unprefixed-writecap-in-unknownnode`). `ro_slot_end_to_end` composes the linker's side with the reader's `_unpack_contents` entry handling (`unpackChild`: `rstrip(b" ")`, raise_error, immutable-directory filter) for a directory of the matching context. Netstring framing, the encrypted rw slot and the metadata of an entry are **not covered** here (C19/C18 own the directory serialisation); the in-process grid run of the harness is **monitor only**. |
| quantifier "all prefix combinations ro./imm. with deep-immutable and read-only contexts" | theorems are for all byte strings (so all prefix stackings) and both values of `deep`; "read-only context" = the ro slot / readcap argument, covered by the ro-slot route above. |
| deep immutability is transitive through immutable directories of BOTH flavours, DIR2-CHK and DIR2-LIT (seed C16-d) | `immutable_dir_children`: every child entry read out of such a directory is refused, or is read-only & immutable with at most read authority, an unknown child is `imm.`-alleged without rw_uri, a directory child is again of an immutable flavour, non-empty rwcapdata is a ValueError. The child context is `dirChildDeep`, a function of the directory cap's kind. Netstring framing / metadata of the listing: not covered (C19). |
| verify-cap of a directory *verifier* cap | outside the statement; `dir_verifier_reverify_is_miskinded` records what the code does. |
-/
namespace Tahoe.C16
open Tahoe.Uri

set_option maxRecDepth 100000
set_option linter.unusedSimpArgs false

/-! ### the chain write → read → verify -/

/-- Diminishing keeps the storage index and the integrity fields (fingerprint; for CHK the UEB hash
with k, N, size), for every cap object, and read-then-verify equals verify. -/
theorem chain_same_si_fp (H : Hashes) (c : Cap) :
    (∀ r, c.getReadonly H = some r → r.storageIndex H = c.storageIndex H ∧ r.fingerprint = c.fingerprint) ∧
    (∀ v, c.getVerifyCap H = some v → v.storageIndex H = c.storageIndex H ∧ v.fingerprint = c.fingerprint) ∧
    ((c.getReadonly H).bind (·.getVerifyCap H) = c.getVerifyCap H) := by
  cases c with
  | file f =>
    refine ⟨?_, ?_, ?_⟩
    · intro r h; cases f <;> simp_all [Cap.getReadonly, FileCap.getReadonly] <;> subst h <;> exact ⟨rfl, rfl⟩
    · intro v h
      cases f <;> simp_all [Cap.getVerifyCap, FileCap.getVerifyCap] <;> subst h <;> exact ⟨rfl, rfl⟩
    · cases f <;> rfl
  | dir dk f =>
    refine ⟨?_, ?_, ?_⟩
    · intro r h
      cases dk <;> simp [Cap.getReadonly] at h <;> subst h <;> cases f <;> exact ⟨rfl, rfl⟩
    · intro v h
      cases dk <;> cases f <;> simp [Cap.getVerifyCap, FileCap.getVerifyCap] at h <;> subst h <;> exact ⟨rfl, rfl⟩
    · cases dk <;> cases f <;> rfl
  | unknown u e => simp [Cap.getReadonly, Cap.getVerifyCap]

example (H : Hashes) :
    ((Cap.dir .ssk (.ssk [1] [2])).getReadonly H).bind (·.getVerifyCap H) = some (.dir .sskV (.sskV (H.sskSI (H.readkey [1])) [2])) :=
  rfl

/-! ### the derived cap is a function of the weaker secret only -/

/-- Two caps (of the same file/directory shape) whose read-level secrets agree — write keys may
differ as long as they hash to the same read key — have equal read-only forms; two caps whose
verify-level secrets (storage index, fingerprint) agree have equal verify caps. Holds for every `H`,
in particular for non-injective ones. -/
theorem attenuation_noninterference (H : Hashes) (c1 c2 : Cap) (w1 : c1.wf = true) (w2 : c2.wf = true) :
    (c1.readSecrets H = c2.readSecrets H → c1.getReadonly H = c2.getReadonly H) ∧
    (c1.tailKind = c2.tailKind → c1.verifySecrets H = c2.verifySecrets H → c1.getVerifyCap H = c2.getVerifyCap H) := by
  cases c1 with
  | unknown => simp [Cap.wf] at w1
  | file f1 =>
    cases c2 with
    | unknown => simp [Cap.wf] at w2
    | file f2 =>
      refine ⟨fun h => ?_, fun _ h => ?_⟩
      · simp only [Cap.readSecrets, Option.some.injEq, Prod.mk.injEq, true_and] at h
        simp only [Cap.getReadonly, file_ro_of_secrets H f1 f2 h]
      · have : f1.verifySecrets H = f2.verifySecrets H := by
          simp only [Cap.verifySecrets] at h
          cases h1 : f1.verifySecrets H <;> cases h2 : f2.verifySecrets H <;> simp_all
        simp only [Cap.getVerifyCap, file_verify_of_secrets H f1 f2 this]
    | dir dk f2 => exact ⟨fun h => by simp [Cap.readSecrets] at h, fun _ h => by
        simp only [Cap.verifySecrets] at h
        cases h1 : f1.verifySecrets H <;> cases h2 : f2.verifySecrets H <;> simp_all [Cap.getVerifyCap] <;>
          (cases f1 <;> cases f2 <;> cases dk <;> simp_all [FileCap.verifySecrets, FileCap.getVerifyCap])⟩
  | dir dk1 f1 =>
    simp only [Cap.wf, Bool.and_eq_true, beq_iff_eq] at w1
    obtain ⟨rfl, _⟩ := w1
    cases c2 with
    | unknown => simp [Cap.wf] at w2
    | file f2 => exact ⟨fun h => by simp [Cap.readSecrets] at h, fun _ h => by
        simp only [Cap.verifySecrets] at h
        cases h1 : f1.verifySecrets H <;> cases h2 : f2.verifySecrets H <;> simp_all [Cap.getVerifyCap] <;>
          (cases f1 <;> cases f2 <;> simp_all [FileCap.verifySecrets, FileCap.getVerifyCap, FileCap.kind])⟩
    | dir dk2 f2 =>
      simp only [Cap.wf, Bool.and_eq_true, beq_iff_eq] at w2
      obtain ⟨rfl, _⟩ := w2
      refine ⟨fun h => ?_, fun hk h => ?_⟩
      · simp only [Cap.readSecrets, Option.some.injEq, Prod.mk.injEq, true_and] at h
        rw [dir_getReadonly_wf, dir_getReadonly_wf, file_ro_of_secrets H f1 f2 h]
      · simp only [Cap.tailKind] at hk
        have : f1.verifySecrets H = f2.verifySecrets H := by
          simp only [Cap.verifySecrets] at h
          cases h1 : f1.verifySecrets H <;> cases h2 : f2.verifySecrets H <;> simp_all
        simp only [Cap.getVerifyCap, hk, file_verify_of_secrets H f1 f2 this]

/-- satisfiable with *different* write keys: a constant read-key hash -/
example : let H : Hashes := ⟨fun _ => [9], id, id⟩
    (Cap.file (.ssk (List.replicate 16 1) (List.replicate 32 5))).getReadonly H =
    (Cap.file (.ssk (List.replicate 16 2) (List.replicate 32 5))).getReadonly H := by
  exact ((attenuation_noninterference _ _ _ (by decide) (by decide)).1 rfl)

/-! ### flags -/

/-- No derived cap reports authority it lacks: the read-only form says read-only, keeps mutability,
holds no write key and diminishing again changes nothing; the verify cap says read-only and
not mutable and holds neither key; and a well-formed cap says "writeable" only if it holds a write key. -/
theorem flags_sound (H : Hashes) (c : Cap) :
    (∀ r, c.getReadonly H = some r →
        r.isReadonly = some true ∧ r.isMutable = c.isMutable ∧ r.getReadonly H = some r ∧
        (c.wf = true → r.inner.bind FileCap.writeKey = none)) ∧
    (∀ v, c.getVerifyCap H = some v →
        v.isReadonly = some true ∧ v.isMutable = some false ∧
        (c.wf = true → v.inner.bind FileCap.writeKey = none ∧ v.inner.bind FileCap.readKey = none)) ∧
    (c.wf = true → c.isReadonly = some false → (c.inner.bind FileCap.writeKey).isSome = true) ∧
    (c.isReadonly = some true → c.getReadonly H = some c) := by
  cases c with
  | unknown u e => simp [Cap.getReadonly, Cap.getVerifyCap, Cap.wf, Cap.isReadonly]
  | file f =>
    refine ⟨?_, ?_, ?_, ?_⟩
    · intro r h; cases f <;> simp [Cap.getReadonly, FileCap.getReadonly] at h <;> subst h <;>
        simp [Cap.isReadonly, Cap.isMutable, FileCap.isReadonly, FileCap.isMutable, Cap.getReadonly, FileCap.getReadonly,
          Cap.inner, FileCap.writeKey]
    · intro v h; cases f <;> simp [Cap.getVerifyCap, FileCap.getVerifyCap] at h <;> subst h <;>
        simp [Cap.isReadonly, Cap.isMutable, FileCap.isReadonly, FileCap.isMutable, Cap.inner, FileCap.writeKey,
          FileCap.readKey]
    · intro _ h; cases f <;> simp_all [Cap.isReadonly, FileCap.isReadonly, Cap.inner, FileCap.writeKey]
    · intro h; cases f <;> simp_all [Cap.isReadonly, FileCap.isReadonly, Cap.getReadonly, FileCap.getReadonly]
  | dir dk f =>
    refine ⟨?_, ?_, ?_, ?_⟩
    · intro r h
      cases dk <;> cases f <;> simp [Cap.getReadonly, FileCap.getReadonly, dirRoKind] at h <;> subst h <;>
        simp [Cap.isReadonly, Cap.isMutable, dirIsReadonly, dirIsMutable, Cap.getReadonly, dirRoKind, Cap.inner,
          FileCap.writeKey, Cap.wf, FileCap.kind]
    · intro v h
      cases dk <;> cases f <;> simp [Cap.getVerifyCap, FileCap.getVerifyCap, dirVerifierKind] at h <;> subst h <;>
        simp [Cap.isReadonly, Cap.isMutable, dirIsReadonly, dirIsMutable, Cap.inner, FileCap.writeKey, FileCap.readKey,
          Cap.wf, FileCap.kind]
    · intro hw h
      simp only [Cap.wf, Bool.and_eq_true, beq_iff_eq] at hw
      obtain ⟨rfl, _⟩ := hw
      cases f <;> simp_all [Cap.isReadonly, dirIsReadonly, FileCap.kind, Cap.inner, FileCap.writeKey]
    · intro h; cases dk <;> simp_all [Cap.isReadonly, dirIsReadonly, Cap.getReadonly]

example (H : Hashes) : (Cap.dir .mdmf (.mdmf [1] [2])).getReadonly H = some (.dir .mdmfRo (.mdmfRo (H.readkey [1]) [2])) ∧
    (Cap.dir .mdmfRo (.mdmfRo (H.readkey [1]) [2])).isReadonly = some true := ⟨rfl, rfl⟩

/-- NOT part of the property, recorded because the model mirrors it: `get_verify_cap()` of the
directory-verifier classes DIR2-CHK-Verifier and DIR2-MDMF-Verifier is inherited from
`_DirectoryBaseURI` and wraps the inner verifier in a plain `DirectoryURIVerifier`, an object
whose `to_string()` trips `assert mo` (the flags and the storage index are still right). -/
theorem dir_verifier_reverify_is_miskinded (H : Hashes) (si fp : Bytes) :
    (Cap.dir .mdmfV (.mdmfV si fp)).getVerifyCap H = some (.dir .sskV (.mdmfV si fp)) ∧
    (Cap.dir .sskV (.mdmfV si fp)).toString = none ∧
    (Cap.dir .sskV (.sskV si fp)).getVerifyCap H = some (.dir .sskV (.sskV si fp)) := ⟨rfl, rfl, rfl⟩

/-! ### the authority order  write > read > verify > opaque -/

/-- Every diminishing operation is monotone non-increasing in the authority order: `get_readonly()`
never returns more than the cap had and (for the cap objects the code builds) at most `read`;
`get_verify_cap()` returns exactly `verify`, which is never more than the cap had. -/
theorem authority_monotone (H : Hashes) (c : Cap) :
    (∀ r, c.getReadonly H = some r → r.authority ≤ c.authority ∧ (c.wf = true → r.authority ≤ .read)) ∧
    (∀ v, c.getVerifyCap H = some v → v.authority = .verify ∧ v.authority ≤ c.authority) :=
  ⟨fun r h => getReadonly_authority H c r h, fun v h => getVerifyCap_authority H c v h⟩

example (H : Hashes) : ((Cap.dir .mdmf (.mdmf [1] [2])).authority, ((Cap.dir .mdmf (.mdmf [1] [2])).getReadonly H).map Cap.authority,
    ((Cap.dir .mdmf (.mdmf [1] [2])).getVerifyCap H).map Cap.authority) = (.write, some .read, some .verify) := rfl

/-- A string carrying `ro.` or `imm.`, or parsed in a deep-immutable context, never yields more than
read authority (an `UnknownURI` is `opaque`). -/
theorem parsed_authority_bounded (deep : Bool) (u : Bytes)
    (h : roPrefix.isPrefixOf u = true ∨ immPrefix.isPrefixOf u = true ∨ deep = true) :
    (fromString deep u).authority ≤ .read :=
  fromString_authority deep u h

example : (fromString false (filePrefix .ssk ++ List.replicate 26 97 ++ [58] ++ List.replicate 52 97)).authority = .write ∧
    (fromString true (filePrefix .ssk ++ List.replicate 26 97 ++ [58] ++ List.replicate 52 97)).authority = .opaque := by decide

/-! ### nothing stored in a ro slot yields write authority (one proved exception) -/

/-- The route  linker → cleartext ro slot → reader.  `packRo` is what `dirnode.set_uri` +
`_pack_normalized_children` store in the ro slot for a child given as (writecap, readcap) in a mutable
(`deep = false`) or immutable (`deep = true`) directory; `readerNode` is the node `_unpack_contents` builds
from that slot for someone who holds only the directory's read cap.  For every pair of strings, both
contexts and every choice of hash functions the reader's node has at most read authority — except in
the one situation of the open finding (`roSlotException`): an UnknownNode child whose ro slot was given an
UNPREFIXED string that parses as a write cap. -/
theorem ro_slot_never_writes (H : Hashes) (w r : Option Bytes) (deep : Bool) (stored : Bytes)
    (h : packRo H w r deep = .stored stored) :
    (readerNode stored deep).authority ≤ .read ∨ roSlotException w r deep :=
  ro_slot_core H w r deep stored h

/-- non-vacuous: a directory write cap linked as a child is stored diminished and read back read-only -/
example : let H : Hashes := ⟨fun _ => List.replicate 16 0, id, id⟩
    let d := dirPrefix .ssk ++ List.replicate 26 97 ++ [58] ++ List.replicate 52 97
    packRo H (some d) none false = .stored (dirPrefix .sskRo ++ List.replicate 26 97 ++ [58] ++ List.replicate 52 97) ∧
    (readerNode (dirPrefix .sskRo ++ List.replicate 26 97 ++ [58] ++ List.replicate 52 97) false).authority = .read := by
  decide

/-- The exception is real (known finding `ro-slot-unprefixed-writecap-in-unknownnode`): true of the code
and of the model. -/
theorem ro_slot_exception_is_real :
    let H : Hashes := ⟨id, id, id⟩
    let w := filePrefix .ssk ++ List.replicate 26 97 ++ [58] ++ List.replicate 52 97
    packRo H (some [120, 58, 121]) (some w) false = .stored w ∧ (readerNode w false).authority = .write ∧
    roSlotException (some [120, 58, 121]) (some w) false := by
  refine ⟨by decide, by decide, rfl, ⟨_, rfl⟩, _, rfl, by decide, by decide, by decide⟩

/-- The same end to end through a directory: the string that set_uri + pack stored in the cleartext ro slot, read
back by `_unpack_contents` (with its `rstrip(b" ")`, `raise_error` and immutable-directory filter) of a directory
whose child context matches, never gives the reader a node with more than read authority — except in the one
open exception. For every pair of strings, every hash functions, both contexts. -/
theorem ro_slot_end_to_end (H : Hashes) (w r : Option Bytes) (deep : Bool) (stored : Bytes)
    (h : packRo H w r deep = .stored stored) (dk : FileKind) (hdk : dirChildDeep dk = deep) (rwcap : Bool) (n : Node)
    (hu : unpackChild dk stored rwcap = .child n) :
    n.authority ≤ .read ∨ roSlotException w r deep :=
  ro_slot_e2e H w r deep stored h dk hdk rwcap n hu

/-- instance: an MDMF write cap linked into a mutable directory comes back to a read-cap holder as a read-only mutable file -/
example : let H : Hashes := ⟨fun _ => List.replicate 16 0, id, id⟩
    let m := filePrefix .mdmf ++ List.replicate 26 97 ++ [58] ++ List.replicate 52 97
    let mro := filePrefix .mdmfRo ++ List.replicate 26 97 ++ [58] ++ List.replicate 52 97
    packRo H (some m) none false = .stored mro ∧
    unpackChild .sskRo mro true = .child (.known .mutableFile (.file (.mdmfRo (List.replicate 16 0) (List.replicate 32 0)))) := by
  decide

/-! ### deep immutability is transitive through both immutable directory flavours -/

/-- `unpackChild dk ro rwcap` is what `DirectoryNode._unpack_contents` makes of one entry (cleartext ro slot,
rwcapdata empty or not) of a directory whose cap has kind `dk`, for a reader without the write key.  For
`dk` = DIR2-CHK **or** DIR2-LIT, and for every byte string in the slot: -/
theorem immutable_dir_children (dk : FileKind) (hdk : dk = .chk ∨ dk = .lit) (roSlot : Bytes) (rwcap : Bool) :
    (rwcap = true → unpackChild dk roSlot rwcap = .valueError) ∧
    ∀ n, unpackChild dk roSlot rwcap = .child n →
      (∀ k cap, n = .known k cap →
          n.flags = some (true, false) ∧ n.authority ≤ .read ∧
          (∀ k', k = .dirnode k' → ∃ dk' f, cap = .dir dk' f ∧ dirChildDeep dk' = true)) ∧
      (∀ un, n = .unknown un → un.error = none ∧ un.rw = none ∧ ∀ x, un.ro = some x → startsWith immPrefix x = true) :=
  immutable_dir_child dk hdk roSlot rwcap

/-- instances: a write cap inside a literal directory is dropped, a literal file is kept, an unknown cap is re-alleged `imm.`;
in a mutable directory read through its read cap the same write cap in the ro slot is NOT refused (the open finding's last step) -/
example :
    let w := filePrefix .ssk ++ List.replicate 26 97 ++ [58] ++ List.replicate 52 97
    unpackChild .lit w false = .dropped ∧
    unpackChild .lit (filePrefix .lit ++ [109, 121]) false = .child (.known .literal (.file (.lit [0x66]))) ∧
    unpackChild .chk [120, 58, 121] false = .child (.unknown { error := none, rw := none, ro := some (immPrefix ++ [120, 58, 121]) }) ∧
    unpackChild .sskRo w false = .child (.known .mutableFile (.file (.ssk (List.replicate 16 0) (List.replicate 32 0)))) := by
  decide

/-! ### alleged prefixes -/

/-- For every string and both contexts: a `ro.`-prefixed input is never interpreted as a writeable
cap, and an `imm.`-prefixed input, or any input in a deep-immutable context, is never interpreted
as a mutable cap. (`isReadonly`/`isMutable` are `none` exactly for `UnknownURI`.) -/
theorem alleged_prefix_respected (deep : Bool) (u : Bytes) :
    (roPrefix.isPrefixOf u = true → (fromString deep u).isReadonly ≠ some false) ∧
    ((immPrefix.isPrefixOf u = true ∨ deep = true) → (fromString deep u).isMutable ≠ some true) ∧
    (immPrefix.isPrefixOf u = true → (fromString deep u).isReadonly ≠ some false) := by
  obtain ⟨k1, k2⟩ := fromString_flags_of_ctx deep u
  refine ⟨fun h => k1 ?_, fun h => k2 ?_, fun h => k1 ?_⟩
  · simp only [stripAlleged]; split <;> simp_all
  · simp only [stripAlleged]; rcases h with h | h
    · simp [h]
    · subst h; split <;> (try split) <;> simp
  · simp only [stripAlleged]; simp [h]

example : (fromString false (roPrefix ++ filePrefix .ssk ++ List.replicate 26 97 ++ [58] ++ List.replicate 52 97)) =
    .unknown (roPrefix ++ filePrefix .ssk ++ List.replicate 26 97 ++ [58] ++ List.replicate 52 97) (some .mustBeReadonly) := by
  decide

/-- The same at node level: a known node built by `create_from_cap(writecap, readcap, deep_immutable)`
is built from `from_string(writecap or readcap, deep_immutable)`, reports the flags of that cap, is
never mutable in a deep-immutable context and never writeable when the string carried `ro.`/`imm.`. -/
theorem node_respects_context (w r : Option Bytes) (deep : Bool) (k : NodeKind) (cap : Cap)
    (h : createFromCap w r deep = .known k cap) :
    ∃ big ro mu, orNone (orBytes w r) = some big ∧ cap = fromString deep big ∧
      (Node.known k cap).flags = some (ro, mu) ∧ cap.isReadonly = some ro ∧ cap.isMutable = some mu ∧
      (deep = true → mu = false) ∧ (immPrefix.isPrefixOf big = true → mu = false ∧ ro = true) ∧
      (roPrefix.isPrefixOf big = true → ro = true) := by
  simp only [createFromCap] at h
  cases hb : orNone (orBytes w r) with
  | none => rw [hb] at h; simp at h
  | some big =>
    rw [hb] at h
    simp only at h
    cases hk : createFromSingleCap (fromString deep big) with
    | none => rw [hk] at h; simp at h
    | some k' =>
      rw [hk] at h
      simp only [Node.known.injEq] at h
      obtain ⟨rfl, rfl⟩ := h
      have hknown : (fromString deep big).isKnown = true := by
        cases hc : fromString deep big <;> simp_all [createFromSingleCap, Cap.isKnown]
      obtain ⟨hwf, _⟩ := fromString_known deep big _ rfl hknown
      obtain ⟨f, hf, hr, hm⟩ := wf_flags_inner _ hwf
      obtain ⟨a1, a2, a3⟩ := alleged_prefix_respected deep big
      refine ⟨big, f.isReadonly, f.isMutable, rfl, rfl, by simp [Node.flags, hf], hr, hm, ?_, ?_, ?_⟩
      · intro hd; have := a2 (Or.inr hd); rw [hm] at this; cases hx : f.isMutable <;> simp_all
      · intro hi
        have m := a2 (Or.inl hi); rw [hm] at m
        have q := a3 hi; rw [hr] at q
        constructor
        · cases hx : f.isMutable <;> simp_all
        · cases hx : f.isReadonly <;> simp_all
      · intro hi; have q := a1 hi; rw [hr] at q; cases hx : f.isReadonly <;> simp_all

example : createFromCap (some (filePrefix .lit ++ [109, 121])) none true = .known .literal (.file (.lit [0x66])) := by decide

/-- The node cache is memoryless in the verdict: for every history of `create_from_cap` calls on one
NodeMaker (interleaved with the garbage collector dropping any weakly referenced cache entries), each
call returns exactly the node (kind, cap, flags, or UnknownNode with its error) that the same call
returns on a fresh NodeMaker.  So `node_respects_context` holds whatever was created before. -/
theorem cache_is_memoryless (ops : List NmOp) : runHistory [] ops = runCold ops :=
  runHistory_eq_cold [] (fun _ h => by cases h) ops

/-- concrete instance: bare write cap first (cached, mutable), then the same cap with `ro.` — still refused -/
example :
    let ssk := filePrefix .ssk ++ List.replicate 26 97 ++ [58] ++ List.replicate 52 97
    runHistory [] [.call (some ssk) none false, .call (some (roPrefix ++ ssk)) none false] =
      [.known .mutableFile (.file (.ssk (List.replicate 16 0) (List.replicate 32 0))),
       .unknown { error := some .mustBeReadonly, rw := none, ro := none }] := by decide

/-! ### unknown caps keep or strengthen their prefix -/

/-- `UnknownNode(given_rw_uri, given_ro_uri, deep_immutable)`: a node with an error is opaque; the
stored ro_uri always carries `ro.` or `imm.` and is the given cap itself, the given cap with a prefix
added, or with `ro.` upgraded to `imm.` (an `imm.` is never removed or weakened); in a deep-immutable
context there is no rw_uri and the ro_uri carries `imm.`; a rw_uri is stored only if it was given
as such, together with a read cap, outside a deep-immutable context; a cap given alone in the rw slot
is moved to the ro slot only if it already carried a prefix. -/
theorem unknown_prefix_kept (givenRw givenRo : Option Bytes) (deep : Bool) :
    let n := mkUnknownNode givenRw givenRo deep
    (n.error.isSome = true → n.rw = none ∧ n.ro = none) ∧
    (∀ r, n.ro = some r → (startsWith roPrefix r = true ∨ startsWith immPrefix r = true) ∧
        ∃ g, (orNone givenRo = some g ∨
              (orNone givenRo = none ∧ orNone givenRw = some g ∧ (startsWith roPrefix g = true ∨ startsWith immPrefix g = true))) ∧
          strengthens g r ∧ (startsWith immPrefix g = true → r = g)) ∧
    (deep = true → n.rw = none ∧ ∀ r, n.ro = some r → startsWith immPrefix r = true) ∧
    (∀ w, n.rw = some w → deep = false ∧ orNone givenRw = some w ∧ (orNone givenRo).isSome = true) :=
  unknownNode_props givenRw givenRo deep

example : mkUnknownNode none (some (roPrefix ++ [120, 58, 121])) true =
    { error := none, rw := none, ro := some (immPrefix ++ [120, 58, 121]) } := by decide

/-- Known finding `ro-slot-unprefixed-writecap-in-unknownnode` (true of the code and of the model):
next to an rw_uri of an unknown format, an UNPREFIXED known write cap in the ro slot is accepted (its
`from_string` has no error), the node marks it `ro.`, `strip_prefix_for_ro` (what a directory stores)
removes the mark again, and `create_from_cap(None, stored)` — a reader of the directory — builds a
writeable mutable node.  `unknown_prefix_kept` is about the prefix the node keeps; it does not (and
cannot) say the marked cap is really read-only. -/
theorem ro_slot_unprefixed_writecap_counterexample :
    let w := filePrefix .ssk ++ List.replicate 26 97 ++ [58] ++ List.replicate 52 97
    mkUnknownNode (some [120, 58, 121]) (some w) false = { error := none, rw := some [120, 58, 121], ro := some (roPrefix ++ w) } ∧
    stripPrefixForRo (roPrefix ++ w) false = w ∧
    (createFromCap none (some w) false).flags = some (false, true) ∧
    (createFromCap none (some (roPrefix ++ w)) false).flags = none := by decide

/-- `strip_prefix_for_ro` removes `imm.` only in a deep-immutable context, where the context implies it -/
theorem strip_prefix_keeps_imm (ro : Bytes) (h : startsWith immPrefix ro = true) : stripPrefixForRo ro false = ro := by
  simp [stripPrefixForRo, h]

end Tahoe.C16
