import Tahoe.StorageClient.Lemmas
import Tahoe.StorageClient.Upload
import Tahoe.StorageClient.Permute
import Tahoe.Props.C33
/-!
C32 — Servers are ordered consistently and upload permission is enforced.

Statements are about `Tahoe.StorageClient.getServersForPsi` (model of
`StorageFarmBroker.get_servers_for_psi`; `getServersForPsiBytes` with the SHA-1 of storage index +
seed computed in Lean), `serversAt` / `serversAfter` (the same selection composed with the C33
certificate verifier over announced servers and over announcement histories — the broker keeps the
latest announcement per server id) and `updateGoal` (model of `Publish.update_goal`).  14 theorems.
Tied to the code by `harness/props/c32.py` (driver ops `psi`, `psib`, `hist`, `goal`) and, for
`serversAtA`, by the `offer` lines of `harness/props/c33.py`.  The `peers.preferred` defect found
through this check (configured ids kept as `str`) is repaired in /repo
(`fixes/C32-preferred-bytes.diff`, committed); the model is the repaired behaviour.
-/
/-!
## Coverage of the statement

| clause of C32 | proved for the model by |
|---|---|
| for a given storage index and set of connected servers every client computes the same order | `order_is_function_of_set` (any enumeration / insertion history of the same set, distinct sort keys), `preferred_is_a_set` (order and repetitions in `peers.preferred` are irrelevant) |
| preferred servers first, then by the hash of storage index and server seed | `preferred_first` (both halves, digest as input), `ordered_by_sha1_of_psi_and_seed` and `order_is_function_of_psi_and_seeds` (digest computed: SHA-1 of `Tahoe/Base/Sha256.lean` on storage index + seed, run by the driver op `psib` and compared with the code; that Python's lexicographic order on equal-length digests is the order of the big-endian numbers is assumed) |
| with grid-manager keys configured, uploads are only directed to servers that currently hold a valid certificate | `upload_only_permitted` (result = exactly the connected, permitted servers), `upload_filter_applies_to_preferred` (no exemption for preferred servers, seed C32-c), `upload_candidates_hold_valid_certificate_now` and `currently_valid_server_is_offered` (end to end over certificates, keys and the current time through the C33 verifier; the list is a function of the current time only — seeds C32-a, C33-c), `publish_goal_only_permitted`, `publish_new_shares_only_permitted` (mutable publish, seed C32-b) |
| (histories) after any sequence of announcements and re-announcements the upload set follows each server's latest announcement | `broker_holds_latest_announcement`, `upload_set_depends_only_on_latest`, `upload_candidates_follow_latest_announcement` (seed C32-e); tied by the `hist` lines of `harness/props/c32.py` through the real `_got_announcement` |
| quantifier: random server sets, seeds, preferred lists, storage indexes, certificate sets and clock values | theorems hold for all lists / keys / times; the tie to the code is `harness/props/c32.py` (histories on long-lived brokers with a stepping clock) and, for `serversAt`, `harness/props/c33.py` (`offer` lines) |

Not covered: connection management (`is_connected` is an input), `HTTPNativeStorageServer`, the
immutable uploader's own use of the list (`Tahoe2ServerSelector`), equal sort keys (then the order
follows the frozenset iteration order; the model reproduces it from that order, no theorem).
-/
namespace Tahoe.C32
open Tahoe.StorageClient

/-- Every client computes the same order: for any two enumerations of the same server set (any
    iteration order of the `frozenset`, any insertion history of the broker) whose sort keys
    `(is_unpreferred, permute_server_hash(psi, seed))` are pairwise distinct, the outputs are equal
    (uniqueness of the sorted permutation). -/
theorem order_is_function_of_set (preferred : List Nat) (forUpload : Bool) (l₁ l₂ : List Server)
    (hperm : l₁.Perm l₂)
    (hdist : ∀ a ∈ l₁, ∀ b ∈ l₁, sortKey preferred a = sortKey preferred b → a = b) :
    getServersForPsi preferred forUpload l₁ = getServersForPsi preferred forUpload l₂ := by
  have p1 := perm_getServersForPsi preferred forUpload l₁
  have p2 := perm_getServersForPsi preferred forUpload l₂
  have pf := hperm.filter (fun s => s.connected && (!forUpload || s.permitted))
  refine List.Perm.eq_of_pairwise (le := fun a b => serverLe preferred a b = true) ?_
    (sorted_getServersForPsi preferred forUpload l₁) (sorted_getServersForPsi preferred forUpload l₂)
    (p1.trans (pf.trans p2.symm))
  intro a b ha hb hab hba
  have ha1 : a ∈ l₁ := (List.mem_filter.mp (p1.subset ha)).1
  have hb1 : b ∈ l₁ := hperm.symm.subset (List.mem_filter.mp (p2.subset hb)).1
  exact hdist a ha1 b hb1 (keyLe_antisymm _ _ hab hba)

/-- three servers inserted in two different orders, one of them preferred, one not connected -/
example :
    let a : Server := ⟨1, true, true, 50⟩
    let b : Server := ⟨2, true, true, 10⟩
    let c : Server := ⟨3, true, false, 30⟩
    let d : Server := ⟨4, false, true, 5⟩
    getServersForPsi [3] false [a, b, c, d] = [c, b, a] ∧
    getServersForPsi [3] false [d, c, a, b] = [c, b, a] := by decide

/-- Preferred servers first, then by the permuted hash: in the output no non-preferred server
    precedes a preferred one, and two servers of the same class appear in non-decreasing order of
    `permute_server_hash(psi, seed)`. -/
theorem preferred_first (preferred : List Nat) (forUpload : Bool) (l : List Server) :
    (getServersForPsi preferred forUpload l).Pairwise (fun a b =>
      (b.id ∈ preferred → a.id ∈ preferred) ∧
      ((a.id ∈ preferred ↔ b.id ∈ preferred) → a.hash ≤ b.hash)) := by
  refine (sorted_getServersForPsi preferred forUpload l).imp ?_
  intro a b h
  simp only [serverLe, keyLe, sortKey] at h
  by_cases ha : a.id ∈ preferred <;> by_cases hb : b.id ∈ preferred <;>
    simp [ha, hb] at h ⊢ <;> exact of_decide_eq_true h

example : getServersForPsi [7, 9] true
    [⟨5, true, true, 1⟩, ⟨9, true, true, 80⟩, ⟨7, true, true, 90⟩, ⟨6, true, true, 2⟩]
    = [⟨9, true, true, 80⟩, ⟨7, true, true, 90⟩, ⟨5, true, true, 1⟩, ⟨6, true, true, 2⟩] := by decide

/-- Upload permission is enforced: with `for_upload` the result is exactly (as a multiset) the
    connected servers whose `upload_permitted()` is true — a subset, and nothing permitted is
    dropped; without `for_upload` it is exactly the connected servers. -/
theorem upload_only_permitted (preferred : List Nat) (l : List Server) :
    (getServersForPsi preferred true l).Perm (l.filter (fun s => s.connected && s.permitted)) ∧
    (getServersForPsi preferred false l).Perm (l.filter (fun s => s.connected)) ∧
    (∀ s, s ∈ getServersForPsi preferred true l ↔ s ∈ l ∧ s.connected = true ∧ s.permitted = true) := by
  have h1 := perm_getServersForPsi preferred true l
  have h2 := perm_getServersForPsi preferred false l
  simp only [Bool.not_true, Bool.false_or, Bool.not_false, Bool.true_or, Bool.and_true] at h1 h2
  refine ⟨h1, h2, fun s => ?_⟩
  rw [h1.mem_iff]
  simp [List.mem_filter]

example : getServersForPsi [] true
    [⟨1, true, false, 1⟩, ⟨2, true, true, 9⟩, ⟨3, false, true, 2⟩, ⟨4, true, true, 3⟩]
    = [⟨4, true, true, 3⟩, ⟨2, true, true, 9⟩] := by decide

/-- `Publish.update_goal`: when it succeeds, every placement in the new goal was either already in
    the goal (on a server not marked bad) or is on a server of the server list that is not bad and
    whose `upload_permitted()` is true; and every share number below `total_shares` has a home. -/
theorem publish_goal_only_permitted (total : Nat) (goal : List (Nat × Nat)) (bad : List Nat)
    (full : List Server) (g : List (Nat × Nat)) (h : updateGoal total goal bad full = some g) :
    (∀ e ∈ g, (e ∈ goal ∧ e.1 ∉ bad) ∨
      (∃ s ∈ full, s.id = e.1 ∧ s.permitted = true ∧ s.id ∉ bad)) ∧
    (∀ sh, sh < total → ∃ sid, (sid, sh) ∈ g) := by
  unfold updateGoal at h
  simp only at h
  generalize hg' : goal.filter (fun e => !bad.contains e.1) = goal' at h
  have hsub : ∀ e ∈ goal', e ∈ goal ∧ e.1 ∉ bad := by
    intro e he
    rw [← hg'] at he
    simpa [List.mem_filter] using he
  split at h
  · rename_i hempty
    simp only [Option.some.injEq] at h
    subst h
    refine ⟨fun e he => Or.inl (hsub e he), fun sh hsh => ?_⟩
    by_cases hhome : goal'.any (·.2 == sh) = true
    · exact homed goal' sh hhome
    · have hmem : sh ∈ (List.range total).filter (fun sh => !goal'.any (·.2 == sh)) :=
        List.mem_filter.mpr ⟨List.mem_range.mpr hsh, by rw [Bool.eq_false_iff.mpr hhome]; rfl⟩
      rw [List.isEmpty_iff.mp hempty] at hmem
      simp at hmem
  · split at h
    · cases h
    · rename_i hne hsl
      simp only [Option.some.injEq] at h
      subst h
      have hslne : isort entryLe (candidates goal' bad 0 full) ≠ [] := by
        intro hnil; rw [hnil] at hsl; simp at hsl
      constructor
      · intro e he
        rcases List.mem_append.mp he with he | he
        · exact Or.inl (hsub e he)
        · right
          obtain ⟨_, en, hen, hid⟩ := mem_assign _ _ _ _ he
          have hen' := (perm_isort _ _).subset hen
          obtain ⟨s, hs, hsid, hperm, hbad⟩ := mem_candidates _ _ _ _ _ hen'
          exact ⟨s, hs, hsid.trans hid, hperm, by simpa using hbad⟩
      · intro sh hsh
        by_cases hhome : goal'.any (·.2 == sh) = true
        · obtain ⟨sid, hsid⟩ := homed goal' sh hhome
          exact ⟨sid, List.mem_append_left _ hsid⟩
        · have hmem : sh ∈ (List.range total).filter (fun sh => !goal'.any (·.2 == sh)) :=
            List.mem_filter.mpr ⟨List.mem_range.mpr hsh, by rw [Bool.eq_false_iff.mpr hhome]; rfl⟩
          obtain ⟨sid, hsid⟩ := assign_covers _ hslne 0 _ sh hmem
          exact ⟨sid, List.mem_append_right _ hsid⟩

/-- 3 shares, share 0 already on server 1; server 2 is not permitted, server 3 is bad:
    shares 1 and 2 go to servers 4 and 1 (fewest assignments first, then list order, wrapping) -/
example : updateGoal 3 [(1, 0), (3, 1)] [3]
    [⟨1, true, true, 0⟩, ⟨2, true, false, 0⟩, ⟨3, true, true, 0⟩, ⟨4, true, true, 0⟩]
    = some [(1, 0), (4, 1), (1, 2)] := by decide

/-- Being preferred is no exemption from the grid-manager filter (seed C32-c emitted preferred
    servers without filtering them): a server whose `upload_permitted()` is false is not in the
    `for_upload` list, whether or not `peers.preferred` names it. -/
theorem upload_filter_applies_to_preferred (preferred : List Nat) (l : List Server) (s : Server)
    (hnot : s.permitted = false) : s ∉ getServersForPsi preferred true l := by
  intro h
  have := ((upload_only_permitted preferred l).2.2 s).mp h
  simp [hnot] at this

/-- the preferred, connected, unpermitted server 9 is dropped; the permitted preferred 7 leads -/
example : getServersForPsi [7, 9] true
    [⟨5, true, true, 1⟩, ⟨9, true, false, 80⟩, ⟨7, true, true, 90⟩]
    = [⟨7, true, true, 90⟩, ⟨5, true, true, 1⟩] := by decide

/-- `peers.preferred` acts as a *set*: order and repetitions in the configured list do not matter. -/
theorem preferred_is_a_set (p₁ p₂ : List Nat) (h : ∀ x, x ∈ p₁ ↔ x ∈ p₂) (forUpload : Bool)
    (l : List Server) : getServersForPsi p₁ forUpload l = getServersForPsi p₂ forUpload l := by
  unfold getServersForPsi
  rw [serverLe_congr p₁ p₂ h]

example : getServersForPsi [7, 9, 7] false [⟨5, true, true, 1⟩, ⟨9, true, true, 80⟩, ⟨7, true, true, 90⟩]
    = getServersForPsi [9, 7] false [⟨5, true, true, 1⟩, ⟨9, true, true, 80⟩, ⟨7, true, true, 90⟩] :=
  preferred_is_a_set _ _ (by intro x; simp; omega) _ _

/-- `update_goal` never directs a *new* placement to a server that is bad or not permitted — also
    when that server already holds shares of the file (seed C32-b skipped the check for those). -/
theorem publish_new_shares_only_permitted (total : Nat) (goal : List (Nat × Nat)) (bad : List Nat)
    (full : List Server) (g : List (Nat × Nat)) (h : updateGoal total goal bad full = some g)
    (e : Nat × Nat) (he : e ∈ g) (hnew : e ∉ goal) :
    ∃ s ∈ full, s.id = e.1 ∧ s.permitted = true ∧ s.id ∉ bad := by
  rcases (publish_goal_only_permitted total goal bad full g h).1 e he with h1 | h1
  · exact absurd h1.1 hnew
  · exact h1

/-- server 2 holds share 0 but is no longer permitted: the homeless shares 1, 2 go to 1 and 4 -/
example : updateGoal 3 [(2, 0)] []
    [⟨1, true, true, 0⟩, ⟨2, true, false, 0⟩, ⟨4, true, true, 0⟩] = some [(2, 0), (1, 1), (4, 2)] := by decide

/-- "…then by the hash of the storage index and each server's seed", with the hash computed: every
    server in the result comes from an input server, its sort value is SHA-1(storage index + seed)
    of that server, no non-preferred server precedes a preferred one, and within a class these
    SHA-1 values are non-decreasing. -/
theorem ordered_by_sha1_of_psi_and_seed (preferred : List Nat) (forUpload : Bool) (psi : List UInt8)
    (l : List RawServer) :
    (∀ s ∈ getServersForPsiBytes preferred forUpload psi l,
      ∃ r ∈ l, r.id = s.id ∧ s.hash = beNat (Tahoe.Base.Sha256.sha1 (psi ++ r.seed))) ∧
    (getServersForPsiBytes preferred forUpload psi l).Pairwise (fun a b =>
      (b.id ∈ preferred → a.id ∈ preferred) ∧
      ((a.id ∈ preferred ↔ b.id ∈ preferred) → a.hash ≤ b.hash)) := by
  refine ⟨fun s hs => ?_, preferred_first preferred forUpload _⟩
  have hmem := (perm_getServersForPsi preferred forUpload _).subset hs
  obtain ⟨r, hr, rfl⟩ := List.mem_map.mp (List.mem_filter.mp hmem).1
  exact ⟨r, hr, rfl, rfl⟩

/- non-vacuity, evaluated (SHA-1 runs on byte arrays, so this is a compiled `#guard`, a test, not a
   kernel proof): three seeds under the all-zero storage index, in two enumerations -/
#guard (getServersForPsiBytes [] false (List.replicate 16 0)
          [⟨0, true, true, [0xaa]⟩, ⟨1, true, true, [0xbb]⟩, ⟨2, true, true, [0xcc]⟩]).map (·.id) = [2, 0, 1]
#guard (getServersForPsiBytes [1] false (List.replicate 16 0)
          [⟨2, true, true, [0xcc]⟩, ⟨1, true, true, [0xbb]⟩, ⟨0, true, true, [0xaa]⟩]).map (·.id) = [1, 2, 0]

/-- Every client computes the same order from the same storage index, seeds and preferred set: any
    two enumerations of the same servers (pairwise distinct sort keys) give equal results. -/
theorem order_is_function_of_psi_and_seeds (preferred : List Nat) (forUpload : Bool) (psi : List UInt8)
    (l₁ l₂ : List RawServer) (hperm : l₁.Perm l₂)
    (hdist : ∀ a ∈ l₁, ∀ b ∈ l₁,
      sortKey preferred (cook psi a) = sortKey preferred (cook psi b) → cook psi a = cook psi b) :
    getServersForPsiBytes preferred forUpload psi l₁ = getServersForPsiBytes preferred forUpload psi l₂ := by
  unfold getServersForPsiBytes
  refine order_is_function_of_set preferred forUpload _ _ (hperm.map _) ?_
  intro a ha b hb hab
  obtain ⟨ra, hra, rfl⟩ := List.mem_map.mp ha
  obtain ⟨rb, hrb, rfl⟩ := List.mem_map.mp hb
  exact hdist ra hra rb hrb hab

section
open Tahoe.GridManager
variable {PK Sig Msg : Type}

/-- "When grid-manager keys are configured, uploads are only directed to servers that *currently*
    hold a valid certificate" — end to end over certificates and time: every server in the
    `for_upload` list computed at `now` is connected and some certificate of its announcement
    verifies under a configured key, names this server, and expires strictly after `now`.  The list
    is a function of the announcements, keys and `now` alone (no memory of earlier calls). -/
theorem upload_candidates_hold_valid_certificate_now (verify : PK → Sig → Msg → Bool)
    (parse : Msg → Parsed Nat) (keys : List PK) (hk : keys ≠ []) (preferred : List Nat) (now : Time)
    (l : List (Announced Sig Msg)) (s : Server)
    (hs : s ∈ serversAt verify parse keys preferred true now l) :
    ∃ a ∈ l, a.id = s.id ∧ a.connected = true ∧
      ∃ c ∈ a.certs, ∃ k ∈ keys, verify k c.signature c.certificate = true ∧
        ∃ t, parse c.certificate = .dict (.time t) (.ascii a.id) ∧ expiresAfter t now = .ok true := by
  unfold serversAt at hs
  obtain ⟨hmem, hconn, hperm⟩ := ((upload_only_permitted preferred _).2.2 s).mp hs
  obtain ⟨a, ha, rfl⟩ := List.mem_map.mp hmem
  refine ⟨a, ha, rfl, hconn, ?_⟩
  simp only [toServer, verdict] at hperm
  cases hv : verifier verify parse keys a.certs a.id with
  | error e => simp [hv] at hperm
  | ok f =>
    cases hf : f now with
    | error e => simp [hv, hf] at hperm
    | ok b =>
      cases b with
      | false => simp [hv, hf] at hperm
      | true => exact Tahoe.C33.granted_only_if verify parse keys a.certs a.id hk f hv now hf

/-- conversely nothing currently valid is dropped: under C33's assumption on what the grid manager
    signs, a connected server with a certificate that verifies, names it and is unexpired at the
    (timezone-aware) `now` is in the `for_upload` list. -/
theorem currently_valid_server_is_offered (verify : PK → Sig → Msg → Bool)
    (parse : Msg → Parsed Nat) (keys : List PK) (hk : keys ≠ []) (preferred : List Nat) (now : Int)
    (l : List (Announced Sig Msg)) (a : Announced Sig Msg) (ha : a ∈ l) (hconn : a.connected = true)
    (hwf : Tahoe.C33.SignedWellFormed verify parse keys a.certs)
    (hvalid : ∃ c ∈ a.certs, ∃ k ∈ keys, verify k c.signature c.certificate = true ∧
      ∃ e, parse c.certificate = .dict (.time (.aware e)) (.ascii a.id) ∧ now < e) :
    toServer verify parse keys (.aware now) a ∈ serversAt verify parse keys preferred true (.aware now) l := by
  unfold serversAt
  refine ((upload_only_permitted preferred _).2.2 _).mpr ⟨List.mem_map.mpr ⟨a, ha, rfl⟩, hconn, ?_⟩
  obtain ⟨f, hf, hall⟩ := Tahoe.C33.permitted_iff verify parse keys a.certs a.id hk hwf
  have := (hall now).2.mpr hvalid
  simp [toServer, verdict, hf, this]

/-- two announced servers with a certificate each (key 1 configured), server 7 preferred: at time 99
    both are offered, preferred first; at 100 server 7's certificate has expired and it is gone —
    preferred or not; the download list is unaffected -/
example :
    let parse : Nat → Parsed Nat := fun m =>
      if m = 0 then .dict (.time (.aware 100)) (.ascii 7) else .dict (.time (.aware 500)) (.ascii 8)
    let l : List (Announced SymSig Nat) :=
      [⟨8, true, [⟨1, .signed 1 1⟩], 10⟩, ⟨7, true, [⟨0, .signed 1 0⟩], 20⟩]
    (serversAt symVerify parse [1] [7] true (.aware 99) l).map (·.id) = [7, 8] ∧
    (serversAt symVerify parse [1] [7] true (.aware 100) l).map (·.id) = [8] ∧
    (serversAt symVerify parse [1] [7] false (.aware 100) l).map (·.id) = [7, 8] := by decide

/-- The broker holds, for every server id, exactly the server built from the *latest* accepted
    announcement of that id — for any history of announcements and re-announcements. -/
theorem broker_holds_latest_announcement (hist : List (Announcement Sig Msg)) (x : Announced Sig Msg) :
    x ∈ brokerAfter hist ↔ latest x.id hist = some x :=
  mem_brokerAfter_iff hist x

/-- The server list (hence the upload set) after a history depends only on the latest accepted
    announcement of each server: two histories that agree on `latest` offer the same servers. -/
theorem upload_set_depends_only_on_latest (verify : PK → Sig → Msg → Bool) (parse : Msg → Parsed Nat)
    (keys : List PK) (preferred : List Nat) (forUpload : Bool) (now : Time)
    (h₁ h₂ : List (Announcement Sig Msg)) (hl : ∀ i, latest i h₁ = latest i h₂) (s : Server) :
    s ∈ serversAfter verify parse keys preferred forUpload now h₁ ↔
    s ∈ serversAfter verify parse keys preferred forUpload now h₂ := by
  have key : ∀ h : List (Announcement Sig Msg),
      s ∈ serversAfter verify parse keys preferred forUpload now h ↔
      (∃ x, latest x.id h = some x ∧ toServer verify parse keys now x = s) ∧
        (s.connected && (!forUpload || s.permitted)) = true := by
    intro h
    unfold serversAfter serversAt
    rw [(perm_getServersForPsi preferred forUpload _).mem_iff, List.mem_filter, List.mem_map]
    constructor
    · rintro ⟨⟨x, hx, hxs⟩, hc⟩
      exact ⟨⟨x, (mem_brokerAfter_iff h x).mp hx, hxs⟩, hc⟩
    · rintro ⟨⟨x, hx, hxs⟩, hc⟩
      exact ⟨⟨x, (mem_brokerAfter_iff h x).mpr hx, hxs⟩, hc⟩
  rw [key h₁, key h₂]
  simp only [hl]

/-- "…servers that *currently* hold a valid certificate", over announcement histories: every server
    offered for upload at `now` after any history is connected, and its **latest** announcement
    contains a certificate that verifies under a configured key, names it and expires after `now`
    (certificates of earlier announcements do not count — seed C32-e kept using them). -/
theorem upload_candidates_follow_latest_announcement (verify : PK → Sig → Msg → Bool)
    (parse : Msg → Parsed Nat) (keys : List PK) (hk : keys ≠ []) (preferred : List Nat) (now : Time)
    (hist : List (Announcement Sig Msg)) (s : Server)
    (hs : s ∈ serversAfter verify parse keys preferred true now hist) :
    ∃ a, latest s.id hist = some a ∧ a.connected = true ∧
      ∃ c ∈ a.certs, ∃ k ∈ keys, verify k c.signature c.certificate = true ∧
        ∃ t, parse c.certificate = .dict (.time t) (.ascii a.id) ∧ expiresAfter t now = .ok true := by
  obtain ⟨a, ha, hid, hconn, hcert⟩ :=
    upload_candidates_hold_valid_certificate_now verify parse keys hk preferred now _ s hs
  exact ⟨a, hid ▸ (mem_brokerAfter_iff hist a).mp ha, hconn, hcert⟩

/-- key 1 configured.  Server 7 announces a certificate valid until 500, then re-announces without
    certificates: not offered any more.  Server 8 announces nothing valid, then re-announces with a
    certificate: offered.  Server 9's re-announcement has an undecodable entry: refused, its first
    announcement stays in force. -/
example :
    let parse : Nat → Parsed Nat := fun m => .dict (.time (.aware 500)) (.ascii m)
    let c : Nat → Option (SignedCert SymSig Nat) := fun m => some ⟨m, .signed 1 m⟩
    let first : List (Announcement SymSig Nat) := [⟨7, true, [c 7], 1⟩, ⟨8, true, [], 2⟩, ⟨9, true, [c 9], 3⟩]
    let again : List (Announcement SymSig Nat) := [⟨7, true, [], 1⟩, ⟨8, true, [c 8], 2⟩, ⟨9, true, [none], 3⟩]
    (serversAfter symVerify parse [1] [] true (.aware 100) first).map (·.id) = [7, 9] ∧
    (serversAfter symVerify parse [1] [] true (.aware 100) (first ++ again)).map (·.id) = [8, 9] ∧
    (serversAfter symVerify parse [1] [] false (.aware 100) (first ++ again)).map (·.id) = [7, 8, 9] := by decide

end

end Tahoe.C32
