import Tahoe.StorageClient.Lemmas
/-!
C32 — Servers are ordered consistently and upload permission is enforced.

Statements are about `Tahoe.StorageClient.getServersForPsi` (model of
`StorageFarmBroker.get_servers_for_psi`) and `updateGoal` (model of `Publish.update_goal`), tied to
the code by `harness/props/c32.py`.
-/
namespace Tahoe.C32
open Tahoe.StorageClient

/-- Every client computes the same order: for any two enumerations of the same server set (any
    iteration order of the `frozenset`, any insertion history of the broker) whose sort keys
    `(is_unpreferred, permute_server_hash(psi, seed))` are pairwise distinct, the outputs are equal
    (uniqueness of the sorted permutation). -/
theorem order_is_function_of_set (preferred : List Nat) (forUpload : Bool) (l₁ l₂ : List Server)
    (hperm : l₁.Perm l₂)
    (hdist : ∀ a ∈ l₁, ∀ b ∈ l₁, sortKey preferred a = sortKey preferred b → a = b) :
    getServersForPsi preferred forUpload l₁ = getServersForPsi preferred forUpload l₂ := by
  have p1 := perm_getServersForPsi preferred forUpload l₁
  have p2 := perm_getServersForPsi preferred forUpload l₂
  have pf := hperm.filter (fun s => s.connected && (!forUpload || s.permitted))
  refine List.Perm.eq_of_pairwise (le := fun a b => serverLe preferred a b = true) ?_
    (sorted_getServersForPsi preferred forUpload l₁) (sorted_getServersForPsi preferred forUpload l₂)
    (p1.trans (pf.trans p2.symm))
  intro a b ha hb hab hba
  have ha1 : a ∈ l₁ := (List.mem_filter.mp (p1.subset ha)).1
  have hb1 : b ∈ l₁ := hperm.symm.subset (List.mem_filter.mp (p2.subset hb)).1
  exact hdist a ha1 b hb1 (keyLe_antisymm _ _ hab hba)

/-- three servers inserted in two different orders, one of them preferred, one not connected -/
example :
    let a : Server := ⟨1, true, true, 50⟩
    let b : Server := ⟨2, true, true, 10⟩
    let c : Server := ⟨3, true, false, 30⟩
    let d : Server := ⟨4, false, true, 5⟩
    getServersForPsi [3] false [a, b, c, d] = [c, b, a] ∧
    getServersForPsi [3] false [d, c, a, b] = [c, b, a] := by decide

/-- Preferred servers first, then by the permuted hash: in the output no non-preferred server
    precedes a preferred one, and two servers of the same class appear in non-decreasing order of
    `permute_server_hash(psi, seed)`. -/
theorem preferred_first (preferred : List Nat) (forUpload : Bool) (l : List Server) :
    (getServersForPsi preferred forUpload l).Pairwise (fun a b =>
      (b.id ∈ preferred → a.id ∈ preferred) ∧
      ((a.id ∈ preferred ↔ b.id ∈ preferred) → a.hash ≤ b.hash)) := by
  refine (sorted_getServersForPsi preferred forUpload l).imp ?_
  intro a b h
  simp only [serverLe, keyLe, sortKey] at h
  by_cases ha : a.id ∈ preferred <;> by_cases hb : b.id ∈ preferred <;>
    simp [ha, hb] at h ⊢ <;> exact of_decide_eq_true h

example : getServersForPsi [7, 9] true
    [⟨5, true, true, 1⟩, ⟨9, true, true, 80⟩, ⟨7, true, true, 90⟩, ⟨6, true, true, 2⟩]
    = [⟨9, true, true, 80⟩, ⟨7, true, true, 90⟩, ⟨5, true, true, 1⟩, ⟨6, true, true, 2⟩] := by decide

/-- Upload permission is enforced: with `for_upload` the result is exactly (as a multiset) the
    connected servers whose `upload_permitted()` is true — a subset, and nothing permitted is
    dropped; without `for_upload` it is exactly the connected servers. -/
theorem upload_only_permitted (preferred : List Nat) (l : List Server) :
    (getServersForPsi preferred true l).Perm (l.filter (fun s => s.connected && s.permitted)) ∧
    (getServersForPsi preferred false l).Perm (l.filter (fun s => s.connected)) ∧
    (∀ s, s ∈ getServersForPsi preferred true l ↔ s ∈ l ∧ s.connected = true ∧ s.permitted = true) := by
  have h1 := perm_getServersForPsi preferred true l
  have h2 := perm_getServersForPsi preferred false l
  simp only [Bool.not_true, Bool.false_or, Bool.not_false, Bool.true_or, Bool.and_true] at h1 h2
  refine ⟨h1, h2, fun s => ?_⟩
  rw [h1.mem_iff]
  simp [List.mem_filter]

example : getServersForPsi [] true
    [⟨1, true, false, 1⟩, ⟨2, true, true, 9⟩, ⟨3, false, true, 2⟩, ⟨4, true, true, 3⟩]
    = [⟨4, true, true, 3⟩, ⟨2, true, true, 9⟩] := by decide

/-- `Publish.update_goal`: when it succeeds, every placement in the new goal was either already in
    the goal (on a server not marked bad) or is on a server of the server list that is not bad and
    whose `upload_permitted()` is true; and every share number below `total_shares` has a home. -/
theorem publish_goal_only_permitted (total : Nat) (goal : List (Nat × Nat)) (bad : List Nat)
    (full : List Server) (g : List (Nat × Nat)) (h : updateGoal total goal bad full = some g) :
    (∀ e ∈ g, (e ∈ goal ∧ e.1 ∉ bad) ∨
      (∃ s ∈ full, s.id = e.1 ∧ s.permitted = true ∧ s.id ∉ bad)) ∧
    (∀ sh, sh < total → ∃ sid, (sid, sh) ∈ g) := by
  unfold updateGoal at h
  simp only at h
  generalize hg' : goal.filter (fun e => !bad.contains e.1) = goal' at h
  have hsub : ∀ e ∈ goal', e ∈ goal ∧ e.1 ∉ bad := by
    intro e he
    rw [← hg'] at he
    simpa [List.mem_filter] using he
  split at h
  · rename_i hempty
    simp only [Option.some.injEq] at h
    subst h
    refine ⟨fun e he => Or.inl (hsub e he), fun sh hsh => ?_⟩
    by_cases hhome : goal'.any (·.2 == sh) = true
    · exact homed goal' sh hhome
    · have hmem : sh ∈ (List.range total).filter (fun sh => !goal'.any (·.2 == sh)) :=
        List.mem_filter.mpr ⟨List.mem_range.mpr hsh, by rw [Bool.eq_false_iff.mpr hhome]; rfl⟩
      rw [List.isEmpty_iff.mp hempty] at hmem
      simp at hmem
  · split at h
    · cases h
    · rename_i hne hsl
      simp only [Option.some.injEq] at h
      subst h
      have hslne : isort entryLe (candidates goal' bad 0 full) ≠ [] := by
        intro hnil; rw [hnil] at hsl; simp at hsl
      constructor
      · intro e he
        rcases List.mem_append.mp he with he | he
        · exact Or.inl (hsub e he)
        · right
          obtain ⟨_, en, hen, hid⟩ := mem_assign _ _ _ _ he
          have hen' := (perm_isort _ _).subset hen
          obtain ⟨s, hs, hsid, hperm, hbad⟩ := mem_candidates _ _ _ _ _ hen'
          exact ⟨s, hs, hsid.trans hid, hperm, by simpa using hbad⟩
      · intro sh hsh
        by_cases hhome : goal'.any (·.2 == sh) = true
        · obtain ⟨sid, hsid⟩ := homed goal' sh hhome
          exact ⟨sid, List.mem_append_left _ hsid⟩
        · have hmem : sh ∈ (List.range total).filter (fun sh => !goal'.any (·.2 == sh)) :=
            List.mem_filter.mpr ⟨List.mem_range.mpr hsh, by rw [Bool.eq_false_iff.mpr hhome]; rfl⟩
          obtain ⟨sid, hsid⟩ := assign_covers _ hslne 0 _ sh hmem
          exact ⟨sid, List.mem_append_right _ hsid⟩

/-- 3 shares, share 0 already on server 1; server 2 is not permitted, server 3 is bad:
    shares 1 and 2 go to servers 4 and 1 (fewest assignments first, then list order, wrapping) -/
example : updateGoal 3 [(1, 0), (3, 1)] [3]
    [⟨1, true, true, 0⟩, ⟨2, true, false, 0⟩, ⟨3, true, true, 0⟩, ⟨4, true, true, 0⟩]
    = some [(1, 0), (4, 1), (1, 2)] := by decide

end Tahoe.C32
