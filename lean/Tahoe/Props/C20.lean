import Tahoe.Dir.EditLemmas
/-! C20 — directory edits behave like a name map (property theorems; helper lemmas are in
    `Tahoe/Dir/EditLemmas.lean`, the model in `Tahoe/Dir/Edit.lean`, the map specification in
    `Tahoe/Dir/EditSpec.lean`).

    `norm` is `normalize` (NFC); the only thing assumed about it is idempotence
    (`norm (norm x) = norm x`), which `move_child_to`, `set_metadata_for`, `create_subdirectory`
    and `add_file` rely on (they normalize a name and hand it to a modifier that normalizes again). -/
/-! ## Coverage of the statement (C20, properties.jsonl)

| clause of the statement | theorem(s) for the model `Tahoe.Dir.Edit` |
|---|---|
| "any history of add, replace, delete, rename and set-metadata operations on directories behaves like updates to a map from normalized names to (child, metadata)" | `refines_map` (any history, any number of directories, every idempotent `normalize`; the map is `Name → Option (Node × Meta)`, i.e. caps × metadata, the updates `AMap.set`/`AMap.del` at the normalized name; results and errors included), `names_equal_up_to_normalization` |
| what "(child, metadata)" is after an update — the metadata rules of `update_metadata` (caller's metadata replaces the user keys, `None` keeps them, an empty dict clears them, the caller's 'tahoe' is ignored, the entry's 'tahoe' keys survive, `ctime` fallback) | `metadata_rules` (key by key), used by the map specification through `stored` |
| "a no-overwrite add never replaces an entry" | `no_overwrite_never_replaces` (single writer, all adding operations); on the retry after an UncoordinatedWriteError the same modifier is applied to the re-read contents, and the theorem holds for *every* contents it is applied to (it has no `first_time` exemption — seeded C20-b added one); what the publish collision itself does to the shares (lost edit, own partial write) is C12's subject: **monitor only** (two-writer family) |
| "an only-files add never replaces a directory" | `only_files_never_replaces_dir` |
| "a failed rename leaves the child linked under its old name" | `failed_rename_keeps_old_link`, `rename_never_loses_child` (also the success and the redundant-rename cases) |
| "an entry's link-creation time survives updates while its modification time advances" | `linkcrtime_preserved_linkmotime_now`, `linkmotime_monotone` |
| re-creation of the child node from the stored caps on the next read | C19 (`unpack_pack`, `canon_*`); here a stored child *is* its (kind, write cap, read cap): **correspondence** (listing after every op) |
| the modifier retry loop (`first_time = False` after an UncoordinatedWriteError; `Deleter`'s `first_time and must_exist`) | `retries_refine_map` (any sequence of re-read contents; tied by calling the real `Deleter.modify(contents, None, first_time)` on real contents) |
| read-only handles, `create_subdirectory`/`add_file` side effects (upload, new directory) | handles: in the model (`NotWriteable`, `viewThrough`); uploads: **not covered** |
-/
namespace Tahoe.C20
open Tahoe.Dir.Edit

section
variable {Name C : Type} [DecidableEq Name] (norm : Name → Name)

/-- Any history of operations over any number of directories computes, in every directory and for every
    name, exactly the fold of the abstract map updates (`AMap.set` / `AMap.del` at the normalized name)
    of `specRun`, with the same results and errors. -/
theorem refines_map (hnorm : ∀ x, norm (norm x) = norm x) (s : State Name C)
    (ops : List (Nat × Op Name C)) :
    (∀ d n, lookup n ((run norm s ops).1 d) = (specRun norm (absS s) ops).1 d n) ∧
    (run norm s ops).2 = (specRun norm (absS s) ops).2 := by
  have h := run_spec norm hnorm s ops
  constructor
  · intro d n; rw [← h]; rfl
  · rw [← h]

/-- … and the key really is the *normalized* name: names with the same normal form are interchangeable
    in every operation. -/
theorem names_equal_up_to_normalization (a b : Name) (hab : norm a = norm b) (s : State Name C) (now : Nat)
    (h h2 : Handle) (child : Node C) (md : Option Meta) (m : Meta) (ow : Overwrite) (eager x y z : Bool)
    (newx : Option Name) :
    step norm s now (.setNode h a child md ow eager) = step norm s now (.setNode h b child md ow eager) ∧
    step norm s now (.delete h a x y z) = step norm s now (.delete h b x y z) ∧
    step norm s now (.setMetadata h a m) = step norm s now (.setMetadata h b m) ∧
    step norm s now (.move h a h2 newx ow) = step norm s now (.move h b h2 newx ow) ∧
    step norm s now (.move h2 a h (some a) ow) = step norm s now (.move h2 a h (some b) ow) ∧
    step norm s now (.get h a) = step norm s now (.get h b) := by
  refine ⟨?_, ?_, ?_, ?_, ?_, ?_⟩
  · simp [step, adderModify, adderEntry, hab]
  · simp [step, deleterModify, hab]
  · simp [step, metadataSetterModify, hab]
  · cases newx <;> simp [step, moveChild, newName, hab]
  · simp [step, moveChild, newName, hab]
  · simp [step, hab]

example : (run (fun (x : String) => if x = "A" then "a" else x) (fun _ => ([] : Children String Nat))
    [(5, .setNode ⟨0, false⟩ "A" ⟨.file, none, some 1, false⟩ none .yes false),
     (6, .setNode ⟨0, false⟩ "a" ⟨.file, none, some 2, false⟩ none .no false),
     (7, .delete ⟨0, false⟩ "A" true false false)]).2 =
    [.done, .err .existingChild, .node (some ⟨.file, none, some 1, false⟩)] := by decide

/-- An add with `overwrite=False` (set_node / set_uri / add_file / set_children / set_nodes /
    create_subdirectory / move_child_to) never replaces or changes an existing link.  (The only link a
    successful `move_child_to` removes is its own source link.) -/
theorem no_overwrite_never_replaces (hnorm : ∀ x, norm (norm x) = norm x) (s : State Name C) (now : Nat)
    (op : Op Name C) (how : op.overwrite = some .no) (d : Nat) (n : Name) (e : Entry C)
    (he : lookup n (s d) = some e) (hsrc : ¬ op.isSource norm d n) :
    lookup n ((step norm s now op).1 d) = some e := by
  rw [lookup_step norm hnorm]
  exact specStep_protected norm (absS s) now op .no how d n e he trivial hsrc

example : (step (fun (x : String) => x) (fun _ => [("a", (⟨.file, none, some 1, false⟩, Meta.empty))]) 9
    (.setNode ⟨0, false⟩ "a" (⟨.dir, some 7, some 8, false⟩ : Node Nat) none .no false)).2
      = .err .existingChild := by decide

/-- An add with `overwrite=ONLY_FILES` never replaces or changes a link to a directory. -/
theorem only_files_never_replaces_dir (hnorm : ∀ x, norm (norm x) = norm x) (s : State Name C) (now : Nat)
    (op : Op Name C) (how : op.overwrite = some .onlyFiles) (d : Nat) (n : Name) (e : Entry C)
    (he : lookup n (s d) = some e) (hdir : e.1.kind = Kind.dir) (hsrc : ¬ op.isSource norm d n) :
    lookup n ((step norm s now op).1 d) = some e := by
  rw [lookup_step norm hnorm]
  exact specStep_protected norm (absS s) now op .onlyFiles how d n e he hdir hsrc

example : (step (fun (x : String) => x) (fun _ => [("a", (⟨.dir, none, some 1, false⟩, Meta.empty))]) 9
    (.setNode ⟨0, false⟩ "a" (⟨.file, some 7, some 8, false⟩ : Node Nat) none .onlyFiles false)).2
      = .err .existingChild ∧
    (step (fun (x : String) => x) (fun _ => [("a", (⟨.file, none, some 1, false⟩, Meta.empty))]) 9
    (.setNode ⟨0, false⟩ "a" (⟨.file, some 7, some 8, false⟩ : Node Nat) none .onlyFiles false)).2
      = .done := by decide

/-- A rename (`move_child_to`) that fails — for whatever reason — leaves every link of every directory
    as it was; in particular the child is still linked under its old name. -/
theorem failed_rename_keeps_old_link (hnorm : ∀ x, norm (norm x) = norm x) (s : State Name C) (now : Nat)
    (h h2 : Handle) (curx : Name) (newx : Option Name) (ow : Overwrite) (e : Err)
    (hfail : (step norm s now (.move h curx h2 newx ow)).2 = .err e) :
    ∀ d n, lookup n ((step norm s now (.move h curx h2 newx ow)).1 d) = lookup n (s d) := by
  intro d n
  rw [lookup_step norm hnorm]
  rw [res_step norm hnorm] at hfail
  simp only [specStep] at hfail ⊢
  rcases specMove_cases norm now (absS s) h curx h2 newx ow with ⟨_, h1⟩ | ⟨_, h1, _⟩ | ⟨c, m, _, h1, _⟩
  · rw [h1]; rfl
  · rw [h1]; rfl
  · rw [h1] at hfail; cases hfail

/-- A rename never loses the child: whatever the outcome, the child that was linked at
    `(h, cur)` is afterwards linked at its old place (failure, redundant rename) or at `(h2, new)`
    (success; attenuated to read-only if its metadata says `no-write`), and in that case the old link
    is gone and no other link of any directory has changed. -/
theorem rename_never_loses_child (hnorm : ∀ x, norm (norm x) = norm x) (s : State Name C) (now : Nat)
    (h h2 : Handle) (curx : Name) (newx : Option Name) (ow : Overwrite) (child : Node C) (md : Meta)
    (hold : lookup (norm curx) (s h.dir) = some (child, md)) :
    let s' := (step norm s now (.move h curx h2 newx ow)).1
    (∀ d n, lookup n (s' d) = lookup n (s d)) ∨
    ((step norm s now (.move h curx h2 newx ow)).2 = .node (some child) ∧
     (∃ md', lookup (newName norm curx newx) (s' h2.dir) = some (child, md') ∨
             lookup (newName norm curx newx) (s' h2.dir) = some (mkReadonly child, md')) ∧
     lookup (norm curx) (s' h.dir) = none ∧
     ∀ d n, ¬ (d = h.dir ∧ n = norm curx) → ¬ (d = h2.dir ∧ n = newName norm curx newx) →
       lookup n (s' d) = lookup n (s d)) := by
  intro s'
  simp only [s']
  rw [res_step norm hnorm]
  simp only [lookup_step norm hnorm, specStep]
  rcases specMove_cases norm now (absS s) h curx h2 newx ow with ⟨_, h1⟩ | ⟨_, h1, _⟩ | ⟨c, m, hc, hr, hnew, _, hgone, hframe⟩
  · left; intro d n; rw [h1]; rfl
  · left; intro d n; rw [h1]; rfl
  · right
    have : absS s h.dir (norm curx) = some (child, md) := hold
    rw [this] at hc; cases hc
    refine ⟨hr, ?_, hgone, ?_⟩
    · rw [hnew]
      generalize Option.map (fun x => x.snd) (absS s h2.dir (newName norm curx newx)) = o
      refine ⟨updateMetadata o (some md) now, ?_⟩
      simp only [stored]
      split
      · right; rfl
      · left; rfl
    · intro d n a b; rw [hframe d n a b]; rfl

example : let s : State String Nat := fun d => if d = 0 then [("a", (⟨.file, none, some 1, false⟩, Meta.empty))]
                                               else [("b", (⟨.dir, some 2, some 3, false⟩, Meta.empty))]
    (step (fun x => x) s 9 (.move ⟨0, false⟩ "a" ⟨1, false⟩ (some "b") .onlyFiles)).2 = .err .existingChild ∧
    (step (fun x => x) s 9 (.move ⟨0, false⟩ "a" ⟨1, false⟩ (some "c") .no)).2
        = .node (some ⟨.file, none, some 1, false⟩) ∧
    (step (fun x => x) s 9 (.move ⟨0, false⟩ "a" ⟨0, false⟩ none .no)).2 = .redundant := by decide

/-- Timestamps of a link that is updated (replaced by an add with overwriting allowed, or given new
    metadata): `tahoe.linkcrtime` is preserved, `tahoe.linkmotime` becomes `now`; a new link gets
    `linkcrtime = linkmotime = now`. -/
theorem linkcrtime_preserved_linkmotime_now (hnorm : ∀ x, norm (norm x) = norm x) (s : State Name C)
    (now : Nat) (h : Handle) (namex : Name) (child : Node C) (md : Option Meta) (m : Meta) (ow : Overwrite)
    (eager : Bool) :
    -- set_node / set_uri / add_file
    ((step norm s now (.setNode h namex child md ow eager)).2 = .done →
      ∃ e', lookup (norm namex) ((step norm s now (.setNode h namex child md ow eager)).1 h.dir) = some e' ∧
        e'.2.sys "linkmotime" = some (.time now) ∧
        (∀ old c, lookup (norm namex) (s h.dir) = some old → old.2.sys "linkcrtime" = some c →
          e'.2.sys "linkcrtime" = some c) ∧
        (lookup (norm namex) (s h.dir) = none → e'.2.sys "linkcrtime" = some (.time now))) ∧
    -- set_metadata_for
    ((step norm s now (.setMetadata h namex m)).2 = .done →
      ∃ old e', lookup (norm namex) (s h.dir) = some old ∧
        lookup (norm namex) ((step norm s now (.setMetadata h namex m)).1 h.dir) = some e' ∧
        e'.2.sys "linkmotime" = some (.time now) ∧
        (∀ c, old.2.sys "linkcrtime" = some c → e'.2.sys "linkcrtime" = some c)) := by
  have hl : absS s h.dir (norm namex) = lookup (norm namex) (s h.dir) := rfl
  constructor
  · intro hok
    rw [res_step norm hnorm] at hok
    rw [lookup_step norm hnorm]
    simp only [specStep] at hok ⊢
    by_cases h1 : (eager && child.err) = true
    · simp [h1] at hok
    · simp only [h1, if_false, Bool.false_eq_true] at hok ⊢
      by_cases h2 : h.readonly = true
      · simp [h2] at hok
      · simp only [h2, if_false, Bool.false_eq_true] at hok ⊢
        cases hq : specAdd norm ow now (absS s h.dir) (namex, child, md) with
        | error x => rw [hq] at hok; cases hok
        | ok m' =>
          simp only [ASetDir, if_true]
          unfold specAdd specAddAt at hq
          simp only [] at hq
          split at hq
          · cases hq
          · split at hq
            · rename_i old oldmd heq
              split at hq
              · cases hq
              · split at hq
                · cases hq
                · cases hq
                  refine ⟨stored (some oldmd) child md now, by simp [AMap.set], stored_motime _ _ _ _, ?_, ?_⟩
                  · intro old' c ho hc
                    rw [← hl, heq] at ho; cases ho
                    simp only [stored]; exact updateMetadata_crtime _ _ _ _ hc
                  · intro hn; rw [← hl, heq] at hn; cases hn
            · rename_i heq
              cases hq
              refine ⟨stored none child md now, by simp [AMap.set], stored_motime _ _ _ _, ?_, ?_⟩
              · intro old' c ho; rw [← hl, heq] at ho; cases ho
              · intro _; simp only [stored]; exact updateMetadata_crtime_new _ _
  · intro hok
    rw [res_step norm hnorm] at hok
    rw [lookup_step norm hnorm]
    simp only [specStep] at hok ⊢
    by_cases h2 : h.readonly = true
    · simp [h2] at hok
    · simp only [h2, if_false, Bool.false_eq_true] at hok ⊢
      cases hq : specSetMetadata norm namex m now (absS s h.dir) with
      | error x => rw [hq] at hok; cases hok
      | ok m' =>
        simp only [ASetDir, if_true]
        unfold specSetMetadata at hq
        split at hq
        · cases hq
        · rename_i child0 oldmd heq
          cases hq
          refine ⟨(child0, oldmd), stored (some oldmd) child0 (some m) now, by rw [← hl, heq],
            by simp [AMap.set], stored_motime _ _ _ _, ?_⟩
          intro c hc
          simp only [stored]; exact updateMetadata_crtime _ _ _ _ hc

example : ((step (fun (x : String) => x)
      (fun _ => [("a", ((⟨.file, none, some 1, false⟩ : Node Nat),
                        (⟨[], some [("linkcrtime", .time 3), ("linkmotime", .time 4)]⟩ : Meta)))]) 9
      (.setNode ⟨0, false⟩ "a" ⟨.file, none, some 2, false⟩ (some ⟨[("k", .null)], none⟩) .yes false)).1 0)
    = [("a", (⟨.file, none, some 2, false⟩,
              ⟨[("k", .null)], some [("linkcrtime", .time 3), ("linkmotime", .time 9)]⟩))] := by decide

/-- **The metadata rules of a link update** (`update_metadata(old, new, now)`, shared by every add and by
    set_metadata_for; it is what the map specification stores — `stored`).  Key by key:
    * user keys (everything except 'tahoe'): metadata given → exactly the given keys (an empty dict *clears* them);
      `None` given → the old keys stay;
    * the caller's 'tahoe' sub-dict is ignored: every 'tahoe' key other than the two timestamps is the old entry's;
    * `linkmotime = now`; `linkcrtime` is the old one if there was one, else the old `ctime` user key unless it
      is absent or null, else `now`. -/
theorem metadata_rules (old : Option Meta) (nm : Meta) (now : Nat) :
    (updateMetadata old (some nm) now).user = nm.user ∧
    (updateMetadata old none now).user = (old.getD Meta.empty).user ∧
    (∀ new k, k ≠ "linkcrtime" → k ≠ "linkmotime" →
      (updateMetadata old new now).sys k = (old.getD Meta.empty).sys k) ∧
    (∀ new, (updateMetadata old new now).sys "linkmotime" = some (.time now)) ∧
    (∀ new o c, old = some o → o.sys "linkcrtime" = some c → (updateMetadata old new now).sys "linkcrtime" = some c) ∧
    (∀ new o, old = some o → o.sys "linkcrtime" = none → (updateMetadata old new now).sys "linkcrtime" =
      some ((match lookup "ctime" o.user with
             | some v => if v = Val.null then none else some v
             | none => none).getD (.time now))) ∧
    (∀ new, (updateMetadata none new now).sys "linkcrtime" = some (.time now)) := by
  refine ⟨updateMetadata_user_some old nm now, updateMetadata_user_none old now,
    fun new k h1 h2 => updateMetadata_sys_other old new now k h1 h2,
    fun new => updateMetadata_motime old new now, ?_, ?_, fun new => updateMetadata_crtime_new new now⟩
  · intro new o c ho hc; subst ho; exact updateMetadata_crtime o new now c hc
  · intro new o ho hc; subst ho; exact updateMetadata_crtime_fallback o new now hc

/-- `None` keeps the user metadata, `{}` clears it, a supplied 'tahoe' is ignored, an old `ctime` becomes the
    `linkcrtime` (the distinctions of seeded change C20-c) -/
example :
    let old : Meta := ⟨[("k", .other true "1"), ("ctime", .other true "12345")], some [("extra", .null)]⟩
    updateMetadata (some old) none 9 =
      ⟨[("k", .other true "1"), ("ctime", .other true "12345")],
       some [("extra", .null), ("linkcrtime", .other true "12345"), ("linkmotime", .time 9)]⟩ ∧
    updateMetadata (some old) (some ⟨[], some [("linkcrtime", .time 1)]⟩) 9 =
      ⟨[], some [("extra", .null), ("linkcrtime", .other true "12345"), ("linkmotime", .time 9)]⟩ := by decide

/-- **The name-map refinement extends over modifier retries.**  When a publish fails with
    UncoordinatedWriteError, `MutableFileVersion.modify` reads the directory again — finding whatever another writer
    left — and applies the same modifier with `first_time = False`.  For every sequence of such re-read contents the
    outcome of the whole loop (result, error, contents to publish) is that of the same loop on name maps, for each of
    the three modifiers: `Deleter` (whose `must_exist` is only enforced the first time: `first_time and must_exist`),
    `Adder` and `MetadataSetter` (which do not look at `first_time` at all — in particular the no-overwrite and
    only-files refusals apply to the re-read contents too). -/
theorem retries_refine_map (c : Children Name C) (reads : List (Children Name C))
    (namex : Name) (mustExist mustBeDir mustBeFile : Bool)
    (ow : Overwrite) (now : Nat) (entries : List (Name × Node C × Option Meta)) (md : Meta) :
    (retryLoop (fun ft x => deleterModifyFT norm ft namex mustExist mustBeDir mustBeFile x) true c reads).map
        (fun r => (absC r.1, r.2)) =
      specRetryLoop (fun ft m => specDelete norm namex (ft && mustExist) mustBeDir mustBeFile m) true (absC c)
        (reads.map absC) ∧
    (retryLoop (fun _ x => adderModify norm ow now x entries) true c reads).map absC =
      specRetryLoop (fun _ m => specAddMany norm ow now m entries) true (absC c) (reads.map absC) ∧
    (retryLoop (fun _ x => metadataSetterModify norm namex md now x) true c reads).map absC =
      specRetryLoop (fun _ m => specSetMetadata norm namex md now m) true (absC c) (reads.map absC) := by
  refine ⟨?_, ?_, ?_⟩
  · exact retryLoop_spec _ _ _ (fun ft x => deleterModify_spec norm namex (ft && mustExist) mustBeDir mustBeFile x) _ _ _
  · exact retryLoop_spec _ _ _ (fun _ x => adderModify_spec norm ow now x entries) _ _ _
  · exact retryLoop_spec _ _ _ (fun _ x => metadataSetterModify_spec norm namex md now x) _ _ _

/-- a delete whose first attempt removed the child and then collided succeeds on the retry although the child is
    gone; the same contents met the *first* time are an error; a no-overwrite add is refused on the retry as well -/
example :
    let c : Children String Nat := [("a", (⟨.file, none, some 1, false⟩, Meta.empty))]
    (match retryLoop (fun ft x => deleterModifyFT (fun n => n) ft "a" true false false x) true c [[]] with
     | .ok (ch, old) => ch.isEmpty && old.isNone
     | .error _ => false) = true ∧
    (match retryLoop (fun ft x => deleterModifyFT (fun n => n) ft "a" true false false x) true
        ([] : Children String Nat) [] with
     | .error e => e == .noSuchChild
     | .ok _ => false) = true ∧
    (match retryLoop (fun _ x => adderModify (fun n => n) .no 5 x [("b", ⟨.file, none, some 2, false⟩, none)]) true c
        [[("b", (⟨.file, none, some 9, false⟩, Meta.empty))]] with
     | .error e => e == .existingChild
     | .ok _ => false) = true := by decide

/-- clock values of a history never go backwards (starting from `T`) -/
def clockOk : Nat → List (Nat × Op Name C) → Prop
  | _, [] => True
  | T, (now, _) :: rest => T ≤ now ∧ clockOk now rest

/-- all `linkmotime`s are timestamps not after `T` -/
def TimedLE (T : Nat) (s : State Name C) : Prop :=
  ∀ d n e, lookup n (s d) = some e → ∃ t, e.2.sys "linkmotime" = some (.time t) ∧ t ≤ T

def lastClock : Nat → List (Nat × Op Name C) → Nat
  | T, [] => T
  | _, (now, _) :: rest => lastClock now rest

/-- With a non-decreasing clock, the `linkmotime` of a name never goes backwards: over any history (hence
    between any two points of a history, since the invariant `TimedLE` is re-established), a link present
    before and after has `linkmotime` before ≤ `linkmotime` after — also when it was deleted and re-created
    or replaced in between. -/
theorem linkmotime_monotone (hnorm : ∀ x, norm (norm x) = norm x) (T : Nat) (s : State Name C)
    (hs : TimedLE T s) (ops : List (Nat × Op Name C)) (hclock : clockOk T ops) :
    TimedLE (lastClock T ops) (run norm s ops).1 ∧
    ∀ d n e e', lookup n (s d) = some e → lookup n ((run norm s ops).1 d) = some e' →
      ∃ t t', e.2.sys "linkmotime" = some (.time t) ∧ e'.2.sys "linkmotime" = some (.time t') ∧ t ≤ t' := by
  -- every final entry is an initial entry or was written at a time ≥ T
  have key : ∀ (ops : List (Nat × Op Name C)) (T : Nat) (s : State Name C), clockOk T ops →
      ∀ d n e', lookup n ((run norm s ops).1 d) = some e' →
        lookup n (s d) = some e' ∨
        ∃ t', e'.2.sys "linkmotime" = some (.time t') ∧ T ≤ t' ∧ t' ≤ lastClock T ops := by
    intro ops
    induction ops with
    | nil => intro T s _ d n e' h; left; exact h
    | cons p rest ih =>
      obtain ⟨now, op⟩ := p
      intro T s hc d n e' h
      simp only [run] at h
      obtain ⟨hT, hrest⟩ := hc
      have hmono : ∀ (l : List (Nat × Op Name C)) (a : Nat), clockOk a l → a ≤ lastClock a l := by
        intro l
        induction l with
        | nil => intro a _; exact Nat.le_refl a
        | cons q r ihr =>
          intro a hq
          obtain ⟨b, o⟩ := q
          exact Nat.le_trans hq.1 (ihr b hq.2)
      rcases ih now (step norm s now op).1 hrest d n e' h with h1 | ⟨t', h1, h2, h3⟩
      · rw [lookup_step norm hnorm] at h1
        rcases specStep_frame norm (absS s) now op d n e' h1 with h4 | h4
        · left; exact h4
        · right; exact ⟨now, h4, hT, hmono rest now hrest⟩
      · right; exact ⟨t', h1, Nat.le_trans hT h2, h3⟩
  have hmono : ∀ (l : List (Nat × Op Name C)) (a : Nat), clockOk a l → a ≤ lastClock a l := by
    intro l
    induction l with
    | nil => intro a _; exact Nat.le_refl a
    | cons q r ihr =>
      intro a hq
      obtain ⟨b, o⟩ := q
      exact Nat.le_trans hq.1 (ihr b hq.2)
  constructor
  · intro d n e' h
    rcases key ops T s hclock d n e' h with h1 | ⟨t', h1, _, h3⟩
    · obtain ⟨t, ht, hle⟩ := hs d n e' h1
      exact ⟨t, ht, Nat.le_trans hle (hmono ops T hclock)⟩
    · exact ⟨t', h1, h3⟩
  · intro d n e e' he he'
    obtain ⟨t, ht, hle⟩ := hs d n e he
    rcases key ops T s hclock d n e' he' with h1 | ⟨t', h1, h2, _⟩
    · rw [he] at h1; cases h1; exact ⟨t, t, ht, ht, Nat.le_refl t⟩
    · exact ⟨t, t', ht, h1, Nat.le_trans hle h2⟩

example : clockOk (Name := String) (C := Nat) 3
    [(5, .delete ⟨0, false⟩ "a" true false false), (5, .get ⟨0, false⟩ "a")] ∧
    TimedLE (Name := String) (C := Nat) 3 (fun _ => []) :=
  ⟨⟨by decide, by decide, trivial⟩, fun _ _ _ h => by simp [lookup] at h⟩

end
end Tahoe.C20
