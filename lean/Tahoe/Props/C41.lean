import Tahoe.Web.LemmasAuthority
/-! C41 — the web API never exceeds the authority of the capability used (property theorems; the
model is `Tahoe/Web/Authority.lean`, helper lemmas are in `Tahoe/Web/LemmasAuthority.lean`).

PARTIAL: the web layer is modelled only as a dispatch table (traversal + the node methods each
PUT / POST t=… / DELETE request invokes); the table is tied to `web/*.py` by the correspondence run.
`serve true` is the table with the repair of `ReplaceMeMixin` now in /repo (parent checked before
`client.create_mutable_file`, commit 9a727df); `serve false` is the code before it, for which the statement is
false (`asis_mutable_upload_counterexample`, `asis_existing_child_counterexample`).

## Coverage of the statement

| clause of the statement | theorem(s) for the model | tie to the code |
|---|---|---|
| a modifying request made through a **read-only capability** is refused and changes nothing | `readonly_cap_unchanged`, `readonly_cap_refused` (every request of the table, every path) | correspondence (status, phase, tree) + monitor (whole grid before/after) |
| … through a **verify capability** | same two theorems (`capHandle` of a verify cap has no write key; the handler is `unknown`) | same |
| … through a **path that passes through a read-only directory** | `readonly_refused_unchanged` (a proper prefix resolves read-only), `readonly_target_refused_unchanged` (the addressed node itself is the read-only one, POST forms incl. `t=relink` with any `to_dir=`) | same |
| "is refused" | part of the four theorems; exception: the mkdir forms answered with the URI of an already existing directory (`Req.alreadyDoneForm`) — nothing to modify | status class compared |
| "changes nothing on the grid" | part of the four theorems (`= g`: no object added, none altered) | share-file snapshot + logical tree, every RO request |
| node layer: every modifying node method refuses a read-only node before any effect | `node_methods_refuse_readonly`, `move_child_to_needs_both_write_keys` (+ `or_guard_counterexample`: the seeded De Morgan slip C41-b) | dirnode.py / mutable/filenode.py guards transcribed; corpus cases C41-b/* |
| web route `ReplaceMeMixin` (PUT / POST t=upload with format=sdmf/mdmf, new name or existing immutable child) | `mutable_format_upload_refused` (+ the two `asis_*` counterexamples: repaired defect 9a727df, seeded C41-c) | corpus cases fix-9a727df/*, C41-c/* |
| the directory read path: what a read-only view of a directory unpacks (every path lookup, listing, t=json goes through it) carries no write cap, for any stored contents | `readonly_view_unpacks_no_writecap`, `packed_entry_ro_slot_and_roundtrip`, `listing_is_unpack_of_stored_entries` (ties `children` / `getChild?` of the table to it) (+ `authority_blind_cache_counterexample`: seeded C41-e) | function-level: real `_unpack_contents` on a writeable and a read-only node of the same directory vs `unpack` driver line; corpus C41-a/* GETs |
| the node the gateway builds for a cap has the cap's authority, whatever else is alive in the gateway (node cache) | `node_cache_preserves_authority`, `node_cache_history`, `readcap_never_yields_writeable_node` (+ `aliased_cache_counterexample`: seeded C41-a) | function-level correspondence (`cache` driver line vs `create_node_from_uri` sequences) + corpus C41-a/* |
| **responses** made through a read-only capability never contain write-caps | `no_writecap_in_ro_response` (t=json, t=info, HTML listing, t=uri, t=readonly-uri), `no_writecap_below_ro` | `caps` driver line vs caps found in real bodies; monitor scans every RO response for write keys |
| responses of *refused modifying* requests (error pages) | `refused_response_shows_only_request_caps` (the body shows only cap strings of the request URL: Twisted's 405 page; nothing otherwise) | every cap string found in the body of every refused response vs the ` caps=` field of the `serve` driver line; write-key scan |
| deep-check / manifest / check&repair, `when_done`, metadata `no-write`, `/uri` unlinked creation, private token area | not covered | check&repair through a read cap of a damaged mutable file: monitor only |
-/
namespace Tahoe.C41
open Tahoe.Web

/-- example grid: 0 = writeable root directory {1 ↦ dir 1 by *read* cap, 2 ↦ dir 1 by write cap,
3 ↦ mutable file 2 by write cap}; 1 = mutable directory {5 ↦ file 3, 6 ↦ mutable file 2 (write cap
stored), 7 ↦ dir 4 (write cap stored)}; 2 = mutable file; 3 = immutable file; 4 = mutable directory -/
def exGrid : Grid :=
  [⟨.mdir, [(1, ⟨1, false⟩), (2, ⟨1, true⟩), (3, ⟨2, true⟩)], 0⟩,
   ⟨.mdir, [(5, ⟨3, false⟩), (6, ⟨2, true⟩), (7, ⟨4, true⟩)], 0⟩,
   ⟨.mfile, [], 0⟩, ⟨.ifile, [], 0⟩, ⟨.mdir, [], 0⟩]

/-- Requests made with a read-only or verify capability (for any object kind; an immutable object has
no write capability at all): for **every** request of the table and **every** path below it, the
grid is unchanged. -/
theorem readonly_cap_unchanged (g : Grid) (c : Cap) (path : List Nat) (r : Req)
    (hro : (capHandle g c).w = false) : (serve true g c path r).1 = g :=
  (serve_of_traverse g c path r
    (traverse_ro r _ path g (rootHandler g c) (rootHandler_hro g c hro).nodeRO
      (Or.inr (rootHandler_hro g c hro)))).1

/-- … and the request is refused, unless it is one of the mkdir forms that are answered with the URI
of the directory they address when that directory already exists (nothing is left to modify; with a
read-only cap such a request cannot create anything either, by the previous theorem). -/
theorem readonly_cap_refused (g : Grid) (c : Cap) (path : List Nat) (r : Req)
    (hro : (capHandle g c).w = false) (hform : r.alreadyDoneForm = false) :
    (serve true g c path r).2.refused = true := by
  have h := (serve_of_traverse g c path r
    (traverse_ro r _ path g (rootHandler g c) (rootHandler_hro g c hro).nodeRO
      (Or.inr (rootHandler_hro g c hro)))).2
  rcases h with h | h
  · exact h
  · rw [hform] at h; cases h

example : (capHandle exGrid ⟨0, .read⟩).w = false ∧ (capHandle exGrid ⟨1, .verify⟩).w = false ∧
    (capHandle exGrid ⟨3, .write⟩).w = false ∧
    serve true exGrid ⟨0, .read⟩ [2, 6] { meth := .delete, t := .none } = (exGrid, .err .notWriteable) ∧
    serve true exGrid ⟨0, .read⟩ [2] { meth := .post, t := .setChildren, kids := [(9, ⟨3, false⟩)] }
      = (exGrid, .err .assertion) := by decide

/-- **`readonly_refused_unchanged`**: a request whose path passes *through* a read-only node — some
proper prefix `pre` of the path resolves (by `dirnode.get`) to a node without the write key, whatever
the authority of the root cap — is refused (same exception as above) and leaves the grid unchanged.
`post ≠ []`: the read-only node is passed through, it is not the addressed child itself (unlinking or
replacing a read-only child *of a writeable directory* modifies the writeable parent and is allowed). -/
theorem readonly_refused_unchanged (g : Grid) (c : Cap) (pre post : List Nat) (r : Req) (hdl : Handle)
    (hres : resolve g (capHandle g c) pre = some hdl) (hro : hdl.w = false) (hpost : post ≠ []) :
    (serve true g c (pre ++ post) r).1 = g ∧
    ((serve true g c (pre ++ post) r).2.refused = true ∨ r.alreadyDoneForm = true) :=
  serve_of_traverse g c (pre ++ post) r
    (traverse_through r _ post hpost g hdl hro pre (rootHandler g c) (capHandle g c)
      (rootHandler_tracks g c) hres)

/-- the same through a *write* cap of the root whose path crosses the read-only link `1` -/
example : resolve exGrid (capHandle exGrid ⟨0, .write⟩) [1] = some ⟨1, false⟩ ∧
    serve true exGrid ⟨0, .write⟩ ([1] ++ [6]) { meth := .put, t := .none } = (exGrid, .err .webError) ∧
    serve true exGrid ⟨0, .write⟩ ([1] ++ [7]) { meth := .post, t := .mkdir, name := some 8 }
      = (exGrid, .err .notWriteable) ∧
    serve true exGrid ⟨0, .write⟩ ([1] ++ [8, 9]) { meth := .put, t := .none }
      = (exGrid, .err .notWriteable) := by decide

/-- **`readonly_target_refused_unchanged`**: the read-only node is the *addressed* node (the last
link of the path is a read-only link; its parent may well be writeable) and the request is a POST —
the operations that act on the addressed node itself: t=mkdir&name=, t=upload, t=uri, t=delete/unlink,
t=rename, t=relink (whatever `to_dir=` names, also a writeable directory), t=set_children — on a
directory or a mutable file: unchanged, and refused with the same exception as above.
(PUT and DELETE on such a path act on the *parent* link and are legitimate when the parent is writeable;
POST t=upload on an *immutable* file replaces the parent's link likewise.) -/
theorem readonly_target_refused_unchanged (g : Grid) (c : Cap) (path : List Nat) (r : Req) (hdl : Handle)
    (hres : resolve g (capHandle g c) path = some hdl) (hro : hdl.w = false) (hpost : r.meth = .post)
    (hk : isDirAt g hdl.addr = true ∨ isMutableAt g hdl.addr = true) :
    (serve true g c path r).1 = g ∧
    ((serve true g c path r).2.refused = true ∨ r.alreadyDoneForm = true) := by
  obtain ⟨hd', htr, t⟩ := traverse_tracksK r (path.getLast?.getD 0) g path (rootHandler g c) (capHandle g c) hdl
    (rootHandler_tracksK g c) hres
  unfold serve
  rw [htr]
  exact render_post_target_ro g hd' hdl r t hro hpost hk

/-- relink out of the read-only directory `1` (reached through the writeable root by the read link `1`)
into the writeable directory `4` named by its write cap: refused, nothing linked into `4`; the same
request through the write link `2` moves the child -/
def exRelink : Req :=
  { meth := .post, t := .relink, name := some 5, toName := some 9, toDir := some (⟨4, .write⟩, []) }

example :
    serve true exGrid ⟨0, .write⟩ [1] exRelink = (exGrid, .err .notWriteable) ∧
    (serve true exGrid ⟨0, .write⟩ [2] exRelink).2 = .ok () ∧
    entriesOf (serve true exGrid ⟨0, .write⟩ [2] exRelink).1 4 = [(9, ⟨3, false⟩)] := by decide

/-- non-vacuity of the table: the same requests through the write-cap link `2` succeed and change the grid -/
example :
    (serve true exGrid ⟨0, .write⟩ [2, 6] { meth := .put, t := .none }).2 = .ok () ∧
    (serve true exGrid ⟨0, .write⟩ [2, 6] { meth := .put, t := .none }).1 ≠ exGrid ∧
    (serve true exGrid ⟨0, .write⟩ [2, 7] { meth := .post, t := .mkdir, name := some 8 }).2 = .ok () ∧
    (serve true exGrid ⟨0, .write⟩ [2, 8, 9] { meth := .put, t := .none }).2 = .ok () ∧
    -- unlinking the read-only child itself modifies the writeable root: allowed
    (serve true exGrid ⟨0, .write⟩ [1] { meth := .delete, t := .none }).2 = .ok () := by decide

/-- The code as it is (`fixed = false`) breaks the statement: `PUT /uri/<read-only dir>/new?format=sdmf`
is refused (NotWriteableError from `set_node`) only *after* `client.create_mutable_file` has put a
new mutable file on the grid. -/
theorem asis_mutable_upload_counterexample :
    (capHandle exGrid ⟨1, .read⟩).w = false ∧
    (serve false exGrid ⟨1, .read⟩ [9] { meth := .put, t := .none, mutableFmt := true }).2 = .err .notWriteable ∧
    (serve false exGrid ⟨1, .read⟩ [9] { meth := .put, t := .none, mutableFmt := true }).1 ≠ exGrid := by
  decide

/-- Apart from that one step the two tables agree: without `format=sdmf|mdmf` they are equal. -/
theorem asis_eq_fixed_without_mutable_format (g : Grid) (p : Handle) (n : Nat) (r : Req)
    (h : r.mutableFmt = false) : replaceWithUpload false g p n r = replaceWithUpload true g p n r := by
  simp [replaceWithUpload, h]

example : replaceWithUpload false exGrid ⟨1, true⟩ 9 { meth := .put, t := .none } =
    replaceWithUpload true exGrid ⟨1, true⟩ 9 { meth := .put, t := .none } := by decide

/-! ### node layer and web routes the seeded changes went through -/

/-- Every modifying node method of the table, applied to a node without the write key, is a refusal
that leaves the grid untouched — whatever the arguments (also for `set_children`, which has no guard
of its own, and `overwrite`, which relies on the backing file's assertion). -/
theorem node_methods_refuse_readonly (g : Grid) (h : Handle) (hw : h.w = false) (n m : Nat) (c : Handle)
    (cap : Cap) (kids : List (Nat × Link)) (ow : Repl) (mutbl : Bool) :
    Refd (setNode g h n c ow) g ∧ Refd (setUri g h n cap ow) g ∧ Refd (setChildren g h kids ow) g ∧
    Refd (deleteChild g h n) g ∧ Refd (deleteMissing g h) g ∧ Refd (addFile g h n ow) g ∧
    Refd (createSubdirectory g h n kids mutbl ow) g ∧ Refd (moveChildTo g h n c m ow) g ∧ Refd (overwrite g h) g := by
  refine ⟨?_, setUri_ro g h n cap ow hw, setChildren_ro g h kids ow hw, ?_, ?_, ?_, ?_, ?_, overwrite_ro g h hw⟩
  · rw [setNode_ro g h n c ow hw]; exact refd_err g _
  · rw [deleteChild_ro g h n hw]; exact refd_err g _
  · rw [deleteMissing_ro g h hw]; exact refd_err g _
  · rw [addFile_ro g h n ow hw]; exact refd_err g _
  · rw [createSubdirectory_ro g h n kids mutbl ow hw]; exact refd_err g _
  · rw [moveChildTo_ro g h n c m ow (Or.inl hw)]; exact refd_err g _

example : Refd (setChildren exGrid ⟨1, false⟩ [(9, ⟨3, false⟩)] .yes) exGrid ∧
    (setChildren exGrid ⟨1, true⟩ [(9, ⟨3, false⟩)] .yes).2 = .ok () := by
  refine ⟨⟨by decide, by decide⟩, by decide⟩

/-- `DirectoryNode.move_child_to` (behind POST t=relink / t=rename): the write key of **both** directories
is needed — if either is missing the call is refused before the child is linked anywhere. -/
theorem move_child_to_needs_both_write_keys (g : Grid) (src dst : Handle) (n m : Nat) (ow : Repl)
    (h : src.w = false ∨ dst.w = false) : moveChildTo g src n dst m ow = (g, .err .notWriteable) :=
  moveChildTo_ro g src n dst m ow h

example : moveChildTo exGrid ⟨1, false⟩ 5 ⟨4, true⟩ 9 .yes = (exGrid, .err .notWriteable) ∧
    moveChildTo exGrid ⟨1, true⟩ 5 ⟨4, false⟩ 9 .yes = (exGrid, .err .notWriteable) ∧
    (moveChildTo exGrid ⟨1, true⟩ 5 ⟨4, true⟩ 9 .yes).2 = .ok () := by decide

/-- NOT model code: `move_child_to` with the guard of the seeded change C41-b (`not (from_uri or to_uri)`,
refusing only when *both* are read-only), to show what the conjunction protects. -/
def moveChildToOrGuard (g : Grid) (h : Handle) (name : Nat) (np : Handle) (newName : Nat) (ow : Repl) :
    Grid × R Unit :=
  if !h.w && !np.w then (g, .err .notWriteable)
  else match getChild? g h name with
    | none => (g, .err .noSuchChild)
    | some child =>
      match setNode g np newName child ow with
      | (g1, .err e) => (g1, .err e)
      | (g1, .ok _) => deleteChild g1 h name

/-- with that guard a relink out of a read-only directory into a writeable one is answered with an
error but has linked the child into the destination -/
theorem or_guard_counterexample :
    (moveChildToOrGuard exGrid ⟨1, false⟩ 5 ⟨4, true⟩ 9 .yes).2 = .err .notWriteable ∧
    entriesOf (moveChildToOrGuard exGrid ⟨1, false⟩ 5 ⟨4, true⟩ 9 .yes).1 4 = [(9, ⟨3, false⟩)] := by decide

/-- `ReplaceMeMixin.replace_me_with_a_child / _formpost` reached from a placeholder (new name) or from the
handler of an existing **immutable** child, with or without `format=sdmf|mdmf`: with a read-only parent
it is refused and nothing is created. -/
theorem mutable_format_upload_refused (g : Grid) (parent : Handle) (n : Nat) (r : Req) (node : Handle)
    (hp : parent.w = false) (hn : node.w = false) :
    Refd (renderPlaceholder true g parent n r) g ∧ Refd (renderFile true g node (some (parent, n)) r) g :=
  ⟨renderPlaceholder_ro g parent n r hp,
   renderFile_ro g node (some (parent, n)) r ⟨hn, by intro pp nm h; cases h; exact hp⟩⟩

example : renderFile true exGrid ⟨3, false⟩ (some (⟨1, false⟩, 5)) { meth := .put, t := .none, mutableFmt := true }
    = (exGrid, .err .notWriteable) := by decide

/-- the code before the repair (and the seeded change C41-c, which removed the check from the mixin):
`PUT /uri/<read-only dir>/<existing immutable child>?format=sdmf` is answered with an error after a
new mutable file has been put on the grid -/
theorem asis_existing_child_counterexample :
    resolve exGrid (capHandle exGrid ⟨1, .read⟩) [5] = some ⟨3, false⟩ ∧
    (serve false exGrid ⟨1, .read⟩ [5] { meth := .put, t := .none, mutableFmt := true }).2 = .err .notWriteable ∧
    (serve false exGrid ⟨1, .read⟩ [5] { meth := .put, t := .none, mutableFmt := true }).1 ≠ exGrid ∧
    serve true exGrid ⟨1, .read⟩ [5] { meth := .put, t := .none, mutableFmt := true } = (exGrid, .err .notWriteable) := by
  decide

/-! ### the directory read path (`_unpack_contents`) -/

/-- **`readonly_view_unpacks_no_writecap`**: whatever a directory's serialized contents are — any names, any
`rwcapdata`, as long as the `ro_uri` slots hold no write caps (which `_pack_normalized_children` guarantees,
next theorem) — every child a **read-only view** unpacks is a node without the write key: it has no
`get_write_uri()`, and every cap string the renderers would show for it is a read or verify cap. -/
theorem readonly_view_unpacks_no_writecap (g : Grid) (es : List Entry) (hro : ∀ e ∈ es, e.ro.auth ≠ .write) :
    ∀ x ∈ unpackContents g false es, x.2.w = false ∧ getWriteUri x.2 = none ∧ ∀ c ∈ capFields x.2, c.auth ≠ .write := by
  intro x hx
  simp only [unpackContents, List.mem_map] at hx
  obtain ⟨e, he, rfl⟩ := hx
  have hw := unpackChild_ro g e (hro e he)
  exact ⟨hw, by simp [getWriteUri, hw], capFields_ro _ hw⟩

/-- what the code writes: the `ro_uri` slot of a packed entry is never a write cap, and a writeable view gets
back exactly the node that was packed (a read-only view gets its read-only twin) -/
theorem packed_entry_ro_slot_and_roundtrip (g : Grid) (n : Nat) (child : Handle)
    (hc : child.w = true → isMutableAt g child.addr = true) :
    (packChild n child).ro.auth ≠ .write ∧ unpackChild g true (packChild n child) = child ∧
    unpackChild g false (packChild n child) = ⟨child.addr, false⟩ := by
  obtain ⟨a, w⟩ := child
  cases w
  · simp [packChild, unpackChild, capHandle]
  · have := hc rfl
    simp_all [packChild, unpackChild, capHandle]

/-- composed with the web table: the children the listing renderers and the path traversal work with
(`children`, `getChild?`) *are* `_unpack_contents` of the stored entries under the authority of the view -/
theorem listing_is_unpack_of_stored_entries (g : Grid) (h : Handle) :
    children g h = (unpackContents g h.w (storedEntries g h.addr)).map (·.2) :=
  children_eq_unpack g h

/-- directory 1 stores two write caps (names 6, 7); a read-only view unpacks none, a writeable view both -/
example : (unpackContents exGrid false (storedEntries exGrid 1)).map (fun x => (x.1, x.2.w)) = [(5, false), (6, false), (7, false)] ∧
    (unpackContents exGrid true (storedEntries exGrid 1)).map (fun x => (x.1, x.2.w)) = [(5, false), (6, true), (7, true)] ∧
    (∀ e ∈ storedEntries exGrid 1, e.ro.auth ≠ .write) := by decide

/-- NOT model code: the read path of the seeded change C41-e — unpacked children are cached under a key made of
the directory and its serialized contents, *without* the authority of the view that unpacked them -/
def unpackCached (g : Grid) (cache : List (List Entry × List (Nat × Handle))) (writeable : Bool) (es : List Entry) :
    List (Nat × Handle) × List (List Entry × List (Nat × Handle)) :=
  match cache.find? (fun c => c.1 == es) with
  | some c => (c.2, cache)
  | none => (unpackContents g writeable es, (es, unpackContents g writeable es) :: cache)

/-- after a writeable view has read the directory, a read-only view is served writeable children -/
theorem authority_blind_cache_counterexample :
    let afterRw := (unpackCached exGrid [] true (storedEntries exGrid 1)).2
    ((unpackCached exGrid afterRw false (storedEntries exGrid 1)).1.map (fun x => x.2.w)) = [false, true, true] := by
  decide

/-! ### the gateway's node cache -/

/-- `NodeMaker.create_from_cap`: as long as every cached node is the one its own key builds, the node
handed out for a cap is the node that cap string alone builds — whatever else is cached — and the
cache stays that way. -/
theorem node_cache_preserves_authority (g : Grid) (c : NodeCache) (d : Bool) (cap : Cap) (hc : CacheOK g c) :
    (createFromCap g c d cap).1 = capHandle g cap ∧ CacheOK g (createFromCap g c d cap).2 :=
  createFromCap_ok g c d cap hc

/-- for every history of lookups and garbage collections starting from the empty cache, every node
handed out is `capHandle` of some presented cap … -/
theorem node_cache_history (g : Grid) (ops : List CacheOp) :
    ∀ h ∈ runCache g [] ops, ∃ cap, h = capHandle g cap :=
  runCache_ok g ops [] (by intro k h hm; cases hm)

/-- … and such a node is writeable only if the cap presented is a write cap of a mutable object -/
theorem readcap_never_yields_writeable_node (g : Grid) (c : NodeCache) (d : Bool) (cap : Cap)
    (hc : CacheOK g c) (hcap : cap.auth ≠ .write) : (createFromCap g c d cap).1.w = false := by
  rw [(createFromCap_ok g c d cap hc).1]
  cases hcap' : cap.auth <;> simp_all [capHandle]

example : runCache exGrid [] [.create false ⟨1, .write⟩, .create false ⟨1, .read⟩, .collect (fun _ => false),
      .create false ⟨1, .read⟩, .create false ⟨1, .write⟩]
    = [⟨1, true⟩, ⟨1, false⟩, ⟨1, false⟩, ⟨1, true⟩] := by decide

/-- the invariant is needed: a cache in which the writeable node is also filed under the read cap (the
seeded change C41-a) hands a writeable node to the holder of the read cap -/
theorem aliased_cache_counterexample :
    (createFromCap exGrid [(⟨false, ⟨1, .read⟩⟩, ⟨1, true⟩)] false ⟨1, .read⟩).1 = ⟨1, true⟩ ∧
    ¬ CacheOK exGrid [(⟨false, ⟨1, .read⟩⟩, ⟨1, true⟩)] := by
  refine ⟨by decide, ?_⟩
  intro h
  have := h ⟨false, ⟨1, .read⟩⟩ ⟨1, true⟩ (List.mem_singleton.2 rfl)
  revert this
  decide

/-! ### responses through a read-only node contain no write cap -/

/-- **`no_writecap_in_ro_response`**: every cap string in a `t=json`, `t=info`, HTML-listing or
`t=uri` response rendered for a node reached without the write key is a read or verify cap — the
`rw_uri` fields are filled from `get_write_uri()`, which is `None` for such a node and for every
child unpacked through it. -/
theorem no_writecap_in_ro_response (g : Grid) (h : Handle) (hw : h.w = false) :
    (∀ c ∈ renderJson g h, c.auth ≠ .write) ∧ (∀ c ∈ renderInfo g h, c.auth ≠ .write) ∧
    (∀ c ∈ renderHtml g h, c.auth ≠ .write) ∧ (∀ c ∈ renderUri h, c.auth ≠ .write) ∧
    (∀ c ∈ renderReadonlyUri h, c.auth ≠ .write) := by
  refine ⟨?_, ?_, ?_, ?_, ?_⟩
  · intro c hc
    simp only [renderJson, List.mem_append, List.mem_flatMap] at hc
    rcases hc with hc | ⟨ch, hch, hc⟩
    · exact capFields_ro h hw c hc
    · exact capFields_ro ch (children_ro g h hw ch hch) c hc
  · intro c hc
    simp only [renderInfo, List.mem_append, List.mem_singleton] at hc
    rcases hc with (hc | hc) | rfl
    · exact capFields_ro h hw c hc
    · exact capFields_ro h hw c hc
    · exact getUri_ro h hw
  · intro c hc
    simp only [renderHtml, hw, List.mem_append, List.mem_map] at hc
    rcases hc with hc | ⟨ch, hch, rfl⟩
    · simp at hc
    · exact getUri_ro ch (children_ro g h hw ch hch)
  · intro c hc
    simp only [renderUri, List.mem_singleton] at hc
    subst hc
    exact getUri_ro h hw
  · intro c hc
    simp only [renderReadonlyUri, List.mem_singleton] at hc
    subst hc
    simp [getReadonlyUri]

/-- **`refused_response_shows_only_request_caps`**: the body of a refused request shows no cap string that was
not in the request URL itself; so a request whose URL carries no write cap (read-only / verify root cap, no
write cap in `uri=` / `to_dir=`) gets an error page without any write cap. -/
theorem refused_response_shows_only_request_caps (c : Cap) (r : Req) (e : Err) :
    (∀ x ∈ refusedBodyCaps c r e, x ∈ requestUrlCaps c r) ∧
    ((∀ x ∈ requestUrlCaps c r, x.auth ≠ .write) → ∀ x ∈ refusedBodyCaps c r e, x.auth ≠ .write) := by
  have h1 : ∀ x ∈ refusedBodyCaps c r e, x ∈ requestUrlCaps c r := by
    intro x hx
    unfold refusedBodyCaps at hx
    split at hx
    · exact hx
    · cases hx
  exact ⟨h1, fun h x hx => h x (h1 x hx)⟩

example : refusedBodyCaps ⟨1, .verify⟩ { meth := .post, t := .uri, name := some 3, cap := some ⟨2, .read⟩ } .notAllowed
      = [⟨1, .verify⟩, ⟨2, .read⟩] ∧
    refusedBodyCaps ⟨1, .read⟩ { meth := .post, t := .mkdir, name := some 3 } .notWriteable = [] := by decide

/-- the hypothesis propagates along any path below a read-only node -/
theorem no_writecap_below_ro (g : Grid) (h c : Handle) (path : List Nat) (hw : h.w = false)
    (hr : resolve g h path = some c) : ∀ x ∈ renderJson g c, x.auth ≠ .write :=
  (no_writecap_in_ro_response g c (resolve_ro hw hr)).1

/-- directory 1 listed through the read link shows no write cap although its entries store two; the
same directory listed through the write link shows them -/
example : resolve exGrid (capHandle exGrid ⟨0, .write⟩) [1] = some ⟨1, false⟩ ∧
    (renderJson exGrid ⟨1, false⟩).all (fun c => c.auth != .write) = true ∧
    (renderJson exGrid ⟨1, true⟩).filter (fun c => c.auth == .write) =
      [⟨1, .write⟩, ⟨2, .write⟩, ⟨4, .write⟩] := by decide

end Tahoe.C41
