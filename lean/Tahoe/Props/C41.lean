import Tahoe.Web.LemmasAuthority
/-! C41 — the web API never exceeds the authority of the capability used (property theorems; the
model is `Tahoe/Web/Authority.lean`, helper lemmas are in `Tahoe/Web/LemmasAuthority.lean`).

PARTIAL: the web layer is modelled only as a dispatch table (traversal + the node methods each
PUT / POST t=… / DELETE request invokes); the table is tied to `web/*.py` by the correspondence run.
`serve true` is the table with the proposed repair of `ReplaceMeMixin` (parent checked before
`client.create_mutable_file`); `serve false` is the code as it is, for which the statement is false
(`asis_mutable_upload_counterexample`). -/
namespace Tahoe.C41
open Tahoe.Web

/-- example grid: 0 = writeable root directory {1 ↦ dir 1 by *read* cap, 2 ↦ dir 1 by write cap,
3 ↦ mutable file 2 by write cap}; 1 = mutable directory {5 ↦ file 3, 6 ↦ mutable file 2 (write cap
stored), 7 ↦ dir 4 (write cap stored)}; 2 = mutable file; 3 = immutable file; 4 = mutable directory -/
def exGrid : Grid :=
  [⟨.mdir, [(1, ⟨1, false⟩), (2, ⟨1, true⟩), (3, ⟨2, true⟩)], 0⟩,
   ⟨.mdir, [(5, ⟨3, false⟩), (6, ⟨2, true⟩), (7, ⟨4, true⟩)], 0⟩,
   ⟨.mfile, [], 0⟩, ⟨.ifile, [], 0⟩, ⟨.mdir, [], 0⟩]

/-- Requests made with a read-only or verify capability (for any object kind; an immutable object has
no write capability at all): for **every** request of the table and **every** path below it, the
grid is unchanged. -/
theorem readonly_cap_unchanged (g : Grid) (c : Cap) (path : List Nat) (r : Req)
    (hro : (capHandle g c).w = false) : (serve true g c path r).1 = g :=
  (serve_of_traverse g c path r
    (traverse_ro r _ path g (rootHandler g c) (rootHandler_hro g c hro).nodeRO
      (Or.inr (rootHandler_hro g c hro)))).1

/-- … and the request is refused, unless it is one of the mkdir forms that are answered with the URI
of the directory they address when that directory already exists (nothing is left to modify; with a
read-only cap such a request cannot create anything either, by the previous theorem). -/
theorem readonly_cap_refused (g : Grid) (c : Cap) (path : List Nat) (r : Req)
    (hro : (capHandle g c).w = false) (hform : r.alreadyDoneForm = false) :
    (serve true g c path r).2.refused = true := by
  have h := (serve_of_traverse g c path r
    (traverse_ro r _ path g (rootHandler g c) (rootHandler_hro g c hro).nodeRO
      (Or.inr (rootHandler_hro g c hro)))).2
  rcases h with h | h
  · exact h
  · rw [hform] at h; cases h

example : (capHandle exGrid ⟨0, .read⟩).w = false ∧ (capHandle exGrid ⟨1, .verify⟩).w = false ∧
    (capHandle exGrid ⟨3, .write⟩).w = false ∧
    serve true exGrid ⟨0, .read⟩ [2, 6] { meth := .delete, t := .none } = (exGrid, .err .notWriteable) ∧
    serve true exGrid ⟨0, .read⟩ [2] { meth := .post, t := .setChildren, kids := [(9, ⟨3, false⟩)] }
      = (exGrid, .err .assertion) := by decide

/-- **`readonly_refused_unchanged`**: a request whose path passes *through* a read-only node — some
proper prefix `pre` of the path resolves (by `dirnode.get`) to a node without the write key, whatever
the authority of the root cap — is refused (same exception as above) and leaves the grid unchanged.
`post ≠ []`: the read-only node is passed through, it is not the addressed child itself (unlinking or
replacing a read-only child *of a writeable directory* modifies the writeable parent and is allowed). -/
theorem readonly_refused_unchanged (g : Grid) (c : Cap) (pre post : List Nat) (r : Req) (hdl : Handle)
    (hres : resolve g (capHandle g c) pre = some hdl) (hro : hdl.w = false) (hpost : post ≠ []) :
    (serve true g c (pre ++ post) r).1 = g ∧
    ((serve true g c (pre ++ post) r).2.refused = true ∨ r.alreadyDoneForm = true) :=
  serve_of_traverse g c (pre ++ post) r
    (traverse_through r _ post hpost g hdl hro pre (rootHandler g c) (capHandle g c)
      (rootHandler_tracks g c) hres)

/-- the same through a *write* cap of the root whose path crosses the read-only link `1` -/
example : resolve exGrid (capHandle exGrid ⟨0, .write⟩) [1] = some ⟨1, false⟩ ∧
    serve true exGrid ⟨0, .write⟩ ([1] ++ [6]) { meth := .put, t := .none } = (exGrid, .err .webError) ∧
    serve true exGrid ⟨0, .write⟩ ([1] ++ [7]) { meth := .post, t := .mkdir, name := some 8 }
      = (exGrid, .err .notWriteable) ∧
    serve true exGrid ⟨0, .write⟩ ([1] ++ [8, 9]) { meth := .put, t := .none }
      = (exGrid, .err .notWriteable) := by decide

/-- **`readonly_target_refused_unchanged`**: the read-only node is the *addressed* node (the last
link of the path is a read-only link; its parent may well be writeable) and the request is a POST —
the operations that act on the addressed node itself: t=mkdir&name=, t=upload, t=uri, t=delete/unlink,
t=rename, t=relink (whatever `to_dir=` names, also a writeable directory), t=set_children — on a
directory or a mutable file: unchanged, and refused with the same exception as above.
(PUT and DELETE on such a path act on the *parent* link and are legitimate when the parent is writeable;
POST t=upload on an *immutable* file replaces the parent's link likewise.) -/
theorem readonly_target_refused_unchanged (g : Grid) (c : Cap) (path : List Nat) (r : Req) (hdl : Handle)
    (hres : resolve g (capHandle g c) path = some hdl) (hro : hdl.w = false) (hpost : r.meth = .post)
    (hk : isDirAt g hdl.addr = true ∨ isMutableAt g hdl.addr = true) :
    (serve true g c path r).1 = g ∧
    ((serve true g c path r).2.refused = true ∨ r.alreadyDoneForm = true) := by
  obtain ⟨hd', htr, t⟩ := traverse_tracksK r (path.getLast?.getD 0) g path (rootHandler g c) (capHandle g c) hdl
    (rootHandler_tracksK g c) hres
  unfold serve
  rw [htr]
  exact render_post_target_ro g hd' hdl r t hro hpost hk

/-- relink out of the read-only directory `1` (reached through the writeable root by the read link `1`)
into the writeable directory `4` named by its write cap: refused, nothing linked into `4`; the same
request through the write link `2` moves the child -/
def exRelink : Req :=
  { meth := .post, t := .relink, name := some 5, toName := some 9, toDir := some (⟨4, .write⟩, []) }

example :
    serve true exGrid ⟨0, .write⟩ [1] exRelink = (exGrid, .err .notWriteable) ∧
    (serve true exGrid ⟨0, .write⟩ [2] exRelink).2 = .ok () ∧
    entriesOf (serve true exGrid ⟨0, .write⟩ [2] exRelink).1 4 = [(9, ⟨3, false⟩)] := by decide

/-- non-vacuity of the table: the same requests through the write-cap link `2` succeed and change the grid -/
example :
    (serve true exGrid ⟨0, .write⟩ [2, 6] { meth := .put, t := .none }).2 = .ok () ∧
    (serve true exGrid ⟨0, .write⟩ [2, 6] { meth := .put, t := .none }).1 ≠ exGrid ∧
    (serve true exGrid ⟨0, .write⟩ [2, 7] { meth := .post, t := .mkdir, name := some 8 }).2 = .ok () ∧
    (serve true exGrid ⟨0, .write⟩ [2, 8, 9] { meth := .put, t := .none }).2 = .ok () ∧
    -- unlinking the read-only child itself modifies the writeable root: allowed
    (serve true exGrid ⟨0, .write⟩ [1] { meth := .delete, t := .none }).2 = .ok () := by decide

/-- The code as it is (`fixed = false`) breaks the statement: `PUT /uri/<read-only dir>/new?format=sdmf`
is refused (NotWriteableError from `set_node`) only *after* `client.create_mutable_file` has put a
new mutable file on the grid. -/
theorem asis_mutable_upload_counterexample :
    (capHandle exGrid ⟨1, .read⟩).w = false ∧
    (serve false exGrid ⟨1, .read⟩ [9] { meth := .put, t := .none, mutableFmt := true }).2 = .err .notWriteable ∧
    (serve false exGrid ⟨1, .read⟩ [9] { meth := .put, t := .none, mutableFmt := true }).1 ≠ exGrid := by
  decide

/-- Apart from that one step the two tables agree: without `format=sdmf|mdmf` they are equal. -/
theorem asis_eq_fixed_without_mutable_format (g : Grid) (p : Handle) (n : Nat) (r : Req)
    (h : r.mutableFmt = false) : replaceWithUpload false g p n r = replaceWithUpload true g p n r := by
  simp [replaceWithUpload, h]

example : replaceWithUpload false exGrid ⟨1, true⟩ 9 { meth := .put, t := .none } =
    replaceWithUpload true exGrid ⟨1, true⟩ 9 { meth := .put, t := .none } := by decide

/-! ### responses through a read-only node contain no write cap -/

/-- **`no_writecap_in_ro_response`**: every cap string in a `t=json`, `t=info`, HTML-listing or
`t=uri` response rendered for a node reached without the write key is a read or verify cap — the
`rw_uri` fields are filled from `get_write_uri()`, which is `None` for such a node and for every
child unpacked through it. -/
theorem no_writecap_in_ro_response (g : Grid) (h : Handle) (hw : h.w = false) :
    (∀ c ∈ renderJson g h, c.auth ≠ .write) ∧ (∀ c ∈ renderInfo g h, c.auth ≠ .write) ∧
    (∀ c ∈ renderHtml g h, c.auth ≠ .write) ∧ (∀ c ∈ renderUri h, c.auth ≠ .write) ∧
    (∀ c ∈ renderReadonlyUri h, c.auth ≠ .write) := by
  refine ⟨?_, ?_, ?_, ?_, ?_⟩
  · intro c hc
    simp only [renderJson, List.mem_append, List.mem_flatMap] at hc
    rcases hc with hc | ⟨ch, hch, hc⟩
    · exact capFields_ro h hw c hc
    · exact capFields_ro ch (children_ro g h hw ch hch) c hc
  · intro c hc
    simp only [renderInfo, List.mem_append, List.mem_singleton] at hc
    rcases hc with (hc | hc) | rfl
    · exact capFields_ro h hw c hc
    · exact capFields_ro h hw c hc
    · exact getUri_ro h hw
  · intro c hc
    simp only [renderHtml, hw, List.mem_append, List.mem_map] at hc
    rcases hc with hc | ⟨ch, hch, rfl⟩
    · simp at hc
    · exact getUri_ro ch (children_ro g h hw ch hch)
  · intro c hc
    simp only [renderUri, List.mem_singleton] at hc
    subst hc
    exact getUri_ro h hw
  · intro c hc
    simp only [renderReadonlyUri, List.mem_singleton] at hc
    subst hc
    simp [getReadonlyUri]

/-- the hypothesis propagates along any path below a read-only node -/
theorem no_writecap_below_ro (g : Grid) (h c : Handle) (path : List Nat) (hw : h.w = false)
    (hr : resolve g h path = some c) : ∀ x ∈ renderJson g c, x.auth ≠ .write :=
  (no_writecap_in_ro_response g c (resolve_ro hw hr)).1

/-- directory 1 listed through the read link shows no write cap although its entries store two; the
same directory listed through the write link shows them -/
example : resolve exGrid (capHandle exGrid ⟨0, .write⟩) [1] = some ⟨1, false⟩ ∧
    (renderJson exGrid ⟨1, false⟩).all (fun c => c.auth != .write) = true ∧
    (renderJson exGrid ⟨1, true⟩).filter (fun c => c.auth == .write) =
      [⟨1, .write⟩, ⟨2, .write⟩, ⟨4, .write⟩] := by decide

end Tahoe.C41
