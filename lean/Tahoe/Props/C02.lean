import Tahoe.Immutable.LemmasChain
/-! C02 — immutable downloads never return wrong bytes.

Model: Tahoe/Immutable/Integrity.lean (`satisfy` = `Share._get_satisfaction`, `fetchSegment` = one
`get_segment`, `readLoop`/`read` = `Segmentation`).  `upload E prm encode ser ct` is what a correct uploader
publishes for ciphertext `ct` (any erasure coder `encode`, any UEB serialiser `ser`); `Setup` collects the
hypotheses: the tagged hashes are collision-free, the pair hash is injective, hashtree.py's presence test is
strict (true of 32-byte hashes / of the repaired hashtree.py, C35), the published UEB parses back to its
fields, and the encoding parameters are acceptable (k > 0, k divides the segment size).
Everything a server answers is universally quantified: `Script` = any sequence of (share number, `View`),
a `View` holding arbitrary version / offset table / UEB bytes / hash values / block bytes, fresh for every
pass.  `decode` (zfec) and `pick` (set.pop order inside hashtree.py) are arbitrary functions.
The ciphertext is arbitrary, in particular `ct = AES-CTR(key, pt)`; `read_prefix_correct_plaintext` states the
consumer-side (decrypted) version with CTR as a position-wise xor.

As built: 14 theorems. End to end: `delivered_segment_genuine`, `read_prefix_correct`,
`read_prefix_correct_plaintext` (any segment-size guess, both retry paths). Per share region: `forged_ueb_rejected`,
`wrong_encoding_rejected`, `bad_header_rejected`, `share_chain_stage_sound`, `block_root_anchored`,
`block_hash_tree_stage_sound`, `accepted_block_genuine`, `ct_hash_stage_sound`. Over histories of the node:
`rejected_share_cannot_poison_node` (`NodeInv`), `accepted_block_genuine_history` (`ShInv`, LemmasChain.lean).
Helper lemmas: Tahoe/Immutable/Lemmas{Integrity,Verify,Blocks,Chain}.lean. Driver lean/Drv/C02.lean (`offsets`,
`gotseg`, `dl`, `dlseq`, `sat`) runs the chain on real share bytes (IntegrityBytes.lean). The defect found with this
property (endless request loop on a share truncated inside its header) is repaired in /repo (ea42624). Still outside:
termination / availability (C46, C03); the DecryptingConsumer's counter arithmetic is not transcribed. -/
/-! ## Coverage of the statement (properties.jsonl, C02)

| clause of the statement | theorem(s) over the model |
|---|---|
| a download never delivers bytes that differ from what was uploaded | `delivered_segment_genuine` (segment level, any history of the node), `read_prefix_correct` (`done` ⇒ exactly the range), `read_prefix_correct_plaintext` |
| … for ANY modification / truncation / substitution of stored shares, servers that change their answers | the same three theorems: every field of every answer of every pass is a universally quantified `View`; truncation = a field that is not there (`none` / `[]` / short block ⇒ `Res.wait`) |
| — forged URI extension block | `forged_ueb_rejected` (any UEB bytes other than the published ones: BadHashError at the UEB step, node untouched) |
| — shares of another encoding of the same key | `wrong_encoding_rejected` |
| — shares of another file (whole-share swap) | `forged_ueb_rejected` (a foreign share carries a foreign UEB) and, for a foreign share carrying the genuine UEB, the stage theorems below + `delivered_segment_genuine` |
| — forged offset table / version / header | `bad_header_rejected` (rejected tables: LayoutInvalid, node untouched); an *accepted* forged table only changes which bytes fill the `View`, covered by the universal quantification |
| — forged share hash chain | `share_chain_stage_sound` (the share hash tree stays a partial copy of the published tree, accepted or rejected) |
| — forged block hash tree / its root | `block_root_anchored` (root taken only from the validated share-hash leaf), `block_hash_tree_stage_sound` |
| — forged block data | `accepted_block_genuine` (a block reported COMPLETE is the uploader's block of that share and segment) |
| — forged crypttext hash tree | `ct_hash_stage_sound`, and end to end `delivered_segment_genuine` |
| a rejected share cannot weaken later validation (seeds C02-a, C02-b) | `rejected_share_cannot_poison_node` (the node invariant survives every pass, accepted or rejected, of any share) |
| the reader receives the exact original bytes or an error | `read_prefix_correct` (`done` ⇒ exact range; otherwise `error`/`pending` with a correct prefix). That a read does END (no hang) is C46; that it ends in `done` when k good shares exist is C03 — not covered here |
| any bytes delivered before an error are a correct prefix of the requested range | `read_prefix_correct`, `read_prefix_correct_plaintext` (for every segment-size guess, both retry paths) |
| composition of the share-level stages: over any history of the download node, a block any share reports COMPLETE is genuine | `accepted_block_genuine_history` (node invariant `ShInv` over the share hash tree and the block hash trees of all share numbers, kept by every pass of every share and by `process_blocks`) |
| the verifier flags the corruption | C45 (`verified_good_implies_all_valid`) |
-/
namespace Tahoe.C02
open Tahoe.Integrity Tahoe.Base.Merkle

variable {H : Type} [DecidableEq H]

/-- the node after any earlier segment fetches (each with arbitrary answers) -/
def nodeAfter (E : Env H) (cfg : Cfg) (pick : List Nat → Nat) (decode : Nat → List (Nat × Bytes) → Bytes)
    (cap : Cap H) (history : List (Nat × Script H)) : Node H :=
  history.foldl (fun nd e => (fetchSegment E cfg pick decode cap nd e.1 e.2).2) (Node.init H cap)

/-- **delivered_segment_genuine**: whatever the servers answered during this and all earlier segment fetches of
    the download node, a segment that `get_segment(segnum)` delivers for a cap produced by `upload` is ciphertext
    segment `segnum` of the uploaded file, at its offset. -/
theorem delivered_segment_genuine (E : Env H) (cfg : Cfg) (prm : Params) (ser : UEB H → Bytes)
    (encode : Nat → Bytes → Nat → Bytes) (ct : Bytes) (sz : Sizes) (S : Setup E cfg prm ser encode ct sz)
    (pick : List Nat → Nat) (decode : Nat → List (Nat × Bytes) → Bytes)
    (history : List (Nat × Script H)) (segnum : Nat) (sc : Script H) (start : Nat) (seg : Bytes)
    (h : (fetchSegment E cfg pick decode (upload E prm encode ser ct).cap
            (nodeAfter E cfg pick decode (upload E prm encode ser ct).cap history) segnum sc).1 = .ok (start, seg)) :
    seg = ctSeg ct prm.segSize segnum ∧ start = segnum * prm.segSize := by
  have hinv : ∀ (hist : List (Nat × Script H)) (nd : Node H), NodeInv E prm ser encode ct sz nd →
      NodeInv E prm ser encode ct sz
        (hist.foldl (fun nd e => (fetchSegment E cfg pick decode (upload E prm encode ser ct).cap nd e.1 e.2).2) nd) := by
    intro hist
    induction hist with
    | nil => intro nd h; exact h
    | cons e rest ih =>
      intro nd h
      exact ih _ (fetchSegment_spec S pick decode nd e.1 e.2 h).1
  have h0 : NodeInv E prm ser encode ct sz (Node.init H (upload E prm encode ser ct).cap) := Or.inl rfl
  obtain ⟨h1, h2⟩ := (fetchSegment_spec S pick decode _ segnum sc (hinv history _ h0)).2 start seg h
  exact ⟨h2, h1⟩

/-- **read_prefix_correct**: at any time the bytes `read(consumer, off, size)` has written to the consumer are a
    prefix of the requested range of the ciphertext — so an error can only follow a correct prefix — and a read
    that completes has written exactly the requested range. -/
theorem read_prefix_correct (E : Env H) (cfg : Cfg) (prm : Params) (ser : UEB H → Bytes)
    (encode : Nat → Bytes → Nat → Bytes) (ct : Bytes) (sz : Sizes) (S : Setup E cfg prm ser encode ct sz)
    (pick : List Nat → Nat) (decode : Nat → List (Nat × Bytes) → Bytes) (guess : Nat)
    (scripts : List (Script H)) (off size : Nat) :
    let r := read E cfg pick decode (upload E prm encode ser ct).cap guess scripts
               (Node.init H (upload E prm encode ser ct).cap) off size
    r.1 <+: (ct.drop off).take size ∧ (r.2 = .done → r.1 = (ct.drop off).take size) := by
  intro r
  obtain ⟨off', size', e1, e2⟩ := readLoop_spec S pick decode guess scripts
    (Node.init H (upload E prm encode ser ct).cap) off (min size (ct.length - off)) [] (Or.inl rfl)
  have hclip : (ct.drop off).take (min size (ct.length - off)) = (ct.drop off).take size := by
    rw [← List.take_take]
    have : ct.length - off = (ct.drop off).length := by simp
    rw [this, List.take_length]
  rw [List.nil_append, hclip] at e1
  constructor
  · exact ⟨_, e1⟩
  · intro hd
    have := e2 hd
    subst this
    rw [List.take_zero, List.append_nil] at e1
    exact e1

/-- the same for what the application's consumer sees behind `DecryptingConsumer` (AES-CTR = xor with the
    keystream byte of each file position): a prefix of the requested range of the plaintext -/
theorem read_prefix_correct_plaintext (E : Env H) (cfg : Cfg) (prm : Params) (ser : UEB H → Bytes)
    (encode : Nat → Bytes → Nat → Bytes) (ks : Nat → UInt8) (pt : Bytes) (sz : Sizes)
    (S : Setup E cfg prm ser encode (cryptAt ks 0 pt) sz)
    (pick : List Nat → Nat) (decode : Nat → List (Nat × Bytes) → Bytes) (guess : Nat)
    (scripts : List (Script H)) (off size : Nat) :
    let cap := (upload E prm encode ser (cryptAt ks 0 pt)).cap
    cryptAt ks off (read E cfg pick decode cap guess scripts (Node.init H cap) off size).1
      <+: (pt.drop off).take size := by
  intro cap
  have h := (read_prefix_correct E cfg prm ser encode (cryptAt ks 0 pt) sz S pick decode guess scripts off size).1
  have h2 := cryptAt_prefix ks off h
  have hinvol : ∀ (a : Nat) (l : Bytes), cryptAt ks a (cryptAt ks a l) = l := by
    intro a l
    induction l generalizing a with
    | nil => rfl
    | cons x rest ih =>
      simp only [cryptAt, ih]
      congr 1
      rw [UInt8.xor_assoc, UInt8.xor_self, UInt8.xor_zero]
  rw [cryptAt_drop, ← cryptAt_take, Nat.zero_add] at h2
  rw [hinvol] at h2
  exact h2

/-- **wrong_encoding_rejected**: a share of another encoding of the same ciphertext (other k, N or segment
    size; any erasure coder) carries a different UEB and is abandoned at the UEB-hash step with BadHashError,
    before anything of it is stored in the download node. -/
theorem wrong_encoding_rejected (E : Env H) (cfg : Cfg) (prm prm2 : Params) (ser : UEB H → Bytes)
    (encode encode2 : Nat → Bytes → Nat → Bytes) (ct : Bytes) (sz : Sizes) (S : Setup E cfg prm ser encode ct sz)
    (hparse2 : E.parseUEB (upload E prm2 encode2 ser ct).uebBytes = some (upload E prm2 encode2 ser ct).ueb)
    (hne : prm2 ≠ prm) (pick : List Nat → Nat) (nd : Node H) (hk : nd.known = none) (shnum segnum : Nat)
    (v : View H) (hoff : satisfyOffsets v.version v.offs = none)
    (hv : v.uebBytes = some (upload E prm2 encode2 ser ct).uebBytes) :
    satisfy E cfg pick (upload E prm encode ser ct).cap nd shnum segnum v = (.dead .badHash, nd) := by
  have hbytes : (upload E prm2 encode2 ser ct).uebBytes ≠ (upload E prm encode ser ct).uebBytes := by
    intro e
    have h1 := S.ser_ok
    rw [← e, hparse2] at h1
    injection h1 with h1
    apply hne
    have a1 : (upload E prm2 encode2 ser ct).ueb.segmentSize = (upload E prm encode ser ct).ueb.segmentSize := by rw [h1]
    have a2 : (upload E prm2 encode2 ser ct).ueb.neededShares = (upload E prm encode ser ct).ueb.neededShares := by rw [h1]
    have a3 : (upload E prm2 encode2 ser ct).ueb.totalShares = (upload E prm encode ser ct).ueb.totalShares := by rw [h1]
    have b1 : prm2.segSize = prm.segSize := a1
    have b2 : some prm2.k = some prm.k := a2
    have b3 : some prm2.n = some prm.n := a3
    injection b2 with b2
    injection b3 with b3
    cases prm2; cases prm
    simp_all
  have hhash : E.tagged .ueb (upload E prm2 encode2 ser ct).uebBytes ≠ (upload E prm encode ser ct).cap.uebHash := by
    intro e
    exact hbytes (S.cf _ _ _ e)
  simp only [satisfy, stages, runStages, hoff, stageUEB, hk, hv]
  rw [if_pos hhash]

/-- **forged_ueb_rejected**: a share whose URI extension block is anything but the published bytes (forged,
    truncated, of another file, of another encoding) is abandoned at the UEB step with BadHashError before
    anything of it is stored in the download node. -/
theorem forged_ueb_rejected (E : Env H) (cfg : Cfg) (prm : Params) (ser : UEB H → Bytes)
    (encode : Nat → Bytes → Nat → Bytes) (ct : Bytes) (sz : Sizes) (S : Setup E cfg prm ser encode ct sz)
    (pick : List Nat → Nat) (nd : Node H) (hk : nd.known = none) (shnum segnum : Nat)
    (v : View H) (hoff : satisfyOffsets v.version v.offs = none) (b : Bytes)
    (hv : v.uebBytes = some b) (hne : b ≠ (upload E prm encode ser ct).uebBytes) :
    satisfy E cfg pick (upload E prm encode ser ct).cap nd shnum segnum v = (.dead .badHash, nd) := by
  have hhash : E.tagged .ueb b ≠ (upload E prm encode ser ct).cap.uebHash := fun e => hne (S.cf _ _ _ e)
  simp only [satisfy, stages, runStages, hoff, stageUEB, hk, hv]
  rw [if_pos hhash]

/-- **bad_header_rejected**: an unknown version, or an offset table whose share-hash / block-hash sections have a
    negative or non-multiple size, makes the share be abandoned with LayoutInvalid, the node untouched; these
    are exactly the tables `_satisfy_offsets` refuses. -/
theorem bad_header_rejected (E : Env H) (cfg : Cfg) (pick : List Nat → Nat) (cap : Cap H) (nd : Node H)
    (shnum segnum : Nat) (v : View H) :
    (∀ w, satisfyOffsets v.version v.offs = some w →
        w = .layout ∧ satisfy E cfg pick cap nd shnum segnum v = (.dead .layout, nd)) ∧
    (satisfyOffsets v.version v.offs = none ↔
      (v.version = 1 ∨ v.version = 2) ∧
      v.offs.shareHashes ≤ v.offs.uriExtension ∧ (v.offs.uriExtension - v.offs.shareHashes) % 34 = 0 ∧
      v.offs.blockHashes ≤ v.offs.shareHashes ∧ (v.offs.shareHashes - v.offs.blockHashes) % 32 = 0) := by
  constructor
  · intro w hw
    have hl : w = .layout := by
      unfold satisfyOffsets at hw
      split at hw
      · injection hw with hw; exact hw.symm
      · split at hw
        · injection hw with hw; exact hw.symm
        · split at hw
          · injection hw with hw; exact hw.symm
          · cases hw
    subst hl
    exact ⟨rfl, by simp only [satisfy, stages, runStages, hw]⟩
  · unfold satisfyOffsets HASH_SIZE
    constructor
    · intro h
      split at h; · cases h
      split at h; · cases h
      split at h; · cases h
      omega
    · intro ⟨h1, h2, h3, h4, h5⟩
      rw [if_neg (by omega), if_neg (by omega), if_neg (by omega)]

/-- **share_chain_stage_sound**: whatever share hash chain a share supplies (forged hashes, forged hash numbers,
    duplicates, too few, too many), after `_satisfy_share_hash_tree` the node's share hash tree is still a
    partial copy of the published share hash tree holding its root. -/
theorem share_chain_stage_sound (E : Env H) (cfg : Cfg) (hstrict : StrictPresence E.ops cfg) (hinj : PairInjective E.ops)
    (pick : List Nat → Nat) (cap : Cap H) (shnum : Nat) (v : View H) (nd : Node H) (T : Tree H)
    (hok : TreeOK E.ops T nd.shareTree) :
    TreeOK E.ops T (stageShareTree E cfg pick cap shnum v nd).2.shareTree :=
  stageShareTree_sound hstrict hinj pick cap shnum v nd hok

/-- **block_root_anchored**: the root of a share's block hash tree is only ever taken from the validated share
    hash tree leaf of that share number: when the stage lets the share go on, its block hash tree is anchored at
    the published block hash root of share `shnum`. -/
theorem block_root_anchored (E : Env H) (cfg : Cfg) (hstrict : StrictPresence E.ops cfg) (hinj : PairInjective E.ops)
    (pick : List Nat → Nat) (prm : Params) (ser : UEB H → Bytes) (encode : Nat → Bytes → Nat → Bytes) (ct : Bytes)
    (shnum : Nat) (hsh : shnum < prm.n) (nd : Node H) (u : UEB H) (sz : Sizes)
    (hk : nd.known = some (u, sz)) (hns : sz.numSegs = divCeil ct.length prm.segSize)
    (hshare : TreeOK E.ops (upload E prm encode ser ct).shareT nd.shareTree)
    (hbt : nd.blockTree shnum sz.numSegs = newTree H sz.numSegs ∨
      TreeOK E.ops ((upload E prm encode ser ct).blockT shnum) (nd.blockTree shnum sz.numSegs))
    (nd1 : Node H) (h : stageBlockRoot E cfg pick (upload E prm encode ser ct).cap shnum nd = (none, nd1)) :
    TreeOK E.ops ((upload E prm encode ser ct).blockT shnum) (nd1.blockTree shnum sz.numSegs) :=
  (stageBlockRoot_sound hstrict hinj pick shnum hsh nd hk hns hshare hbt nd1 h).2.2

/-- **block_hash_tree_stage_sound**: whatever block hashes a share supplies, its block hash tree stays a partial
    copy of the published block hash tree (forged hashes are rejected and rolled back). -/
theorem block_hash_tree_stage_sound (E : Env H) (cfg : Cfg) (hstrict : StrictPresence E.ops cfg)
    (hinj : PairInjective E.ops) (pick : List Nat → Nat) (shnum segnum : Nat) (v : View H) (nd : Node H)
    (T : Tree H) (u : UEB H) (sz : Sizes) (hk : nd.known = some (u, sz))
    (hok : TreeOK E.ops T (nd.blockTree shnum sz.numSegs)) :
    TreeOK E.ops T ((stageBlockHashes E cfg pick shnum segnum v nd).2.blockTree shnum sz.numSegs) :=
  (stageBlockHashes_sound hstrict hinj pick shnum segnum v nd hk hok).2

/-- **accepted_block_genuine**: with the block hash tree anchored (previous theorems), a block that
    `_satisfy_data_block` reports COMPLETE is the block the uploader produced for that share and segment; any
    other block is reported CORRUPT and the tree is as before. -/
theorem accepted_block_genuine (E : Env H) (cfg : Cfg) (hstrict : StrictPresence E.ops cfg) (hinj : PairInjective E.ops)
    (hcf : CollisionFree E) (pick : List Nat → Nat) (prm : Params) (ser : UEB H → Bytes)
    (encode : Nat → Bytes → Nat → Bytes) (ct : Bytes) (shnum segnum : Nat) (v : View H) (nd : Node H)
    (u : UEB H) (sz : Sizes) (hk : nd.known = some (u, sz)) (hns : sz.numSegs = divCeil ct.length prm.segSize)
    (hseg : segnum < sz.numSegs)
    (hok : TreeOK E.ops ((upload E prm encode ser ct).blockT shnum) (nd.blockTree shnum sz.numSegs)) :
    TreeOK E.ops ((upload E prm encode ser ct).blockT shnum)
      ((stageData E cfg pick shnum segnum v nd).2.blockTree shnum sz.numSegs) ∧
    ∀ b, (stageData E cfg pick shnum segnum v nd).1 = some (.block b) →
      b = (upload E prm encode ser ct).block shnum segnum := by
  have hlenL : (blockLeaves E prm encode ct shnum).length = sz.numSegs := by rw [hns]; simp [blockLeaves, segments]
  apply stageData_sound hstrict hinj hcf pick shnum segnum v nd _ hk hok hseg
  · rw [upload_blockT, Integrity.build_length, hlenL]
  · rw [upload_blockT]
    have := build_leaf E.ops (blockLeaves E prm encode ct shnum) segnum (by rw [hlenL]; exact hseg)
    rw [hlenL] at this
    rw [this]
    have hj : segnum < (segments ct prm.segSize).length := by rw [segments_length, ← hns]; exact hseg
    simp [blockLeaves, List.getElem?_map, List.getElem?_range hj]
    rfl

/-- **accepted_block_genuine_history**: after ANY history of the download node — passes of any shares (valid or
    invalid share numbers) with arbitrary answers, accepted or rejected at any stage, interleaved with
    `process_blocks` of arbitrary block sets — a block that a pass of share number `shnum < N` reports
    COMPLETE for segment `segnum` is the block the uploader produced for that share and segment. (Forged block
    data, block hash trees, block hash roots and share hash chains can therefore only make a share be rejected.) -/
theorem accepted_block_genuine_history (E : Env H) (cfg : Cfg) (prm : Params) (ser : UEB H → Bytes)
    (encode : Nat → Bytes → Nat → Bytes) (ct : Bytes) (sz : Sizes) (S : Setup E cfg prm ser encode ct sz)
    (pick : List Nat → Nat) (decode : Nat → List (Nat × Bytes) → Bytes) (history : List (NodeEv H))
    (shnum segnum : Nat) (hsh : shnum < prm.n) (v : View H) (b : Bytes)
    (h : (satisfy E cfg pick (upload E prm encode ser ct).cap
            (history.foldl (stepEv E cfg pick decode (upload E prm encode ser ct).cap)
              (Node.init H (upload E prm encode ser ct).cap)) shnum segnum v).1 = .block b) :
    b = (upload E prm encode ser ct).block shnum segnum := by
  have h0 : ShInv E prm ser encode ct sz (Node.init H (upload E prm encode ser ct).cap) := Or.inl ⟨rfl, rfl, rfl⟩
  exact (satisfy_sh S pick shnum segnum v _ (history_sh S pick decode history _ h0)).2 b h hsh

/-- **ct_hash_stage_sound** / **rejected_share_cannot_poison_node**: every pass of `_get_satisfaction`, of any
    share, with any answers, accepted or rejected at any stage, leaves the download node in a state where either
    no UEB was accepted yet or the stored UEB is the published one and the ciphertext hash tree is a partial copy
    of the published tree holding its root (in particular a rejected UEB stores nothing — seed C02-a — and a
    rejected hash chain does not erase the trusted root — seed C02-b, given C35's rollback). -/
theorem rejected_share_cannot_poison_node (E : Env H) (cfg : Cfg) (prm : Params) (ser : UEB H → Bytes)
    (encode : Nat → Bytes → Nat → Bytes) (ct : Bytes) (sz : Sizes) (S : Setup E cfg prm ser encode ct sz)
    (pick : List Nat → Nat) (shnum segnum : Nat) (v : View H) (nd : Node H)
    (h : NodeInv E prm ser encode ct sz nd) :
    NodeInv E prm ser encode ct sz (satisfy E cfg pick (upload E prm encode ser ct).cap nd shnum segnum v).2 :=
  satisfy_inv S pick shnum segnum v nd h

theorem ct_hash_stage_sound (E : Env H) (cfg : Cfg) (prm : Params) (ser : UEB H → Bytes)
    (encode : Nat → Bytes → Nat → Bytes) (ct : Bytes) (sz : Sizes) (S : Setup E cfg prm ser encode ct sz)
    (pick : List Nat → Nat) (segnum : Nat) (v : View H) (nd : Node H)
    (h : NodeInv E prm ser encode ct sz nd) :
    NodeInv E prm ser encode ct sz (stageCtHashes E cfg pick segnum v nd).2 :=
  stageCt_inv S pick segnum v nd h

/-! ### the hypotheses are satisfiable; a concrete instance -/

/-- a two-segment file, 1-of-1 encoding, symbolic hashes -/
def exPrm : Params := { k := 1, n := 1, segSize := 2 }
def exCt : Bytes := [10, 11, 12]
def exSer : UEB SymH → Bytes := fun _ => [7]
def exEncode : Nat → Bytes → Nat → Bytes := fun _ seg _ => seg
def exE0 : Env SymH := { tagged := SymH.tagged, ops := symOpsH, parseUEB := fun _ => none }
def exE : Env SymH :=
  { exE0 with parseUEB := fun b => if b = [7] then some (upload exE0 exPrm exEncode exSer exCt).ueb else none }
def exSz : Sizes := { tailSegSize := 1, tailPadded := 1, numSegs := 2, blockSize := 2, tailBlockSize := 1 }

theorem exSetup : Setup exE Cfg.asIs exPrm exSer exEncode exCt exSz where
  cf := by intro t a b h; injection h
  inj := by intro a b c d h; injection h with h1 h2; exact ⟨h1, h2⟩
  strict := fun _ => rfl
  ser_ok := rfl
  sizes := by decide

/-- an honest server: every field as published -/
def exHonest (segnum : Nat) : View SymH :=
  let P := upload exE exPrm exEncode exSer exCt
  { version := 1, offs := { data := 36, plaintextHT := 39, crypttextHT := 135, blockHashes := 231,
                            shareHashes := 327, uriExtension := 327 },
    uebBytes := some [7], shareHashes := [], blockHashes := fun i => get (P.blockT 0) i,
    ctHashes := fun i => get P.ctT i, block := P.block 0 segnum }

/-- a forging server: the second block replaced, with a block hash tree recomputed over the forged block -/
def exForged : View SymH :=
  { exHonest 1 with
    block := [99],
    blockHashes := fun i => get (build symOpsH [SymH.tagged .block [10, 11], SymH.tagged .block [99]]) i }

/-- the honest answers deliver both segments; the forged second block (with a self-consistent block hash tree)
    is not delivered; after the rejection the honest share still delivers the genuine segment -/
example :
    let cap := (upload exE exPrm exEncode exSer exCt).cap
    let dec : Nat → List (Nat × Bytes) → Bytes := fun _ bl => (bl.head?.map (·.2)).getD []
    let r0 := fetchSegment exE Cfg.asIs (fun _ => 0) dec cap (Node.init SymH cap) 0 [(0, exHonest 0)]
    let r1 := fetchSegment exE Cfg.asIs (fun _ => 0) dec cap r0.2 1 [(0, exForged)]
    let r2 := fetchSegment exE Cfg.asIs (fun _ => 0) dec cap r1.2 1 [(0, exHonest 1)]
    r0.1.toOption = some (0, [10, 11]) ∧ r1.1.toOption = none ∧ r2.1.toOption = some (2, [12]) := by
  decide

/-- a whole read of the honest shares writes the file; with the forged answer for the second segment it writes
    the first segment only and ends in an error -/
example :
    let cap := (upload exE exPrm exEncode exSer exCt).cap
    let dec : Nat → List (Nat × Bytes) → Bytes := fun _ bl => (bl.head?.map (·.2)).getD []
    read exE Cfg.asIs (fun _ => 0) dec cap 4 [[(0, exHonest 0)], [(0, exHonest 1)]] (Node.init SymH cap) 0 3
      = ([10, 11, 12], .done) ∧
    read exE Cfg.asIs (fun _ => 0) dec cap 4 [[(0, exHonest 0)], [(0, exForged)]] (Node.init SymH cap) 0 3
      = ([10, 11], .error) := by
  decide

/-- the segment-size guess is wrong in either direction (real segment size 2): with guess 1 the first request of
    `read(off = 1, size = 2)` is for segment 1, which does not hold byte 1 — WrongSegmentError, retried with the
    real size; with guess 1 and `off = 2` the guessed segment 2 does not exist — BadSegmentNumberError, retried;
    with guess 4 the guessed segment 0 is short of the real one and the loop simply continues.  In every case
    exactly `ct[off, off+size)` is written (for all guesses and all server behaviour this is `read_prefix_correct`). -/
example :
    let cap := (upload exE exPrm exEncode exSer exCt).cap
    let dec : Nat → List (Nat × Bytes) → Bytes := fun _ bl => (bl.head?.map (·.2)).getD []
    read exE Cfg.asIs (fun _ => 0) dec cap 1 [[(0, exHonest 1)], [(0, exHonest 0)], [(0, exHonest 1)]] (Node.init SymH cap) 1 2
      = ([11, 12], .done) ∧
    read exE Cfg.asIs (fun _ => 0) dec cap 1 [[(0, exHonest 2)], [(0, exHonest 1)]] (Node.init SymH cap) 2 1
      = ([12], .done) ∧
    read exE Cfg.asIs (fun _ => 0) dec cap 4 [[(0, exHonest 0)], [(0, exHonest 1)]] (Node.init SymH cap) 1 2
      = ([11, 12], .done) := by
  decide

/-- non-vacuity of the stage theorems: a sound (anchored) tree exists, and on the example file a pass with a forged
    UEB, a bad version, a forged block and the honest answers ends as the theorems say -/
example : TreeOK symOpsH (build symOpsH [SymH.tagged .block [10, 11], SymH.tagged .block [12]])
    (seed (newTree SymH 2) (rootOf symOpsH [SymH.tagged .block [10, 11], SymH.tagged .block [12]])) := seed_ok rfl

example :
    let cap := (upload exE exPrm exEncode exSer exCt).cap
    let nd0 := Node.init SymH cap
    (satisfy exE Cfg.asIs (fun _ => 0) cap nd0 0 0 { exHonest 0 with uebBytes := some [8] }).1 = .dead .badHash ∧
    (satisfy exE Cfg.asIs (fun _ => 0) cap nd0 0 0 { exHonest 0 with version := 3 }).1 = .dead .layout ∧
    (satisfy exE Cfg.asIs (fun _ => 0) cap nd0 0 0
        { exHonest 0 with offs := { (exHonest 0).offs with uriExtension := 328 } }).1 = .dead .layout ∧
    (satisfy exE Cfg.asIs (fun _ => 0) cap nd0 0 0 (exHonest 0)).1 = .block [10, 11] ∧
    (satisfy exE Cfg.asIs (fun _ => 0) cap nd0 0 0 { exHonest 0 with block := [1, 2] }).1 = .corrupt ∧
    (satisfy exE Cfg.asIs (fun _ => 0) cap nd0 0 1
        { exHonest 1 with blockHashes := fun _ => some (SymH.raw 5) }).1 = .dead .badHash ∧
    (satisfy exE Cfg.asIs (fun _ => 0) cap nd0 0 1
        { exHonest 1 with ctHashes := fun _ => some (SymH.raw 5) }).1 = .dead .badHash := by
  decide

/-- a history on the example file: a forged pass, an honest pass, `process_blocks`, then the honest share reports
    the genuine second block and the forged one is CORRUPT -/
example :
    let cap := (upload exE exPrm exEncode exSer exCt).cap
    let dec : Nat → List (Nat × Bytes) → Bytes := fun _ bl => (bl.head?.map (·.2)).getD []
    let nd := [NodeEv.pass 0 0 { exHonest 0 with block := [9, 9] }, NodeEv.pass 0 0 (exHonest 0),
               NodeEv.proc 0 [(0, [10, 11])]].foldl (stepEv exE Cfg.asIs (fun _ => 0) dec cap) (Node.init SymH cap)
    (satisfy exE Cfg.asIs (fun _ => 0) cap nd 0 1 (exHonest 1)).1 = .block ((upload exE exPrm exEncode exSer exCt).block 0 1) ∧
    (satisfy exE Cfg.asIs (fun _ => 0) cap nd 0 1 exForged).1 = .corrupt := by
  decide

/-- the same ciphertext encoded with segment size 1: its UEB is refused under the first cap -/
example :
    let prm2 : Params := { k := 1, n := 1, segSize := 1 }
    let ser2 : UEB SymH → Bytes := fun u => if u.segmentSize = 2 then [7] else [8]
    (upload exE exPrm exEncode ser2 exCt).uebBytes ≠ (upload exE prm2 exEncode ser2 exCt).uebBytes := by
  decide

end Tahoe.C02
