import Tahoe.Immutable.LemmasIntegrity
/-! C02 — immutable downloads never return wrong bytes.

Model: Tahoe/Immutable/Integrity.lean (`satisfy` = `Share._get_satisfaction`, `fetchSegment` = one
`get_segment`, `readLoop`/`read` = `Segmentation`).  `upload E prm encode ser ct` is what a correct uploader
publishes for ciphertext `ct` (any erasure coder `encode`, any UEB serialiser `ser`); `Setup` collects the
hypotheses: the tagged hashes are collision-free, the pair hash is injective, hashtree.py's presence test is
strict (true of 32-byte hashes / of the repaired hashtree.py, C35), the published UEB parses back to its
fields, and the encoding parameters are acceptable (k > 0, k divides the segment size).
Everything a server answers is universally quantified: `Script` = any sequence of (share number, `View`),
a `View` holding arbitrary version / offset table / UEB bytes / hash values / block bytes, fresh for every
pass.  `decode` (zfec) and `pick` (set.pop order inside hashtree.py) are arbitrary functions.
The ciphertext is arbitrary, in particular `ct = AES-CTR(key, pt)`; `read_prefix_correct_plaintext` states the
consumer-side (decrypted) version with CTR as a position-wise xor. -/
namespace Tahoe.C02
open Tahoe.Integrity Tahoe.Base.Merkle

variable {H : Type} [DecidableEq H]

/-- the node after any earlier segment fetches (each with arbitrary answers) -/
def nodeAfter (E : Env H) (cfg : Cfg) (pick : List Nat → Nat) (decode : Nat → List (Nat × Bytes) → Bytes)
    (cap : Cap H) (history : List (Nat × Script H)) : Node H :=
  history.foldl (fun nd e => (fetchSegment E cfg pick decode cap nd e.1 e.2).2) (Node.init H cap)

/-- **delivered_segment_genuine**: whatever the servers answered during this and all earlier segment fetches of
    the download node, a segment that `get_segment(segnum)` delivers for a cap produced by `upload` is ciphertext
    segment `segnum` of the uploaded file, at its offset. -/
theorem delivered_segment_genuine (E : Env H) (cfg : Cfg) (prm : Params) (ser : UEB H → Bytes)
    (encode : Nat → Bytes → Nat → Bytes) (ct : Bytes) (sz : Sizes) (S : Setup E cfg prm ser encode ct sz)
    (pick : List Nat → Nat) (decode : Nat → List (Nat × Bytes) → Bytes)
    (history : List (Nat × Script H)) (segnum : Nat) (sc : Script H) (start : Nat) (seg : Bytes)
    (h : (fetchSegment E cfg pick decode (upload E prm encode ser ct).cap
            (nodeAfter E cfg pick decode (upload E prm encode ser ct).cap history) segnum sc).1 = .ok (start, seg)) :
    seg = ctSeg ct prm.segSize segnum ∧ start = segnum * prm.segSize := by
  have hinv : ∀ (hist : List (Nat × Script H)) (nd : Node H), NodeInv E prm ser encode ct sz nd →
      NodeInv E prm ser encode ct sz
        (hist.foldl (fun nd e => (fetchSegment E cfg pick decode (upload E prm encode ser ct).cap nd e.1 e.2).2) nd) := by
    intro hist
    induction hist with
    | nil => intro nd h; exact h
    | cons e rest ih =>
      intro nd h
      exact ih _ (fetchSegment_spec S pick decode nd e.1 e.2 h).1
  have h0 : NodeInv E prm ser encode ct sz (Node.init H (upload E prm encode ser ct).cap) := Or.inl rfl
  obtain ⟨h1, h2⟩ := (fetchSegment_spec S pick decode _ segnum sc (hinv history _ h0)).2 start seg h
  exact ⟨h2, h1⟩

/-- **read_prefix_correct**: at any time the bytes `read(consumer, off, size)` has written to the consumer are a
    prefix of the requested range of the ciphertext — so an error can only follow a correct prefix — and a read
    that completes has written exactly the requested range. -/
theorem read_prefix_correct (E : Env H) (cfg : Cfg) (prm : Params) (ser : UEB H → Bytes)
    (encode : Nat → Bytes → Nat → Bytes) (ct : Bytes) (sz : Sizes) (S : Setup E cfg prm ser encode ct sz)
    (pick : List Nat → Nat) (decode : Nat → List (Nat × Bytes) → Bytes) (guess : Nat)
    (scripts : List (Script H)) (off size : Nat) :
    let r := read E cfg pick decode (upload E prm encode ser ct).cap guess scripts
               (Node.init H (upload E prm encode ser ct).cap) off size
    r.1 <+: (ct.drop off).take size ∧ (r.2 = .done → r.1 = (ct.drop off).take size) := by
  intro r
  obtain ⟨off', size', e1, e2⟩ := readLoop_spec S pick decode guess scripts
    (Node.init H (upload E prm encode ser ct).cap) off (min size (ct.length - off)) [] (Or.inl rfl)
  have hclip : (ct.drop off).take (min size (ct.length - off)) = (ct.drop off).take size := by
    rw [← List.take_take]
    have : ct.length - off = (ct.drop off).length := by simp
    rw [this, List.take_length]
  rw [List.nil_append, hclip] at e1
  constructor
  · exact ⟨_, e1⟩
  · intro hd
    have := e2 hd
    subst this
    rw [List.take_zero, List.append_nil] at e1
    exact e1

/-- the same for what the application's consumer sees behind `DecryptingConsumer` (AES-CTR = xor with the
    keystream byte of each file position): a prefix of the requested range of the plaintext -/
theorem read_prefix_correct_plaintext (E : Env H) (cfg : Cfg) (prm : Params) (ser : UEB H → Bytes)
    (encode : Nat → Bytes → Nat → Bytes) (ks : Nat → UInt8) (pt : Bytes) (sz : Sizes)
    (S : Setup E cfg prm ser encode (cryptAt ks 0 pt) sz)
    (pick : List Nat → Nat) (decode : Nat → List (Nat × Bytes) → Bytes) (guess : Nat)
    (scripts : List (Script H)) (off size : Nat) :
    let cap := (upload E prm encode ser (cryptAt ks 0 pt)).cap
    cryptAt ks off (read E cfg pick decode cap guess scripts (Node.init H cap) off size).1
      <+: (pt.drop off).take size := by
  intro cap
  have h := (read_prefix_correct E cfg prm ser encode (cryptAt ks 0 pt) sz S pick decode guess scripts off size).1
  have h2 := cryptAt_prefix ks off h
  have hinvol : ∀ (a : Nat) (l : Bytes), cryptAt ks a (cryptAt ks a l) = l := by
    intro a l
    induction l generalizing a with
    | nil => rfl
    | cons x rest ih =>
      simp only [cryptAt, ih]
      congr 1
      rw [UInt8.xor_assoc, UInt8.xor_self, UInt8.xor_zero]
  rw [cryptAt_drop, ← cryptAt_take, Nat.zero_add] at h2
  rw [hinvol] at h2
  exact h2

/-- **wrong_encoding_rejected**: a share of another encoding of the same ciphertext (other k, N or segment
    size; any erasure coder) carries a different UEB and is abandoned at the UEB-hash step with BadHashError,
    before anything of it is stored in the download node. -/
theorem wrong_encoding_rejected (E : Env H) (cfg : Cfg) (prm prm2 : Params) (ser : UEB H → Bytes)
    (encode encode2 : Nat → Bytes → Nat → Bytes) (ct : Bytes) (sz : Sizes) (S : Setup E cfg prm ser encode ct sz)
    (hparse2 : E.parseUEB (upload E prm2 encode2 ser ct).uebBytes = some (upload E prm2 encode2 ser ct).ueb)
    (hne : prm2 ≠ prm) (pick : List Nat → Nat) (nd : Node H) (hk : nd.known = none) (shnum segnum : Nat)
    (v : View H) (hoff : satisfyOffsets v.version v.offs = none)
    (hv : v.uebBytes = some (upload E prm2 encode2 ser ct).uebBytes) :
    satisfy E cfg pick (upload E prm encode ser ct).cap nd shnum segnum v = (.dead .badHash, nd) := by
  have hbytes : (upload E prm2 encode2 ser ct).uebBytes ≠ (upload E prm encode ser ct).uebBytes := by
    intro e
    have h1 := S.ser_ok
    rw [← e, hparse2] at h1
    injection h1 with h1
    apply hne
    have a1 : (upload E prm2 encode2 ser ct).ueb.segmentSize = (upload E prm encode ser ct).ueb.segmentSize := by rw [h1]
    have a2 : (upload E prm2 encode2 ser ct).ueb.neededShares = (upload E prm encode ser ct).ueb.neededShares := by rw [h1]
    have a3 : (upload E prm2 encode2 ser ct).ueb.totalShares = (upload E prm encode ser ct).ueb.totalShares := by rw [h1]
    have b1 : prm2.segSize = prm.segSize := a1
    have b2 : some prm2.k = some prm.k := a2
    have b3 : some prm2.n = some prm.n := a3
    injection b2 with b2
    injection b3 with b3
    cases prm2; cases prm
    simp_all
  have hhash : E.tagged .ueb (upload E prm2 encode2 ser ct).uebBytes ≠ (upload E prm encode ser ct).cap.uebHash := by
    intro e
    exact hbytes (S.cf _ _ _ e)
  simp only [satisfy, stages, runStages, hoff, stageUEB, hk, hv]
  rw [if_pos hhash]

/-! ### the hypotheses are satisfiable; a concrete instance -/

/-- a two-segment file, 1-of-1 encoding, symbolic hashes -/
def exPrm : Params := { k := 1, n := 1, segSize := 2 }
def exCt : Bytes := [10, 11, 12]
def exSer : UEB SymH → Bytes := fun _ => [7]
def exEncode : Nat → Bytes → Nat → Bytes := fun _ seg _ => seg
def exE0 : Env SymH := { tagged := SymH.tagged, ops := symOpsH, parseUEB := fun _ => none }
def exE : Env SymH :=
  { exE0 with parseUEB := fun b => if b = [7] then some (upload exE0 exPrm exEncode exSer exCt).ueb else none }
def exSz : Sizes := { tailSegSize := 1, tailPadded := 1, numSegs := 2, blockSize := 2, tailBlockSize := 1 }

theorem exSetup : Setup exE Cfg.asIs exPrm exSer exEncode exCt exSz where
  cf := by intro t a b h; injection h
  inj := by intro a b c d h; injection h with h1 h2; exact ⟨h1, h2⟩
  strict := fun _ => rfl
  ser_ok := rfl
  sizes := by decide

/-- an honest server: every field as published -/
def exHonest (segnum : Nat) : View SymH :=
  let P := upload exE exPrm exEncode exSer exCt
  { version := 1, offs := { data := 36, plaintextHT := 39, crypttextHT := 135, blockHashes := 231,
                            shareHashes := 327, uriExtension := 327 },
    uebBytes := some [7], shareHashes := [], blockHashes := fun i => get (P.blockT 0) i,
    ctHashes := fun i => get P.ctT i, block := P.block 0 segnum }

/-- a forging server: the second block replaced, with a block hash tree recomputed over the forged block -/
def exForged : View SymH :=
  { exHonest 1 with
    block := [99],
    blockHashes := fun i => get (build symOpsH [SymH.tagged .block [10, 11], SymH.tagged .block [99]]) i }

/-- the honest answers deliver both segments; the forged second block (with a self-consistent block hash tree)
    is not delivered; after the rejection the honest share still delivers the genuine segment -/
example :
    let cap := (upload exE exPrm exEncode exSer exCt).cap
    let dec : Nat → List (Nat × Bytes) → Bytes := fun _ bl => (bl.head?.map (·.2)).getD []
    let r0 := fetchSegment exE Cfg.asIs (fun _ => 0) dec cap (Node.init SymH cap) 0 [(0, exHonest 0)]
    let r1 := fetchSegment exE Cfg.asIs (fun _ => 0) dec cap r0.2 1 [(0, exForged)]
    let r2 := fetchSegment exE Cfg.asIs (fun _ => 0) dec cap r1.2 1 [(0, exHonest 1)]
    r0.1.toOption = some (0, [10, 11]) ∧ r1.1.toOption = none ∧ r2.1.toOption = some (2, [12]) := by
  decide

/-- a whole read of the honest shares writes the file; with the forged answer for the second segment it writes
    the first segment only and ends in an error -/
example :
    let cap := (upload exE exPrm exEncode exSer exCt).cap
    let dec : Nat → List (Nat × Bytes) → Bytes := fun _ bl => (bl.head?.map (·.2)).getD []
    read exE Cfg.asIs (fun _ => 0) dec cap 4 [[(0, exHonest 0)], [(0, exHonest 1)]] (Node.init SymH cap) 0 3
      = ([10, 11, 12], .done) ∧
    read exE Cfg.asIs (fun _ => 0) dec cap 4 [[(0, exHonest 0)], [(0, exForged)]] (Node.init SymH cap) 0 3
      = ([10, 11], .error) := by
  decide

/-- the segment-size guess is wrong in either direction (real segment size 2): with guess 1 the first request of
    `read(off = 1, size = 2)` is for segment 1, which does not hold byte 1 — WrongSegmentError, retried with the
    real size; with guess 1 and `off = 2` the guessed segment 2 does not exist — BadSegmentNumberError, retried;
    with guess 4 the guessed segment 0 is short of the real one and the loop simply continues.  In every case
    exactly `ct[off, off+size)` is written (for all guesses and all server behaviour this is `read_prefix_correct`). -/
example :
    let cap := (upload exE exPrm exEncode exSer exCt).cap
    let dec : Nat → List (Nat × Bytes) → Bytes := fun _ bl => (bl.head?.map (·.2)).getD []
    read exE Cfg.asIs (fun _ => 0) dec cap 1 [[(0, exHonest 1)], [(0, exHonest 0)], [(0, exHonest 1)]] (Node.init SymH cap) 1 2
      = ([11, 12], .done) ∧
    read exE Cfg.asIs (fun _ => 0) dec cap 1 [[(0, exHonest 2)], [(0, exHonest 1)]] (Node.init SymH cap) 2 1
      = ([12], .done) ∧
    read exE Cfg.asIs (fun _ => 0) dec cap 4 [[(0, exHonest 0)], [(0, exHonest 1)]] (Node.init SymH cap) 1 2
      = ([11, 12], .done) := by
  decide

/-- the same ciphertext encoded with segment size 1: its UEB is refused under the first cap -/
example :
    let prm2 : Params := { k := 1, n := 1, segSize := 1 }
    let ser2 : UEB SymH → Bytes := fun u => if u.segmentSize = 2 then [7] else [8]
    (upload exE exPrm exEncode ser2 exCt).uebBytes ≠ (upload exE prm2 exEncode ser2 exCt).uebBytes := by
  decide

end Tahoe.C02
