import Tahoe.Http.LemmasMarshal
import Tahoe.Http.LemmasServer
import Tahoe.Http.LemmasDirect
import Tahoe.Http.LemmasGate
/-! C31 — HTTP and direct storage access agree (property theorems; helper lemmas are in
`Tahoe/Http/LemmasMarshal.lean`, `LemmasServer.lean`, `LemmasDirect.lean`, `LemmasCodec.lean`, `LemmasGate.lean`).

Two executable models over one abstract state: `directStep` (`Http/Direct.lean`: the `StorageServer` calls a
local / Foolscap caller makes) and the HTTP path = client (`Http/Client.lean`) ∘ gate ∘ handler
(`Http/Server.lean`).  `handledStep` is the HTTP path behind the authorization gate.

## Coverage of the statement (properties.jsonl C31)

| clause | theorem(s) |
|---|---|
| "for any sequence of storage operations, issuing them through the HTTP client against the HTTP server gives the same results and leaves the same server state as calling the storage server directly" | `http_path_eq_direct` (one operation: `clientStep sw st op = directStep st op`, through client, gate and handler) and `http_history_eq_direct` (every history, by induction), for operations as real clients put them on the wire (`WireOk`: non-empty secrets / 32-byte lease secrets, canonical storage-index string, share number < 256; `OpOk`: own upload secret, read-test-write within the schema bounds).  Built from `client_request_passes_gate` (base64 / UTF-8 round trip of the client's headers: `b64_roundtrip`), `client_url_is_routed`, and the behind-the-gate theorems `http_handlers_eq_direct_partial`, `http_history_eq_direct_partial` |
| range reads, including past the end | `http_read_eq_direct` (all offsets / lengths incl. 0, both non-raising variants), `http_read_eq_direct_generated`, `read_range_decision`, `read_range_rejects`, missing shares: `http_read_opt_eq_direct_probe`; `zero_length_read_probes` pins the repaired client variant |
| chunked immutable uploads with completion detection | `chunked_upload_eq_single` (any chunking / order / overlap of consistent non-empty chunks), `write_handler_is_upStep`, `chunk_answer` |
| read-test-write results | `rtw_marshal_roundtrip`, `rtw_wire_keys_agree`, `rtw_schema_bound_witness`; the operation itself inside `http_handlers_eq_direct_partial` (`.rtw` case: same `ssRtw` call, same result after the CBOR round trip); `mutable_write_read_back` |
| share listing | `http_handlers_eq_direct_partial` (`.list`, `.mlist`) |
| lease addition | `http_handlers_eq_direct_partial` (`.lease`); lease side effect of allocation on existing shares: `http_allocate_eq_direct_leases`, `allocate_renews_existing_leases`, `allocate_without_renewal_differs` |
| the tie of both models to the code | correspondence only: three-way replay (real direct calls vs `directStep`, real HTTP path vs `clientStep` and `handledStep`, share files byte for byte) |
-/
namespace Tahoe.C31
open Tahoe.Http

/-- the client variant in force (generated from the live `read_share_chunk`) does not raise on a zero-length
read; reverting repair 04453c5 turns `Generated.Http.zeroLengthRead` into "raise" and breaks this theorem. -/
theorem zero_length_read_does_not_raise : zeroRead ≠ .raise := by decide

/-- what that pin guards against: with the pre-04453c5 client a zero-length read raises `ValueError` in the
client while the direct read returns the empty string -/
theorem zero_length_read_raise_witness :
    httpRead .raise [1, 2, 3] 1 0 = .valueError ∧ readShareData [1, 2, 3] 1 0 = [] := by decide

/-- a range request for `reqLen > 0` bytes of which the caller keeps `length ≤ reqLen` -/
theorem sent_read (d : Bytes) (offset reqLen length : Nat) (h : 0 < reqLen) (_hl : length ≤ reqLen) :
    clientInterpretRead reqLen length (readRange (some (some (rangeFor offset reqLen))) d)
      = .data ((readShareData d offset reqLen).take length) := by
  simp only [readRange, rangeFor, List.length_cons, List.length_nil]
  have hneg : ¬ ((offset : Int) < 0) := by omega
  simp only [ne_eq, not_true_eq_false, if_false, Nat.lt_irrefl, hneg, Int.toNat_natCast]
  by_cases hge : offset ≥ min (offset + reqLen) d.length
  · rw [if_pos hge]
    have : d.length ≤ offset := by omega
    simp [clientInterpretRead, readShareData, List.drop_eq_nil_of_le this]
  · rw [if_neg hge]
    have hlen : (readShareData d offset (min (offset + reqLen) d.length - offset)).length
        = min (offset + reqLen) d.length - offset := by
      simp [readShareData]; omega
    have heq : readShareData d offset (min (offset + reqLen) d.length - offset) = readShareData d offset reqLen := by
      unfold readShareData
      rw [List.take_eq_take_iff]
      simp; omega
    simp only [clientInterpretRead]
    rw [if_neg (by omega), hlen, if_neg (by omega), heq]

/-- **HTTP range read = direct read**, for every content, offset and length — zero, positive, reaching or
starting past the end of the share — and for both non-raising client variants.  (Past the end: the server
clips the end to the share length and answers 206 with the shorter body, or 204 when nothing is left, which the
client maps to `b""` — exactly the truncation `read_share_data` performs.) -/
theorem http_read_eq_direct (m : ZeroRead) (hm : m ≠ .raise) (d : Bytes) (offset length : Nat) :
    httpRead m d offset length = .data (readShareData d offset length) := by
  unfold httpRead httpReadOpt clientReadPlan
  by_cases h0 : length = 0
  · subst h0
    have hz : readShareData d offset 0 = [] := by simp [readShareData]
    cases m with
    | raise => exact absurd rfl hm
    | empty => simp [hz]
    | probe =>
      simp only [if_true]
      rw [sent_read d offset 1 0 (by omega) (by omega), hz]
      simp
  · rw [if_neg h0]
    simp only
    rw [sent_read d offset length length (by omega) (Nat.le_refl _)]
    have : (readShareData d offset length).length ≤ length := by simp [readShareData]; omega
    rw [List.take_of_length_le this]

/-- the variant the code has, instantiated -/
theorem http_read_eq_direct_generated (d : Bytes) (offset length : Nat) :
    httpRead zeroRead d offset length = .data (readShareData d offset length) :=
  http_read_eq_direct zeroRead zero_length_read_does_not_raise d offset length

example : httpRead .empty [10, 11, 12, 13, 14] 3 10 = .data [13, 14] ∧ httpRead .probe [10, 11, 12, 13, 14] 5 2 = .data []
    ∧ httpRead .empty [10, 11, 12, 13, 14] 9 1 = .data [] ∧ httpRead .probe [10, 11, 12, 13, 14] 1 2 = .data [11, 12]
    ∧ httpRead .probe [10, 11, 12, 13, 14] 2 0 = .data [] ∧ httpRead .empty [10, 11, 12, 13, 14] 2 0 = .data [] := by decide

/-- **Missing share.**  With the one-byte probe, a read of a share that does not exist is answered 404 for every
offset and length (the direct paths have no entry for it), and a read of an existing share is the direct read:
both paths agree on every read. -/
theorem http_read_opt_eq_direct_probe (share : Option Bytes) (offset length : Nat) :
    httpReadOpt .probe share offset length =
      match directReadOpt share offset length with
      | none => .httpError 404
      | some b => .data b := by
  cases share with
  | none =>
    unfold httpReadOpt clientReadPlan directReadOpt
    by_cases h0 : length = 0 <;> simp [h0]
  | some d =>
    have := http_read_eq_direct .probe (by decide) d offset length
    simpa [httpRead, directReadOpt] using this

/-- With the early return of 04453c5 the same holds except for one case: a zero-length read of a missing
share (witness below).  Known finding `zero-length-read-missing-share`; repair proposed in
`fixes/C31-zero-length-missing-share.diff` (the probe variant). -/
theorem http_read_opt_eq_direct_empty_partial (share : Option Bytes) (offset length : Nat)
    (h : 0 < length ∨ share.isSome) :
    httpReadOpt .empty share offset length =
      match directReadOpt share offset length with
      | none => .httpError 404
      | some b => .data b := by
  cases share with
  | none =>
    have hl : length ≠ 0 := by
      rcases h with h | h
      · omega
      · cases h
    unfold httpReadOpt clientReadPlan directReadOpt
    simp [hl]
  | some d =>
    have := http_read_eq_direct .empty (by decide) d offset length
    simpa [httpRead, directReadOpt] using this

theorem zero_length_missing_share_counterexample :
    httpReadOpt .empty none 5 0 = .data [] ∧ directReadOpt none 5 0 = none := by decide

/-- the server's range decision on its own: a parsed single `bytes=a-b` range (exclusive end `e`) gives 204
when nothing of the share lies in it, else 206 carrying exactly the bytes `[a, min(e, len))`; anything else
(other units, several ranges, no end) is 416. -/
theorem read_range_decision (d : Bytes) (a e : Nat) :
    readRange (some (some ⟨"bytes", [((a : Int), some (e : Int))]⟩)) d =
      if a ≥ min e d.length then .noContent204
      else .partial206 a (min e d.length) (readShareData d a (min e d.length - a)) := by
  have hneg : ¬ ((a : Int) < 0) := by omega
  simp [readRange, hneg]

theorem read_range_rejects (d : Bytes) (units : String) (rs : List (Int × Option Int))
    (h : units ≠ "bytes" ∨ rs.length > 1 ∨ ∃ s, rs = [(s, none)]) :
    readRange (some (some ⟨units, rs⟩)) d = .rangeNotSatisfiable416 := by
  unfold readRange
  simp only
  by_cases hu : units = "bytes"
  · rw [if_neg (by simpa using hu)]
    by_cases hl : rs.length > 1
    · rw [if_pos hl]
    · rw [if_neg hl]
      rcases h with h | h | ⟨s, rfl⟩
      · exact absurd hu h
      · exact absurd h hl
      · rfl
  · rw [if_pos hu]

/-- **Chunked upload = single write.**  Let `target` be the share a well-behaved uploader sends and `chunks`
any list — any chunking, any order, overlaps and repetitions allowed — of non-empty slices of it (the only
chunks the client can put into a `Content-Range`).  Starting from a fresh allocation of `target.length` bytes:
no chunk is ever answered 409 or 500; the upload is closed (201, share moved to its final place) holding
exactly `target` — the result of a single write of the whole share — if and only if the chunks cover every
offset; the `k`-th answer reports completion exactly when the first `k+1` chunks cover the share and the first
`k` do not; later chunks find no upload in progress (404). -/
theorem chunked_upload_eq_single (target : Bytes) (chunks : List (Nat × Bytes))
    (h : ∀ c ∈ chunks, Consistent target c) (hne : target ≠ []) :
    runUpload (.opened (List.replicate target.length none)) chunks
      = (if fullCover target.length chunks then .closed target else .opened (cellsOf target chunks),
         expectedResults target [] chunks)
    ∧ runUpload (.opened (List.replicate target.length none)) [(0, target)] = (.closed target, [.progress true []]) := by
  have hinit : UpSt.opened (List.replicate target.length none) = expectedState target [] := by
    have hnf : ¬ fullCover target.length [] := by
      intro hf
      have hpos : 0 < target.length := List.length_pos_iff.mpr hne
      have := hf 0 hpos
      simp [covers] at this
    unfold expectedState
    rw [if_neg hnf]
    congr 1
    apply List.ext_getElem?
    intro i
    by_cases hi : i < target.length
    · rw [cellsOf_get target [] i hi]
      simp [covers, hi]
    · rw [List.getElem?_eq_none (by simp; omega), List.getElem?_eq_none (by rw [cellsOf_length]; omega)]
  constructor
  · rw [hinit, runUpload_consistent target [] chunks h]
    simp [expectedState]
  · have hc : Consistent target (0, target) := ⟨hne, by simp, fun j _ => by simp⟩
    have hfull : fullCover target.length ([] ++ [(0, target)]) := by
      intro i hi
      simp [covers, hi]
    have hnf : ¬ fullCover target.length [] := by
      intro hf
      have hpos : 0 < target.length := List.length_pos_iff.mpr hne
      have := hf 0 hpos
      simp [covers] at this
    rw [hinit, runUpload_consistent target [] [(0, target)] (by simpa using hc)]
    simp only [expectedState, expectedResults, expectedRes, List.nil_append] at *
    rw [if_pos hfull, if_neg hnf, if_pos hfull]

/-- the PATCH handler of the server model (`HTTPServer.write_share_data` behind the authorization gate) is
`upStep` on the upload's cells: what `chunked_upload_eq_single` says about `runUpload` is what the server does
with the chunks the client sends (`clientContentRange` is the header `write_share_chunk` builds). -/
theorem write_handler_is_upStep (st : State) (sec : SecretsDict) (si : String) (n : Nat) (u : Upload) (off : Nat) (data : Bytes)
    (hu : lookupK (si, n) st.up = some u) (hs : u.secret = getS sec .upload) (hne : data ≠ []) :
    hWrite st sec si n (clientContentRange off data) data = writeOutcome st si n u (upStep (.opened u.cells) (off, data)) :=
  write_handler_is_upStep_aux st sec si n u off data hu hs hne

/-- the answers spelled out: 404 once the share was complete, 201 exactly at full coverage, else 200 with the
still required ranges -/
theorem chunk_answer (target : Bytes) (done : List (Nat × Bytes)) (c : Nat × Bytes) :
    expectedRes target done c =
      if fullCover target.length done then .gone
      else if fullCover target.length (done ++ [c]) then .progress true []
      else .progress false (required (cellsOf target (done ++ [c]))) := rfl

-- three chunks of a 5-byte share, out of order and overlapping: completion is reported by the third one
example : (runUpload (.opened (List.replicate 5 none)) [(3, [13, 14]), (0, [10, 11]), (1, [11, 12, 13]), (0, [10])]).2
    = [.progress false [(0, 3)], .progress false [(2, 3)], .progress true [], .gone] ∧
    (runUpload (.opened (List.replicate 5 none)) [(3, [13, 14]), (0, [10, 11]), (1, [11, 12, 13]), (0, [10])]).1
    = .closed [10, 11, 12, 13, 14] := by decide

-- a chunk that is not a slice of what was written before is refused (409) and changes nothing
example : runUpload (.opened (List.replicate 3 none)) [(0, [1, 2]), (1, [9, 3])]
    = (.opened [some 1, some 2, none], [.progress false [(2, 3)], .conflict]) := by decide

/-- **Read-test-write marshalling round trip.**  What the server handler passes to
`slot_testv_and_readv_and_writev` after CBOR/CDDL decoding of the client's message is exactly what the direct
caller passes (within the schema's documented bounds: ≤ 256 shares, ≤ 30 test vectors per share, ≤ 30 read
vectors), and the result the client returns is exactly the server's result. -/
theorem rtw_marshal_roundtrip (a : RtwArgs) (r : RtwResult)
    (hs : a.tw.length ≤ 256) (hr : a.rv.length ≤ 30) (ht : ∀ p ∈ a.tw, p.2.tests.length ≤ 30) :
    decRtw (encRtw a) = some a ∧ decRtwResult (encRtwResult r) = some r :=
  ⟨decRtw_enc a hs hr ht, decRtwResult_enc r⟩

/-- beyond the schema bounds the HTTP path answers 400 where the direct call has no limit (documented API bound) -/
theorem rtw_schema_bound_witness :
    decRtw (encRtw ⟨[], List.replicate 31 (0, 0)⟩) = none := by decide

example : decRtw (encRtw ⟨[(3, ⟨[⟨0, 2, [7, 8]⟩], [(5, [1])], some 9⟩), (0, ⟨[], [], none⟩)], [(0, 4)]⟩)
    = some ⟨[(3, ⟨[⟨0, 2, [7, 8]⟩], [(5, [1])], some 9⟩), (0, ⟨[], [], none⟩)], [(0, 4)]⟩ := by decide

/-- the keys the client writes are the keys the server handler reads (generated from both sides of the live
code: `TestWriteVectors.asdict()` / `attrs.asdict` vs the string constants of `mutable_read_test_write`) -/
theorem rtw_wire_keys_agree :
    (Generated.Http.rtwClientShareKeys ++ Generated.Http.rtwClientTestKeys ++ Generated.Http.rtwClientWriteKeys
      ++ Generated.Http.rtwClientReadKeys).all (fun k => Generated.Http.rtwServerKeys.contains k) = true ∧
    Generated.Http.rtwClientShareKeys = ["new-length", "test", "write"] ∧
    Generated.Http.rtwClientTestKeys = ["offset", "size", "specimen"] ∧
    Generated.Http.rtwClientWriteKeys = ["data", "offset"] ∧
    Generated.Http.rtwClientReadKeys = ["offset", "size"] := by decide

/-- mutable writes over either path act on the logical data like `pwrite` with zero fill: reading back a
non-empty write returns it -/
theorem mutable_write_read_back (d : Bytes) (offset : Nat) (w : Bytes) :
    readShareData (mutWrite d offset w) offset w.length = w := by
  unfold readShareData mutWrite
  have h1 : (List.take offset d ++ List.replicate (offset - (List.take offset d).length) 0).length = offset := by
    simp; omega
  rw [List.append_assoc, List.append_assoc, ← List.append_assoc (List.take offset d)]
  rw [List.drop_append_of_le_length (by omega), List.drop_of_length_le (by omega)]
  simp

/-! ### the two paths, operation by operation and history by history -/

/-- the client variant in force asks for one byte on a zero-length read (repair 187862a) -/
theorem zero_length_read_probes : zeroRead = .probe := by decide

/-
The two theorems below are the HTTP path *behind the gate* (`handledStep` feeds the handler the route, secrets and
payload the client puts on the wire); `http_path_eq_direct` / `http_history_eq_direct` further down add the gate
(`client_request_passes_gate`, `client_url_is_routed`) and state the full `clientStep sw st op = directStep st op`.
They keep the `_partial` suffix only because they stop at the gate.
-/

/-- **HTTP path = direct path, per operation**: for every state and every operation a well-behaved client issues
(`OpOk`: own upload secret; read-test-write within the schema bounds) the handler behind the gate returns the
direct call's result and leaves the direct call's state. -/
theorem http_handlers_eq_direct_partial (st : State) (op : Op) (h : OpOk st op) :
    handledStep st op = directStep st op := by
  cases op with
  | create si ns size u r c => exact handled_create st si ns size u r c
  | write si n u off d => exact handled_write st si n u off d h
  | abort si n u => exact handled_abort st si n u h
  | read si n off len => exact handled_read zero_length_read_probes st si n off len
  | mread si n off len => exact handled_mread zero_length_read_probes st si n off len
  | list si => exact handled_list st si
  | mlist si => exact handled_mlist st si
  | lease si r c => exact handled_lease st si r c
  | rtw si we r c a => exact handled_rtw st si we r c a h

/-- **HTTP path = direct path, per history** (any length, by induction): same results, same final state. -/
theorem http_history_eq_direct_partial (st : State) (ops : List Op) (h : HistoryOk st ops) :
    handledRun st ops = directRun st ops := by
  induction ops generalizing st with
  | nil => rfl
  | cons op rest ih =>
    obtain ⟨h1, h2⟩ := h
    simp only [handledRun, directRun, http_handlers_eq_direct_partial st op h1]
    rw [ih _ h2]

-- allocate two shares, upload one in two out-of-order chunks, read past its end, add a lease: both paths agree
example :
    let si := "aaaaaaaaaaaaaaaaaaaaaaaaaa"
    let ops : List Op := [.create si [0, 1] 3 [5] [1] [2], .write si 0 [5] 1 [8, 9], .write si 0 [5] 0 [7], .read si 0 1 10,
                          .read si 0 2 0, .read si 1 0 0, .lease si [3] [4], .list si, .abort si 1 [5]]
    handledRun {} ops = directRun {} ops ∧
    (directRun {} ops).2 = [.created [] [0, 1], .progress false [(0, 1)], .progress true [], .data [8, 9], .data [],
                             .httpError 404, .done, .shares [0], .done] := by decide

-- outside `OpOk`: a write with somebody else's upload secret is refused over HTTP (401); the direct path has no secrets
example : (handledStep { up := [(("aaaaaaaaaaaaaaaaaaaaaaaaaa", 0), ⟨[9], [none], ([], [])⟩)] }
            (.write "aaaaaaaaaaaaaaaaaaaaaaaaaa" 0 [5] 0 [1])).2 = .httpError 401 := by decide

/-- **Allocation and leases.**  `POST /immutable/<si>` and a direct `allocate_buckets` leave the same leases on the
shares the server already holds (and the same uploads, the same answer). -/
theorem http_allocate_eq_direct_leases (st : State) (si : String) (ns : List Nat) (size : Nat) (u r c : Bytes) :
    (handledStep st (.create si ns size u r c)).1.imm = (directStep st (.create si ns size u r c)).1.imm ∧
    handledStep st (.create si ns size u r c) = directStep st (.create si ns size u r c) := by
  have := handled_create st si ns size u r c
  exact ⟨by rw [this], this⟩

/-- what that lease state is: after an allocation every share of the storage index that was already complete
carries a lease with the caller's renew secret -/
theorem allocate_renews_existing_leases (st : State) (si : String) (ns : List Nat) (size : Nat) (u r c : Bytes)
    (e : Key × ImmShare) (he : e ∈ (directStep st (.create si ns size u r c)).1.imm) (hsi : e.1.1 = si) :
    ∃ l ∈ e.2.leases, l.1 = r := by
  simp only [directStep, ssAllocate, if_true] at he
  rw [List.mem_map] at he
  obtain ⟨e0, _, rfl⟩ := he
  by_cases h0 : e0.1.1 = si
  · simp only [h0, if_true]
    unfold addOrRenew
    split
    · rename_i hany
      rw [List.any_eq_true] at hany
      obtain ⟨x, hx, hx2⟩ := hany
      exact ⟨x, hx, by simpa using hx2⟩
    · exact ⟨(r, c), by simp, rfl⟩
  · simp only [h0, if_false] at hsi

/-- the seeded variant `allocate_buckets(..., renew_leases=False)` is a different function: an existing share
keeps only its old lease -/
theorem allocate_without_renewal_differs :
    let st : State := { imm := [(("aaaaaaaaaaaaaaaaaaaaaaaaaa", 0), ⟨[1], [([1], [2])]⟩)] }
    (ssAllocate true st "aaaaaaaaaaaaaaaaaaaaaaaaaa" [1] 1 [5] ([3], [4])).1.imm
      = [(("aaaaaaaaaaaaaaaaaaaaaaaaaa", 0), ⟨[1], [([1], [2]), ([3], [4])]⟩)] ∧
    (ssAllocate false st "aaaaaaaaaaaaaaaaaaaaaaaaaa" [1] 1 [5] ([3], [4])).1.imm
      = [(("aaaaaaaaaaaaaaaaaaaaaaaaaa", 0), ⟨[1], [([1], [2])]⟩)] := by decide

-- the seeds of round a/b in the model: a test vector whose size differs from its specimen's length is evaluated with
-- its size; an empty write beyond the end survives the wire and extends the share
example : testsPass [(0, [1, 2, 3])] [(0, ⟨[⟨0, 1, []⟩], [], none⟩)] = false ∧
    testsPass [] [(0, ⟨[⟨0, 1, []⟩], [], none⟩)] = true := by decide
example : decRtw (encRtw ⟨[(0, ⟨[], [(5, [])], none⟩)], []⟩) = some ⟨[(0, ⟨[], [(5, [])], none⟩)], []⟩ ∧
    mutWritev [1, 2] [(5, [])] none = [1, 2, 0, 0, 0] := by decide

/-! ### through the gate: the whole HTTP path -/

/-- `base64.b64decode(base64.b64encode(v))` is `v`, for the lenient decoder the server uses -/
theorem b64_roundtrip (v : Bytes) : b64decodeStr ((b64encode v).map UInt8.toNat) = some v :=
  b64decodeStr_b64encode v

/-- **The client-built request passes the gate.**  For any route the URL matches whose required secret kinds are the
ones the client sends, with secrets a server accepts (non-empty, lease secrets 32 bytes): the swissnum header and the
`X-Tahoe-Authorization` headers `StorageClient._request` writes are accepted, and the handler receives exactly the
client's secrets. -/
theorem client_request_passes_gate (sw : Bytes) (method : String) (path : List String) (secrets : List (Secret × Bytes))
    (body : Body) (m : Matched) (hm : matchRoute method path = some m) (hs : ∀ p ∈ secrets, SecretOk p)
    (hk : ∀ k, k ∈ m.required ↔ ∃ p ∈ secrets, p.1 = k) :
    gate sw (mkRequest sw method path secrets body) = .pass m (collect [] secrets) :=
  gate_client sw method path secrets body m hm hs hk

/-- the URL the client renders reaches the endpoint it means (canonical storage-index string; a share number whose
decimal rendering reads back — every number below 256, `shnum_roundtrip_256`) -/
theorem client_url_is_routed (op : Op) (hsi : canonSI (opSI op) = some (opSI op)) (hn : opShnum op < 256) : RouteOk op :=
  route_ok op hsi (shnum_roundtrip_256 _ hn)

/-- **HTTP path = direct path**, one operation, through client, gate and handler: same result, same state. -/
theorem http_path_eq_direct (sw : Bytes) (st : State) (op : Op) (hop : OpOk st op) (hw : WireOk op) :
    clientStep sw st op = directStep st op :=
  clientStep_eq_directStep sw st op hop hw.1 hw.2.1 (shnum_roundtrip_256 _ hw.2.2) zero_length_read_probes

/-- **HTTP path = direct path**, every history (any length): same results, same final state. -/
theorem http_history_eq_direct (sw : Bytes) (st : State) (ops : List Op) (h : HistoryOk st ops) (hw : ∀ op ∈ ops, WireOk op) :
    clientRun sw st ops = directRun st ops :=
  clientRun_eq_directRun sw st ops h hw zero_length_read_probes

-- an upload, a read and a lease through the real gate (base64-encoded secrets, rendered URLs): both paths agree
example :
    let si := "aaaaaaaaaaaaaaaaaaaaaaaaaa"
    let r32 : Bytes := List.replicate 32 7
    let ops : List Op := [.create si [0] 2 [5] r32 r32, .write si 0 [5] 0 [8, 9], .read si 0 0 5, .lease si r32 r32, .list si]
    clientRun [1, 2] {} ops = directRun {} ops ∧
    (clientRun [1, 2] {} ops).2 = [.created [] [0], .progress true [], .data [8, 9], .done, .shares [0]] := by decide

-- outside `WireOk`: an empty upload secret cannot be written into a header the server accepts (400), a lease secret
-- that is not 32 bytes long is refused (400); the direct call has no such check
example : (clientStep [1] {} (.create "aaaaaaaaaaaaaaaaaaaaaaaaaa" [0] 2 [] (List.replicate 32 7) (List.replicate 32 7))).2
    = .httpError 400 ∧
    (clientStep [1] {} (.lease "aaaaaaaaaaaaaaaaaaaaaaaaaa" [1] [2])).2 = .httpError 400 := by decide

end Tahoe.C31
