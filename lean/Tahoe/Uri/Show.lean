import Tahoe.Base.DrvUtil
import Tahoe.Uri.Caps
/-! Canonical text forms shared by the drivers `Drv/C15.lean` and `Drv/C16.lean` (no logic). -/
namespace Tahoe.Uri
open Tahoe.Drv

def kindName : FileKind → String
  | .chk => "CHK" | .chkV => "CHKV" | .lit => "LIT" | .ssk => "SSK" | .sskRo => "SSKRO" | .sskV => "SSKV"
  | .mdmf => "MDMF" | .mdmfRo => "MDMFRO" | .mdmfV => "MDMFV"

def kindOfName (s : String) : Option FileKind :=
  FileKind.all.find? (fun k => kindName k == s)

def showFields : FileCap → String
  | .chk a ueb k n size | .chkV a ueb k n size => s!"{hexOfBytes a} {hexOfBytes ueb} {k} {n} {size}"
  | .lit d => hexOfBytes d
  | .ssk a fp | .sskRo a fp | .sskV a fp | .mdmf a fp | .mdmfRo a fp | .mdmfV a fp => s!"{hexOfBytes a} {hexOfBytes fp}"

def showErr : Option Err → String
  | none => "none" | some .badURI => "BadURI" | some .mustBeDeepImmutable => "MustBeDeepImmutable"
  | some .mustBeReadonly => "MustBeReadonly" | some .mustNotBeUnknownRW => "MustNotBeUnknownRW"

def showCap : Cap → String
  | .file f => s!"F {kindName f.kind} {showFields f}"
  | .dir dk f => s!"D {kindName dk} {kindName f.kind} {showFields f}"
  | .unknown _ e => s!"U {showErr e}"

def showOptBytes : Option Bytes → String
  | none => "None" | some b => hexOfBytes b

def showOptBool : Option Bool → String
  | none => "None" | some true => "1" | some false => "0"

/-- fields of a file cap from tokens -/
def parseFileCap (k : FileKind) (toks : List String) : Option FileCap :=
  match k, toks with
  | .chk, [a, u, kk, n, sz] => do pure (.chk (← bytesOfHex a) (← bytesOfHex u) (← kk.toNat?) (← n.toNat?) (← sz.toNat?))
  | .chkV, [a, u, kk, n, sz] => do pure (.chkV (← bytesOfHex a) (← bytesOfHex u) (← kk.toNat?) (← n.toNat?) (← sz.toNat?))
  | .lit, [d] => do pure (.lit (← bytesOfHex d))
  | .ssk, [a, f] => do pure (.ssk (← bytesOfHex a) (← bytesOfHex f))
  | .sskRo, [a, f] => do pure (.sskRo (← bytesOfHex a) (← bytesOfHex f))
  | .sskV, [a, f] => do pure (.sskV (← bytesOfHex a) (← bytesOfHex f))
  | .mdmf, [a, f] => do pure (.mdmf (← bytesOfHex a) (← bytesOfHex f))
  | .mdmfRo, [a, f] => do pure (.mdmfRo (← bytesOfHex a) (← bytesOfHex f))
  | .mdmfV, [a, f] => do pure (.mdmfV (← bytesOfHex a) (← bytesOfHex f))
  | _, _ => none

/-- `F KIND fields…` or `D DIRKIND KIND fields…` -/
def parseCap : List String → Option Cap
  | "F" :: k :: rest => do pure (.file (← parseFileCap (← kindOfName k) rest))
  | "D" :: dk :: k :: rest => do pure (.dir (← kindOfName dk) (← parseFileCap (← kindOfName k) rest))
  | _ => none

def parseBool : String → Option Bool
  | "0" => some false | "1" => some true | _ => none

/-- `N` = None, otherwise hex (`-` = empty) -/
def parseOptBytes (s : String) : Option (Option Bytes) :=
  if s == "N" then some none else (bytesOfHex s).map some

end Tahoe.Uri
