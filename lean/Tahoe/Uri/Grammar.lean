/-
Byte-level grammar of Tahoe-LAFS capability strings (`src/allmydata/uri.py`, `util/base32.py`).
Mathlib-free; executable; used by the drivers `Drv/C15.lean` and `Drv/C16.lean`.

What is mirrored
* `base32.b2a` / `base32.a2b` (RFC 3548 lower-case alphabet, no padding), written block-wise
  (5 octets <-> 8 quintets) with `Nat` arithmetic on the octet values.  `a2b` *truncates* spare low
  bits exactly as CPython's `base64.b32decode` does after `a2b` re-adds the `=` padding; the
  regexes only ever hand it strings whose spare bits are zero.
* `b'%d' % n` (`natToDec`) and `int(digits)` (`decToNat`).
* every `STRING_RE` as a list of `Piece`s.  `render` turns the same list back into the regex
  source text, and `Tahoe/Props/C15.lean` pins `render spec = <pattern extracted from uri.py>`,
  so the recogniser and the pattern text cannot drift apart silently.
* `matchPieces` is a deterministic matcher.  It is equivalent to Python's backtracking
  `re.search` on these particular patterns because (i) the patterns start with `^` (no MULTILINE),
  so `search` = match at offset 0; (ii) the base32 groups have a fixed length; (iii) a number group
  is always followed by `:` or `$` or the end of the pattern, none of which can consume a digit, so
  only the maximal digit run can lead to a match (and for the unanchored pattern the greedy first
  match is the maximal run); (iv) the LIT body is followed by `$`, which cannot match in front of a
  base32 character, so the group must be the maximal base32 run; inside it `(?:B{8})*(?:|..)` has
  exactly one way to split a run of length L (L / 8 blocks, tail L % 8 in {0,2,4,5,7});
  (v) `$` (no MULTILINE) matches at the very end or just before a final "\n".
  The equivalence is what the correspondence run of C15 checks against the real `re` module.

Deviation: the number piece exists in two variants.  `Piece.number true` is the *repaired* pattern
`(0|[1-9][0-9]*)` proposed in /verif/fixes/C15-canonical-numbers.diff, `Piece.number false` is
`([0-9]+)` as written in the unrepaired tree.  Likewise `specAsWritten` keeps the CHK-verifier
pattern without its final `$`.  The theorems of C15 are about `spec` (repaired); the as-written
variants are kept so that the defect witnesses can be stated in Lean.
-/
namespace Tahoe.Uri

abbrev Bytes := List UInt8

/-! ### base32 -/

/-- `[abcdefghijklmnopqrstuvwxyz234567]` -/
def isB32 (c : UInt8) : Bool := (97 ≤ c && c ≤ 122) || (50 ≤ c && c ≤ 55)

/-- quintet value of a base32 character (meaningful only when `isB32 c`) -/
def b32val (c : UInt8) : Nat := if 97 ≤ c then c.toNat - 97 else c.toNat - 24

/-- character of a quintet value `< 32` -/
def b32chr (n : Nat) : UInt8 := if n < 26 then UInt8.ofNat (97 + n) else UInt8.ofNat (24 + n)

/-- 5 octets -> 8 quintet characters -/
def enc5 (a b c d e : UInt8) : Bytes :=
  let a := a.toNat; let b := b.toNat; let c := c.toNat; let d := d.toNat; let e := e.toNat
  [b32chr (a / 8), b32chr ((a % 8) * 4 + b / 64), b32chr ((b / 2) % 32), b32chr ((b % 2) * 16 + c / 16),
   b32chr ((c % 16) * 2 + d / 128), b32chr ((d / 4) % 32), b32chr ((d % 4) * 8 + e / 32), b32chr (e % 32)]

/-- 8 quintet characters -> 5 octets -/
def dec8 (c1 c2 c3 c4 c5 c6 c7 c8 : UInt8) : Bytes :=
  let v1 := b32val c1; let v2 := b32val c2; let v3 := b32val c3; let v4 := b32val c4
  let v5 := b32val c5; let v6 := b32val c6; let v7 := b32val c7; let v8 := b32val c8
  [UInt8.ofNat (v1 * 8 + v2 / 4), UInt8.ofNat ((v2 % 4) * 64 + v3 * 2 + v4 / 16),
   UInt8.ofNat ((v4 % 16) * 16 + v5 / 2), UInt8.ofNat ((v5 % 2) * 128 + v6 * 4 + v7 / 8),
   UInt8.ofNat ((v7 % 8) * 32 + v8)]

/-- `base32.b2a`: `base64.b32encode(os).rstrip(b"=").lower()` -/
def b2a : Bytes → Bytes
  | a :: b :: c :: d :: e :: rest => enc5 a b c d e ++ b2a rest
  | [a, b, c, d] => (enc5 a b c d 0).take 7
  | [a, b, c] => (enc5 a b c 0 0).take 5
  | [a, b] => (enc5 a b 0 0 0).take 4
  | [a] => (enc5 a 0 0 0 0).take 2
  | [] => []

/-- `base32.a2b` on strings that satisfy its precondition (after a regex match they always do).
Tail lengths 1, 3, 6 (for which `b32decode` raises "Incorrect padding") yield `[]`; they are never
reached from `uri.py` because every pattern excludes them. 97 is `a` (value 0). -/
def a2b : Bytes → Bytes
  | c1 :: c2 :: c3 :: c4 :: c5 :: c6 :: c7 :: c8 :: rest => dec8 c1 c2 c3 c4 c5 c6 c7 c8 ++ a2b rest
  | [c1, c2, c3, c4, c5, c6, c7] => (dec8 c1 c2 c3 c4 c5 c6 c7 97).take 4
  | [c1, c2, c3, c4, c5] => (dec8 c1 c2 c3 c4 c5 97 97 97).take 3
  | [c1, c2, c3, c4] => (dec8 c1 c2 c3 c4 97 97 97 97).take 2
  | [c1, c2] => (dec8 c1 c2 97 97 97 97 97 97).take 1
  | _ => []

/-! ### character classes that appear in the patterns (in the order `base32.py` generates them) -/

def clsB32 : Bytes := [97, 98, 99, 100, 101, 102, 103, 104, 105, 106, 107, 108, 109, 110, 111, 112, 113, 114,
  115, 116, 117, 118, 119, 120, 121, 122, 50, 51, 52, 53, 54, 55]        -- abcdefghijklmnopqrstuvwxyz234567
def cls4bits : Bytes := [97, 113, 105, 121, 101, 109, 117, 52, 99, 103, 107, 111, 115, 119, 50, 54] -- aqiyemu4cgkosw26
def cls3bits : Bytes := [97, 113, 105, 121, 101, 109, 117, 52]             -- aqiyemu4
def cls2bits : Bytes := [97, 113, 105, 121]                                -- aqiy
def cls1bits : Bytes := [97, 113]                                          -- aq

/-! ### decimal numbers -/

def isDigit (c : UInt8) : Bool := 48 ≤ c && c ≤ 57

def decGo : Nat → Nat → Bytes → Bytes
  | 0, _, acc => acc
  | f + 1, n, acc =>
    if n < 10 then UInt8.ofNat (48 + n) :: acc
    else decGo f (n / 10) (UInt8.ofNat (48 + n % 10) :: acc)

/-- `b'%d' % n` for `n >= 0` (fuel `n + 1` is always enough) -/
def natToDec (n : Nat) : Bytes := decGo (n + 1) n []

/-- `int(digits)` for a string of ASCII digits -/
def decToNat (d : Bytes) : Nat := d.foldl (fun a c => 10 * a + (c.toNat - 48)) 0

/-- what `(0|[1-9][0-9]*)` accepts among digit strings -/
def canonicalDigits (d : Bytes) : Bool :=
  match d with
  | [] => false
  | [48] => true
  | c :: _ => c != 48

/-! ### patterns as data -/

inductive Piece
  | colon                       -- `:`
  | b32 (n : Nat) (last : Bytes)   -- `(B{n}[last])`, a capture group
  | number (strict : Bool)      -- `(0|[1-9][0-9]*)` if strict (repaired) else `([0-9]+)` (as written)
  | litBody                     -- `BASE32STR_anybytes`, a capture group
  | dollar                      -- `$`
  | colonOrDollar               -- `(:|$)`
  deriving DecidableEq, Repr

/-- `$` without MULTILINE: at the end, or just before a final newline. -/
def atDollar (s : Bytes) : Bool := s == [] || s == [10]

def splitB32 (n : Nat) (last : Bytes) (s : Bytes) : Option (Bytes × Bytes) :=
  let g := s.take (n + 1)
  if g.length == n + 1 && (g.take n).all isB32 && last.contains (g.getLastD 0) then some (g, s.drop (n + 1))
  else none

/-- `BASE32STR_anybytes` = `((?:B{8})*(?:|B[aqiyemu4]|B{3}[aq]|B{4}[aqiyemu4cgkosw26]|B{6}[aqiy]))` on a maximal
base32 run `g`: blocks of 8 while at least 8 characters remain (a run of length L can only be split
as L / 8 blocks and a tail of L % 8 < 8 characters), then one of the five tails. -/
def litBodyOk : Bytes → Bool
  | c1 :: c2 :: c3 :: c4 :: c5 :: c6 :: c7 :: c8 :: rest =>
    isB32 c1 && isB32 c2 && isB32 c3 && isB32 c4 && isB32 c5 && isB32 c6 && isB32 c7 && isB32 c8 && litBodyOk rest
  | [c1, c2, c3, c4, c5, c6, c7] =>
    isB32 c1 && isB32 c2 && isB32 c3 && isB32 c4 && isB32 c5 && isB32 c6 && cls2bits.contains c7
  | [c1, c2, c3, c4, c5] => isB32 c1 && isB32 c2 && isB32 c3 && isB32 c4 && cls4bits.contains c5
  | [c1, c2, c3, c4] => isB32 c1 && isB32 c2 && isB32 c3 && cls1bits.contains c4
  | [c1, c2] => isB32 c1 && cls3bits.contains c2
  | [] => true
  | _ => false

/-- Deterministic matcher; returns the capture groups (base32 and number groups only). -/
def matchPieces : List Piece → Bytes → Option (List Bytes)
  | [], _ => some []                       -- end of pattern: whatever follows is ignored
  | .colon :: ps, s =>
    match s with
    | 58 :: r => matchPieces ps r
    | _ => none
  | .b32 n last :: ps, s =>
    match splitB32 n last s with
    | some (g, r) => (matchPieces ps r).map (g :: ·)
    | none => none
  | .number strict :: ps, s =>
    let d := s.takeWhile isDigit
    if d != [] && (!strict || canonicalDigits d) then (matchPieces ps (s.dropWhile isDigit)).map (d :: ·)
    else none
  | .litBody :: ps, s =>
    let g := s.takeWhile isB32
    if litBodyOk g then (matchPieces ps (s.dropWhile isB32)).map (g :: ·) else none
  | .dollar :: ps, s => if atDollar s then matchPieces ps s else none
  | .colonOrDollar :: ps, s =>
    match s with
    | 58 :: r => matchPieces ps r
    | _ => if atDollar s then matchPieces ps s else none

/-! ### the nine file-cap kinds -/

inductive FileKind
  | chk | chkV | lit | ssk | sskRo | sskV | mdmf | mdmfRo | mdmfV
  deriving DecidableEq, Repr

def FileKind.all : List FileKind := [.chk, .chkV, .lit, .ssk, .sskRo, .sskV, .mdmf, .mdmfRo, .mdmfV]

/-- `BASE_STRING` of the file-cap classes -/
def filePrefix : FileKind → Bytes
  | .chk => [85, 82, 73, 58, 67, 72, 75, 58]                                                      -- URI:CHK:
  | .chkV => [85, 82, 73, 58, 67, 72, 75, 45, 86, 101, 114, 105, 102, 105, 101, 114, 58]          -- URI:CHK-Verifier:
  | .lit => [85, 82, 73, 58, 76, 73, 84, 58]                                                      -- URI:LIT:
  | .ssk => [85, 82, 73, 58, 83, 83, 75, 58]                                                      -- URI:SSK:
  | .sskRo => [85, 82, 73, 58, 83, 83, 75, 45, 82, 79, 58]                                        -- URI:SSK-RO:
  | .sskV => [85, 82, 73, 58, 83, 83, 75, 45, 86, 101, 114, 105, 102, 105, 101, 114, 58]          -- URI:SSK-Verifier:
  | .mdmf => [85, 82, 73, 58, 77, 68, 77, 70, 58]                                                 -- URI:MDMF:
  | .mdmfRo => [85, 82, 73, 58, 77, 68, 77, 70, 45, 82, 79, 58]                                   -- URI:MDMF-RO:
  | .mdmfV => [85, 82, 73, 58, 77, 68, 77, 70, 45, 86, 101, 114, 105, 102, 105, 101, 114, 58]     -- URI:MDMF-Verifier:

/-- `BASE_STRING` of the directory class whose `INNER_URI_CLASS` has the given kind -/
def dirPrefix : FileKind → Bytes
  | .ssk => [85, 82, 73, 58, 68, 73, 82, 50, 58]                                                  -- URI:DIR2:
  | .sskRo => [85, 82, 73, 58, 68, 73, 82, 50, 45, 82, 79, 58]                                    -- URI:DIR2-RO:
  | .sskV => [85, 82, 73, 58, 68, 73, 82, 50, 45, 86, 101, 114, 105, 102, 105, 101, 114, 58]      -- URI:DIR2-Verifier:
  | .chk => [85, 82, 73, 58, 68, 73, 82, 50, 45, 67, 72, 75, 58]                                  -- URI:DIR2-CHK:
  | .chkV => [85, 82, 73, 58, 68, 73, 82, 50, 45, 67, 72, 75, 45, 86, 101, 114, 105, 102, 105, 101, 114, 58] -- URI:DIR2-CHK-Verifier:
  | .lit => [85, 82, 73, 58, 68, 73, 82, 50, 45, 76, 73, 84, 58]                                  -- URI:DIR2-LIT:
  | .mdmf => [85, 82, 73, 58, 68, 73, 82, 50, 45, 77, 68, 77, 70, 58]                             -- URI:DIR2-MDMF:
  | .mdmfRo => [85, 82, 73, 58, 68, 73, 82, 50, 45, 77, 68, 77, 70, 45, 82, 79, 58]               -- URI:DIR2-MDMF-RO:
  | .mdmfV => [85, 82, 73, 58, 68, 73, 82, 50, 45, 77, 68, 77, 70, 45, 86, 101, 114, 105, 102, 105, 101, 114, 58] -- URI:DIR2-MDMF-Verifier:

def g128 : Piece := .b32 25 cls3bits     -- BASE32STR_128bits
def g256 : Piece := .b32 51 cls1bits     -- BASE32STR_256bits

/-- The part of `STRING_RE` after `^BASE_STRING`, with the two repairs of /verif/fixes/C15-*.diff
applied (canonical numbers; final `$` on the CHK verifier). -/
def spec : FileKind → List Piece
  | .chk => [g128, .colon, g256, .colon, .number true, .colon, .number true, .colon, .number true, .dollar]
  | .chkV => [g128, .colon, g256, .colon, .number true, .colon, .number true, .colon, .number true, .dollar]
  | .lit => [.litBody, .dollar]
  | .ssk | .sskRo | .sskV => [g128, .colon, g256, .dollar]
  | .mdmf | .mdmfRo | .mdmfV => [g128, .colon, g256, .colonOrDollar]

/-- The same, exactly as written in the unrepaired `uri.py`: `[0-9]+` numbers and no `$` on the
CHK verifier. Only used to state the defect witnesses. -/
def specAsWritten : FileKind → List Piece
  | .chk => [g128, .colon, g256, .colon, .number false, .colon, .number false, .colon, .number false, .dollar]
  | .chkV => [g128, .colon, g256, .colon, .number false, .colon, .number false, .colon, .number false]
  | k => spec k

/-! ### rendering a spec back to regex source text -/

def lb : UInt8 := 91   -- [
def rb : UInt8 := 93   -- ]

def renderClass (cls : Bytes) : Bytes := lb :: cls ++ [rb]

/-- `B{n}` as `base32.py` writes it (`{n}` omitted when n = 1) -/
def renderRep (n : Nat) : Bytes :=
  if n == 1 then renderClass clsB32 else renderClass clsB32 ++ [123] ++ natToDec n ++ [125]

/-- `BASE32STR_anybytes` -/
def renderAnybytes : Bytes :=
  [40, 40, 63, 58] ++ renderRep 8 ++ [41, 42] ++            -- ((?:B{8})*
  [40, 63, 58, 124] ++                                      -- (?:|
  renderRep 1 ++ renderClass cls3bits ++ [124] ++
  renderRep 3 ++ renderClass cls1bits ++ [124] ++
  renderRep 4 ++ renderClass cls4bits ++ [124] ++
  renderRep 6 ++ renderClass cls2bits ++ [41, 41]            -- ))

def renderPiece : Piece → Bytes
  | .colon => [58]
  | .b32 n last => [40] ++ renderRep n ++ renderClass last ++ [41]
  | .number true => [40, 48, 124, 91, 49, 45, 57, 93, 91, 48, 45, 57, 93, 42, 41]     -- (0|[1-9][0-9]*)
  | .number false => [40, 91, 48, 45, 57, 93, 43, 41]                                -- ([0-9]+)
  | .litBody => renderAnybytes
  | .dollar => [36]
  | .colonOrDollar => [40, 58, 124, 36, 41]                                           -- (:|$)

/-- regex source of a file-cap class: `^` ++ BASE_STRING ++ pieces -/
def render (pfx : Bytes) (ps : List Piece) : Bytes := 94 :: pfx ++ (ps.map renderPiece).flatten

end Tahoe.Uri
