import Tahoe.Uri.LemmasGrammar
/-! Lemmas for C15: a declarative (language) semantics of the STRING_RE patterns and its agreement with
the deterministic matcher `matchPieces`. -/
namespace Tahoe.Uri
set_option maxRecDepth 100000
set_option linter.unusedSimpArgs false

/-! ### declarative (language) semantics of the patterns, and the deterministic matcher -/

/-- one of the five tails of `BASE32STR_anybytes`: `(?:|B[aqiyemu4]|B{3}[aq]|B{4}[aqiyemu4cgkosw26]|B{6}[aqiy])` -/
def LitTail (t : Bytes) : Prop :=
  t = [] ∨
  (∃ c1 c2, t = [c1, c2] ∧ isB32 c1 = true ∧ cls3bits.contains c2 = true) ∨
  (∃ c1 c2 c3 c4, t = [c1, c2, c3, c4] ∧ isB32 c1 = true ∧ isB32 c2 = true ∧ isB32 c3 = true ∧ cls1bits.contains c4 = true) ∨
  (∃ c1 c2 c3 c4 c5, t = [c1, c2, c3, c4, c5] ∧ isB32 c1 = true ∧ isB32 c2 = true ∧ isB32 c3 = true ∧ isB32 c4 = true ∧
      cls4bits.contains c5 = true) ∨
  (∃ c1 c2 c3 c4 c5 c6 c7, t = [c1, c2, c3, c4, c5, c6, c7] ∧ isB32 c1 = true ∧ isB32 c2 = true ∧ isB32 c3 = true ∧
      isB32 c4 = true ∧ isB32 c5 = true ∧ isB32 c6 = true ∧ cls2bits.contains c7 = true)

/-- `(?:B{8})*` followed by one of the tails: ANY number of blocks (the regex engine may try them all) -/
inductive LitShape : Bytes → Prop
  | tail (t : Bytes) : LitTail t → LitShape t
  | block (b rest : Bytes) : b.length = 8 → b.all isB32 = true → LitShape rest → LitShape (b ++ rest)

/-- Declarative semantics: `Matches ps s gs` — the pattern `ps`, anchored at the start of `s`, has SOME match
whose capture groups are `gs` (no priorities, no greediness: any split the regex language allows).
`[]` = end of pattern (whatever follows is ignored); `$` = at the end or before a final newline. -/
def Matches : List Piece → Bytes → List Bytes → Prop
  | [], _, gs => gs = []
  | .colon :: ps, s, gs => ∃ r, s = 58 :: r ∧ Matches ps r gs
  | .b32 n last :: ps, s, gs =>
    ∃ g r gs', s = g ++ r ∧ g.length = n + 1 ∧ (g.take n).all isB32 = true ∧ last.contains (g.getLastD 0) = true ∧
      gs = g :: gs' ∧ Matches ps r gs'
  | .number strict :: ps, s, gs =>
    ∃ d r gs', s = d ++ r ∧ d ≠ [] ∧ d.all isDigit = true ∧ (strict = true → canonicalDigits d = true) ∧
      gs = d :: gs' ∧ Matches ps r gs'
  | .litBody :: ps, s, gs => ∃ g r gs', s = g ++ r ∧ LitShape g ∧ gs = g :: gs' ∧ Matches ps r gs'
  | .dollar :: ps, s, gs => (s = [] ∨ s = [10]) ∧ Matches ps s gs
  | .colonOrDollar :: ps, s, gs =>
    (∃ r, s = 58 :: r ∧ Matches ps r gs) ∨ ((s = [] ∨ s = [10]) ∧ Matches ps s gs)

theorem litShape_ok (g : Bytes) (h : LitShape g) : litBodyOk g = true := by
  induction h with
  | tail t ht =>
    rcases ht with rfl | ⟨c1, c2, rfl, a, b⟩ | ⟨c1, c2, c3, c4, rfl, a, b, c, d⟩ | ⟨c1, c2, c3, c4, c5, rfl, a, b, c, d, e⟩ |
      ⟨c1, c2, c3, c4, c5, c6, c7, rfl, a, b, c, d, e, f, g⟩ <;> simp only [litBodyOk, *, Bool.and_self]
  | block b rest hl hb _ ih =>
    obtain ⟨c1, t1, rfl, h1⟩ := len_succ hl
    obtain ⟨c2, t2, rfl, h2⟩ := len_succ h1
    obtain ⟨c3, t3, rfl, h3⟩ := len_succ h2
    obtain ⟨c4, t4, rfl, h4⟩ := len_succ h3
    obtain ⟨c5, t5, rfl, h5⟩ := len_succ h4
    obtain ⟨c6, t6, rfl, h6⟩ := len_succ h5
    obtain ⟨c7, t7, rfl, h7⟩ := len_succ h6
    obtain ⟨c8, t8, rfl, h8⟩ := len_succ h7
    have : t8 = [] := List.eq_nil_of_length_eq_zero h8
    subst this
    simp only [List.all_cons, List.all_nil, Bool.and_true, Bool.and_eq_true] at hb
    simp [litBodyOk, hb, ih]

theorem ok_litShape (g : Bytes) (h : litBodyOk g = true) : LitShape g := by
  fun_induction litBodyOk g with
  | case1 c1 c2 c3 c4 c5 c6 c7 c8 rest ih =>
    simp only [Bool.and_eq_true] at h
    have := LitShape.block [c1, c2, c3, c4, c5, c6, c7, c8] rest rfl (by simp [h]) (ih h.2)
    simpa using this
  | case2 c1 c2 c3 c4 c5 c6 c7 =>
    simp only [Bool.and_eq_true] at h
    exact .tail _ (Or.inr (Or.inr (Or.inr (Or.inr ⟨c1, c2, c3, c4, c5, c6, c7, rfl, by simp only [h, and_self]⟩))))
  | case3 c1 c2 c3 c4 c5 =>
    simp only [Bool.and_eq_true] at h
    exact .tail _ (Or.inr (Or.inr (Or.inr (Or.inl ⟨c1, c2, c3, c4, c5, rfl, by simp only [h, and_self]⟩))))
  | case4 c1 c2 c3 c4 =>
    simp only [Bool.and_eq_true] at h
    exact .tail _ (Or.inr (Or.inr (Or.inl ⟨c1, c2, c3, c4, rfl, by simp only [h, and_self]⟩)))
  | case5 c1 c2 =>
    simp only [Bool.and_eq_true] at h
    exact .tail _ (Or.inr (Or.inl ⟨c1, c2, rfl, by simp only [h, and_self]⟩))
  | case6 => exact .tail _ (Or.inl rfl)
  | case7 s h1 h2 h3 h4 h5 h6 => simp at h

/-- the deterministic matcher and the declarative semantics agree on a pattern (so the match is unique) -/
def Agree (ps : List Piece) : Prop := ∀ s gs, Matches ps s gs ↔ matchPieces ps s = some gs

theorem agree_dollar : Agree [.dollar] := by
  intro s gs
  simp only [Matches]
  constructor
  · rintro ⟨h, rfl⟩
    rcases h with rfl | rfl
    · exact mp_dollar_nil
    · exact mp_dollar_nl
  · intro h
    obtain ⟨rfl, hs⟩ := mp_dollar_inv s gs h
    exact ⟨hs, rfl⟩

theorem agree_cod : Agree [.colonOrDollar] := by
  intro s gs
  simp only [Matches]
  constructor
  · rintro (⟨r, rfl, rfl⟩ | ⟨h, rfl⟩)
    · exact mp_cod_colon r
    · rcases h with rfl | rfl
      · exact mp_cod_nil
      · exact mp_cod_nl
  · intro h
    obtain ⟨rfl, hs⟩ := mp_cod_inv s gs h
    rcases hs with hs | hs | ⟨r, hs⟩
    · exact Or.inr ⟨Or.inl hs, rfl⟩
    · exact Or.inr ⟨Or.inr hs, rfl⟩
    · exact Or.inl ⟨r, hs, rfl⟩

theorem agree_colon (ps : List Piece) (h : Agree ps) : Agree (.colon :: ps) := by
  intro s gs
  simp only [Matches]
  constructor
  · rintro ⟨r, rfl, hm⟩; rw [mp_colon]; exact (h r gs).1 hm
  · intro hm
    obtain ⟨r, hr, hm'⟩ := mp_colon_inv ps s gs hm
    exact ⟨r, hr, (h r gs).2 hm'⟩

theorem agree_g128 (ps : List Piece) (h : Agree ps) : Agree (g128 :: ps) := by
  intro s gs
  simp only [g128, Matches]
  constructor
  · rintro ⟨g, r, gs', rfl, hl, ha, hc, rfl, hm⟩
    have ok : ok128 g := ⟨hl, by rw [← bridge26 g hl]; simp only [ha, hc, Bool.and_self]⟩
    have := mp_g128 ps g r ok
    simp only [g128] at this
    rw [this, (h r gs').1 hm]; rfl
  · intro hm
    have hm' : matchPieces (g128 :: ps) s = some gs := hm
    obtain ⟨g, r, gs', e, ok, q, hr⟩ := mp_g128_inv ps s gs hm'
    have hb := bridge26 g ok.1
    rw [ok.2] at hb
    simp only [Bool.and_eq_true] at hb
    exact ⟨g, r, gs', e, ok.1, hb.1, hb.2, q, (h r gs').2 hr⟩

theorem agree_g256 (ps : List Piece) (h : Agree ps) : Agree (g256 :: ps) := by
  intro s gs
  simp only [g256, Matches]
  constructor
  · rintro ⟨g, r, gs', rfl, hl, ha, hc, rfl, hm⟩
    have ok : ok256 g := ⟨hl, by rw [← bridge52 g hl]; simp only [ha, hc, Bool.and_self]⟩
    have := mp_g256 ps g r ok
    simp only [g256] at this
    rw [this, (h r gs').1 hm]; rfl
  · intro hm
    have hm' : matchPieces (g256 :: ps) s = some gs := hm
    obtain ⟨g, r, gs', e, ok, q, hr⟩ := mp_g256_inv ps s gs hm'
    have hb := bridge52 g ok.1
    rw [ok.2] at hb
    simp only [Bool.and_eq_true] at hb
    exact ⟨g, r, gs', e, ok.1, hb.1, hb.2, q, (h r gs').2 hr⟩

/-- a number group agrees when whatever follows cannot start with a digit (`:`, `$`) -/
theorem agree_num (ps : List Piece) (h : Agree ps) (hst : ∀ r gs, Matches ps r gs → stops isDigit r) :
    Agree (.number true :: ps) := by
  intro s gs
  simp only [Matches]
  constructor
  · rintro ⟨d, r, gs', rfl, _, hd, hc, rfl, hm⟩
    rw [mp_num ps d r ⟨hd, hc trivial⟩ (hst r gs' hm), (h r gs').1 hm]; rfl
  · intro hm
    obtain ⟨d, r, gs', e, ok, q, hr⟩ := mp_num_inv ps s gs hm
    exact ⟨d, r, gs', e, okNum_ne_nil ok, ok.1, fun _ => ok.2, q, (h r gs').2 hr⟩

theorem agree_lit (ps : List Piece) (h : Agree ps) (hst : ∀ r gs, Matches ps r gs → stops isB32 r) :
    Agree (.litBody :: ps) := by
  intro s gs
  simp only [Matches]
  constructor
  · rintro ⟨g, r, gs', rfl, hg, rfl, hm⟩
    rw [mp_lit ps g r (litShape_ok g hg) (hst r gs' hm), (h r gs').1 hm]; rfl
  · intro hm
    obtain ⟨g, r, gs', e, ok, q, hr⟩ := mp_lit_inv ps s gs hm
    exact ⟨g, r, gs', e, ok_litShape g ok, q, (h r gs').2 hr⟩

theorem stops_after_colon (ps : List Piece) (p : UInt8 → Bool) (hp : p 58 = false) :
    ∀ r gs, Matches (.colon :: ps) r gs → stops p r := by
  intro r gs hm
  obtain ⟨r', rfl, _⟩ := hm
  intro c t h; simp only [List.cons.injEq] at h; rw [← h.1]; exact hp

theorem stops_at_dollar (p : UInt8 → Bool) (hp : p 10 = false) : ∀ r gs, Matches [.dollar] r gs → stops p r := by
  intro r gs hm
  obtain ⟨h, _⟩ := hm
  rcases h with rfl | rfl
  · exact stops_nil p
  · intro c t h; simp only [List.cons.injEq] at h; rw [← h.1]; exact hp

/-- For every one of the nine (repaired) patterns the deterministic matcher computes exactly the declarative
regex semantics: a match exists iff the matcher returns it, with the same groups — in particular the match is
unique, so Python's priority order among alternatives cannot matter. -/
theorem spec_agree (k : FileKind) : Agree (spec k) := by
  have d58 : isDigit 58 = false := by decide
  have d10 : isDigit 10 = false := by decide
  have b10 : isB32 10 = false := by decide
  have chk : Agree [g128, .colon, g256, .colon, .number true, .colon, .number true, .colon, .number true, .dollar] :=
    agree_g128 _ (agree_colon _ (agree_g256 _ (agree_colon _ (agree_num _ (agree_colon _ (agree_num _ (agree_colon _
      (agree_num _ agree_dollar (stops_at_dollar _ d10))) (stops_after_colon _ _ d58))) (stops_after_colon _ _ d58)))))
  have two : Agree [g128, .colon, g256, .dollar] := agree_g128 _ (agree_colon _ (agree_g256 _ agree_dollar))
  have twoc : Agree [g128, .colon, g256, .colonOrDollar] := agree_g128 _ (agree_colon _ (agree_g256 _ agree_cod))
  cases k
  · exact chk
  · exact chk
  · exact agree_lit _ agree_dollar (stops_at_dollar _ b10)
  · exact two
  · exact two
  · exact two
  · exact twoc
  · exact twoc
  · exact twoc

end Tahoe.Uri
