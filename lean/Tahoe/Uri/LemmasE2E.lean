import Tahoe.Uri.LemmasDir
/-! Lemmas for C16: the ro slot end to end (linker's pack, reader's _unpack_contents with its rstrip). -/
namespace Tahoe.Uri
set_option maxRecDepth 100000
set_option linter.unusedSimpArgs false

/-- where the string in a directory's cleartext ro slot comes from -/
def StoredOrigin (w r : Option Bytes) (deep : Bool) (st : Bytes) : Prop :=
  deep = true ∨ st = [] ∨
  (∃ rc : Cap, rc.isKnown = true ∧ rc.isReadonly = some true ∧ rc.toString = some st) ∨
  (∃ g, roError (some g) false = none ∧
    ((startsWith immPrefix g = true ∧ st = g) ∨
     (startsWith roPrefix g = true ∧ st = g.drop roPrefix.length) ∨
     (startsWith roPrefix g = false ∧ startsWith immPrefix g = false ∧ st = g ∧ orNone r = some g ∧
        ∃ n, createFromCap w r deep = .unknown n)))

theorem stored_origin (H : Hashes) (w r : Option Bytes) (deep : Bool) (stored : Bytes)
    (h : packRo H w r deep = .stored stored) : StoredOrigin w r deep stored := by
  simp only [packRo] at h
  cases hc : createFromCap w r deep with
  | known k cap =>
    rw [hc] at h
    simp only at h
    split at h
    · simp at h
    · simp only [PackRo.stored.injEq] at h
      obtain ⟨big, _, hknown, _⟩ := known_node_cap w r deep k cap hc
      obtain ⟨rc, hrc, hrk, hrr⟩ := getReadonly_known H cap hknown
      simp only [Node.readonlyUri, hrc, Option.bind_some] at h
      cases hts : rc.toString with
      | none =>
        rw [hts] at h; simp only [Option.getD_none, strip_nil] at h
        exact Or.inr (Or.inl h.symm)
      | some s =>
        rw [hts] at h; simp only [Option.getD_some] at h
        obtain ⟨t, rfl⟩ := toString_starts_U rc hrk s hts
        rw [stripPrefixForRo_U] at h
        subst h
        exact Or.inr (Or.inr (Or.inl ⟨rc, hrk, hrr, hts⟩))
  | unknown n =>
    rw [hc] at h
    simp only at h
    cases he : n.error with
    | some e => rw [he] at h; simp at h
    | none =>
      rw [he] at h
      simp only [PackRo.stored.injEq] at h
      cases hro : n.ro with
      | none =>
        rw [hro] at h; simp only [Option.getD_none, strip_nil] at h
        exact Or.inr (Or.inl h.symm)
      | some rr =>
        rw [hro] at h; simp only [Option.getD_some] at h
        rcases unknown_node_origin w r deep n hc with rfl | rfl
        · have : (mkUnknownNode none none false).ro = none := by decide
          rw [this] at hro; simp at hro
        · obtain ⟨g, hg1, hg2, hg3⟩ := unknownNode_ro_form w r deep rr he hro
          cases deep with
          | true => exact Or.inl rfl
          | false =>
            subst h
            refine Or.inr (Or.inr (Or.inr ⟨g, hg1, ?_⟩))
            cases hi : startsWith immPrefix g with
            | true =>
              have : rr = g := by rw [hg2]; simp [roForm, hi]
              subst this
              exact Or.inl ⟨rfl, by simp [stripPrefixForRo, hi]⟩
            | false =>
              cases hr : startsWith roPrefix g with
              | true =>
                have : rr = g := by rw [hg2]; simp [roForm, hi, hr]
                subst this
                exact Or.inr (Or.inl ⟨rfl, by simp [stripPrefixForRo, hi, hr]⟩)
              | false =>
                have : rr = roPrefix ++ g := by rw [hg2]; simp [roForm, hi, hr]
                subst this
                refine Or.inr (Or.inr ⟨rfl, rfl, ?_, ?_, _, hc⟩)
                · simp [stripPrefixForRo, startsWith, immPrefix, roPrefix, List.isPrefixOf]
                · rcases hg3 with h3 | ⟨_, h3⟩
                  · exact h3
                  · rcases h3 with h3 | h3 <;> simp_all

/-- a string that parses as a writeable cap starts with the BASE_STRING of a write-cap class -/
theorem writeable_shape (x : Bytes) (h : (fromString false x).isReadonly = some false) :
    ∃ k body, (k = .ssk ∨ k = .mdmf) ∧ (x = filePrefix k ++ body ∨ x = dirPrefix k ++ body) := by
  have hw : (stripAlleged false x).2.1 = true := by
    cases hx : (stripAlleged false x).2.1
    · exact absurd h ((fromString_flags_of_ctx false x).1 hx)
    · rfl
  have hs : stripAlleged false x = (true, true, x) := by
    simp only [stripAlleged] at hw ⊢
    split <;> (try split) <;> simp_all
  simp only [fromString, fromStringWith, hs] at h
  cases hd : dispatch x with
  | none => rw [hd] at h; simp [Cap.isReadonly] at h
  | some eb =>
    obtain ⟨e, body⟩ := eb
    obtain ⟨p, hmem, hx⟩ := dispatch_inv _ _ _ hd
    rw [hd] at h
    cases e with
    | file k need =>
      obtain ⟨rfl, rfl⟩ := table_file p k need hmem
      simp only at h
      cases hi : initBodyWith spec k body with
      | none => rw [hi] at h; split at h <;> simp [Cap.isReadonly] at h
      | some f =>
        rw [hi] at h
        obtain ⟨hk, _, _⟩ := initBody_inv k body f hi
        subst hk
        refine ⟨f.kind, body, ?_, Or.inl hx⟩
        cases f <;> simp_all [needOk, fileNeed, FileCap.kind, Cap.isReadonly, FileCap.isReadonly]
    | dir k need =>
      obtain ⟨rfl, rfl⟩ := table_dir p k need hmem
      simp only at h
      cases hi : initBodyWith spec k body with
      | none => rw [hi] at h; split at h <;> simp [Cap.isReadonly] at h
      | some f =>
        rw [hi] at h
        refine ⟨k, body, ?_, Or.inr hx⟩
        cases k <;> simp_all [needOk, fileNeed, Cap.isReadonly, dirIsReadonly]
    | futureWriteable => simp [Cap.isReadonly] at h
    | futureMutable => simp [Cap.isReadonly] at h

theorem rstrip_decomp (t : Bytes) : ∃ sp, t = rstripSpaces t ++ sp := by
  refine ⟨(t.reverse.takeWhile (· == 32)).reverse, ?_⟩
  have := List.takeWhile_append_dropWhile (p := (· == 32)) (l := t.reverse)
  have h2 := congrArg List.reverse this
  simp only [List.reverse_append, List.reverse_reverse] at h2
  simp only [rstripSpaces]
  exact h2.symm

theorem ro_write_file_refused (k : FileKind) (hk : k = .ssk ∨ k = .mdmf) (rest : Bytes) :
    fromString false (roPrefix ++ (filePrefix k ++ rest)) = .unknown (roPrefix ++ (filePrefix k ++ rest)) (some .mustBeReadonly) := by
  have hs : stripAlleged false (roPrefix ++ (filePrefix k ++ rest)) = (true, false, filePrefix k ++ rest) := by
    simp [stripAlleged, immPrefix, roPrefix, List.isPrefixOf]
  simp only [fromString, fromStringWith, hs, dispatch_file]
  rcases hk with rfl | rfl <;> simp [needOk, fileNeed, constraintErr]

theorem ro_write_dir_refused (k : FileKind) (hk : k = .ssk ∨ k = .mdmf) (rest : Bytes) :
    fromString false (roPrefix ++ (dirPrefix k ++ rest)) = .unknown (roPrefix ++ (dirPrefix k ++ rest)) (some .mustBeReadonly) := by
  have hs : stripAlleged false (roPrefix ++ (dirPrefix k ++ rest)) = (true, false, dirPrefix k ++ rest) := by
    simp [stripAlleged, immPrefix, roPrefix, List.isPrefixOf]
  simp only [fromString, fromStringWith, hs, dispatch_dir]
  rcases hk with rfl | rfl <;> simp [needOk, fileNeed, constraintErr]

/-- what the reader parses (the stored string with trailing spaces stripped) is not a writeable cap — unless the
open exception applies -/
theorem reader_after_rstrip (w r : Option Bytes) (deep : Bool) (st : Bytes) (ho : StoredOrigin w r deep st) :
    (fromString deep (rstripSpaces st)).isReadonly ≠ some false ∨ roSlotException w r deep := by
  cases deep with
  | true => exact Or.inl (deep_never_writeable _)
  | false =>
    obtain ⟨sp, hsp⟩ := rstrip_decomp st
    by_cases hgood : (fromString false (rstripSpaces st)).isReadonly ≠ some false
    · exact Or.inl hgood
    have hbad : (fromString false (rstripSpaces st)).isReadonly = some false := Decidable.not_not.mp hgood
    obtain ⟨k, body, hk, hx⟩ := writeable_shape _ hbad
    rcases ho with h | rfl | ⟨rc, hrk, hrr, hts⟩ | ⟨g, hg, hcase⟩
    · simp at h
    · simp [rstripSpaces, fromString_nil, Cap.isReadonly] at hbad
    · -- the text of a read-only cap cannot start like a write cap
      exfalso
      have hd1 : dispatch st = some (.file k (fileNeed k), body ++ sp) ∨ dispatch st = some (.dir k (fileNeed k), body ++ sp) := by
        rcases hx with hx | hx
        · left; rw [hsp, hx, List.append_assoc, dispatch_file]
        · right; rw [hsp, hx, List.append_assoc, dispatch_dir]
      cases rc with
      | unknown u e => simp [Cap.isKnown] at hrk
      | file f =>
        simp only [Cap.toString, FileCap.toString, Option.some.injEq] at hts
        rw [← hts, dispatch_file] at hd1
        simp only [Cap.isReadonly, Option.some.injEq] at hrr
        rcases hd1 with h | h
        · simp only [Option.some.injEq, Prod.mk.injEq, Entry.file.injEq] at h
          have hkk := h.1.1
          have hf : f.isReadonly = false := by
            rcases hk with rfl | rfl <;> cases f <;> simp [FileCap.kind] at hkk <;> rfl
          rw [hf] at hrr; simp at hrr
        · simp only [Option.some.injEq, Prod.mk.injEq, reduceCtorEq, false_and] at h
      | dir dk f =>
        simp only [Cap.toString] at hts
        split at hts
        · simp only [Option.some.injEq] at hts
          rw [← hts, dispatch_dir] at hd1
          simp only [Cap.isReadonly, Option.some.injEq] at hrr
          rcases hd1 with h | h
          · simp only [Option.some.injEq, Prod.mk.injEq, reduceCtorEq, false_and] at h
          · simp only [Option.some.injEq, Prod.mk.injEq, Entry.dir.injEq] at h
            have hkk := h.1.1
            have hf : dirIsReadonly dk = false := by
              rcases hk with rfl | rfl <;> rw [hkk] <;> rfl
            rw [hf] at hrr; simp at hrr
        · simp at hts
    · rcases hcase with ⟨hi, rfl⟩ | ⟨hr, rfl⟩ | ⟨hr, hi, rfl, hor, hun⟩
      · -- imm. kept: the stored string starts with 'i', a write cap with 'U'
        exfalso
        rw [hsp] at hi
        rcases hx with hx | hx <;> rw [hx] at hi <;> rcases hk with rfl | rfl <;>
          simp [startsWith, immPrefix, filePrefix, dirPrefix, List.isPrefixOf] at hi
      · -- ro. stripped: then the linker's check of ro.+cap has already refused it
        exfalso
        have hg' := startsWith_eq_append roPrefix g hr
        rw [hsp] at hg'
        rcases hx with hx | hx
        · rw [hx, List.append_assoc] at hg'
          have e := ro_write_file_refused k hk (body ++ sp)
          rw [← hg'] at e
          simp [roError, e] at hg
        · rw [hx, List.append_assoc] at hg'
          have e := ro_write_dir_refused k hk (body ++ sp)
          rw [← hg'] at e
          simp [roError, e] at hg
      · -- unprefixed: either it really parses as a write cap (the open exception) or the linker got BadURIError
        right
        refine ⟨rfl, hun, st, hor, hr, hi, ?_⟩
        rcases hx with hx | hx
        · have e := fromString_prefix_file false k (body ++ sp)
          rw [← List.append_assoc, ← hx, ← hsp] at e
          have hn : needOk (!false) (!false) (fileNeed k) = true := by rcases hk with rfl | rfl <;> rfl
          rw [if_pos hn] at e
          cases hi2 : initBody k (body ++ sp) with
          | none => rw [hi2] at e; simp [roError, e] at hg
          | some f =>
            rw [hi2] at e
            obtain ⟨hkf, _, _⟩ := initBody_inv _ _ _ hi2
            rw [e]
            rcases hk with rfl | rfl <;> cases f <;> simp_all [FileCap.kind, Cap.isReadonly, FileCap.isReadonly]
        · have e := fromString_prefix_dir false k (body ++ sp)
          rw [← List.append_assoc, ← hx, ← hsp] at e
          have hn : needOk (!false) (!false) (fileNeed k) = true := by rcases hk with rfl | rfl <;> rfl
          rw [if_pos hn] at e
          cases hi2 : initBody k (body ++ sp) with
          | none => rw [hi2] at e; simp [roError, e] at hg
          | some f =>
            rw [hi2] at e
            rw [e]
            rcases hk with rfl | rfl <;> simp [Cap.isReadonly, dirIsReadonly]

theorem unpackChild_child (dk : FileKind) (st : Bytes) (rwcap : Bool) (n : Node) (hu : unpackChild dk st rwcap = .child n) :
    n = createFromCap none (orNone (some (rstripSpaces st))) (dirChildDeep dk) := by
  simp only [unpackChild] at hu
  generalize createFromCap none (orNone (some (rstripSpaces st))) (dirChildDeep dk) = node at hu ⊢
  cases node <;> simp only [] at hu <;> (repeat' (split at hu)) <;>
    first | exact (Unpacked.child.inj hu).symm | (simp at hu)

/-- End to end through a directory: what the linker's set_uri + pack stored in the ro slot, read back by
`_unpack_contents` of a directory of the matching context (including its `rstrip(b" ")`), never gives the reader
more than read authority — except in the one open exception. -/
theorem ro_slot_e2e (H : Hashes) (w r : Option Bytes) (deep : Bool) (stored : Bytes)
    (h : packRo H w r deep = .stored stored) (dk : FileKind) (hdk : dirChildDeep dk = deep) (rwcap : Bool) (n : Node)
    (hu : unpackChild dk stored rwcap = .child n) :
    n.authority ≤ .read ∨ roSlotException w r deep := by
  rcases reader_after_rstrip w r deep stored (stored_origin H w r deep stored h) with hro | hex
  case inr => exact Or.inr hex
  left
  have hnode := unpackChild_child dk stored rwcap n hu
  rw [hdk] at hnode
  rw [hnode]
  cases hx : rstripSpaces stored with
  | nil => simp only [orNone, createFromCap, orBytes]; decide
  | cons a t =>
    have := readerNode_authority (a :: t) deep (by rw [← hx]; exact hro)
    simpa [readerNode, orNone] using this

end Tahoe.Uri
