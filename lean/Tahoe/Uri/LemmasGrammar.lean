import Tahoe.Uri.LemmasCaps
/-! Lemmas for C15: completeness of the parser w.r.t. the declarative grammar (with permitted tails). -/
namespace Tahoe.Uri
set_option maxRecDepth 100000
set_option linter.unusedSimpArgs false

/-! ### completeness: everything the grammar describes is accepted (with the permitted tails) -/

theorem mp_dollar_nl : matchPieces [.dollar] [10] = some [] := by simp [matchPieces, atDollar]
theorem mp_cod_nl : matchPieces [.colonOrDollar] [10] = some [] := by simp [matchPieces, atDollar]
theorem mp_cod_colon (r : Bytes) : matchPieces [.colonOrDollar] (58 :: r) = some [] := by simp [matchPieces]
theorem stops_nl_digit : stops isDigit [10] := by
  intro c t h; simp only [List.cons.injEq] at h; rw [← h.1]; decide

theorem match2_tail (last : Piece) (tail : Bytes) (hlast : matchPieces [last] tail = some []) (g1 g2 : Bytes)
    (h1 : ok128 g1) (h2 : ok256 g2) :
    matchPieces [g128, .colon, g256, last] (g1 ++ colon ++ g2 ++ tail) = some [g1, g2] := by
  have e : g1 ++ colon ++ g2 ++ tail = g1 ++ (58 :: (g2 ++ tail)) := by simp [colon]
  rw [e, mp_g128 _ _ _ h1, mp_colon, mp_g256 _ _ _ h2, hlast]; rfl

theorem match5_tail (tail : Bytes) (ht : tail = [] ∨ tail = [10]) (g1 g2 d1 d2 d3 : Bytes) (h1 : ok128 g1) (h2 : ok256 g2)
    (n1 : okNum d1) (n2 : okNum d2) (n3 : okNum d3) :
    matchPieces [g128, .colon, g256, .colon, .number true, .colon, .number true, .colon, .number true, .dollar]
      (g1 ++ colon ++ g2 ++ colon ++ d1 ++ colon ++ d2 ++ colon ++ d3 ++ tail) = some [g1, g2, d1, d2, d3] := by
  have e : g1 ++ colon ++ g2 ++ colon ++ d1 ++ colon ++ d2 ++ colon ++ d3 ++ tail
      = g1 ++ (58 :: (g2 ++ (58 :: (d1 ++ (58 :: (d2 ++ (58 :: (d3 ++ tail)))))))) := by simp [colon]
  have hs : stops isDigit tail := by rcases ht with rfl | rfl; exact stops_nil _; exact stops_nl_digit
  have hd : matchPieces [.dollar] tail = some [] := by rcases ht with rfl | rfl; exact mp_dollar_nil; exact mp_dollar_nl
  rw [e, mp_g128 _ _ _ h1, mp_colon, mp_g256 _ _ _ h2, mp_colon, mp_num _ _ _ n1 (stops_colon_digit _), mp_colon,
    mp_num _ _ _ n2 (stops_colon_digit _), mp_colon, mp_num _ _ _ n3 hs, hd]; rfl

theorem match1_tail (tail : Bytes) (ht : tail = [] ∨ tail = [10]) (g : Bytes) (h : litBodyOk g = true) :
    matchPieces [.litBody, .dollar] (g ++ tail) = some [g] := by
  have hs : stops isB32 tail := by rcases ht with rfl | rfl; exact stops_nil _; exact stops_nl_b32
  have hd : matchPieces [.dollar] tail = some [] := by rcases ht with rfl | rfl; exact mp_dollar_nil; exact mp_dollar_nl
  rw [mp_lit _ _ _ h hs, hd]; rfl

theorem tailOk_plain (k : FileKind) (tail : Bytes) (h : tailOk k tail) (hk : ¬ isMdmfKind k) : tail = [] ∨ tail = [10] := by
  rcases h with h | h | ⟨h, _⟩
  · exact Or.inl h
  · exact Or.inr h
  · exact absurd h hk

theorem tailOk_cod (k : FileKind) (tail : Bytes) (h : tailOk k tail) : matchPieces [.colonOrDollar] tail = some [] := by
  rcases h with rfl | rfl | ⟨_, r, rfl⟩
  · exact mp_cod_nil
  · exact mp_cod_nl
  · exact mp_cod_colon r

theorem plain_dollar (tail : Bytes) (h : tail = [] ∨ tail = [10]) : matchPieces [.dollar] tail = some [] := by
  rcases h with rfl | rfl; exact mp_dollar_nil; exact mp_dollar_nl

/-- parsing (printed body ++ permitted tail) of a well-formed file cap gives the cap back -/
theorem initBody_body_tail (f : FileCap) (h : f.wf = true) (tail : Bytes) (ht : tailOk f.kind tail) :
    initBody f.kind (f.body ++ tail) = some f := by
  cases f with
  | chk a ueb k n size =>
    have hp := tailOk_plain _ _ ht (by simp [isMdmfKind, FileCap.kind])
    simp only [FileCap.wf, Bool.and_eq_true, beq_iff_eq] at h
    simp only [initBody, initBodyWith, FileCap.kind, FileCap.body, spec]
    rw [match5_tail _ hp _ _ _ _ _ (ok128_b2a a h.1) (ok256_b2a ueb h.2) (okNum_natToDec k) (okNum_natToDec n) (okNum_natToDec size)]
    simp only [Option.bind_some, buildFile, a2b_b2a, decToNat_natToDec]
  | chkV a ueb k n size =>
    have hp := tailOk_plain _ _ ht (by simp [isMdmfKind, FileCap.kind])
    simp only [FileCap.wf, Bool.and_eq_true, beq_iff_eq] at h
    simp only [initBody, initBodyWith, FileCap.kind, FileCap.body, spec]
    rw [match5_tail _ hp _ _ _ _ _ (ok128_b2a a h.1) (ok256_b2a ueb h.2) (okNum_natToDec k) (okNum_natToDec n) (okNum_natToDec size)]
    simp only [Option.bind_some, buildFile, a2b_b2a, decToNat_natToDec]
  | lit d =>
    have hp := tailOk_plain _ _ ht (by simp [isMdmfKind, FileCap.kind])
    simp only [initBody, initBodyWith, FileCap.kind, FileCap.body, spec]
    rw [match1_tail _ hp _ (litBodyOk_b2a d)]
    simp only [Option.bind_some, buildFile, a2b_b2a]
  | ssk a fp | sskRo a fp | sskV a fp =>
    have hp := tailOk_plain _ _ ht (by simp [isMdmfKind, FileCap.kind])
    simp only [FileCap.wf, Bool.and_eq_true, beq_iff_eq] at h
    simp only [initBody, initBodyWith, FileCap.kind, FileCap.body, spec]
    rw [match2_tail _ _ (plain_dollar _ hp) _ _ (ok128_b2a a h.1) (ok256_b2a fp h.2)]
    simp only [Option.bind_some, buildFile, a2b_b2a]
  | mdmf a fp | mdmfRo a fp | mdmfV a fp =>
    simp only [FileCap.wf, Bool.and_eq_true, beq_iff_eq] at h
    simp only [initBody, initBodyWith, FileCap.kind, FileCap.body, spec]
    rw [match2_tail _ _ (tailOk_cod _ _ ht) _ _ (ok128_b2a a h.1) (ok256_b2a fp h.2)]
    simp only [Option.bind_some, buildFile, a2b_b2a]

theorem stripAlleged_eq (deep : Bool) (u : Bytes) :
    stripAlleged deep u = ((stripAlleged deep u).1, (stripAlleged deep u).2.1, allegedBody u) := by
  rw [← stripAlleged_body deep u]

/-- Completeness of the parser w.r.t. the declarative grammar: a string that (after its alleged prefix)
spells the well-formed cap `c` followed by a permitted tail parses to exactly `c` when prefix and
context admit the kind, and to an `UnknownURI` with the constraint error otherwise. -/
theorem fromString_of_grammar (deep : Bool) (u : Bytes) (c : Cap) (hwf : c.wf = true) (base tail : Bytes)
    (hs : c.toString = some base) (hu : allegedBody u = base ++ tail) (ht : tailOk c.tailKind tail) :
    fromString deep u =
      if needOk (stripAlleged deep u).1 (stripAlleged deep u).2.1 (fileNeed c.tailKind) then c
      else .unknown u (some (constraintErr (stripAlleged deep u).1)) := by
  simp only [fromString, fromStringWith]
  rw [stripAlleged_eq deep u]
  simp only [hu]
  cases c with
  | unknown x e => simp [Cap.wf] at hwf
  | file f =>
    simp only [Cap.toString, FileCap.toString, Option.some.injEq] at hs
    subst hs
    simp only [Cap.wf] at hwf
    simp only [Cap.tailKind] at ht ⊢
    have hi := initBody_body_tail f hwf tail ht
    simp only [initBody] at hi
    rw [List.append_assoc, dispatch_file]
    simp only [hi]; rfl
  | dir dk f =>
    simp only [Cap.wf, Bool.and_eq_true, beq_iff_eq] at hwf
    obtain ⟨rfl, hwf⟩ := hwf
    simp only [Cap.toString, if_true, Option.some.injEq] at hs
    subst hs
    simp only [Cap.tailKind] at ht ⊢
    have hi := initBody_body_tail f hwf tail ht
    simp only [initBody] at hi
    rw [List.append_assoc, dispatch_dir]
    simp only [hi]; rfl


/-- at most ONE alleged prefix is consumed: after `imm.`/`ro.` the rest must start a known kind, so a second
prefix makes the string unknown (no error recorded) in every context -/
theorem double_prefix_unknown (deep : Bool) (p1 p2 rest : Bytes) (h1 : p1 = roPrefix ∨ p1 = immPrefix)
    (h2 : p2 = roPrefix ∨ p2 = immPrefix) :
    fromString deep (p1 ++ p2 ++ rest) = .unknown (p1 ++ p2 ++ rest) none := by
  rcases h1 with rfl | rfl <;> rcases h2 with rfl | rfl <;>
    simp [fromString, fromStringWith, stripAlleged, roPrefix, immPrefix, List.isPrefixOf, dispatch, dispatchTable,
      filePrefix, dirPrefix, futureWriteablePrefix, futureMutablePrefix, List.find?]

end Tahoe.Uri
