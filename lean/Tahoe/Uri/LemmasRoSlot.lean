import Tahoe.Uri.LemmasAtten
/-! Lemmas for C16: the authority order and the route  linker -> cleartext ro slot -> reader. -/
namespace Tahoe.Uri
set_option maxRecDepth 100000
set_option linter.unusedSimpArgs false

/-! ### authority order -/

theorem authority_write_iff (c : Cap) (h : c.wf = true) : c.authority = .write ↔ c.isReadonly = some false := by
  cases c with
  | file f => cases f <;> simp [Cap.authority, FileCap.authority, Cap.isReadonly, FileCap.isReadonly]
  | dir dk f =>
    simp only [Cap.wf, Bool.and_eq_true, beq_iff_eq] at h
    obtain ⟨rfl, _⟩ := h
    cases f <;> simp [Cap.authority, FileCap.authority, Cap.isReadonly, dirIsReadonly, FileCap.kind]
  | unknown u e => simp [Cap.wf] at h

theorem fromString_prefix_file (deep : Bool) (k : FileKind) (rest : Bytes) :
    fromString deep (filePrefix k ++ rest) =
      if needOk (!deep) (!deep) (fileNeed k) then
        (match initBody k rest with
         | some f => .file f
         | none => .unknown (filePrefix k ++ rest) (some .badURI))
      else .unknown (filePrefix k ++ rest) (some (constraintErr (!deep))) := by
  simp only [fromString, fromStringWith, stripAlleged_file, dispatch_file, initBody]; rfl

theorem fromString_prefix_dir (deep : Bool) (k : FileKind) (rest : Bytes) :
    fromString deep (dirPrefix k ++ rest) =
      if needOk (!deep) (!deep) (fileNeed k) then
        (match initBody k rest with
         | some f => .dir k f
         | none => .unknown (dirPrefix k ++ rest) (some .badURI))
      else .unknown (dirPrefix k ++ rest) (some (constraintErr (!deep))) := by
  simp only [fromString, fromStringWith, stripAlleged_dir, dispatch_dir, initBody]; rfl

/-- re-parsing the text of a cap whose class says read-only never gives a writeable cap -/
theorem reparse_readonly (deep : Bool) (c : Cap) (hro : c.isReadonly = some true) (s : Bytes) (hs : c.toString = some s) :
    (fromString deep s).isReadonly ≠ some false := by
  cases c with
  | unknown u e => simp [Cap.isReadonly] at hro
  | file f =>
    simp only [Cap.toString, FileCap.toString, Option.some.injEq] at hs
    subst hs
    rw [fromString_prefix_file]
    split
    · cases hi : initBody f.kind f.body with
      | none => simp [Cap.isReadonly]
      | some f' =>
        obtain ⟨hk, _, _⟩ := initBody_inv _ _ _ hi
        simp only [Cap.isReadonly, Option.some.injEq] at hro ⊢
        cases f <;> cases f' <;> simp_all [FileCap.kind, FileCap.isReadonly]
    · simp [Cap.isReadonly]
  | dir dk f =>
    simp only [Cap.toString] at hs
    split at hs
    · simp only [Option.some.injEq] at hs
      subst hs
      rw [fromString_prefix_dir]
      split
      · cases hi : initBody dk f.body with
        | none => simp [Cap.isReadonly]
        | some f' => simpa [Cap.isReadonly] using hro
      · simp [Cap.isReadonly]
    · simp at hs

theorem toString_starts_U (c : Cap) (hk : c.isKnown = true) (s : Bytes) (hs : c.toString = some s) :
    ∃ t, s = 85 :: t := by
  cases c with
  | unknown u e => simp [Cap.isKnown] at hk
  | file f => simp only [Cap.toString, FileCap.toString, Option.some.injEq] at hs; subst hs; cases f <;> exact ⟨_, rfl⟩
  | dir dk f =>
    simp only [Cap.toString] at hs
    split at hs
    · simp only [Option.some.injEq] at hs; subst hs; cases dk <;> exact ⟨_, rfl⟩
    · simp at hs

theorem stripPrefixForRo_U (t : Bytes) (deep : Bool) : stripPrefixForRo (85 :: t) deep = 85 :: t := by
  simp [stripPrefixForRo, startsWith, immPrefix, roPrefix, List.isPrefixOf]

/-- a reader's node has no write authority as soon as the stored string does not parse as a writeable cap -/
theorem readerNode_authority (stored : Bytes) (deep : Bool) (h : (fromString deep stored).isReadonly ≠ some false) :
    (readerNode stored deep).authority ≤ .read := by
  simp only [readerNode, createFromCap, orBytes]
  cases stored with
  | nil => simp only [orNone]; decide
  | cons x xs =>
    simp only [orNone]
    cases hk : createFromSingleCap (fromString deep (x :: xs)) with
    | some k =>
      simp only [Node.authority]
      have hknown : (fromString deep (x :: xs)).isKnown = true := by
        cases hc : fromString deep (x :: xs) <;> simp_all [createFromSingleCap, Cap.isKnown]
      obtain ⟨hwf, _⟩ := fromString_known deep (x :: xs) _ rfl hknown
      have := authority_write_iff _ hwf
      cases ha : (fromString deep (x :: xs)).authority <;> simp_all <;> decide
    | none =>
      simp only [Node.authority]
      have := (unknownNode_props none (some (x :: xs)) deep).2.2.2
      cases hrw : (mkUnknownNode none (some (x :: xs)) deep).rw with
      | none => simp; decide
      | some w => have := (this w hrw).2.1; simp [orNone] at this

/-- the ro_uri an error-free UnknownNode stores for the cap `g` that ended up in its ro slot -/
def roForm (deep : Bool) (g : Bytes) : Bytes :=
  if deep then
    (if startsWith immPrefix g then g
     else if startsWith roPrefix g then immPrefix ++ g.drop roPrefix.length else immPrefix ++ g)
  else (if startsWith roPrefix g || startsWith immPrefix g then g else roPrefix ++ g)

theorem finish_ro_form (rw ro : Option Bytes) (deep : Bool) (rr : Bytes)
    (he : (unknownNodeFinish rw ro deep).error = none) (hr : (unknownNodeFinish rw ro deep).ro = some rr) :
    ∃ g, ro = some g ∧ roError (some g) deep = none ∧ rr = roForm deep g := by
  simp only [unknownNodeFinish] at he hr
  split at he
  · rename_i h; simp only at he; rw [he] at h; simp at h
  · rename_i h
    rw [if_neg h] at hr
    have hnone : roError ro deep = none := by
      cases hx : roError ro deep <;> simp_all
    cases ro with
    | none => cases deep <;> simp at hr
    | some g =>
      refine ⟨g, rfl, hnone, ?_⟩
      cases deep <;> simp [roForm] at hr ⊢ <;> exact hr.symm

theorem unknownNode_ro_form (w r : Option Bytes) (deep : Bool) (rr : Bytes)
    (he : (mkUnknownNode w r deep).error = none) (hr : (mkUnknownNode w r deep).ro = some rr) :
    ∃ g, roError (some g) deep = none ∧ rr = roForm deep g ∧
      (orNone r = some g ∨ (orNone r = none ∧ (startsWith roPrefix g = true ∨ startsWith immPrefix g = true))) := by
  simp only [mkUnknownNode] at he hr
  cases hrw : orNone w with
  | none =>
    rw [hrw] at he hr; simp only at he hr
    obtain ⟨g, hg, h1, h2⟩ := finish_ro_form _ _ _ _ he hr
    exact ⟨g, h1, h2, Or.inl hg⟩
  | some w' =>
    rw [hrw] at he hr; simp only at he hr
    split at he
    · split at he <;> simp [UnknownNode.opaque] at he
    · rename_i hc
      rw [if_neg hc] at hr
      cases hro : orNone r with
      | none =>
        rw [hro] at he hr; simp only at he hr
        split at he
        · simp [UnknownNode.opaque] at he
        · rename_i hp
          rw [if_neg hp] at hr
          obtain ⟨g, hg, h1, h2⟩ := finish_ro_form _ _ _ _ he hr
          simp only [Option.some.injEq] at hg; subst hg
          refine ⟨w', h1, h2, Or.inr ⟨rfl, ?_⟩⟩
          cases h1' : startsWith roPrefix w' <;> cases h2' : startsWith immPrefix w' <;> simp_all
      | some r0 =>
        rw [hro] at he hr; simp only at he hr
        split at he
        · simp [UnknownNode.opaque] at he
        · rename_i hp
          rw [if_neg hp] at hr
          obtain ⟨g, hg, h1, h2⟩ := finish_ro_form _ _ _ _ he hr
          exact ⟨g, h1, h2, Or.inl hg⟩

/-- a string that parses as a writeable cap is refused (MustBeReadonlyError) once `ro.` is put in front -/
theorem ro_prefix_refuses_writeable (t : Bytes) (h : (fromString false t).isReadonly = some false) :
    fromString false (roPrefix ++ t) = .unknown (roPrefix ++ t) (some .mustBeReadonly) := by
  have hw : (stripAlleged false t).2.1 = true := by
    cases hx : (stripAlleged false t).2.1
    · exact absurd h ((fromString_flags_of_ctx false t).1 hx)
    · rfl
  have hs : stripAlleged false t = (true, true, t) := by
    simp only [stripAlleged] at hw ⊢
    split <;> (try split) <;> simp_all
  have hs' : stripAlleged false (roPrefix ++ t) = (true, false, t) := by
    simp [stripAlleged, immPrefix, roPrefix, List.isPrefixOf]
  simp only [fromString, fromStringWith, hs, hs'] at h ⊢
  cases hd : dispatch t with
  | none => rw [hd] at h; simp [Cap.isReadonly] at h
  | some eb =>
    obtain ⟨e, body⟩ := eb
    obtain ⟨p, hmem, _⟩ := dispatch_inv _ _ _ hd
    rw [hd] at h
    cases e with
    | file k need =>
      obtain ⟨rfl, rfl⟩ := table_file p k need hmem
      simp only at h ⊢
      cases hi : initBodyWith spec k body with
      | none => rw [hi] at h; split at h <;> simp [Cap.isReadonly] at h
      | some f =>
        rw [hi] at h
        obtain ⟨hk, _, _⟩ := initBody_inv k body f hi
        subst hk
        cases f <;> simp_all [needOk, fileNeed, FileCap.kind, Cap.isReadonly, FileCap.isReadonly, constraintErr]
    | dir k need =>
      obtain ⟨rfl, rfl⟩ := table_dir p k need hmem
      simp only at h ⊢
      cases hi : initBodyWith spec k body with
      | none => rw [hi] at h; split at h <;> simp [Cap.isReadonly] at h
      | some f =>
        rw [hi] at h
        cases k <;> simp_all [needOk, fileNeed, Cap.isReadonly, dirIsReadonly, constraintErr]
    | futureWriteable => simp [Cap.isReadonly] at h
    | futureMutable => simp [Cap.isReadonly] at h

/-- the one open exception (known finding `ro-slot-unprefixed-writecap-in-unknownnode`) -/
def roSlotException (w r : Option Bytes) (deep : Bool) : Prop :=
  deep = false ∧ (∃ n, createFromCap w r deep = .unknown n) ∧
  ∃ g, orNone r = some g ∧ startsWith roPrefix g = false ∧ startsWith immPrefix g = false ∧
    (fromString false g).isReadonly = some false

theorem deep_never_writeable (u : Bytes) : (fromString true u).isReadonly ≠ some false := by
  apply (fromString_flags_of_ctx true u).1
  simp only [stripAlleged]; split <;> (try split) <;> simp

theorem startsWith_eq_append (p g : Bytes) (h : startsWith p g = true) : g = p ++ g.drop p.length := by
  simp only [startsWith, List.isPrefixOf_iff_prefix] at h
  obtain ⟨t, ht⟩ := h
  rw [← ht]; simp

theorem known_node_cap (w r : Option Bytes) (deep : Bool) (k : NodeKind) (cap : Cap)
    (h : createFromCap w r deep = .known k cap) : ∃ big, cap = fromString deep big ∧ cap.isKnown = true ∧ cap.wf = true := by
  simp only [createFromCap] at h
  cases hb : orNone (orBytes w r) with
  | none => rw [hb] at h; simp at h
  | some big =>
    rw [hb] at h; simp only at h
    cases hk : createFromSingleCap (fromString deep big) with
    | none => rw [hk] at h; simp at h
    | some k' =>
      rw [hk] at h
      simp only [Node.known.injEq] at h
      obtain ⟨_, rfl⟩ := h
      have hknown : (fromString deep big).isKnown = true := by
        cases hc : fromString deep big <;> simp_all [createFromSingleCap, Cap.isKnown]
      exact ⟨big, rfl, hknown, (fromString_known deep big _ rfl hknown).1⟩

theorem getReadonly_known (H : Hashes) (c : Cap) (hk : c.isKnown = true) :
    ∃ r, c.getReadonly H = some r ∧ r.isKnown = true ∧ r.isReadonly = some true := by
  cases c with
  | unknown u e => simp [Cap.isKnown] at hk
  | file f => exact ⟨_, rfl, rfl, by cases f <;> rfl⟩
  | dir dk f => cases dk <;> exact ⟨_, rfl, rfl, rfl⟩

theorem unknown_node_origin (w r : Option Bytes) (deep : Bool) (n : UnknownNode) (h : createFromCap w r deep = .unknown n) :
    n = mkUnknownNode none none false ∨ n = mkUnknownNode w r deep := by
  simp only [createFromCap] at h
  split at h
  · simp only [Node.unknown.injEq] at h; exact Or.inl h.symm
  · split at h
    · simp at h
    · simp only [Node.unknown.injEq] at h; exact Or.inr h.symm

theorem fromString_nil (deep : Bool) : fromString deep [] = .unknown [] none := by cases deep <;> decide
theorem strip_nil (deep : Bool) : stripPrefixForRo [] deep = [] := by cases deep <;> decide

theorem ro_slot_core (H : Hashes) (w r : Option Bytes) (deep : Bool) (stored : Bytes)
    (h : packRo H w r deep = .stored stored) :
    (readerNode stored deep).authority ≤ .read ∨ roSlotException w r deep := by
  simp only [packRo] at h
  cases hc : createFromCap w r deep with
  | known k cap =>
    left
    rw [hc] at h
    simp only at h
    split at h
    · simp at h
    · simp only [PackRo.stored.injEq] at h
      apply readerNode_authority
      obtain ⟨big, _, hknown, _⟩ := known_node_cap w r deep k cap hc
      obtain ⟨rc, hrc, hrk, hrr⟩ := getReadonly_known H cap hknown
      simp only [Node.readonlyUri, hrc, Option.bind_some] at h
      cases hts : rc.toString with
      | none =>
        rw [hts] at h; simp only [Option.getD_none] at h
        subst h
        rw [strip_nil, fromString_nil]; simp [Cap.isReadonly]
      | some s =>
        rw [hts] at h; simp only [Option.getD_some] at h
        obtain ⟨t, rfl⟩ := toString_starts_U rc hrk s hts
        rw [stripPrefixForRo_U] at h
        subst h
        exact reparse_readonly deep rc hrr _ hts
  | unknown n =>
    rw [hc] at h
    simp only at h
    cases he : n.error with
    | some e => rw [he] at h; simp at h
    | none =>
      rw [he] at h
      simp only [PackRo.stored.injEq] at h
      cases hro : n.ro with
      | none =>
        left; rw [hro] at h; simp only [Option.getD_none, strip_nil] at h; subst h
        apply readerNode_authority; rw [fromString_nil]; simp [Cap.isReadonly]
      | some rr =>
        rw [hro] at h; simp only [Option.getD_some] at h
        rcases unknown_node_origin w r deep n hc with rfl | rfl
        · have : (mkUnknownNode none none false).ro = none := by decide
          rw [this] at hro; simp at hro
        · obtain ⟨g, hg1, hg2, hg3⟩ := unknownNode_ro_form w r deep rr he hro
          cases deep with
          | true => left; exact readerNode_authority _ _ (deep_never_writeable _)
          | false =>
            subst h
            cases hi : startsWith immPrefix g with
            | true =>
              left; apply readerNode_authority
              have : rr = g := by rw [hg2]; simp [roForm, hi]
              subst this
              have hs : stripPrefixForRo rr false = rr := by simp [stripPrefixForRo, hi]
              rw [hs]
              apply (fromString_flags_of_ctx false rr).1
              simp only [startsWith] at hi
              simp [stripAlleged, hi]
            | false =>
              cases hr : startsWith roPrefix g with
              | true =>
                left; apply readerNode_authority
                have : rr = g := by rw [hg2]; simp [roForm, hi, hr]
                subst this
                have hs : stripPrefixForRo rr false = rr.drop roPrefix.length := by simp [stripPrefixForRo, hi, hr]
                rw [hs]
                intro hbad
                have e := ro_prefix_refuses_writeable _ hbad
                rw [← startsWith_eq_append roPrefix rr hr] at e
                simp [roError, e] at hg1
              | false =>
                have : rr = roPrefix ++ g := by rw [hg2]; simp [roForm, hi, hr]
                subst this
                have hs : stripPrefixForRo (roPrefix ++ g) false = g := by
                  simp [stripPrefixForRo, startsWith, immPrefix, roPrefix, List.isPrefixOf]
                rw [hs]
                by_cases hbad : (fromString false g).isReadonly = some false
                · right
                  refine ⟨rfl, ⟨_, hc⟩, g, ?_, hr, hi, hbad⟩
                  rcases hg3 with h3 | ⟨_, h3⟩
                  · exact h3
                  · rcases h3 with h3 | h3 <;> simp_all
                · left; exact readerNode_authority _ _ hbad

macro "auth" : tactic =>
  `(tactic| (simp only [Cap.authority, FileCap.authority, FileCap.getReadonly, FileCap.getVerifyCap, FileCap.kind, dirRoKind]; decide))

/-- diminishing is monotone non-increasing in the authority order -/
theorem getReadonly_authority (H : Hashes) (c r : Cap) (h : c.getReadonly H = some r) :
    r.authority ≤ c.authority ∧ (c.wf = true → r.authority ≤ .read) := by
  cases c with
  | unknown u e => simp [Cap.getReadonly] at h
  | file f =>
    simp only [Cap.getReadonly, Option.some.injEq] at h; subst h
    cases f <;> exact ⟨by auth, fun _ => by auth⟩
  | dir dk f =>
    constructor
    · cases dk <;> simp [Cap.getReadonly] at h <;> subst h <;> cases f <;> auth
    · intro hw
      simp only [Cap.wf, Bool.and_eq_true, beq_iff_eq] at hw
      obtain ⟨rfl, _⟩ := hw
      rw [dir_getReadonly_wf] at h
      simp only [Option.some.injEq] at h; subst h
      cases f <;> auth

theorem getVerifyCap_authority (H : Hashes) (c v : Cap) (h : c.getVerifyCap H = some v) :
    v.authority = .verify ∧ v.authority ≤ c.authority := by
  cases c with
  | unknown u e => simp [Cap.getVerifyCap] at h
  | file f =>
    cases f <;> simp [Cap.getVerifyCap, FileCap.getVerifyCap] at h <;> subst h <;> exact ⟨rfl, by auth⟩
  | dir dk f =>
    cases dk <;> cases f <;> simp [Cap.getVerifyCap, FileCap.getVerifyCap] at h <;> subst h <;> exact ⟨rfl, by auth⟩

/-- under an alleged prefix or in a deep-immutable context a parsed cap has at most read authority -/
theorem fromString_authority (deep : Bool) (u : Bytes)
    (h : roPrefix.isPrefixOf u = true ∨ immPrefix.isPrefixOf u = true ∨ deep = true) :
    (fromString deep u).authority ≤ .read := by
  have hw : (stripAlleged deep u).2.1 = false := by
    simp only [stripAlleged]
    rcases h with h | h | h
    · split <;> simp_all
    · simp [h]
    · subst h; split <;> (try split) <;> simp
  have hro := (fromString_flags_of_ctx deep u).1 hw
  cases hk : (fromString deep u).isKnown with
  | false => cases hc : fromString deep u <;> simp_all [Cap.isKnown, Cap.authority] <;> decide
  | true =>
    obtain ⟨hwf, _⟩ := fromString_known deep u _ rfl hk
    have := authority_write_iff _ hwf
    cases ha : (fromString deep u).authority <;> simp_all <;> decide

end Tahoe.Uri
