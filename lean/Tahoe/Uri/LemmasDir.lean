import Tahoe.Uri.LemmasRoSlot
/-! Lemmas for C16: children read out of a directory; deep immutability of both immutable flavours. -/
namespace Tahoe.Uri
set_option maxRecDepth 100000
set_option linter.unusedSimpArgs false

theorem deep_never_mutable (u : Bytes) : (fromString true u).isMutable ≠ some true := by
  apply (fromString_flags_of_ctx true u).2
  simp only [stripAlleged]; split <;> (try split) <;> simp

/-- a node built in a deep-immutable context -/
theorem deep_node_props (w r : Option Bytes) (n : Node) (h : createFromCap w r true = n) :
    (∀ k cap, n = .known k cap →
        n.flags = some (true, false) ∧ n.authority ≤ .read ∧
        (∀ k', k = .dirnode k' → ∃ dk f, cap = .dir dk f ∧ dirChildDeep dk = true)) ∧
    (∀ un, n = .unknown un → un.rw = none ∧ ∀ x, un.ro = some x → startsWith immPrefix x = true) := by
  subst h
  constructor
  · intro k cap hn
    obtain ⟨big, hcap, hknown, hwf⟩ := known_node_cap w r true k cap hn
    obtain ⟨f, hf, hr, hm⟩ := wf_flags_inner cap hwf
    have h1 := deep_never_writeable big
    have h2 := deep_never_mutable big
    rw [← hcap, hr] at h1
    rw [← hcap, hm] at h2
    have hro : f.isReadonly = true := by cases hx : f.isReadonly <;> simp_all
    have hmu : f.isMutable = false := by cases hx : f.isMutable <;> simp_all
    rw [hn]
    refine ⟨by simp [Node.flags, hf, hro, hmu], ?_, ?_⟩
    · have := authority_write_iff cap hwf
      simp only [Node.authority]
      cases ha : cap.authority <;> simp_all <;> decide
    · intro k' hk'
      subst hk'
      -- the cap of a dirnode is a directory cap of a class listed in _create_from_single_cap
      simp only [createFromCap] at hn
      cases hb : orNone (orBytes w r) with
      | none => rw [hb] at hn; simp at hn
      | some b =>
        rw [hb] at hn; simp only at hn
        cases hs : createFromSingleCap (fromString true b) with
        | none => rw [hs] at hn; simp at hn
        | some kk =>
          rw [hs] at hn
          simp only [Node.known.injEq] at hn
          obtain ⟨hkk, hcc⟩ := hn
          rw [hcc] at hs
          cases cap with
          | unknown u e => simp [createFromSingleCap] at hs
          | file f' => cases f' <;> simp [createFromSingleCap, fileNodeKind] at hs <;> simp_all
          | dir dk f' =>
            refine ⟨dk, f', rfl, ?_⟩
            simp only [Cap.isMutable, Option.some.injEq] at hm
            simp only [Cap.inner, Option.some.injEq] at hf
            subst hf
            rw [hmu] at hm
            cases dk <;> simp_all [dirIsMutable, dirChildDeep, createFromSingleCap]
  · intro un hn
    rcases unknown_node_origin w r true un hn with rfl | rfl
    · exact ⟨by decide, fun x hx => by
        have : (mkUnknownNode none none false).ro = none := by decide
        rw [this] at hx; simp at hx⟩
    · exact (unknownNode_props w r true).2.2.1 rfl

/-- Every child read out of an immutable directory of EITHER flavour (DIR2-CHK or DIR2-LIT) is refused or
is immutable and read-only: a known node reports (read-only, not mutable), has at most read authority and,
if it is a directory, is again of an immutable flavour (so the statement applies to its children in turn);
an unknown child has no rw_uri, no error and an `imm.`-alleged ro_uri; non-empty rwcapdata is a ValueError. -/
theorem immutable_dir_child (dk : FileKind) (hdk : dk = .chk ∨ dk = .lit) (roSlot : Bytes) (rwcap : Bool) :
    (rwcap = true → unpackChild dk roSlot rwcap = .valueError) ∧
    ∀ n, unpackChild dk roSlot rwcap = .child n →
      (∀ k cap, n = .known k cap →
          n.flags = some (true, false) ∧ n.authority ≤ .read ∧
          (∀ k', k = .dirnode k' → ∃ dk' f, cap = .dir dk' f ∧ dirChildDeep dk' = true)) ∧
      (∀ un, n = .unknown un → un.error = none ∧ un.rw = none ∧ ∀ x, un.ro = some x → startsWith immPrefix x = true) := by
  have hd : dirChildDeep dk = true := by rcases hdk with rfl | rfl <;> rfl
  constructor
  · intro h; simp [unpackChild, hd, h]
  · intro n hn
    simp only [unpackChild, hd, Bool.true_and] at hn
    generalize hnode : createFromCap none (orNone (some (rstripSpaces roSlot))) true = node at hn
    obtain ⟨p1, p2⟩ := deep_node_props _ _ node hnode
    cases rwcap with
    | true => simp at hn
    | false =>
      simp only [Bool.false_eq_true, if_false, Bool.not_true] at hn
      cases node with
      | known k cap =>
        simp only [Option.isSome_none, Bool.false_eq_true, if_false] at hn
        split at hn
        · simp at hn
        · simp only [Unpacked.child.injEq] at hn; subst hn
          exact ⟨p1, fun un hu => by simp at hu⟩
        · simp at hn
      | unknown un0 =>
        simp only at hn
        split at hn
        · simp at hn
        · rename_i herr
          split at hn
          · simp at hn
          · simp only [Unpacked.child.injEq] at hn; subst hn
            refine ⟨fun k cap hk => by simp at hk, fun un hu => ?_⟩
            obtain ⟨q1, q2⟩ := p2 un hu
            simp only [Node.unknown.injEq] at hu; subst hu
            exact ⟨by cases he : un0.error <;> simp_all, q1, q2⟩
          · simp at hn
end Tahoe.Uri
