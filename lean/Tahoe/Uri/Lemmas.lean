import Tahoe.Uri.Grammar
/-! Helper lemmas for C15/C16: base32 round trips and canonicity, decimal round trips. -/
namespace Tahoe.Uri
set_option maxRecDepth 100000
set_option linter.unusedSimpArgs false

/-! ### characters -/

theorem b32val_chr : ∀ n, n < 32 → b32val (b32chr n) = n := by decide
theorem isB32_chr : ∀ n, n < 32 → isB32 (b32chr n) = true := by decide

theorem forall_u8 {P : UInt8 → Prop} (h : ∀ n, n < 256 → P (UInt8.ofNat n)) (c : UInt8) : P c := by
  have := h c.toNat (UInt8.toNat_lt_size c)
  rwa [UInt8.ofNat_toNat] at this

theorem b32chr_val (c : UInt8) : isB32 c = true → b32chr (b32val c) = c := by
  revert c; apply forall_u8; decide
theorem b32val_lt (c : UInt8) : isB32 c = true → b32val c < 32 := by
  revert c; apply forall_u8; decide

theorem chr_eq_of_val {c : UInt8} (h : isB32 c = true) {x : Nat} (hx : x = b32val c) : b32chr x = c :=
  hx ▸ b32chr_val c h

theorem cls3_spec (c : UInt8) : cls3bits.contains c = true → isB32 c = true ∧ b32val c % 4 = 0 := by
  revert c; apply forall_u8; decide
theorem cls1_spec (c : UInt8) : cls1bits.contains c = true → isB32 c = true ∧ b32val c % 16 = 0 := by
  revert c; apply forall_u8; decide
theorem cls4_spec (c : UInt8) : cls4bits.contains c = true → isB32 c = true ∧ b32val c % 2 = 0 := by
  revert c; apply forall_u8; decide
theorem cls2_spec (c : UInt8) : cls2bits.contains c = true → isB32 c = true ∧ b32val c % 8 = 0 := by
  revert c; apply forall_u8; decide
theorem cls3_chr : ∀ n, n < 32 → n % 4 = 0 → cls3bits.contains (b32chr n) = true := by decide
theorem cls1_chr : ∀ n, n < 32 → n % 16 = 0 → cls1bits.contains (b32chr n) = true := by decide
theorem cls4_chr : ∀ n, n < 32 → n % 2 = 0 → cls4bits.contains (b32chr n) = true := by decide
theorem cls2_chr : ∀ n, n < 32 → n % 8 = 0 → cls2bits.contains (b32chr n) = true := by decide
theorem ofNat0 : UInt8.ofNat 0 = 0 := rfl
theorem isB32_a : isB32 97 = true := by decide
theorem val_a : b32val 97 = 0 := by decide
theorem chr0 : b32chr 0 = 97 := by decide

/-! ### one block -/

theorem dec8_enc (a b c d e : UInt8) :
    dec8 (b32chr (a.toNat / 8)) (b32chr ((a.toNat % 8) * 4 + b.toNat / 64)) (b32chr ((b.toNat / 2) % 32))
      (b32chr ((b.toNat % 2) * 16 + c.toNat / 16)) (b32chr ((c.toNat % 16) * 2 + d.toNat / 128))
      (b32chr ((d.toNat / 4) % 32)) (b32chr ((d.toNat % 4) * 8 + e.toNat / 32)) (b32chr (e.toNat % 32))
    = [a, b, c, d, e] := by
  have ha := UInt8.toNat_lt_size a; have hb := UInt8.toNat_lt_size b; have hc := UInt8.toNat_lt_size c
  have hd := UInt8.toNat_lt_size d; have he := UInt8.toNat_lt_size e
  simp only [UInt8.size] at *
  unfold dec8
  simp only []
  rw [b32val_chr _ (by omega), b32val_chr _ (by omega), b32val_chr _ (by omega), b32val_chr _ (by omega),
      b32val_chr _ (by omega), b32val_chr _ (by omega), b32val_chr _ (by omega), b32val_chr _ (by omega)]
  have h1 : a.toNat / 8 * 8 + (a.toNat % 8 * 4 + b.toNat / 64) / 4 = a.toNat := by omega
  have h2 : (a.toNat % 8 * 4 + b.toNat / 64) % 4 * 64 + b.toNat / 2 % 32 * 2 + (b.toNat % 2 * 16 + c.toNat / 16) / 16 = b.toNat := by omega
  have h3 : (b.toNat % 2 * 16 + c.toNat / 16) % 16 * 16 + (c.toNat % 16 * 2 + d.toNat / 128) / 2 = c.toNat := by omega
  have h4 : (c.toNat % 16 * 2 + d.toNat / 128) % 2 * 128 + d.toNat / 4 % 32 * 4 + (d.toNat % 4 * 8 + e.toNat / 32) / 8 = d.toNat := by omega
  have h5 : (d.toNat % 4 * 8 + e.toNat / 32) % 8 * 32 + e.toNat % 32 = e.toNat := by omega
  rw [h1, h2, h3, h4, h5]
  simp only [UInt8.ofNat_toNat]

theorem enc_dec (c1 c2 c3 c4 c5 c6 c7 c8 : UInt8) (h1 : isB32 c1 = true) (h2 : isB32 c2 = true) (h3 : isB32 c3 = true)
    (h4 : isB32 c4 = true) (h5 : isB32 c5 = true) (h6 : isB32 c6 = true) (h7 : isB32 c7 = true) (h8 : isB32 c8 = true) :
    enc5 (UInt8.ofNat (b32val c1 * 8 + b32val c2 / 4)) (UInt8.ofNat ((b32val c2 % 4) * 64 + b32val c3 * 2 + b32val c4 / 16))
      (UInt8.ofNat ((b32val c4 % 16) * 16 + b32val c5 / 2)) (UInt8.ofNat ((b32val c5 % 2) * 128 + b32val c6 * 4 + b32val c7 / 8))
      (UInt8.ofNat ((b32val c7 % 8) * 32 + b32val c8)) = [c1, c2, c3, c4, c5, c6, c7, c8] := by
  have l1 := b32val_lt c1 h1; have l2 := b32val_lt c2 h2; have l3 := b32val_lt c3 h3; have l4 := b32val_lt c4 h4
  have l5 := b32val_lt c5 h5; have l6 := b32val_lt c6 h6; have l7 := b32val_lt c7 h7; have l8 := b32val_lt c8 h8
  unfold enc5
  simp only [UInt8.toNat_ofNat']
  simp only [Nat.reducePow, List.cons.injEq, and_true]
  refine ⟨?_, ?_, ?_, ?_, ?_, ?_, ?_, ?_⟩
  · apply chr_eq_of_val h1; omega
  · apply chr_eq_of_val h2; omega
  · apply chr_eq_of_val h3; omega
  · apply chr_eq_of_val h4; omega
  · apply chr_eq_of_val h5; omega
  · apply chr_eq_of_val h6; omega
  · apply chr_eq_of_val h7; omega
  · apply chr_eq_of_val h8; omega

/-! ### whole strings -/

/-- decoding what `b2a` produced gives the bytes back (any length) -/
theorem a2b_b2a (x : Bytes) : a2b (b2a x) = x := by
  fun_induction b2a x with
  | case1 a b c d e rest ih =>
    simp only [enc5, List.cons_append, List.nil_append, a2b, dec8_enc, ih]
  | case2 a b c d =>
    have := dec8_enc a b c d 0
    simp [chr0] at this
    simp [enc5, a2b, chr0, this]
  | case3 a b c =>
    have := dec8_enc a b c 0 0
    simp [chr0] at this
    simp [enc5, a2b, chr0, this]
  | case4 a b =>
    have := dec8_enc a b 0 0 0
    simp [chr0] at this
    simp [enc5, a2b, chr0, this]
  | case5 a =>
    have := dec8_enc a 0 0 0 0
    simp [chr0] at this
    simp [enc5, a2b, chr0, this]
  | case6 => rfl

/-- re-encoding a string that `BASE32STR_anybytes` accepts gives the same string (canonicity) -/
theorem b2a_a2b (s : Bytes) (h : litBodyOk s = true) : b2a (a2b s) = s := by
  fun_induction litBodyOk s with
  | case1 c1 c2 c3 c4 c5 c6 c7 c8 rest ih =>
    simp only [Bool.and_eq_true] at h
    obtain ⟨⟨⟨⟨⟨⟨⟨⟨h1, h2⟩, h3⟩, h4⟩, h5⟩, h6⟩, h7⟩, h8⟩, hr⟩ := h
    have := enc_dec c1 c2 c3 c4 c5 c6 c7 c8 h1 h2 h3 h4 h5 h6 h7 h8
    simp only [a2b, dec8, List.cons_append, List.nil_append, b2a, this, ih hr]
  | case2 c1 c2 c3 c4 c5 c6 c7 =>
    simp only [Bool.and_eq_true] at h
    obtain ⟨⟨⟨⟨⟨⟨h1, h2⟩, h3⟩, h4⟩, h5⟩, h6⟩, h7⟩ := h
    obtain ⟨h7, m7⟩ := cls2_spec c7 h7
    have := enc_dec c1 c2 c3 c4 c5 c6 c7 97 h1 h2 h3 h4 h5 h6 h7 isB32_a
    simp only [val_a, m7, Nat.reduceMul, Nat.reduceAdd, Nat.reduceDiv, Nat.reduceMod, Nat.zero_mul, Nat.add_zero,
      Nat.zero_div, Nat.zero_mod, ofNat0] at this
    simp only [a2b, dec8, List.take_succ_cons, List.take_zero, b2a, val_a, m7, Nat.reduceMul, Nat.reduceAdd,
      Nat.reduceDiv, Nat.reduceMod, Nat.zero_mul, Nat.add_zero, Nat.zero_div, Nat.zero_mod, ofNat0]
    rw [this]; rfl
  | case3 c1 c2 c3 c4 c5 =>
    simp only [Bool.and_eq_true] at h
    obtain ⟨⟨⟨⟨h1, h2⟩, h3⟩, h4⟩, h5⟩ := h
    obtain ⟨h5, m5⟩ := cls4_spec c5 h5
    have := enc_dec c1 c2 c3 c4 c5 97 97 97 h1 h2 h3 h4 h5 isB32_a isB32_a isB32_a
    simp only [val_a, m5, Nat.reduceMul, Nat.reduceAdd, Nat.reduceDiv, Nat.reduceMod, Nat.zero_mul, Nat.add_zero,
      Nat.zero_div, Nat.zero_mod, ofNat0] at this
    simp only [a2b, dec8, List.take_succ_cons, List.take_zero, b2a, val_a, m5, Nat.reduceMul, Nat.reduceAdd,
      Nat.reduceDiv, Nat.reduceMod, Nat.zero_mul, Nat.add_zero, Nat.zero_div, Nat.zero_mod, ofNat0]
    rw [this]; rfl
  | case4 c1 c2 c3 c4 =>
    simp only [Bool.and_eq_true] at h
    obtain ⟨⟨⟨h1, h2⟩, h3⟩, h4⟩ := h
    obtain ⟨h4, m4⟩ := cls1_spec c4 h4
    have := enc_dec c1 c2 c3 c4 97 97 97 97 h1 h2 h3 h4 isB32_a isB32_a isB32_a isB32_a
    simp only [val_a, m4, Nat.reduceMul, Nat.reduceAdd, Nat.reduceDiv, Nat.reduceMod, Nat.zero_mul, Nat.add_zero,
      Nat.zero_div, Nat.zero_mod, ofNat0] at this
    simp only [a2b, dec8, List.take_succ_cons, List.take_zero, b2a, val_a, m4, Nat.reduceMul, Nat.reduceAdd,
      Nat.reduceDiv, Nat.reduceMod, Nat.zero_mul, Nat.add_zero, Nat.zero_div, Nat.zero_mod, ofNat0]
    rw [this]; rfl
  | case5 c1 c2 =>
    simp only [Bool.and_eq_true] at h
    obtain ⟨h1, h2⟩ := h
    obtain ⟨h2, m2⟩ := cls3_spec c2 h2
    have := enc_dec c1 c2 97 97 97 97 97 97 h1 h2 isB32_a isB32_a isB32_a isB32_a isB32_a isB32_a
    simp only [val_a, m2, Nat.reduceMul, Nat.reduceAdd, Nat.reduceDiv, Nat.reduceMod, Nat.zero_mul, Nat.add_zero,
      Nat.zero_div, Nat.zero_mod, ofNat0] at this
    simp only [a2b, dec8, List.take_succ_cons, List.take_zero, b2a, val_a, m2, Nat.reduceMul, Nat.reduceAdd,
      Nat.reduceDiv, Nat.reduceMod, Nat.zero_mul, Nat.add_zero, Nat.zero_div, Nat.zero_mod, ofNat0]
    rw [this]; rfl
  | case6 => rfl
  | case7 s h1 h2 h3 h4 h5 h6 => simp at h

theorem zero_toNat : (0 : UInt8).toNat = 0 := rfl

theorem litBodyOk_b2a (x : Bytes) : litBodyOk (b2a x) = true := by
  fun_induction b2a x with
  | case1 a b c d e rest ih =>
    have ha := UInt8.toNat_lt_size a; have hb := UInt8.toNat_lt_size b; have hc := UInt8.toNat_lt_size c
    have hd := UInt8.toNat_lt_size d; have he := UInt8.toNat_lt_size e
    simp only [UInt8.size] at *
    simp only [enc5, List.cons_append, List.nil_append, litBodyOk, ih, Bool.and_true, Bool.and_eq_true]
    refine ⟨⟨⟨⟨⟨⟨⟨?_, ?_⟩, ?_⟩, ?_⟩, ?_⟩, ?_⟩, ?_⟩, ?_⟩ <;> apply isB32_chr <;> omega
  | case2 a b c d =>
    have ha := UInt8.toNat_lt_size a; have hb := UInt8.toNat_lt_size b; have hc := UInt8.toNat_lt_size c
    have hd := UInt8.toNat_lt_size d
    simp only [UInt8.size] at *
    simp only [enc5, List.take_succ_cons, List.take_zero, litBodyOk, Bool.and_eq_true, zero_toNat]
    refine ⟨⟨⟨⟨⟨⟨?_, ?_⟩, ?_⟩, ?_⟩, ?_⟩, ?_⟩, ?_⟩
    all_goals first | (apply isB32_chr; omega) | (apply cls2_chr <;> omega)
  | case3 a b c =>
    have ha := UInt8.toNat_lt_size a; have hb := UInt8.toNat_lt_size b; have hc := UInt8.toNat_lt_size c
    simp only [UInt8.size] at *
    simp only [enc5, List.take_succ_cons, List.take_zero, litBodyOk, Bool.and_eq_true, zero_toNat]
    refine ⟨⟨⟨⟨?_, ?_⟩, ?_⟩, ?_⟩, ?_⟩
    all_goals first | (apply isB32_chr; omega) | (apply cls4_chr <;> omega)
  | case4 a b =>
    have ha := UInt8.toNat_lt_size a; have hb := UInt8.toNat_lt_size b
    simp only [UInt8.size] at *
    simp only [enc5, List.take_succ_cons, List.take_zero, litBodyOk, Bool.and_eq_true, zero_toNat]
    refine ⟨⟨⟨?_, ?_⟩, ?_⟩, ?_⟩
    all_goals first | (apply isB32_chr; omega) | (apply cls1_chr <;> omega)
  | case5 a =>
    have ha := UInt8.toNat_lt_size a
    simp only [UInt8.size] at *
    simp only [enc5, List.take_succ_cons, List.take_zero, litBodyOk, Bool.and_eq_true, zero_toNat]
    refine ⟨?_, ?_⟩
    all_goals first | (apply isB32_chr; omega) | (apply cls3_chr <;> omega)
  | case6 => rfl

theorem cls_isB32 : ∀ c : UInt8, (cls2bits.contains c = true ∨ cls4bits.contains c = true ∨ cls1bits.contains c = true ∨
    cls3bits.contains c = true) → isB32 c = true := by
  apply forall_u8; decide

theorem litBodyOk_all (s : Bytes) (h : litBodyOk s = true) : s.all isB32 = true := by
  fun_induction litBodyOk s with
  | case1 c1 c2 c3 c4 c5 c6 c7 c8 rest ih =>
    simp only [Bool.and_eq_true] at h
    simp only [List.all_cons, Bool.and_eq_true]
    simp [h, ih h.2]
  | case2 c1 c2 c3 c4 c5 c6 c7 =>
    simp only [Bool.and_eq_true] at h
    simp [h, cls_isB32 c7 (Or.inl h.2)]
  | case3 c1 c2 c3 c4 c5 =>
    simp only [Bool.and_eq_true] at h
    simp [h, cls_isB32 c5 (Or.inr (Or.inl h.2))]
  | case4 c1 c2 c3 c4 =>
    simp only [Bool.and_eq_true] at h
    simp [h, cls_isB32 c4 (Or.inr (Or.inr (Or.inl h.2)))]
  | case5 c1 c2 =>
    simp only [Bool.and_eq_true] at h
    simp [h, cls_isB32 c2 (Or.inr (Or.inr (Or.inr h.2)))]
  | case6 => rfl
  | case7 s h1 h2 h3 h4 h5 h6 => simp at h

theorem length_b2a (x : Bytes) : (b2a x).length = (8 * x.length + 4) / 5 := by
  fun_induction b2a x with
  | case1 a b c d e rest ih => simp only [enc5, List.length_append, List.length_cons, List.length_nil, ih]; omega
  | case2 a b c d => simp [enc5]
  | case3 a b c => simp [enc5]
  | case4 a b => simp [enc5]
  | case5 a => simp [enc5]
  | case6 => rfl

theorem length_a2b (s : Bytes) (h : litBodyOk s = true) : (a2b s).length = 5 * s.length / 8 := by
  fun_induction litBodyOk s with
  | case1 c1 c2 c3 c4 c5 c6 c7 c8 rest ih =>
    simp only [Bool.and_eq_true] at h
    simp only [a2b, dec8, List.length_append, List.length_cons, List.length_nil, ih h.2]; omega
  | case2 c1 c2 c3 c4 c5 c6 c7 => simp [a2b, dec8]
  | case3 c1 c2 c3 c4 c5 => simp [a2b, dec8]
  | case4 c1 c2 c3 c4 => simp [a2b, dec8]
  | case5 c1 c2 => simp [a2b, dec8]
  | case6 => rfl
  | case7 s h1 h2 h3 h4 h5 h6 => simp at h

/-! ### decimal numbers -/

theorem digit_toNat (n : Nat) (h : n < 10) : (UInt8.ofNat (48 + n)).toNat - 48 = n := by
  simp only [UInt8.toNat_ofNat', Nat.reducePow]; omega

theorem isDigit_ofNat (n : Nat) (h : n < 10) : isDigit (UInt8.ofNat (48 + n)) = true := by
  revert n; decide

theorem canon_single : ∀ n, n < 10 → canonicalDigits [UInt8.ofNat (48 + n)] = true := by decide

theorem decToNat_cons_acc (d : Bytes) (a : Nat) :
    d.foldl (fun a c => 10 * a + (c.toNat - 48)) a = a * 10 ^ d.length + decToNat d := by
  induction d generalizing a with
  | nil => simp [decToNat]
  | cons c cs ih =>
    simp only [decToNat, List.foldl_cons, List.length_cons]
    rw [ih, ih (10 * 0 + _)]
    simp only [Nat.pow_succ]
    rw [Nat.mul_zero, Nat.zero_add, Nat.add_mul, Nat.add_assoc]
    congr 1
    rw [Nat.mul_comm 10 a, Nat.mul_assoc, Nat.mul_comm 10]

/-- the accumulator version: digits of `n` pushed in front of `acc` -/
theorem decGo_spec (f n : Nat) (acc : Bytes) (h : n < f) :
    ∃ ds, decGo f n acc = ds ++ acc ∧ decToNat ds = n ∧ ds.all isDigit = true ∧ canonicalDigits ds = true := by
  induction f generalizing n acc with
  | zero => omega
  | succ f ih =>
    unfold decGo
    split
    · rename_i hn
      refine ⟨[UInt8.ofNat (48 + n)], rfl, ?_, ?_, ?_⟩
      · simp only [decToNat, List.foldl_cons, List.foldl_nil]; rw [digit_toNat n hn]; omega
      · simp only [List.all_cons, List.all_nil, isDigit_ofNat n hn, Bool.and_self]
      · exact canon_single n hn
    · rename_i hn
      obtain ⟨ds, h1, h2, h3, h4⟩ := ih (n / 10) (UInt8.ofNat (48 + n % 10) :: acc) (by omega)
      refine ⟨ds ++ [UInt8.ofNat (48 + n % 10)], by simp only [h1, List.append_assoc, List.cons_append, List.nil_append], ?_, ?_, ?_⟩
      · simp only [decToNat, List.foldl_append, List.foldl_cons, List.foldl_nil]
        have : List.foldl (fun a c => 10 * a + (c.toNat - 48)) 0 ds = n / 10 := h2
        rw [this, digit_toNat _ (by omega)]; omega
      · simp only [List.all_append, h3, List.all_cons, List.all_nil, isDigit_ofNat _ (Nat.mod_lt n (by decide)), Bool.and_self]
      · -- ds is the canonical form of n / 10 ≥ 1, so it does not start with '0'
        cases ds with
        | nil => simp [decToNat] at h2; omega
        | cons c cs =>
          simp only [List.cons_append]
          by_cases hc : c = 48
          · subst hc
            cases cs with
            | nil => simp [decToNat] at h2; omega
            | cons c2 cs2 => simp [canonicalDigits] at h4
          · cases cs with
            | nil => simp [canonicalDigits, hc]
            | cons c2 cs2 => simp [canonicalDigits, hc]

theorem natToDec_spec (n : Nat) :
    decToNat (natToDec n) = n ∧ (natToDec n).all isDigit = true ∧ canonicalDigits (natToDec n) = true := by
  obtain ⟨ds, h1, h2, h3, h4⟩ := decGo_spec (n + 1) n [] (by omega)
  simp only [List.append_nil] at h1
  simp only [natToDec, h1, h2, h3, h4, and_self]


theorem decGo_fuel (f1 f2 n : Nat) (acc : Bytes) (h1 : n < f1) (h2 : n < f2) : decGo f1 n acc = decGo f2 n acc := by
  induction f1 generalizing f2 n acc with
  | zero => omega
  | succ f1 ih =>
    cases f2 with
    | zero => omega
    | succ f2 =>
      unfold decGo
      split
      · rfl
      · exact ih f2 (n / 10) _ (by omega) (by omega)

theorem digit_back (c : UInt8) : isDigit c = true → UInt8.ofNat (48 + (c.toNat - 48)) = c ∧ c.toNat - 48 < 10 := by
  revert c; apply forall_u8; decide

theorem decGo_fold (cs : Bytes) (hcs : cs.all isDigit = true) (v : Nat) (acc : Bytes) (f f' : Nat) (hv : 0 < v)
    (hf : cs.foldl (fun a c => 10 * a + (c.toNat - 48)) v < f) (hf' : v < f') :
    decGo f (cs.foldl (fun a c => 10 * a + (c.toNat - 48)) v) acc = decGo f' v (cs ++ acc) := by
  induction cs generalizing v acc f' with
  | nil => exact decGo_fuel _ _ _ _ hf hf'
  | cons c cs ih =>
    simp only [List.all_cons, Bool.and_eq_true] at hcs
    obtain ⟨hb, hlt⟩ := digit_back c hcs.1
    simp only [List.foldl_cons] at hf ⊢
    rw [ih hcs.2 (10 * v + (c.toNat - 48)) acc (10 * v + (c.toNat - 48) + 1) (by omega) hf (by omega)]
    rw [decGo]
    have : ¬ (10 * v + (c.toNat - 48) < 10) := by omega
    simp only [this, if_false]
    have e1 : (10 * v + (c.toNat - 48)) / 10 = v := by omega
    have e2 : (10 * v + (c.toNat - 48)) % 10 = c.toNat - 48 := by omega
    rw [e1, e2, hb]
    exact decGo_fuel _ _ _ _ (by omega) hf'

theorem canonical_cases (d : Bytes) (h : canonicalDigits d = true) : d = [48] ∨ ∃ c cs, d = c :: cs ∧ c ≠ 48 := by
  match d, h with
  | [], h => simp [canonicalDigits] at h
  | [c], h =>
    by_cases hc : c = 48
    · left; rw [hc]
    · right; exact ⟨c, [], rfl, hc⟩
  | c :: c2 :: cs, h =>
    right
    refine ⟨c, c2 :: cs, rfl, ?_⟩
    intro hc; subst hc; simp [canonicalDigits] at h

/-- printing the value of a canonical digit string gives the string back -/
theorem natToDec_decToNat (d : Bytes) (hd : d.all isDigit = true) (hc : canonicalDigits d = true) :
    natToDec (decToNat d) = d := by
  rcases canonical_cases d hc with rfl | ⟨c, cs, rfl, hne⟩
  · decide
  · simp only [List.all_cons, Bool.and_eq_true] at hd
    obtain ⟨hb, hlt⟩ := digit_back c hd.1
    have hpos : 0 < c.toNat - 48 := by
      have : c.toNat - 48 ≠ 0 := by
        intro h0; apply hne; rw [← hb, h0]; rfl
      omega
    have hfold : decToNat (c :: cs) = cs.foldl (fun a c => 10 * a + (c.toNat - 48)) (c.toNat - 48) := by
      simp [decToNat]
    rw [natToDec, hfold, decGo_fold cs hd.2 (c.toNat - 48) [] _ (c.toNat - 48 + 1) hpos (by omega) (by omega)]
    rw [decGo]
    simp only [hlt, if_true, hb, List.append_nil]

/-! ### fixed-length base32 groups -/

theorem len_succ {α : Type} {l : List α} {n : Nat} (h : l.length = n + 1) : ∃ a t, l = a :: t ∧ t.length = n := by
  cases l with
  | nil => simp at h
  | cons a t => exact ⟨a, t, rfl, by simpa using h⟩

/-- `B{25}[aqiyemu4]` and `BASE32STR_anybytes` agree on strings of length 26 -/
theorem bridge26 (g : Bytes) (hl : g.length = 26) :
    ((g.take 25).all isB32 && cls3bits.contains (g.getLastD 0)) = litBodyOk g := by
  obtain ⟨c1, g1, rfl, h1⟩ := len_succ hl
  obtain ⟨c2, g2, rfl, h2⟩ := len_succ h1
  obtain ⟨c3, g3, rfl, h3⟩ := len_succ h2
  obtain ⟨c4, g4, rfl, h4⟩ := len_succ h3
  obtain ⟨c5, g5, rfl, h5⟩ := len_succ h4
  obtain ⟨c6, g6, rfl, h6⟩ := len_succ h5
  obtain ⟨c7, g7, rfl, h7⟩ := len_succ h6
  obtain ⟨c8, g8, rfl, h8⟩ := len_succ h7
  obtain ⟨c9, g9, rfl, h9⟩ := len_succ h8
  obtain ⟨c10, g10, rfl, h10⟩ := len_succ h9
  obtain ⟨c11, g11, rfl, h11⟩ := len_succ h10
  obtain ⟨c12, g12, rfl, h12⟩ := len_succ h11
  obtain ⟨c13, g13, rfl, h13⟩ := len_succ h12
  obtain ⟨c14, g14, rfl, h14⟩ := len_succ h13
  obtain ⟨c15, g15, rfl, h15⟩ := len_succ h14
  obtain ⟨c16, g16, rfl, h16⟩ := len_succ h15
  obtain ⟨c17, g17, rfl, h17⟩ := len_succ h16
  obtain ⟨c18, g18, rfl, h18⟩ := len_succ h17
  obtain ⟨c19, g19, rfl, h19⟩ := len_succ h18
  obtain ⟨c20, g20, rfl, h20⟩ := len_succ h19
  obtain ⟨c21, g21, rfl, h21⟩ := len_succ h20
  obtain ⟨c22, g22, rfl, h22⟩ := len_succ h21
  obtain ⟨c23, g23, rfl, h23⟩ := len_succ h22
  obtain ⟨c24, g24, rfl, h24⟩ := len_succ h23
  obtain ⟨c25, g25, rfl, h25⟩ := len_succ h24
  obtain ⟨c26, g26, rfl, h26⟩ := len_succ h25
  have : g26 = [] := List.eq_nil_of_length_eq_zero h26
  subst this
  simp [litBodyOk, Bool.and_assoc]

/-- `B{51}[aq]` and `BASE32STR_anybytes` agree on strings of length 52 -/
theorem bridge52 (g : Bytes) (hl : g.length = 52) :
    ((g.take 51).all isB32 && cls1bits.contains (g.getLastD 0)) = litBodyOk g := by
  obtain ⟨c1, g1, rfl, h1⟩ := len_succ hl
  obtain ⟨c2, g2, rfl, h2⟩ := len_succ h1
  obtain ⟨c3, g3, rfl, h3⟩ := len_succ h2
  obtain ⟨c4, g4, rfl, h4⟩ := len_succ h3
  obtain ⟨c5, g5, rfl, h5⟩ := len_succ h4
  obtain ⟨c6, g6, rfl, h6⟩ := len_succ h5
  obtain ⟨c7, g7, rfl, h7⟩ := len_succ h6
  obtain ⟨c8, g8, rfl, h8⟩ := len_succ h7
  obtain ⟨c9, g9, rfl, h9⟩ := len_succ h8
  obtain ⟨c10, g10, rfl, h10⟩ := len_succ h9
  obtain ⟨c11, g11, rfl, h11⟩ := len_succ h10
  obtain ⟨c12, g12, rfl, h12⟩ := len_succ h11
  obtain ⟨c13, g13, rfl, h13⟩ := len_succ h12
  obtain ⟨c14, g14, rfl, h14⟩ := len_succ h13
  obtain ⟨c15, g15, rfl, h15⟩ := len_succ h14
  obtain ⟨c16, g16, rfl, h16⟩ := len_succ h15
  obtain ⟨c17, g17, rfl, h17⟩ := len_succ h16
  obtain ⟨c18, g18, rfl, h18⟩ := len_succ h17
  obtain ⟨c19, g19, rfl, h19⟩ := len_succ h18
  obtain ⟨c20, g20, rfl, h20⟩ := len_succ h19
  obtain ⟨c21, g21, rfl, h21⟩ := len_succ h20
  obtain ⟨c22, g22, rfl, h22⟩ := len_succ h21
  obtain ⟨c23, g23, rfl, h23⟩ := len_succ h22
  obtain ⟨c24, g24, rfl, h24⟩ := len_succ h23
  obtain ⟨c25, g25, rfl, h25⟩ := len_succ h24
  obtain ⟨c26, g26, rfl, h26⟩ := len_succ h25
  obtain ⟨c27, g27, rfl, h27⟩ := len_succ h26
  obtain ⟨c28, g28, rfl, h28⟩ := len_succ h27
  obtain ⟨c29, g29, rfl, h29⟩ := len_succ h28
  obtain ⟨c30, g30, rfl, h30⟩ := len_succ h29
  obtain ⟨c31, g31, rfl, h31⟩ := len_succ h30
  obtain ⟨c32, g32, rfl, h32⟩ := len_succ h31
  obtain ⟨c33, g33, rfl, h33⟩ := len_succ h32
  obtain ⟨c34, g34, rfl, h34⟩ := len_succ h33
  obtain ⟨c35, g35, rfl, h35⟩ := len_succ h34
  obtain ⟨c36, g36, rfl, h36⟩ := len_succ h35
  obtain ⟨c37, g37, rfl, h37⟩ := len_succ h36
  obtain ⟨c38, g38, rfl, h38⟩ := len_succ h37
  obtain ⟨c39, g39, rfl, h39⟩ := len_succ h38
  obtain ⟨c40, g40, rfl, h40⟩ := len_succ h39
  obtain ⟨c41, g41, rfl, h41⟩ := len_succ h40
  obtain ⟨c42, g42, rfl, h42⟩ := len_succ h41
  obtain ⟨c43, g43, rfl, h43⟩ := len_succ h42
  obtain ⟨c44, g44, rfl, h44⟩ := len_succ h43
  obtain ⟨c45, g45, rfl, h45⟩ := len_succ h44
  obtain ⟨c46, g46, rfl, h46⟩ := len_succ h45
  obtain ⟨c47, g47, rfl, h47⟩ := len_succ h46
  obtain ⟨c48, g48, rfl, h48⟩ := len_succ h47
  obtain ⟨c49, g49, rfl, h49⟩ := len_succ h48
  obtain ⟨c50, g50, rfl, h50⟩ := len_succ h49
  obtain ⟨c51, g51, rfl, h51⟩ := len_succ h50
  obtain ⟨c52, g52, rfl, h52⟩ := len_succ h51
  have : g52 = [] := List.eq_nil_of_length_eq_zero h52
  subst this
  simp [litBodyOk, Bool.and_assoc]

/-! ### matcher, piece by piece -/

def ok128 (g : Bytes) : Prop := g.length = 26 ∧ litBodyOk g = true
def ok256 (g : Bytes) : Prop := g.length = 52 ∧ litBodyOk g = true

theorem splitB32_128_fwd (g r : Bytes) (h : ok128 g) : splitB32 25 cls3bits (g ++ r) = some (g, r) := by
  obtain ⟨hl, hk⟩ := h
  have ht : (g ++ r).take 26 = g := by rw [← hl]; exact List.take_left
  have hd : (g ++ r).drop 26 = r := by rw [← hl]; exact List.drop_left
  have hb := bridge26 g hl
  rw [hk] at hb
  simp only [splitB32, Nat.reduceAdd, ht, hd, hl, beq_self_eq_true, Bool.true_and, hb, if_true]

theorem splitB32_256_fwd (g r : Bytes) (h : ok256 g) : splitB32 51 cls1bits (g ++ r) = some (g, r) := by
  obtain ⟨hl, hk⟩ := h
  have ht : (g ++ r).take 52 = g := by rw [← hl]; exact List.take_left
  have hd : (g ++ r).drop 52 = r := by rw [← hl]; exact List.drop_left
  have hb := bridge52 g hl
  rw [hk] at hb
  simp only [splitB32, Nat.reduceAdd, ht, hd, hl, beq_self_eq_true, Bool.true_and, hb, if_true]

theorem splitB32_128_inv (s g r : Bytes) (h : splitB32 25 cls3bits s = some (g, r)) : s = g ++ r ∧ ok128 g := by
  simp only [splitB32, Nat.reduceAdd] at h
  split at h
  · rename_i hc
    simp only [Option.some.injEq, Prod.mk.injEq] at h
    obtain ⟨rfl, rfl⟩ := h
    simp only [Bool.and_eq_true, beq_iff_eq] at hc
    refine ⟨(List.take_append_drop 26 s).symm, hc.1.1, ?_⟩
    rw [← bridge26 _ hc.1.1]; simp only [hc.1.2, hc.2, Bool.and_self]
  · simp at h

theorem splitB32_256_inv (s g r : Bytes) (h : splitB32 51 cls1bits s = some (g, r)) : s = g ++ r ∧ ok256 g := by
  simp only [splitB32, Nat.reduceAdd] at h
  split at h
  · rename_i hc
    simp only [Option.some.injEq, Prod.mk.injEq] at h
    obtain ⟨rfl, rfl⟩ := h
    simp only [Bool.and_eq_true, beq_iff_eq] at hc
    refine ⟨(List.take_append_drop 52 s).symm, hc.1.1, ?_⟩
    rw [← bridge52 _ hc.1.1]; simp only [hc.1.2, hc.2, Bool.and_self]
  · simp at h

/-- a maximal run: `xs` satisfies `p` and what follows does not start with a `p` character -/
def stops (p : UInt8 → Bool) (r : Bytes) : Prop := ∀ c t, r = c :: t → p c = false

theorem takeWhile_run (p : UInt8 → Bool) (xs r : Bytes) (hx : xs.all p = true) (hr : stops p r) :
    (xs ++ r).takeWhile p = xs ∧ (xs ++ r).dropWhile p = r := by
  induction xs with
  | nil =>
    cases r with
    | nil => simp
    | cons c t => have := hr c t rfl; simp [List.takeWhile, List.dropWhile, this]
  | cons x xs ih =>
    simp only [List.all_cons, Bool.and_eq_true] at hx
    simp [List.takeWhile, List.dropWhile, hx.1, ih hx.2]

theorem takeWhile_all (p : UInt8 → Bool) (s : Bytes) : (s.takeWhile p).all p = true := by
  induction s with
  | nil => rfl
  | cons x xs ih =>
    by_cases hx : p x = true
    · simp [List.takeWhile, hx, ih]
    · simp [List.takeWhile, hx]

theorem run_split (p : UInt8 → Bool) (s : Bytes) :
    s = s.takeWhile p ++ s.dropWhile p ∧ (s.takeWhile p).all p = true ∧ stops p (s.dropWhile p) := by
  refine ⟨(List.takeWhile_append_dropWhile).symm, ?_, ?_⟩
  · exact takeWhile_all p s
  · intro c t h
    have := List.head_dropWhile_not (p := p) (l := s) (w := by rw [h]; simp)
    simpa [h] using this


def okNum (d : Bytes) : Prop := d.all isDigit = true ∧ canonicalDigits d = true

theorem okNum_ne_nil {d : Bytes} (h : okNum d) : d ≠ [] := by
  intro hd; subst hd; simp [okNum, canonicalDigits] at h

theorem stops_nil (p : UInt8 → Bool) : stops p [] := by intro c t h; simp at h
theorem stops_colon_digit (r : Bytes) : stops isDigit (58 :: r) := by
  intro c t h; simp only [List.cons.injEq] at h; rw [← h.1]; decide
theorem stops_colon_b32 (r : Bytes) : stops isB32 (58 :: r) := by
  intro c t h; simp only [List.cons.injEq] at h; rw [← h.1]; decide
theorem stops_nl_b32 : stops isB32 [10] := by
  intro c t h; simp only [List.cons.injEq] at h; rw [← h.1]; decide

/-! forward steps -/
theorem mp_colon (ps : List Piece) (r : Bytes) : matchPieces (.colon :: ps) (58 :: r) = matchPieces ps r := by
  simp [matchPieces]

theorem mp_g128 (ps : List Piece) (g r : Bytes) (h : ok128 g) :
    matchPieces (g128 :: ps) (g ++ r) = (matchPieces ps r).map (g :: ·) := by
  simp only [g128, matchPieces, splitB32_128_fwd g r h]

theorem mp_g256 (ps : List Piece) (g r : Bytes) (h : ok256 g) :
    matchPieces (g256 :: ps) (g ++ r) = (matchPieces ps r).map (g :: ·) := by
  simp only [g256, matchPieces, splitB32_256_fwd g r h]

theorem mp_num (ps : List Piece) (d r : Bytes) (h : okNum d) (hr : stops isDigit r) :
    matchPieces (.number true :: ps) (d ++ r) = (matchPieces ps r).map (d :: ·) := by
  obtain ⟨h1, h2⟩ := takeWhile_run isDigit d r h.1 hr
  have hne := okNum_ne_nil h
  simp only [matchPieces, h1, h2, h.2]
  simp [hne]

theorem mp_lit (ps : List Piece) (g r : Bytes) (h : litBodyOk g = true) (hr : stops isB32 r) :
    matchPieces (.litBody :: ps) (g ++ r) = (matchPieces ps r).map (g :: ·) := by
  obtain ⟨h1, h2⟩ := takeWhile_run isB32 g r (litBodyOk_all g h) hr
  simp only [matchPieces, h1, h2, h, if_true]

theorem mp_dollar_nil : matchPieces [.dollar] [] = some [] := by simp [matchPieces, atDollar]
theorem mp_cod_nil : matchPieces [.colonOrDollar] [] = some [] := by simp [matchPieces, atDollar]

/-! inverse steps -/
theorem mp_colon_inv (ps : List Piece) (s : Bytes) (gs : List Bytes) (h : matchPieces (.colon :: ps) s = some gs) :
    ∃ r, s = 58 :: r ∧ matchPieces ps r = some gs := by
  unfold matchPieces at h
  split at h
  · exact ⟨_, rfl, h⟩
  · simp at h

theorem mp_g128_inv (ps : List Piece) (s : Bytes) (gs : List Bytes) (h : matchPieces (g128 :: ps) s = some gs) :
    ∃ g r gs', s = g ++ r ∧ ok128 g ∧ gs = g :: gs' ∧ matchPieces ps r = some gs' := by
  simp only [g128, matchPieces] at h
  split at h
  · rename_i g r hs
    obtain ⟨e, ok⟩ := splitB32_128_inv s g r hs
    cases hm : matchPieces ps r with
    | none => simp [hm] at h
    | some gs' => simp [hm] at h; exact ⟨g, r, gs', e, ok, h.symm, hm⟩
  · simp at h

theorem mp_g256_inv (ps : List Piece) (s : Bytes) (gs : List Bytes) (h : matchPieces (g256 :: ps) s = some gs) :
    ∃ g r gs', s = g ++ r ∧ ok256 g ∧ gs = g :: gs' ∧ matchPieces ps r = some gs' := by
  simp only [g256, matchPieces] at h
  split at h
  · rename_i g r hs
    obtain ⟨e, ok⟩ := splitB32_256_inv s g r hs
    cases hm : matchPieces ps r with
    | none => simp [hm] at h
    | some gs' => simp [hm] at h; exact ⟨g, r, gs', e, ok, h.symm, hm⟩
  · simp at h

theorem mp_num_inv (ps : List Piece) (s : Bytes) (gs : List Bytes) (h : matchPieces (.number true :: ps) s = some gs) :
    ∃ d r gs', s = d ++ r ∧ okNum d ∧ gs = d :: gs' ∧ matchPieces ps r = some gs' := by
  simp only [matchPieces] at h
  split at h
  · rename_i hc
    obtain ⟨e, hall, _⟩ := run_split isDigit s
    cases hm : matchPieces ps (s.dropWhile isDigit) with
    | none => simp [hm] at h
    | some gs' =>
      simp [hm] at h
      simp at hc
      exact ⟨_, _, gs', e, ⟨hall, hc.2⟩, h.symm, hm⟩
  · simp at h

theorem mp_lit_inv (ps : List Piece) (s : Bytes) (gs : List Bytes) (h : matchPieces (.litBody :: ps) s = some gs) :
    ∃ g r gs', s = g ++ r ∧ litBodyOk g = true ∧ gs = g :: gs' ∧ matchPieces ps r = some gs' := by
  simp only [matchPieces] at h
  split at h
  · rename_i hc
    obtain ⟨e, _, _⟩ := run_split isB32 s
    cases hm : matchPieces ps (s.dropWhile isB32) with
    | none => simp [hm] at h
    | some gs' =>
      simp [hm] at h
      exact ⟨_, _, gs', e, hc, h.symm, hm⟩
  · simp at h

theorem mp_dollar_inv (s : Bytes) (gs : List Bytes) (h : matchPieces [.dollar] s = some gs) :
    gs = [] ∧ (s = [] ∨ s = [10]) := by
  simp only [matchPieces] at h
  split at h
  · rename_i hc
    simp at h
    simp [atDollar] at hc
    exact ⟨h, hc⟩
  · simp at h

theorem mp_cod_inv (s : Bytes) (gs : List Bytes) (h : matchPieces [.colonOrDollar] s = some gs) :
    gs = [] ∧ (s = [] ∨ s = [10] ∨ ∃ r, s = 58 :: r) := by
  unfold matchPieces at h
  split at h
  · simp [matchPieces] at h; exact ⟨h, Or.inr (Or.inr ⟨_, rfl⟩)⟩
  · split at h
    · rename_i hc
      simp [matchPieces] at h
      simp [atDollar] at hc
      rcases hc with hc | hc
      · exact ⟨h, Or.inl hc⟩
      · exact ⟨h, Or.inr (Or.inl hc)⟩
    · simp at h

end Tahoe.Uri
