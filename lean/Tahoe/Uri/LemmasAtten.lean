import Tahoe.Uri.LemmasCaps
/-! Vocabulary and helper lemmas for C16 (attenuation, alleged prefixes, UnknownNode). -/
namespace Tahoe.Uri
set_option maxRecDepth 100000
set_option linter.unusedSimpArgs false

/-- everything the holder of the read-only form of `f` knows: the kind after diminishing and the
fields, a write key being replaced by the read key derived from it -/
def FileCap.readSecrets (H : Hashes) : FileCap → FileKind × List Bytes × List Nat
  | .ssk w fp => (.sskRo, [H.readkey w, fp], [])
  | .sskRo r fp => (.sskRo, [r, fp], [])
  | .mdmf w fp => (.mdmfRo, [H.readkey w, fp], [])
  | .mdmfRo r fp => (.mdmfRo, [r, fp], [])
  | .chk key ueb k n size => (.chk, [key, ueb], [k, n, size])
  | .chkV si ueb k n size => (.chkV, [si, ueb], [k, n, size])
  | .lit d => (.lit, [d], [])
  | .sskV si fp => (.sskV, [si, fp], [])
  | .mdmfV si fp => (.mdmfV, [si, fp], [])

/-- everything the holder of the verify cap of `f` knows: verifier kind, storage index, integrity fields -/
def FileCap.verifySecrets (H : Hashes) : FileCap → Option (FileKind × List Bytes × List Nat)
  | .ssk w fp => some (.sskV, [H.sskSI (H.readkey w), fp], [])
  | .sskRo r fp => some (.sskV, [H.sskSI r, fp], [])
  | .sskV si fp => some (.sskV, [si, fp], [])
  | .mdmf w fp => some (.mdmfV, [H.sskSI (H.readkey w), fp], [])
  | .mdmfRo r fp => some (.mdmfV, [H.sskSI r, fp], [])
  | .mdmfV si fp => some (.mdmfV, [si, fp], [])
  | .chk key ueb k n size => some (.chkV, [H.chkSI key, ueb], [k, n, size])
  | .chkV si ueb k n size => some (.chkV, [si, ueb], [k, n, size])
  | .lit _ => none

/-- file or directory, plus the inner secrets -/
def Cap.readSecrets (H : Hashes) : Cap → Option (Bool × (FileKind × List Bytes × List Nat))
  | .file f => some (false, f.readSecrets H)
  | .dir _ f => some (true, f.readSecrets H)
  | .unknown .. => none

def Cap.verifySecrets (H : Hashes) : Cap → Option (Bool × (FileKind × List Bytes × List Nat))
  | .file f => (f.verifySecrets H).map (false, ·)
  | .dir _ f => (f.verifySecrets H).map (true, ·)
  | .unknown .. => none

def FileCap.isVerifier : FileCap → Bool
  | .chkV .. | .sskV .. | .mdmfV .. => true
  | _ => false

theorem file_ro_of_secrets (H : Hashes) (f1 f2 : FileCap) (h : f1.readSecrets H = f2.readSecrets H) :
    f1.getReadonly H = f2.getReadonly H := by
  cases f1 <;> cases f2 <;> simp_all [FileCap.readSecrets, FileCap.getReadonly]

theorem file_verify_of_secrets (H : Hashes) (f1 f2 : FileCap) (h : f1.verifySecrets H = f2.verifySecrets H) :
    f1.getVerifyCap H = f2.getVerifyCap H := by
  cases f1 <;> cases f2 <;> simp_all [FileCap.verifySecrets, FileCap.getVerifyCap]

theorem getReadonly_kind (H : Hashes) (f : FileCap) : (f.getReadonly H).kind = dirRoKind f.kind := by
  cases f <;> rfl

theorem dir_getReadonly_wf (H : Hashes) (f : FileCap) :
    (Cap.dir f.kind f).getReadonly H = some (.dir (f.getReadonly H).kind (f.getReadonly H)) := by
  cases f <;> rfl


/-- can_be_writeable implies can_be_mutable -/
theorem stripAlleged_mono (deep : Bool) (u : Bytes) :
    (stripAlleged deep u).1 = false → (stripAlleged deep u).2.1 = false := by
  simp only [stripAlleged]; split <;> (try split) <;> simp


/-- the shape of the ro_uri an UnknownNode stores for a given cap `g`: `g` itself, `g` with a prefix
added, or `g` with `ro.` upgraded to `imm.` -/
def strengthens (g r : Bytes) : Prop :=
  r = g ∨ (¬ startsWith roPrefix g = true ∧ ¬ startsWith immPrefix g = true ∧ (r = roPrefix ++ g ∨ r = immPrefix ++ g)) ∨
  (startsWith roPrefix g = true ∧ r = immPrefix ++ g.drop roPrefix.length)

theorem finish_props (rw ro : Option Bytes) (deep : Bool) :
    let n := unknownNodeFinish rw ro deep
    (n.error.isSome = true → n.rw = none ∧ n.ro = none) ∧
    (∀ r, n.ro = some r → (startsWith roPrefix r = true ∨ startsWith immPrefix r = true) ∧
        ∃ g, ro = some g ∧ strengthens g r ∧ (startsWith immPrefix g = true → r = g)) ∧
    (deep = true → n.rw = none ∧ ∀ r, n.ro = some r → startsWith immPrefix r = true) ∧
    (∀ w, n.rw = some w → deep = false ∧ rw = some w) := by
  intro n
  simp only [n, unknownNodeFinish]
  generalize roError ro deep = err
  split
  · simp
  · cases deep
    · simp only [Bool.false_eq_true, if_false]
      refine ⟨by simp, ?_, by simp, by simp⟩
      intro r hr
      cases ro with
      | none => simp at hr
      | some g =>
        simp only [Option.map_some, Option.some.injEq] at hr
        split at hr
        · subst hr; rename_i hp
          simp only [Bool.or_eq_true] at hp
          exact ⟨hp, g, rfl, Or.inl rfl, fun _ => rfl⟩
        · subst hr; rename_i hp
          simp only [Bool.or_eq_true, not_or] at hp
          refine ⟨Or.inl (by simp [startsWith, roPrefix, List.isPrefixOf]), g, rfl, Or.inr (Or.inl ⟨hp.1, hp.2, Or.inl rfl⟩), fun h => absurd h hp.2⟩
    · simp only [if_true]
      refine ⟨by simp, ?_, ?_, by simp⟩
      · intro r hr
        cases ro with
        | none => simp at hr
        | some g =>
          simp only [Option.map_some, Option.some.injEq] at hr
          split at hr
          · subst hr; rename_i hp; exact ⟨Or.inr hp, g, rfl, Or.inl rfl, fun _ => rfl⟩
          · split at hr
            · subst hr; rename_i hi hp
              exact ⟨Or.inr (by simp [startsWith, immPrefix, List.isPrefixOf]), g, rfl, Or.inr (Or.inr ⟨hp, rfl⟩), fun h => absurd h hi⟩
            · subst hr; rename_i hi hp
              exact ⟨Or.inr (by simp [startsWith, immPrefix, List.isPrefixOf]), g, rfl, Or.inr (Or.inl ⟨hp, hi, Or.inr rfl⟩), fun h => absurd h hi⟩
      · intro _
        refine ⟨trivial, ?_⟩
        intro r hr
        cases ro with
        | none => simp at hr
        | some g =>
          simp only [Option.map_some, Option.some.injEq] at hr
          split at hr
          · subst hr; assumption
          · split at hr <;> subst hr <;> simp [startsWith, immPrefix, List.isPrefixOf]

theorem unknownNode_props (givenRw givenRo : Option Bytes) (deep : Bool) :
    let n := mkUnknownNode givenRw givenRo deep
    (n.error.isSome = true → n.rw = none ∧ n.ro = none) ∧
    (∀ r, n.ro = some r → (startsWith roPrefix r = true ∨ startsWith immPrefix r = true) ∧
        ∃ g, (orNone givenRo = some g ∨
              (orNone givenRo = none ∧ orNone givenRw = some g ∧ (startsWith roPrefix g = true ∨ startsWith immPrefix g = true))) ∧
          strengthens g r ∧ (startsWith immPrefix g = true → r = g)) ∧
    (deep = true → n.rw = none ∧ ∀ r, n.ro = some r → startsWith immPrefix r = true) ∧
    (∀ w, n.rw = some w → deep = false ∧ orNone givenRw = some w ∧ (orNone givenRo).isSome = true) := by
  intro n
  simp only [n, mkUnknownNode]
  cases hrw : orNone givenRw with
  | none =>
    simp only
    obtain ⟨p1, p2, p3, p4⟩ := finish_props none (orNone givenRo) deep
    refine ⟨p1, ?_, p3, ?_⟩
    · intro r hr
      obtain ⟨a, g, hg, b, c⟩ := p2 r hr
      exact ⟨a, g, Or.inl hg, b, c⟩
    · intro w hw; have := (p4 w hw).2; simp at this
  | some w =>
    simp only
    split
    · split <;> simp [UnknownNode.opaque]
    · cases hro : orNone givenRo with
      | none =>
        simp only
        split
        · simp [UnknownNode.opaque]
        · rename_i hpre
          simp only [Bool.not_eq_true, Bool.not_eq_false', Bool.not_not] at hpre
          obtain ⟨p1, p2, p3, p4⟩ := finish_props none (some w) deep
          refine ⟨p1, ?_, p3, ?_⟩
          · intro r hr
            obtain ⟨a, g, hg, b, c⟩ := p2 r hr
            simp only [Option.some.injEq] at hg; subst hg
            refine ⟨a, w, Or.inr ⟨trivial, rfl, ?_⟩, b, c⟩
            simpa [Bool.or_eq_true] using hpre
          · intro w' hw; have := (p4 w' hw).2; simp at this
      | some r0 =>
        simp only
        split
        · simp [UnknownNode.opaque]
        · obtain ⟨p1, p2, p3, p4⟩ := finish_props (some w) (some r0) deep
          refine ⟨p1, ?_, p3, ?_⟩
          · intro r hr
            obtain ⟨a, g, hg, b, c⟩ := p2 r hr
            exact ⟨a, g, Or.inl hg, b, c⟩
          · intro w' hw
            obtain ⟨q1, q2⟩ := p4 w' hw
            exact ⟨q1, q2, rfl⟩

/-- flags of a well-formed known cap coincide with the flags of its inner file cap (what a node reports) -/
theorem wf_flags_inner (c : Cap) (h : c.wf = true) :
    ∃ f, c.inner = some f ∧ c.isReadonly = some f.isReadonly ∧ c.isMutable = some f.isMutable := by
  cases c with
  | file f => exact ⟨f, rfl, rfl, rfl⟩
  | dir dk f =>
    simp only [Cap.wf, Bool.and_eq_true, beq_iff_eq] at h
    obtain ⟨rfl, _⟩ := h
    exact ⟨f, rfl, by cases f <;> rfl, by cases f <;> rfl⟩
  | unknown u e => simp [Cap.wf] at h


/-! ### the node cache never changes a verdict -/

/-- every cached entry is what a cold call with that bigcap in that context builds -/
def cacheOk (cache : NodeCache) : Prop :=
  ∀ e ∈ cache, ∀ w r, orNone (orBytes w r) = some e.bigcap → createFromCap w r e.deep = .known e.kind e.cap

theorem createFromCap_known_of_big (w r w' r' : Option Bytes) (deep : Bool) (big : Bytes) (k : NodeKind) (cap : Cap)
    (h1 : orNone (orBytes w r) = some big) (h2 : orNone (orBytes w' r') = some big)
    (h : createFromCap w r deep = .known k cap) : createFromCap w' r' deep = .known k cap := by
  simp only [createFromCap, h1, h2] at h ⊢
  cases hk : createFromSingleCap (fromString deep big) with
  | none => rw [hk] at h; simp at h
  | some k' => rw [hk] at h; exact h

theorem cached_step (cache : NodeCache) (hc : cacheOk cache) (w r : Option Bytes) (deep : Bool) :
    (createFromCapCached cache w r deep).1 = createFromCap w r deep ∧ cacheOk (createFromCapCached cache w r deep).2 := by
  simp only [createFromCapCached]
  cases hb : orNone (orBytes w r) with
  | none => simp only [createFromCap, hb]; exact ⟨trivial, hc⟩
  | some big =>
    simp only
    cases hl : cacheLookup cache deep big with
    | some e =>
      simp only
      have hm := List.mem_of_find?_eq_some hl
      have hp := List.find?_some hl
      simp only [Bool.and_eq_true, beq_iff_eq] at hp
      refine ⟨?_, hc⟩
      have := hc e hm w r (by rw [hb, hp.2])
      rw [hp.1] at this; exact this.symm
    | none =>
      simp only
      cases hn : createFromCap w r deep with
      | unknown n => exact ⟨rfl, hc⟩
      | known k cap =>
        simp only
        split
        · refine ⟨rfl, ?_⟩
          intro e he w' r' hw
          simp only [List.mem_cons] at he
          rcases he with rfl | he
          · exact createFromCap_known_of_big w r w' r' deep big k cap hb hw hn
          · exact hc e he w' r' hw
        · exact ⟨rfl, hc⟩

theorem runHistory_eq_cold (cache : NodeCache) (hc : cacheOk cache) (ops : List NmOp) : runHistory cache ops = runCold ops := by
  induction ops generalizing cache with
  | nil => rfl
  | cons op rest ih =>
    cases op with
    | call w r d =>
      obtain ⟨h1, h2⟩ := cached_step cache hc w r d
      simp only [runHistory, runCold]
      rw [h1, ih _ h2]
    | gc keep =>
      simp only [runHistory, runCold]
      exact ih _ (fun e he => hc e (List.mem_filter.mp he).1)


/-- the flags of `from_string`'s result obey (can_be_mutable, can_be_writeable) as computed from prefix and context -/
theorem fromString_flags_of_ctx (deep : Bool) (u : Bytes) :
    ((stripAlleged deep u).2.1 = false → (fromString deep u).isReadonly ≠ some false) ∧
    ((stripAlleged deep u).1 = false → (fromString deep u).isMutable ≠ some true) := by
  suffices key : ∀ c, fromString deep u = c →
      (((stripAlleged deep u).2.1 = false → c.isReadonly ≠ some false) ∧
       ((stripAlleged deep u).1 = false → c.isMutable ≠ some true)) from key _ rfl
  intro c h
  have mono := stripAlleged_mono deep u
  simp only [fromString, fromStringWith] at h
  cases hd : dispatch (stripAlleged deep u).2.2 with
  | none => rw [hd] at h; subst h; simp [Cap.isReadonly, Cap.isMutable]
  | some eb =>
    obtain ⟨e, body⟩ := eb
    obtain ⟨p, hmem, _⟩ := dispatch_inv _ _ _ hd
    rw [hd] at h
    cases e with
    | file k need =>
      obtain ⟨rfl, rfl⟩ := table_file p k need hmem
      simp only at h
      split at h
      · rename_i hn
        cases hi : initBodyWith spec k body with
        | none => rw [hi] at h; subst h; simp [Cap.isReadonly, Cap.isMutable]
        | some f =>
          rw [hi] at h; subst h
          obtain ⟨hkind, _, _⟩ := initBody_inv k body f hi
          subst hkind
          constructor
          · intro hw; cases f <;> simp_all [needOk, fileNeed, FileCap.kind, Cap.isReadonly, FileCap.isReadonly]
          · intro hm; cases f <;> simp_all [needOk, fileNeed, FileCap.kind, Cap.isMutable, FileCap.isMutable]
      · subst h; simp [Cap.isReadonly, Cap.isMutable]
    | dir k need =>
      obtain ⟨rfl, rfl⟩ := table_dir p k need hmem
      simp only at h
      split at h
      · rename_i hn
        cases hi : initBodyWith spec k body with
        | none => rw [hi] at h; subst h; simp [Cap.isReadonly, Cap.isMutable]
        | some f =>
          rw [hi] at h; subst h
          constructor
          · intro hw; cases k <;> simp_all [needOk, fileNeed, Cap.isReadonly, dirIsReadonly]
          · intro hm; cases k <;> simp_all [needOk, fileNeed, Cap.isMutable, dirIsMutable]
      · subst h; simp [Cap.isReadonly, Cap.isMutable]
    | futureWriteable => simp only at h; split at h <;> (subst h; simp [Cap.isReadonly, Cap.isMutable])
    | futureMutable => simp only at h; split at h <;> (subst h; simp [Cap.isReadonly, Cap.isMutable])

end Tahoe.Uri
