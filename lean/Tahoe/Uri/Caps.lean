import Tahoe.Uri.Grammar
/-
Capability objects of `src/allmydata/uri.py`, `from_string`, `to_string`, attenuation, and the
cap-handling logic of `unknown.py` (`UnknownNode.__init__`, `strip_prefix_for_ro`) and
`nodemaker.py` (`create_from_cap`, `_create_from_single_cap`).  Mathlib-free, executable.

Representation
* The nine file-cap classes are the constructors of `FileCap`; the field lists are the constructor
  arguments of the Python classes.  Attributes that `__init__` *derives* (`readkey`,
  `storage_index`) are not stored; they are recomputed by `storageIndex`/`getReadonly`/… from an
  abstract `Hashes` record (`hashutil.ssk_readkey_hash`, `ssk_storage_index_hash`,
  `storage_index_hash`), because Python's `__eq__` compares `to_string()` only.
* The nine directory classes correspond one-to-one to their `INNER_URI_CLASS`; `Cap.dir dk f` is an
  instance of the directory class whose `INNER_URI_CLASS` has kind `dk`, wrapping the file cap `f`.
  Python does not force `f` to be of kind `dk` (`_DirectoryBaseURI.get_verify_cap` wraps the
  verify-cap of *any* directory verifier in a `DirectoryURIVerifier`), so `dk ≠ f.kind` is
  representable; `toString` then fails like the `assert mo` in `_DirectoryBaseURI.to_string`.
* Numbers are `Nat`: `needed_shares/total_shares/size` are non-negative in every cap the code
  creates (a negative value would print as `-n`, which no pattern accepts).
* Python 3.11+ refuses `int()` of more than 4300 digits (ValueError, not caught by `from_string`);
  the model has no such limit — see ASSUMPTIONS in harness/props/c15.py.
-/
namespace Tahoe.Uri

inductive FileCap
  | chk (key ueb : Bytes) (k n size : Nat)        -- CHKFileURI(key, uri_extension_hash, needed, total, size)
  | chkV (si ueb : Bytes) (k n size : Nat)        -- CHKFileVerifierURI(storage_index, ueh, needed, total, size)
  | lit (data : Bytes)                            -- LiteralFileURI(data)
  | ssk (writekey fp : Bytes)                     -- WriteableSSKFileURI(writekey, fingerprint)
  | sskRo (readkey fp : Bytes)                    -- ReadonlySSKFileURI(readkey, fingerprint)
  | sskV (si fp : Bytes)                          -- SSKVerifierURI(storage_index, fingerprint)
  | mdmf (writekey fp : Bytes)                    -- WriteableMDMFFileURI
  | mdmfRo (readkey fp : Bytes)                   -- ReadonlyMDMFFileURI
  | mdmfV (si fp : Bytes)                         -- MDMFVerifierURI
  deriving DecidableEq, Repr

def FileCap.kind : FileCap → FileKind
  | .chk .. => .chk | .chkV .. => .chkV | .lit .. => .lit
  | .ssk .. => .ssk | .sskRo .. => .sskRo | .sskV .. => .sskV
  | .mdmf .. => .mdmf | .mdmfRo .. => .mdmfRo | .mdmfV .. => .mdmfV

/-- the `error` attribute of an `UnknownURI` / `UnknownNode` (class of the exception object) -/
inductive Err
  | badURI                 -- BadURIError
  | mustBeDeepImmutable    -- MustBeDeepImmutableError
  | mustBeReadonly         -- MustBeReadonlyError
  | mustNotBeUnknownRW     -- MustNotBeUnknownRWError
  deriving DecidableEq, Repr

inductive Cap
  | file (f : FileCap)
  | dir (dk : FileKind) (f : FileCap)
  | unknown (u : Bytes) (err : Option Err)        -- UnknownURI(u, error)
  deriving DecidableEq, Repr

def Cap.isKnown : Cap → Bool
  | .unknown .. => false
  | _ => true

/-! ### well-formed cap objects (the ones the code itself creates) -/

def FileCap.wf : FileCap → Bool
  | .chk key ueb _ _ _ => key.length == 16 && ueb.length == 32
  | .chkV si ueb _ _ _ => si.length == 16 && ueb.length == 32
  | .lit _ => true
  | .ssk a fp | .sskRo a fp | .sskV a fp | .mdmf a fp | .mdmfRo a fp | .mdmfV a fp =>
    a.length == 16 && fp.length == 32

def Cap.wf : Cap → Bool
  | .file f => f.wf
  | .dir dk f => dk == f.kind && f.wf
  | .unknown .. => false

/-! ### to_string -/

def colon : Bytes := [58]

/-- the part of `to_string()` after `BASE_STRING` -/
def FileCap.body : FileCap → Bytes
  | .chk a ueb k n size | .chkV a ueb k n size =>
    b2a a ++ colon ++ b2a ueb ++ colon ++ natToDec k ++ colon ++ natToDec n ++ colon ++ natToDec size
  | .lit data => b2a data
  | .ssk a fp | .sskRo a fp | .sskV a fp | .mdmf a fp | .mdmfRo a fp | .mdmfV a fp =>
    b2a a ++ colon ++ b2a fp

def FileCap.toString (f : FileCap) : Bytes := filePrefix f.kind ++ f.body

/-- `to_string()`; `none` = the `assert mo` of `_DirectoryBaseURI.to_string` fails (inner cap of a
kind other than `INNER_URI_CLASS`: `re.match(INNER.BASE_STRING, fnuri)` finds nothing). -/
def Cap.toString : Cap → Option Bytes
  | .file f => some f.toString
  | .dir dk f => if dk = f.kind then some (dirPrefix dk ++ f.body) else none
  | .unknown u _ => some u

/-! ### init_from_string / from_string -/

def buildFile : FileKind → List Bytes → Option FileCap
  | .chk, [g1, g2, d1, d2, d3] => some (.chk (a2b g1) (a2b g2) (decToNat d1) (decToNat d2) (decToNat d3))
  | .chkV, [g1, g2, d1, d2, d3] => some (.chkV (a2b g1) (a2b g2) (decToNat d1) (decToNat d2) (decToNat d3))
  | .lit, [g] => some (.lit (a2b g))
  | .ssk, [g1, g2] => some (.ssk (a2b g1) (a2b g2))
  | .sskRo, [g1, g2] => some (.sskRo (a2b g1) (a2b g2))
  | .sskV, [g1, g2] => some (.sskV (a2b g1) (a2b g2))
  | .mdmf, [g1, g2] => some (.mdmf (a2b g1) (a2b g2))
  | .mdmfRo, [g1, g2] => some (.mdmfRo (a2b g1) (a2b g2))
  | .mdmfV, [g1, g2] => some (.mdmfV (a2b g1) (a2b g2))
  | _, _ => none

/-- `<Class>.init_from_string` applied to `BASE_STRING + body` (`none` = BadURIError), for an
arbitrary table of patterns. -/
def initBodyWith (sp : FileKind → List Piece) (k : FileKind) (body : Bytes) : Option FileCap :=
  (matchPieces (sp k) body).bind (buildFile k)

def initBody : FileKind → Bytes → Option FileCap := initBodyWith spec

/-- `ALLEGED_READONLY_PREFIX`, `ALLEGED_IMMUTABLE_PREFIX` -/
def roPrefix : Bytes := [114, 111, 46]        -- ro.
def immPrefix : Bytes := [105, 109, 109, 46]  -- imm.

/-- which constraint an `elif` branch of `from_string` tests before parsing -/
inductive Need | none | writeable | mutable
  deriving DecidableEq, Repr

inductive Entry
  | file (k : FileKind) (need : Need)
  | dir (dk : FileKind) (need : Need)
  | futureWriteable      -- x-tahoe-future-test-writeable:
  | futureMutable        -- x-tahoe-future-test-mutable:
  deriving DecidableEq, Repr

def futureWriteablePrefix : Bytes :=   -- x-tahoe-future-test-writeable:
  [120, 45, 116, 97, 104, 111, 101, 45, 102, 117, 116, 117, 114, 101, 45, 116, 101, 115, 116, 45, 119, 114, 105, 116,
   101, 97, 98, 108, 101, 58]
def futureMutablePrefix : Bytes :=     -- x-tahoe-future-test-mutable:
  [120, 45, 116, 97, 104, 111, 101, 45, 102, 117, 116, 117, 114, 101, 45, 116, 101, 115, 116, 45, 109, 117, 116, 97,
   98, 108, 101, 58]

/-- the `if/elif` chain of `from_string`, in source order -/
def dispatchTable : List (Bytes × Entry) :=
  [ (filePrefix .chk, .file .chk .none),
    (filePrefix .chkV, .file .chkV .none),
    (filePrefix .lit, .file .lit .none),
    (filePrefix .ssk, .file .ssk .writeable),
    (filePrefix .sskRo, .file .sskRo .mutable),
    (filePrefix .sskV, .file .sskV .none),
    (filePrefix .mdmf, .file .mdmf .writeable),
    (filePrefix .mdmfRo, .file .mdmfRo .mutable),
    (filePrefix .mdmfV, .file .mdmfV .none),
    (dirPrefix .ssk, .dir .ssk .writeable),
    (dirPrefix .sskRo, .dir .sskRo .mutable),
    (dirPrefix .sskV, .dir .sskV .none),
    (dirPrefix .chk, .dir .chk .none),
    (dirPrefix .chkV, .dir .chkV .none),
    (dirPrefix .lit, .dir .lit .none),
    (dirPrefix .mdmf, .dir .mdmf .writeable),
    (dirPrefix .mdmfRo, .dir .mdmfRo .mutable),
    (dirPrefix .mdmfV, .dir .mdmfV .none),
    (futureWriteablePrefix, .futureWriteable),
    (futureMutablePrefix, .futureMutable) ]

/-- first table row whose literal is a prefix of `s`, with the rest of `s` -/
def dispatch (s : Bytes) : Option (Entry × Bytes) :=
  (dispatchTable.find? (fun pe => pe.1.isPrefixOf s)).map (fun pe => (pe.2, s.drop pe.1.length))

/-- the prefix handling at the top of `from_string`: (can_be_mutable, can_be_writeable, s) -/
def stripAlleged (deep : Bool) (u : Bytes) : Bool × Bool × Bytes :=
  if immPrefix.isPrefixOf u then (false, false, u.drop immPrefix.length)
  else if roPrefix.isPrefixOf u then (!deep, false, u.drop roPrefix.length)
  else (!deep, !deep, u)

def needOk (canM canW : Bool) : Need → Bool
  | .none => true
  | .writeable => canW
  | .mutable => canM

/-- "Prefer to report the most specific constraint." -/
def constraintErr (canM : Bool) : Err := if !canM then .mustBeDeepImmutable else .mustBeReadonly

/-- `uri.from_string(u, deep_immutable)` for a table of patterns -/
def fromStringWith (sp : FileKind → List Piece) (deep : Bool) (u : Bytes) : Cap :=
  let (canM, canW, s) := stripAlleged deep u
  match dispatch s with
  | none => .unknown u none
  | some (.file k need, body) =>
    if needOk canM canW need then
      match initBodyWith sp k body with
      | some f => .file f
      | none => .unknown u (some .badURI)
    else .unknown u (some (constraintErr canM))
  | some (.dir dk need, body) =>
    if needOk canM canW need then
      match initBodyWith sp dk body with
      | some f => .dir dk f
      | none => .unknown u (some .badURI)
    else .unknown u (some (constraintErr canM))
  | some (.futureWriteable, _) =>
    if !canW then .unknown u (some (constraintErr canM)) else .unknown u none
  | some (.futureMutable, _) =>
    if !canM then .unknown u (some (constraintErr canM)) else .unknown u none

def fromString : Bool → Bytes → Cap := fromStringWith spec

/-- the unrepaired tree -/
def fromStringAsWritten : Bool → Bytes → Cap := fromStringWith specAsWritten

/-! ### flags and attenuation -/

/-- the three tagged hashes `uri.py` applies (`hashutil.ssk_readkey_hash`,
`ssk_storage_index_hash`, `storage_index_hash`); abstract. -/
structure Hashes where
  readkey : Bytes → Bytes
  sskSI : Bytes → Bytes
  chkSI : Bytes → Bytes

def FileCap.isReadonly : FileCap → Bool
  | .ssk .. | .mdmf .. => false
  | _ => true

def FileCap.isMutable : FileCap → Bool
  | .ssk .. | .sskRo .. | .mdmf .. | .mdmfRo .. => true
  | _ => false

/-- `is_readonly()` of the directory class named by `dk` (independent of the wrapped cap) -/
def dirIsReadonly : FileKind → Bool
  | .ssk | .mdmf => false
  | _ => true

/-- `is_mutable()` of the directory class named by `dk`: `_DirectoryBaseURI` says True, the
immutable and verifier classes override it with False. -/
def dirIsMutable : FileKind → Bool
  | .ssk | .sskRo | .mdmf | .mdmfRo => true
  | _ => false

/-- `none`: `UnknownURI` has no `is_readonly` -/
def Cap.isReadonly : Cap → Option Bool
  | .file f => some f.isReadonly
  | .dir dk _ => some (dirIsReadonly dk)
  | .unknown .. => none

def Cap.isMutable : Cap → Option Bool
  | .file f => some f.isMutable
  | .dir dk _ => some (dirIsMutable dk)
  | .unknown .. => none

def FileCap.getReadonly (H : Hashes) : FileCap → FileCap
  | .ssk w fp => .sskRo (H.readkey w) fp
  | .mdmf w fp => .mdmfRo (H.readkey w) fp
  | f => f

/-- `none`: `LiteralFileURI.get_verify_cap()` returns None -/
def FileCap.getVerifyCap (H : Hashes) : FileCap → Option FileCap
  | .chk key ueb k n size => some (.chkV (H.chkSI key) ueb k n size)
  | .lit _ => none
  | .ssk w fp => some (.sskV (H.sskSI (H.readkey w)) fp)
  | .sskRo r fp => some (.sskV (H.sskSI r) fp)
  | .mdmf w fp => some (.mdmfV (H.sskSI (H.readkey w)) fp)
  | .mdmfRo r fp => some (.mdmfV (H.sskSI r) fp)
  | f => some f        -- verifier classes return self

/-- `get_storage_index()` (`None` for LIT) -/
def FileCap.storageIndex (H : Hashes) : FileCap → Option Bytes
  | .chk key .. => some (H.chkSI key)
  | .lit _ => none
  | .ssk w _ | .mdmf w _ => some (H.sskSI (H.readkey w))
  | .sskRo r _ | .mdmfRo r _ => some (H.sskSI r)
  | .chkV si .. | .sskV si _ | .mdmfV si _ => some si

/-- the integrity field: `fingerprint` of mutable caps, `uri_extension_hash` (with k, N, size) of CHK -/
def FileCap.fingerprint : FileCap → Option (Bytes × Nat × Nat × Nat)
  | .chk _ ueb k n size | .chkV _ ueb k n size => some (ueb, k, n, size)
  | .lit _ => none
  | .ssk _ fp | .sskRo _ fp | .sskV _ fp | .mdmf _ fp | .mdmfRo _ fp | .mdmfV _ fp => some (fp, 0, 0, 0)

/-- which directory class wraps a read-only version: `DirectoryURI.get_readonly` etc. -/
def dirRoKind : FileKind → FileKind
  | .ssk => .sskRo
  | .mdmf => .mdmfRo
  | dk => dk

/-- `get_readonly()`; `none` for `UnknownURI` (returns None) -/
def Cap.getReadonly (H : Hashes) : Cap → Option Cap
  | .file f => some (.file (f.getReadonly H))
  | .dir dk f =>
    match dk with
    | .ssk | .mdmf => some (.dir (dirRoKind dk) (f.getReadonly H))   -- Readonly…DirectoryURI(inner.get_readonly())
    | _ => some (.dir dk f)                                          -- return self
  | .unknown .. => none

/-- the directory-verifier class that `get_verify_cap()` of directory class `dk` instantiates.
`_DirectoryBaseURI.get_verify_cap` always builds a `DirectoryURIVerifier` (named `.sskV` here);
`ImmutableDirectoryURI`, `MDMFDirectoryURI`, `ReadonlyMDMFDirectoryURI` override it.  The verifier
classes themselves do *not* override it, so DIR2-CHK-Verifier and DIR2-MDMF-Verifier hand their
inner cap to the plain `DirectoryURIVerifier`. -/
def dirVerifierKind : FileKind → FileKind
  | .chk => .chkV
  | .mdmf | .mdmfRo => .mdmfV
  | _ => .sskV

/-- `get_verify_cap()`; `none` = returns None (LIT, DIR2-LIT, unknown) -/
def Cap.getVerifyCap (H : Hashes) : Cap → Option Cap
  | .file f => (f.getVerifyCap H).map .file
  | .dir dk f =>
    match dk with
    | .lit => none
    | _ => (f.getVerifyCap H).map (.dir (dirVerifierKind dk))
  | .unknown .. => none

def Cap.storageIndex (H : Hashes) : Cap → Option Bytes
  | .file f | .dir _ f => f.storageIndex H
  | .unknown .. => none

def Cap.fingerprint : Cap → Option (Bytes × Nat × Nat × Nat)
  | .file f | .dir _ f => f.fingerprint
  | .unknown .. => none

/-- the secret fields a cap object carries (what `to_string()` would reveal) -/
def FileCap.writeKey : FileCap → Option Bytes
  | .ssk w _ | .mdmf w _ => some w
  | _ => none

/-- the read/decryption key a cap *stores*; write caps derive it instead -/
def FileCap.readKey : FileCap → Option Bytes
  | .chk key .. => some key
  | .sskRo r _ | .mdmfRo r _ => some r
  | _ => none

def Cap.inner : Cap → Option FileCap
  | .file f | .dir _ f => some f
  | .unknown .. => none

/-! ### unknown.py -/

def startsWith (p s : Bytes) : Bool := p.isPrefixOf s

/-- `strip_prefix_for_ro(ro_uri, deep_immutable)` -/
def stripPrefixForRo (ro : Bytes) (deep : Bool) : Bytes :=
  if startsWith immPrefix ro then (if !deep then ro else ro.drop immPrefix.length)
  else if startsWith roPrefix ro then ro.drop roPrefix.length
  else ro

structure UnknownNode where
  error : Option Err
  rw : Option Bytes
  ro : Option Bytes
  deriving DecidableEq, Repr

def UnknownNode.opaque (e : Err) : UnknownNode := { error := some e, rw := none, ro := none }

/-- `x or None` on `Optional[bytes]` -/
def orNone : Option Bytes → Option Bytes
  | some [] => none
  | x => x

/-- "If the ro_uri definitely fails the constraint": the error of `uri.from_string(given_ro_uri, deep_immutable)`
when that is an `UnknownURI` (possibly None), else None -/
def roError (ro : Option Bytes) (deep : Bool) : Option Err :=
  match ro with
  | some r => (match fromString deep r with
               | .unknown _ e => e
               | _ => none)
  | none => none

/-- the tail of `UnknownNode.__init__` from "If the ro_uri definitely fails the constraint" on -/
def unknownNodeFinish (rw ro : Option Bytes) (deep : Bool) : UnknownNode :=
  if (roError ro deep).isSome then { error := roError ro deep, rw := none, ro := none }
  else if deep then
    { error := none, rw := none,
      ro := ro.map (fun r =>
        if startsWith immPrefix r then r
        else if startsWith roPrefix r then immPrefix ++ r.drop roPrefix.length
        else immPrefix ++ r) }
  else
    { error := none, rw := rw,
      ro := ro.map (fun r =>
        if startsWith roPrefix r || startsWith immPrefix r then r else roPrefix ++ r) }

/-- `UnknownNode(given_rw_uri, given_ro_uri, deep_immutable)`: (error, rw_uri, ro_uri) -/
def mkUnknownNode (givenRw givenRo : Option Bytes) (deep : Bool) : UnknownNode :=
  let rw := orNone givenRw
  let ro := orNone givenRo
  match rw with
  | some w =>
    if deep && !(startsWith immPrefix w && ro.isNone) then
      (if ro.isNone then .opaque .mustNotBeUnknownRW else .opaque .mustBeDeepImmutable)
    else
      match ro with
      | none =>
        if !(startsWith roPrefix w || startsWith immPrefix w) then .opaque .mustNotBeUnknownRW
        else unknownNodeFinish none (some w) deep
      | some r =>
        if startsWith immPrefix r then .opaque .mustBeDeepImmutable
        else unknownNodeFinish (some w) (some r) deep
  | none => unknownNodeFinish none ro deep

/-! ### nodemaker.py -/

/-- which node class `_create_from_single_cap` instantiates -/
inductive NodeKind
  | literal | immutable | immutableVerifier | mutableFile
  | dirnode (filenode : NodeKind)
  deriving DecidableEq, Repr

def fileNodeKind : FileCap → Option NodeKind
  | .lit _ => some .literal
  | .chk .. => some .immutable
  | .chkV .. => some .immutableVerifier
  | .ssk .. | .sskRo .. | .mdmf .. | .mdmfRo .. => some .mutableFile
  | _ => none            -- SSK / MDMF verifier caps: no node class

/-- `_create_from_single_cap`: `none` = returns None (the caller builds an UnknownNode) -/
def createFromSingleCap : Cap → Option NodeKind
  | .file f => fileNodeKind f
  | .dir dk f =>
    match dk with
    | .ssk | .sskRo | .chk | .lit | .mdmf | .mdmfRo => (fileNodeKind f).map .dirnode
    | _ => none          -- the three directory-verifier classes are not in the isinstance list
  | .unknown .. => none

inductive Node
  | known (kind : NodeKind) (cap : Cap)
  | unknown (n : UnknownNode)
  deriving DecidableEq, Repr

/-- `or` on `Optional[bytes]` -/
def orBytes (a b : Option Bytes) : Option Bytes :=
  match a with
  | some (x :: xs) => some (x :: xs)
  | _ => b

/-- `NodeMaker.create_from_cap(writecap, readcap, deep_immutable)` without cache and blacklist -/
def createFromCap (writecap readcap : Option Bytes) (deep : Bool) : Node :=
  match orNone (orBytes writecap readcap) with
  | none => .unknown (mkUnknownNode none none false)
  | some bigcap =>
    let cap := fromString deep bigcap
    match createFromSingleCap cap with
    | some k => .known k cap
    | none => .unknown (mkUnknownNode writecap readcap deep)

/-- `node.is_readonly()` / `node.is_mutable()` of a known node: file nodes ask their cap, a
`DirectoryNode` asks its filenode. -/
def Node.flags : Node → Option (Bool × Bool)
  | .known _ cap => cap.inner.map (fun f => (f.isReadonly, f.isMutable))
  | .unknown _ => none

/-! ### the node cache of `NodeMaker` (`_node_cache`, a WeakValueDictionary keyed by b"I"/b"M" + bigcap) -/

structure CacheEntry where
  deep : Bool           -- key prefix b"I" (True) / b"M" (False)
  bigcap : Bytes
  kind : NodeKind
  cap : Cap
  deriving DecidableEq, Repr

abbrev NodeCache := List CacheEntry

def cacheLookup (cache : NodeCache) (deep : Bool) (big : Bytes) : Option CacheEntry :=
  cache.find? (fun e => e.deep == deep && e.bigcap == big)

/-- `create_from_cap` with the cache (no blacklist): a hit returns the cached node without parsing;
on a miss the node is built as in `createFromCap` and stored iff `node.is_mutable()`. -/
def createFromCapCached (cache : NodeCache) (writecap readcap : Option Bytes) (deep : Bool) : Node × NodeCache :=
  match orNone (orBytes writecap readcap) with
  | none => (.unknown (mkUnknownNode none none false), cache)
  | some bigcap =>
    match cacheLookup cache deep bigcap with
    | some e => (.known e.kind e.cap, cache)
    | none =>
      let node := createFromCap writecap readcap deep
      match node with
      | .known k cap =>
        if (Node.known k cap).flags.map (·.2) == some true then (node, ⟨deep, bigcap, k, cap⟩ :: cache) else (node, cache)
      | .unknown _ => (node, cache)

/-- one step of a history on one NodeMaker: a call, or the garbage collector dropping the weakly
referenced entries selected by `keep` -/
inductive NmOp
  | call (writecap readcap : Option Bytes) (deep : Bool)
  | gc (keep : CacheEntry → Bool)

def runHistory (cache : NodeCache) : List NmOp → List Node
  | [] => []
  | .call w r d :: rest => let (n, c') := createFromCapCached cache w r d; n :: runHistory c' rest
  | .gc keep :: rest => runHistory (cache.filter keep) rest

/-- the same calls, each on a fresh NodeMaker -/
def runCold : List NmOp → List Node
  | [] => []
  | .call w r d :: rest => createFromCap w r d :: runCold rest
  | .gc _ :: rest => runCold rest

/-! ### the authority order  write > read > verify  (> opaque) -/

/-- what a holder of the cap object can do: `write` (holds a write key), `read` (holds a read /
decryption key, or the literal data), `verify` (storage index and integrity fields only),
`opaque` (an `UnknownURI`: nothing this client can use). -/
inductive Authority | opaque | verify | read | write
  deriving DecidableEq, Repr

def Authority.rank : Authority → Nat
  | .opaque => 0 | .verify => 1 | .read => 2 | .write => 3

instance : LE Authority := ⟨fun a b => a.rank ≤ b.rank⟩
instance (a b : Authority) : Decidable (a ≤ b) := inferInstanceAs (Decidable (a.rank ≤ b.rank))

/-- by the fields the object holds -/
def FileCap.authority : FileCap → Authority
  | .ssk .. | .mdmf .. => .write
  | .sskRo .. | .mdmfRo .. | .chk .. | .lit .. => .read
  | .chkV .. | .sskV .. | .mdmfV .. => .verify

def Cap.authority : Cap → Authority
  | .file f | .dir _ f => f.authority
  | .unknown .. => .opaque

/-- authority of the node `create_from_cap` returns, for whoever is handed that node: a known node
has the authority of its cap; an UnknownNode that kept a rw_uri may carry write authority this client
cannot judge (`write`), one with only a ro_uri is `opaque`. -/
def Node.authority : Node → Authority
  | .known _ cap => cap.authority
  | .unknown n => if n.rw.isSome then .write else .opaque

/-! ### what a directory stores in the cleartext ro slot, and what a reader makes of it -/

/-- outcome of `dirnode.set_uri`'s `_create_and_validate_node` + `_pack_normalized_children` for one child,
as far as the ro slot is concerned -/
inductive PackRo
  | refused (e : Err)        -- `node.raise_error()` raised: the child is not linked
  | notPackable              -- verify-cap node (CiphertextFileNode): not an IFilesystemNode, pack asserts
  | stored (ro : Bytes)      -- `strip_prefix_for_ro(child.get_readonly_uri() or b"", deep_immutable)`
  deriving DecidableEq, Repr

/-- `node.get_readonly_uri()`: known nodes print `cap.get_readonly()`, an UnknownNode returns its ro_uri.
`none` = None, or a mis-kinded cap whose to_string asserts (unreachable for nodes built from strings). -/
def Node.readonlyUri (H : Hashes) : Node → Option Bytes
  | .known _ cap => (cap.getReadonly H).bind Cap.toString
  | .unknown n => n.ro

def packRo (H : Hashes) (writecap readcap : Option Bytes) (deep : Bool) : PackRo :=
  match createFromCap writecap readcap deep with
  | .unknown n =>
    match n.error with
    | some e => .refused e
    | none => .stored (stripPrefixForRo (n.ro.getD []) deep)
  | .known k cap =>
    if k == .immutableVerifier then .notPackable
    else .stored (stripPrefixForRo ((Node.readonlyUri H (.known k cap)).getD []) deep)

/-- the node a holder of only the directory's read cap (or of an immutable directory) gets for the
stored ro slot: `_unpack_contents` calls `create_from_cap(None, ro_uri.rstrip(b" ") or None, deep_immutable)`.
(The `rstrip` only matters for caps ending in spaces, which no known kind accepts.) -/
def readerNode (stored : Bytes) (deep : Bool) : Node := createFromCap none (some stored) deep

/-! ### reading a child entry out of a directory (`DirectoryNode._unpack_contents`, reader without write access) -/

/-- `deep_immutable` that a directory passes to `create_from_cap` for its children:
`not self.is_mutable()`, and `DirectoryNode.is_mutable()` asks the backing file node — so it is a
function of the KIND of the directory cap: both immutable flavours, DIR2-CHK and DIR2-LIT (and
nothing else that can be opened as a directory), are deep-immutable contexts. -/
def dirChildDeep : FileKind → Bool
  | .chk | .lit => true
  | _ => false

/-- `node.is_allowed_in_immutable_directory()`: known nodes say `not is_mutable()`; an UnknownNode says
"no error and no rw_uri". `none`: CiphertextFileNode (verify-cap node) has no such method. -/
def Node.allowedInImmutableDir : Node → Option Bool
  | .known k cap => if k == .immutableVerifier then none else cap.inner.map (fun f => !f.isMutable)
  | .unknown n => some (n.error.isNone && n.rw.isNone)

def rstripSpaces (b : Bytes) : Bytes := (b.reverse.dropWhile (· == 32)).reverse

inductive Unpacked
  | valueError            -- non-empty rwcapdata in an immutable directory: the whole listing fails
  | dropped               -- CapConstraintError from raise_error(), or not allowed in an immutable directory
  | crash                 -- AttributeError: verify-cap node has no is_allowed_in_immutable_directory()
  | child (n : Node)
  deriving DecidableEq, Repr

/-- one entry (ro_uri, rwcapdata) of a directory of kind `dk` as `_unpack_contents` turns it into a child, for a
reader with no write access to the directory (`dk` one of DIR2-RO, DIR2-MDMF-RO, DIR2-CHK, DIR2-LIT: the
rwcapdata is not decrypted, rw_uri = None). -/
def unpackChild (dk : FileKind) (roSlot : Bytes) (rwcapNonEmpty : Bool) : Unpacked :=
  let deep := dirChildDeep dk
  if deep && rwcapNonEmpty then .valueError
  else
    let node := createFromCap none (orNone (some (rstripSpaces roSlot))) deep
    let err : Option Err := match node with
      | .unknown n => n.error
      | .known .. => none
    if err.isSome then .dropped
    else if !deep then .child node
    else match node.allowedInImmutableDir with
      | none => .crash
      | some true => .child node
      | some false => .dropped

end Tahoe.Uri
